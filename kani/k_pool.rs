// K-pool — property C03, clause C03.6 (engine E2, Kani on the real crate).  BOUNDED.
//
// STATUS (2026-09-25): NOT REGISTERED in specs.json — does not fit the memory budget.  Measured with
// Kani 0.68 / CBMC 6.11, default checks minus assertion-reach checks:
//   pool_concrete_scenario (no symbolic input at all): 234 k SSA steps, 15 k VCCs, 11.3 M variables /
//     51 M clauses, array post-processing 61 s, > 12 GB -> solver out of memory;
//   pool_body::<2> (2 symbolic steps): 330-790 k steps, 19-40 k VCCs, > 12 GB;  pool_body::<4>: 1.57 M steps,
//     59 GB -> killed by the kernel OOM killer.
// The cost is in the real code (every State::drop may run Weak::upgrade -> Rc<StateStorage> drop ->
// Vec<Rc<..>> drop glue, RefCell borrow flags, Vec growth/realloc), not in the harness: concrete slot
// indices, no implicit drop glue and tight loop bounds (all applied below) only halved it.
// The harnesses are kept because they type-check against the real private items and document the
// intended obligation; clause C03.6 currently has NO E2 evidence (assumption A-rc stays an assumption).
//
// Included into `crate::dynamics::state` by the guarded hook
//   #[cfg(all(kani, nuts_rs_verif))] #[path = "/verif/kani/k_pool.rs"] mod verif_kani;
// (child module => sees the private `StateStorage::free_states`, `State::inner`).
//
// Code under check: the REAL `StatePool` / `State` / `InnerStateReusable` of src/dynamics/state.rs
// (`unsafe ManuallyDrop::take` in `Drop`, `Rc`/`Weak` recycling).  `Point` is a one-field point
// defined here; `Math` is the real `CpuMath` (dim 1, `pulp::Arch::Scalar` via the `new_with_arch`
// hook) — the pool only threads `&mut M` through to `P::new` / `P::copy_into`.
//
// For EVERY sequence of exactly N steps (N = 4 / 6), each step chosen by `kani::any()` from
//   0 new_state -> slot s     1 clone slot s -> slot t     2 drop slot s
//   3 try_point_mut on slot s (writes a fresh symbolic tag on success)     4 copy_state slot s -> slot t
//   (s symbolic; t = the lowest empty slot — handles are interchangeable, so this loses no behaviour)
// over 3 handle slots (a step whose operands are not applicable — dead source, occupied target — is a
// no-op, so all shorter sequences are covered):
//   (UB)     no undefined behaviour (Kani memory-safety + default checks on)
//   (MUT)    try_point_mut succeeds  <=>  no other live handle shares the inner state (ghost group ids)
//   (ALIAS)  after every step: two live handles point to the same `Point`  <=>  same ghost group;
//            in particular a state handed out by new_state/copy_state never aliases a live one
//   (VAL)    after every step every live handle reads the value last written to its group
//            (copy_state copies the value; a recycled buffer may hold anything until written)
//   (FREE)   after every step every free-list entry has strong = 1, weak = 0 and is not referenced by a
//            live handle; live groups + free entries = number of `Point::new` calls (nothing leaked,
//            nothing duplicated; recycling really happens)
// Bound: N steps, 3 slots.  Nothing is assumed about the step choices.

use std::rc::Rc;

use super::{State, StatePool};
use crate::dynamics::Point;
use crate::math::{CpuLogpFunc, CpuMath, CpuMathError, LogpError, Math};
use crate::sampler_stats::SamplerStats;
use nuts_storable::HasDims;
use std::collections::HashMap;

#[derive(Debug)]
pub(crate) struct PLogp;

#[derive(Debug)]
pub(crate) enum PErr {}
impl std::fmt::Display for PErr {
    fn fmt(&self, _f: &mut std::fmt::Formatter<'_>) -> std::fmt::Result {
        Ok(())
    }
}
impl std::error::Error for PErr {}
impl LogpError for PErr {
    fn is_recoverable(&self) -> bool {
        false
    }
}
impl HasDims for PLogp {
    fn dim_sizes(&self) -> HashMap<String, u64> {
        HashMap::new()
    }
}
impl CpuLogpFunc for PLogp {
    type LogpError = PErr;
    type FlowParameters = ();
    type ExpandedVector = Vec<f64>;
    fn dim(&self) -> usize {
        1
    }
    fn logp(&mut self, _p: &[f64], _g: &mut [f64]) -> Result<f64, PErr> {
        Ok(0.0)
    }
    fn expand_vector<R>(&mut self, _rng: &mut R, a: &[f64]) -> Result<Vec<f64>, CpuMathError>
    where
        R: rand::Rng + ?Sized,
    {
        Ok(a.to_vec())
    }
}

type M = CpuMath<PLogp>;

static mut N_NEW: usize = 0;

/// One-field point.  `position`/`gradient` are never called by the pool.
#[derive(Debug)]
pub(crate) struct KPoint {
    v: i64,
}

impl SamplerStats<M> for KPoint {
    type Stats = ();
    type StatsOptions = ();
    fn extract_stats(&self, _math: &mut M, _opt: ()) {}
}

impl Point<M> for KPoint {
    fn position(&self) -> &<M as Math>::Vector {
        unreachable!()
    }
    fn gradient(&self) -> &<M as Math>::Vector {
        unreachable!()
    }
    fn index_in_trajectory(&self) -> i64 {
        self.v
    }
    fn energy(&self) -> f64 {
        0.0
    }
    fn logp(&self) -> f64 {
        0.0
    }
    fn initial_energy(&self) -> f64 {
        0.0
    }
    fn new(_math: &mut M) -> Self {
        unsafe {
            N_NEW += 1;
        }
        KPoint { v: 0 }
    }
    fn copy_into(&self, _math: &mut M, other: &mut Self) {
        other.v = self.v;
    }
}

const SLOTS: usize = 3;

struct Ghost {
    grp: [u8; SLOTS],          // ghost id of the inner state behind each live slot
    val: [Option<i64>; SLOTS], // value last written to that group (None: recycled, not yet written)
    next: u8,
}

fn check_all(pool: &StatePool<M, KPoint>, h: &[Option<State<M, KPoint>>; SLOTS], g: &Ghost) {
    // (ALIAS) + (VAL)
    let mut i = 0;
    while i < SLOTS {
        if let Some(si) = &h[i] {
            let pi = si.point() as *const KPoint;
            if let Some(v) = g.val[i] {
                assert!(si.point().v == v, "C03.6 VAL: handle reads the value of its own state");
                assert!(si.index_in_trajectory() == v, "C03.6 VAL: accessor agrees");
            }
            let mut j = i + 1;
            while j < SLOTS {
                if let Some(sj) = &h[j] {
                    let pj = sj.point() as *const KPoint;
                    assert!((pi == pj) == (g.grp[i] == g.grp[j]), "C03.6 ALIAS: same buffer <=> same state");
                }
                j += 1;
            }
        }
        i += 1;
    }
    // (FREE)
    let free = pool.storage.free_states.borrow();
    let nfree = free.len();
    assert!(nfree <= SLOTS, "C03.6 FREE: at most as many free entries as were ever live at once");
    let mut k = 0;
    while k < SLOTS {
        if let Some(e) = free.get(k) {
            assert!(Rc::strong_count(e) == 1, "C03.6 FREE: free entry strong = 1");
            assert!(Rc::weak_count(e) == 0, "C03.6 FREE: free entry weak = 0");
            let pf = &e.inner as *const KPoint;
            let mut i = 0;
            while i < SLOTS {
                if let Some(si) = &h[i] {
                    assert!(si.point() as *const KPoint != pf, "C03.6 FREE: free entry not referenced by a live handle");
                }
                i += 1;
            }
        }
        k += 1;
    }
    // live groups + free entries = allocations
    let mut groups = 0usize;
    let mut i = 0;
    while i < SLOTS {
        if h[i].is_some() {
            let mut first = true;
            let mut j = 0;
            while j < i {
                if h[j].is_some() && g.grp[j] == g.grp[i] {
                    first = false;
                }
                j += 1;
            }
            if first {
                groups += 1;
            }
        }
        i += 1;
    }
    let n_new = unsafe { N_NEW };
    assert!(groups + nfree == n_new, "C03.6 FREE: live states + free list = allocations");
}

/// Store into an EMPTY slot without instantiating drop glue for the previous content (every call site
/// checks `h[i].is_none()` first; the assertion re-checks it).
#[inline(always)]
fn put(h: &mut [Option<State<M, KPoint>>; SLOTS], i: usize, st: State<M, KPoint>) {
    assert!(h[i].is_none(), "harness: target slot is empty");
    let old = core::mem::replace(&mut h[i], Some(st));
    core::mem::forget(old);
}

fn others_alive<const S: usize>(h: &[Option<State<M, KPoint>>; SLOTS], g: &Ghost) -> bool {
    let mut i = 0;
    let mut r = false;
    while i < SLOTS {
        if i != S && h[i].is_some() && g.grp[i] == g.grp[S] {
            r = true;
        }
        i += 1;
    }
    r
}

/// One step with CONCRETE slot numbers (symbolic array indices cost CBMC an array-theory blow-up).
fn step<const S: usize, const T: usize>(
    op: u8,
    pool: &StatePool<M, KPoint>,
    math: &mut M,
    h: &mut [Option<State<M, KPoint>>; SLOTS],
    g: &mut Ghost,
) {
    match op {
        0 => {
            if h[S].is_none() {
                let st = pool.new_state(math);
                put(h, S, st);
                g.grp[S] = g.next;
                g.next += 1;
                g.val[S] = None;
            }
        }
        1 => {
            if h[S].is_some() && h[T].is_none() {
                let c = h[S].as_ref().unwrap().clone();
                put(h, T, c);
                g.grp[T] = g.grp[S];
                g.val[T] = g.val[S];
            }
        }
        2 => {
            if h[S].is_some() {
                let st = h[S].take();
                drop(st);
            }
        }
        3 => {
            if h[S].is_some() {
                let shared = others_alive::<S>(h, g);
                let tag: i64 = kani::any();
                let ok = match h[S].as_mut().unwrap().try_point_mut() {
                    Ok(p) => {
                        p.v = tag;
                        true
                    }
                    Err(_) => false,
                };
                assert!(ok == !shared, "C03.6 MUT: try_point_mut succeeds iff the state is unshared");
                if ok {
                    g.val[S] = Some(tag);
                }
            }
        }
        _ => {
            if h[S].is_some() && h[T].is_none() {
                let c = pool.copy_state(math, h[S].as_ref().unwrap());
                // copy_state copies whatever the source holds, written or not
                let src_v = h[S].as_ref().unwrap().point().v;
                put(h, T, c);
                g.grp[T] = g.next;
                g.next += 1;
                g.val[T] = Some(src_v);
                assert!(h[T].as_ref().unwrap().point().v == src_v, "C03.6 VAL: copy_state copies the point");
                assert!(g.val[S].is_none() || g.val[S] == Some(src_v), "C03.6 VAL: source unchanged by copy_state");
            }
        }
    }
}

fn pool_body<const N: usize>() {
    let mut math: M = CpuMath::new_with_arch(PLogp, pulp::Arch::Scalar);
    let pool: StatePool<M, KPoint> = StatePool::new(&mut math, 2 * SLOTS);
    let mut h: [Option<State<M, KPoint>>; SLOTS] = [None, None, None];
    let mut g = Ghost { grp: [0; SLOTS], val: [None; SLOTS], next: 1 };

    let mut n = 0;
    while n < N {
        let op: u8 = kani::any();
        let s: u8 = kani::any();
        if op < 5 && s < SLOTS as u8 {
            // target slot of clone / copy_state: the lowest empty slot other than s
            // (handles are interchangeable, so fixing the target loses no behaviour)
            match s {
                0 => {
                    if h[1].is_none() {
                        step::<0, 1>(op, &pool, &mut math, &mut h, &mut g)
                    } else {
                        step::<0, 2>(op, &pool, &mut math, &mut h, &mut g)
                    }
                }
                1 => {
                    if h[0].is_none() {
                        step::<1, 0>(op, &pool, &mut math, &mut h, &mut g)
                    } else {
                        step::<1, 2>(op, &pool, &mut math, &mut h, &mut g)
                    }
                }
                _ => {
                    if h[0].is_none() {
                        step::<2, 0>(op, &pool, &mut math, &mut h, &mut g)
                    } else {
                        step::<2, 1>(op, &pool, &mut math, &mut h, &mut g)
                    }
                }
            }
        }
        check_all(&pool, &h, &g);
        n += 1;
    }
    // tear-down: drop every handle (recycling path), then the pool (free list with Weak back-references)
    let mut i = 0;
    while i < SLOTS {
        let st = h[i].take();
        drop(st);
        i += 1;
    }
    check_all(&pool, &h, &g);
    drop(pool);
}

#[kani::proof]
#[kani::unwind(8)]
fn pool_ops4() {
    pool_body::<4>();
}

#[kani::proof]
#[kani::unwind(10)]
fn pool_ops6() {
    pool_body::<6>();
}

/// Smallest concrete scenario (no symbolic choice at all); used to calibrate the cost of the real
/// Rc / RefCell<Vec<Rc>> / Weak code under Kani's memory-safety instrumentation.
#[kani::proof]
#[kani::unwind(8)]
fn pool_concrete_scenario() {
    let mut math: M = CpuMath::new_with_arch(PLogp, pulp::Arch::Scalar);
    let pool: StatePool<M, KPoint> = StatePool::new(&mut math, 2 * SLOTS);
    let mut a = pool.new_state(&mut math);
    let b = a.clone();
    assert!(a.try_point_mut().is_err());
    drop(b);
    assert!(a.try_point_mut().is_ok());
    let c = pool.new_state(&mut math);
    assert!(c.point() as *const KPoint != a.point() as *const KPoint);
    drop(a);
    let d = pool.new_state(&mut math);
    drop(c);
    drop(d);
    drop(pool);
}
