// K-simd — property C17 (engine E2, Kani on the real crate).  ALL HARNESSES BOUNDED (fixed length n).
//
// Included into `crate::math::util` by the guarded hook
//   #[cfg(all(kani, nuts_rs_verif))] #[path = "/verif/kani/k_simd.rs"] mod verif_kani;
// (child module => sees the private kernel structs `Axpy`, `AxpyOut`, `Multiply`, `MultiplyInplace`,
// `VectorDot`, `ScalarProds2`, `ScalarProds3`, `StdNormFlow`, `StdNormGradFlow`, `StdNormGradFlowInplace`).
//
// The generic kernel source `impl WithSimd for K { fn with_simd<S: pulp::Simd>(..) }` is instantiated at
// pulp 0.22's portable emulations
//     pulp::Scalar (1 f64 lane, mul_add_e = a*b+c unfused, mul_add = fma)
//     pulp::Scalar128b / Scalar256b / Scalar512b (2 / 4 / 8 f64 lanes, mul_add_e = mul_add = fma lane-wise,
//                                                reduce_sum = pairwise halving tree)
// through `Simd::vectorize`, the call `Arch::dispatch` makes.  The x86 instantiations V3/V4 that run in
// production use intrinsics Kani does not model (assumption A-intrinsics): what is checked here is the
// ROUTING of the generic source (4x-unrolled body, SIMD tail, scalar tail; which element goes to which
// accumulator; every element exactly once) and the lane arithmetic of the emulations.
//
// STATUS (2026-09-26): the harnesses that pass on the unchanged tree are registered in specs.json["C17"] (bounded,
// `--solver cvc5`, measured time / peak memory recorded there); the ones that exceed 30 min or 8 GB are listed in
// the report and stay unregistered.  Findings:
//  * SAT back-ends (CaDiCaL/kissat/minisat) cannot relate the kernel's arithmetic to the reference (two
//    copies of every multiplier; no structural hashing in CBMC's CNF) — n = 8 does not finish in 5 min;
//    `--solver cvc5` (term-level sharing) does: multiply 256b n=23 in ~3 min, axpy 128b n=11 in ~2 min.
//  * CBMC models `fma` by a C library function that computes the UNFUSED a*b+c and asserts
//    `feraiseexcept` ("floating-point exception") on inf*0 — every harness that reaches mul_add (kernel or
//    reference) therefore shows one failed *library* check; the spec flag `allow_builtin_library_failures`
//    makes vx/kani.py count such a run as SUCCESS iff that is the ONLY failed check (CBMC's `__CPROVER_assert`
//    does not cut the path, so the checks behind it are still decided: validated by edit e1, which is reported
//    FAILED together with the library check).  Fused-vs-unfused is invisible (A-cbmc-fma).
//  * Kani's `assert!` is assert-then-assume: once `same(r, e)` holds, the later "NaN propagates" assertions are
//    statements about the reference value only.  Their effect on cvc5's run time is erratic (see `red_eq!`).
//  * A `[f64; 0]` operand (dangling address) makes CBMC's symex unwind every loop to the limit (8 GB exhausted);
//    the n=0 harnesses use `&arr[..0]` instead.
//  * ScalarProds3 associates the weight as (p1+p2)-n1 in the SIMD part and as p1-n1+p2 in the scalar tail; the
//    reference follows the source in both places (`w` / `wt`), because C17 asks for agreement with scalar
//    arithmetic in the association the kernel itself uses.  Consequence worth knowing (not a C17 violation): the
//    same element gets a different weight depending on whether it lands in a vector or in the tail, e.g.
//    p1=1e16, p2=1, n1=1e16 gives 0.0 in the SIMD part and 1.0 in the tail.
//
// Every harness fixes the length n (const generic) and leaves ALL contents symbolic (`kani::any()` for
// every f64, every bit pattern incl. NaN/inf/subnormals/-0.0).  No `kani::assume`.
//
// Element-wise kernels: every out[i] equals the scalar formula bit-for-bit, or both are NaN; the fused
// and the unfused evaluation of `a*b+c` are both accepted (that is the latitude `mul_add_e` gives);
// read-only inputs are bit-identical afterwards.
// Reductions: the result equals (bit-for-bit or both NaN) the reference that adds the n products in the
// kernel's own association order — four accumulators per lane, body groups, SIMD tail into accumulator 0,
// (a0+a1)+(a2+a3), halving tree over the lanes, then the scalar tail left to right with unfused
// multiply-add — written out explicitly in `ref_reduce`.  `FUSED` tells the reference whether the
// instantiation's `mul_add_e` is fused.  Additionally: a NaN in any operand makes the result NaN.
// The trigonometric prologue of `std_norm_flow` (epsilon.sin()/cos()) is NOT executed: the kernel struct
// is built with symbolic eps_sin/eps_cos (any f64, a superset of the reachable values).

use super::*;
use pulp::{Scalar, Scalar128b, Scalar256b, Scalar512b, Simd};

#[inline(always)]
fn same(a: f64, b: f64) -> bool {
    a.to_bits() == b.to_bits() || (a.is_nan() && b.is_nan())
}

/// `out` is `a*b+c`, fused or unfused.
#[inline(always)]
fn is_muladd(out: f64, a: f64, b: f64, c: f64) -> bool {
    same(out, a.mul_add(b, c)) || same(out, a * b + c)
}

#[inline(always)]
fn madd(fused: bool, a: f64, b: f64, c: f64) -> f64 {
    if fused { a.mul_add(b, c) } else { a * b + c }
}

fn any_arr<const N: usize>() -> [f64; N] {
    let mut a = [0f64; N];
    let mut i = 0;
    while i < N {
        a[i] = kani::any();
        i += 1;
    }
    a
}

fn untouched<const N: usize>(a: &[f64; N], b: &[f64; N]) {
    let mut i = 0;
    while i < N {
        // `same`, not raw bit equality: the harnesses run on the SMT back-end (one NaN value)
        assert!(same(a[i], b[i]), "C17: read-only input untouched");
        i += 1;
    }
}

fn lanes_ok<S: Simd, const L: usize>() {
    assert!(core::mem::size_of::<S::f64s>() == 8 * L, "lane count of the instantiation");
}

// ------------------------------------------------------------------------------------------------
// element-wise kernels
// ------------------------------------------------------------------------------------------------
fn axpy_body<S: Simd, const L: usize, const N: usize>(simd: S) {
    lanes_ok::<S, L>();
    let x: [f64; N] = any_arr();
    let y0: [f64; N] = any_arr();
    let a: f64 = kani::any();
    let x0 = x;
    let mut y = y0;
    simd.vectorize(Axpy { x: &x[..], y: &mut y[..], a });
    let mut i = 0;
    while i < N {
        assert!(is_muladd(y[i], a, x0[i], y0[i]), "C17 axpy: y[i] = a*x[i] + y[i]");
        i += 1;
    }
    untouched(&x, &x0);
}

/// n = 0.  The empty operands are zero-length prefixes of one-element arrays, not `[f64; 0]`: the address of a
/// `[f64; 0]` is a dangling constant that CBMC treats as an invalid-object pointer, no slice-iterator bound is
/// then decided during symbolic execution, every loop is unwound to the limit and CBMC exhausts 8 GB (measured
/// 2026-09-25: symex 200 s, 3.7 M steps, killed at the memory cap) — an artefact of the harness, not of the kernel.
/// The backing elements must stay untouched (nothing is written through an empty slice).
fn axpy_empty_body<S: Simd, const L: usize>(simd: S) {
    lanes_ok::<S, L>();
    let x: [f64; 1] = any_arr();
    let y0: [f64; 1] = any_arr();
    let a: f64 = kani::any();
    let x0 = x;
    let mut y = y0;
    simd.vectorize(Axpy { x: &x[..0], y: &mut y[..0], a });
    untouched(&x, &x0);
    untouched(&y, &y0);
}

fn axpy_out_body<S: Simd, const L: usize, const N: usize>(simd: S) {
    lanes_ok::<S, L>();
    let x: [f64; N] = any_arr();
    let y: [f64; N] = any_arr();
    let a: f64 = kani::any();
    let (x0, y0) = (x, y);
    let mut out: [f64; N] = any_arr();
    simd.vectorize(AxpyOut { x: &x[..], y: &y[..], out: &mut out[..], a });
    let mut i = 0;
    while i < N {
        assert!(is_muladd(out[i], a, x0[i], y0[i]), "C17 axpy_out: out[i] = a*x[i] + y[i]");
        i += 1;
    }
    untouched(&x, &x0);
    untouched(&y, &y0);
}

fn multiply_body<S: Simd, const L: usize, const N: usize>(simd: S) {
    lanes_ok::<S, L>();
    let x: [f64; N] = any_arr();
    let y: [f64; N] = any_arr();
    let (x0, y0) = (x, y);
    let mut out: [f64; N] = any_arr();
    simd.vectorize(Multiply { x: &x[..], y: &y[..], out: &mut out[..] });
    let mut i = 0;
    while i < N {
        assert!(same(out[i], x0[i] * y0[i]), "C17 multiply: out[i] = x[i]*y[i]");
        i += 1;
    }
    untouched(&x, &x0);
    untouched(&y, &y0);
}

fn multiply_inplace_body<S: Simd, const L: usize, const N: usize>(simd: S) {
    lanes_ok::<S, L>();
    let x: [f64; N] = any_arr();
    let x0 = x;
    let o0: [f64; N] = any_arr();
    let mut out = o0;
    simd.vectorize(MultiplyInplace { x: &x[..], out: &mut out[..] });
    let mut i = 0;
    while i < N {
        assert!(same(out[i], x0[i] * o0[i]), "C17 multiply_inplace: out[i] = x[i]*out[i]");
        i += 1;
    }
    untouched(&x, &x0);
}

fn flow_body<S: Simd, const L: usize, const N: usize>(simd: S) {
    lanes_ok::<S, L>();
    let pos: [f64; N] = any_arr();
    let p0 = pos;
    let v0: [f64; N] = any_arr();
    let mut vel = v0;
    let mut pos_out: [f64; N] = any_arr();
    let s: f64 = kani::any();
    let c: f64 = kani::any();
    simd.vectorize(StdNormFlow { pos: &pos[..], pos_out: &mut pos_out[..], vel: &mut vel[..], eps_sin: s, eps_cos: c });
    let mut i = 0;
    while i < N {
        // pos_out = p*cos + v*sin ; vel = p*(-sin) + v*cos   (outer multiply-add fused or not)
        assert!(is_muladd(pos_out[i], p0[i], c, v0[i] * s), "C17 std_norm_flow: pos_out[i]");
        assert!(is_muladd(vel[i], p0[i], -s, v0[i] * c), "C17 std_norm_flow: vel[i]");
        i += 1;
    }
    untouched(&pos, &p0);
}

fn grad_flow_body<S: Simd, const L: usize, const N: usize>(simd: S) {
    lanes_ok::<S, L>();
    let pos: [f64; N] = any_arr();
    let grad: [f64; N] = any_arr();
    let vel: [f64; N] = any_arr();
    let (p0, g0, v0) = (pos, grad, vel);
    let mut vel_out: [f64; N] = any_arr();
    let eps: f64 = kani::any();
    simd.vectorize(StdNormGradFlow { pos: &pos[..], grad: &grad[..], vel: &vel[..], vel_out: &mut vel_out[..], epsilon: eps });
    let mut i = 0;
    while i < N {
        assert!(is_muladd(vel_out[i], eps, p0[i] + g0[i], v0[i]), "C17 std_norm_grad_flow: vel_out[i] = vel[i] + eps*(pos[i]+grad[i])");
        i += 1;
    }
    untouched(&pos, &p0);
    untouched(&grad, &g0);
    untouched(&vel, &v0);
}

fn grad_flow_inplace_body<S: Simd, const L: usize, const N: usize>(simd: S) {
    lanes_ok::<S, L>();
    let pos: [f64; N] = any_arr();
    let grad: [f64; N] = any_arr();
    let (p0, g0) = (pos, grad);
    let v0: [f64; N] = any_arr();
    let mut vel = v0;
    let eps: f64 = kani::any();
    simd.vectorize(StdNormGradFlowInplace { pos: &pos[..], grad: &grad[..], vel: &mut vel[..], epsilon: eps });
    let mut i = 0;
    while i < N {
        assert!(is_muladd(vel[i], eps, p0[i] + g0[i], v0[i]), "C17 std_norm_grad_flow_inplace: vel[i] += eps*(pos[i]+grad[i])");
        i += 1;
    }
    untouched(&pos, &p0);
    untouched(&grad, &g0);
}

// ------------------------------------------------------------------------------------------------
// reductions: reference in the kernel's own association order
// ------------------------------------------------------------------------------------------------
/// sum_i w[i]*z[i] with: groups of 4 SIMD vectors -> accumulators 0..3 (per lane), remaining whole
/// vectors -> accumulator 0, (a0+a1)+(a2+a3) per lane, halving tree over the lanes, scalar tail with
/// unfused `r += w*z`.  `wt` is the weight as the scalar tail computes it (ScalarProds3 associates the
/// three-term sum differently there).
fn ref_reduce<const L: usize, const N: usize>(fused: bool, w: &[f64; N], wt: &[f64; N], z: &[f64; N]) -> f64 {
    let nv = N / L;
    let groups = nv / 4;
    let mut acc = [[0f64; L]; 4];
    let mut gi = 0;
    while gi < groups {
        let mut k = 0;
        while k < 4 {
            let mut l = 0;
            while l < L {
                let idx = (gi * 4 + k) * L + l;
                acc[k][l] = madd(fused, w[idx], z[idx], acc[k][l]);
                l += 1;
            }
            k += 1;
        }
        gi += 1;
    }
    let mut j = groups * 4;
    while j < nv {
        let mut l = 0;
        while l < L {
            let idx = j * L + l;
            acc[0][l] = madd(fused, w[idx], z[idx], acc[0][l]);
            l += 1;
        }
        j += 1;
    }
    let mut t = [0f64; L];
    let mut l = 0;
    while l < L {
        t[l] = (acc[0][l] + acc[1][l]) + (acc[2][l] + acc[3][l]);
        l += 1;
    }
    let mut n = L;
    while n > 1 {
        n /= 2;
        let mut i = 0;
        while i < n {
            t[i] += t[i + n];
            i += 1;
        }
    }
    let mut r = t[0];
    let mut idx = nv * L;
    while idx < N {
        r += wt[idx] * z[idx];
        idx += 1;
    }
    r
}

fn has_nan<const N: usize>(a: &[f64; N]) -> bool {
    let mut r = false;
    let mut i = 0;
    while i < N {
        if a[i].is_nan() {
            r = true;
        }
        i += 1;
    }
    r
}

fn dot_body<S: Simd, const L: usize, const N: usize>(simd: S, fused: bool, nan_check: bool) {
    lanes_ok::<S, L>();
    let x: [f64; N] = any_arr();
    let y: [f64; N] = any_arr();
    let (x0, y0) = (x, y);
    let r = simd.vectorize(VectorDot { x: &x[..], y: &y[..] });
    let e = ref_reduce::<L, N>(fused, &x0, &x0, &y0);
    assert!(same(r, e), "C17 vector_dot: sum of the n products in the kernel's association order");
    if nan_check && (has_nan(&x0) || has_nan(&y0)) {
        assert!(r.is_nan(), "C17 vector_dot: NaN propagates");
    }
    untouched(&x, &x0);
    untouched(&y, &y0);
}

/// n = 0 (see `axpy_empty_body` for why the operands are `&arr[..0]`): the empty dot product is +0.0, which is
/// also what `ref_reduce::<L, 0>` yields ((0+0)+(0+0) per lane, halving tree, no tail).
fn dot_empty_body<S: Simd, const L: usize>(simd: S, fused: bool) {
    lanes_ok::<S, L>();
    let x: [f64; 1] = any_arr();
    let y: [f64; 1] = any_arr();
    let (x0, y0) = (x, y);
    let r = simd.vectorize(VectorDot { x: &x[..0], y: &y[..0] });
    let e = ref_reduce::<L, 0>(fused, &[], &[], &[]);
    assert!(same(r, e), "C17 vector_dot: empty sum in the kernel's association order");
    assert!(r.to_bits() == 0f64.to_bits(), "C17 vector_dot: the empty dot product is +0.0");
    untouched(&x, &x0);
    untouched(&y, &y0);
}

fn prods2_body<S: Simd, const L: usize, const N: usize>(simd: S, fused: bool, nan_check: bool) {
    lanes_ok::<S, L>();
    let p1: [f64; N] = any_arr();
    let p2: [f64; N] = any_arr();
    let x: [f64; N] = any_arr();
    let y: [f64; N] = any_arr();
    let (r1, r2) = simd.vectorize(ScalarProds2 { positive1: &p1[..], positive2: &p2[..], x: &x[..], y: &y[..] });
    let mut w = [0f64; N];
    let mut i = 0;
    while i < N {
        w[i] = p1[i] + p2[i];
        i += 1;
    }
    let e1 = ref_reduce::<L, N>(fused, &w, &w, &x);
    let e2 = ref_reduce::<L, N>(fused, &w, &w, &y);
    assert!(same(r1, e1), "C17 scalar_prods2: (p1+p2).x in the kernel's association order");
    assert!(same(r2, e2), "C17 scalar_prods2: (p1+p2).y in the kernel's association order");
    if !nan_check {
        return;
    }
    if has_nan(&p1) || has_nan(&p2) {
        assert!(r1.is_nan() && r2.is_nan(), "C17 scalar_prods2: NaN propagates");
    }
    if has_nan(&x) {
        assert!(r1.is_nan(), "C17 scalar_prods2: NaN propagates");
    }
    if has_nan(&y) {
        assert!(r2.is_nan(), "C17 scalar_prods2: NaN propagates");
    }
}

fn prods3_body<S: Simd, const L: usize, const N: usize>(simd: S, fused: bool, nan_check: bool) {
    lanes_ok::<S, L>();
    let p1: [f64; N] = any_arr();
    let n1: [f64; N] = any_arr();
    let p2: [f64; N] = any_arr();
    let x: [f64; N] = any_arr();
    let y: [f64; N] = any_arr();
    let (r1, r2) = simd.vectorize(ScalarProds3 { positive1: &p1[..], negative1: &n1[..], positive2: &p2[..], x: &x[..], y: &y[..] });
    let mut w = [0f64; N];
    let mut wt = [0f64; N];
    let mut i = 0;
    while i < N {
        w[i] = (p1[i] + p2[i]) - n1[i]; // SIMD part
        wt[i] = p1[i] - n1[i] + p2[i]; // scalar tail (different association in the source)
        i += 1;
    }
    let e1 = ref_reduce::<L, N>(fused, &w, &wt, &x);
    let e2 = ref_reduce::<L, N>(fused, &w, &wt, &y);
    assert!(same(r1, e1), "C17 scalar_prods3: (p1-n1+p2).x in the kernel's association order");
    assert!(same(r2, e2), "C17 scalar_prods3: (p1-n1+p2).y in the kernel's association order");
    if !nan_check {
        return;
    }
    if has_nan(&p1) || has_nan(&p2) || has_nan(&n1) {
        assert!(r1.is_nan() && r2.is_nan(), "C17 scalar_prods3: NaN propagates");
    }
    if has_nan(&x) {
        assert!(r1.is_nan(), "C17 scalar_prods3: NaN propagates");
    }
    if has_nan(&y) {
        assert!(r2.is_nan(), "C17 scalar_prods3: NaN propagates");
    }
}

// ------------------------------------------------------------------------------------------------
// the public entry points with `Arch::Scalar` (length asserts + `Arch::dispatch`), the production
// fallback when no AVX2 is detected
// ------------------------------------------------------------------------------------------------
fn public_api_body<const N: usize>() {
    let arch = pulp::Arch::Scalar;
    let x: [f64; N] = any_arr();
    let y0: [f64; N] = any_arr();
    let a: f64 = kani::any();
    let mut y = y0;
    axpy(arch, &x[..], &mut y[..], a);
    let mut out: [f64; N] = any_arr();
    axpy_out(arch, &x[..], &y0[..], a, &mut out[..]);
    let mut prod: [f64; N] = any_arr();
    multiply(arch, &x[..], &y0[..], &mut prod[..]);
    let mut inpl = y0;
    multiply_inplace(arch, &mut inpl[..], &x[..]);
    let d = vector_dot(arch, &x[..], &y0[..]);
    let mut i = 0;
    while i < N {
        assert!(is_muladd(y[i], a, x[i], y0[i]), "C17 axpy (Arch::Scalar)");
        assert!(is_muladd(out[i], a, x[i], y0[i]), "C17 axpy_out (Arch::Scalar)");
        assert!(same(prod[i], x[i] * y0[i]), "C17 multiply (Arch::Scalar)");
        assert!(same(inpl[i], x[i] * y0[i]), "C17 multiply_inplace (Arch::Scalar)");
        i += 1;
    }
    assert!(same(d, ref_reduce::<1, N>(false, &x, &x, &y0)), "C17 vector_dot (Arch::Scalar)");
}

// ------------------------------------------------------------------------------------------------
// harness instances.  Name: <kernel>_<inst>_n<N>.  Lane layout of n = 4*L*g + L*t + r:
//   g unrolled groups, t SIMD-tail vectors, r scalar-tail elements.
// ------------------------------------------------------------------------------------------------
macro_rules! ew {
    ($name:ident, $body:ident, $S:ident, $L:expr, $N:expr) => {
        #[kani::proof]
        #[kani::unwind(100)]
        fn $name() {
            $body::<$S, $L, $N>($S);
        }
    };
}
macro_rules! red {
    ($name:ident, $body:ident, $S:ident, $L:expr, $N:expr, $fused:expr) => {
        #[kani::proof]
        #[kani::unwind(100)]
        fn $name() {
            $body::<$S, $L, $N>($S, $fused, true);
        }
    };
}
// `<kernel>_eq_<inst>_n<N>`: the same harness WITHOUT the derived "a NaN operand gives a NaN result" assertions.
// The agreement with the kernel-order scalar reference (the C17 obligation proper) is unchanged.  cvc5's run time on
// these queries is erratic, the NaN clause can cost or save time (measured 2026-09-26, 1800 s limit):
//     dot 128b n=11: 367 s with, 163 s without      dot 256b n=23: 290 s with, TIMEOUT without
//     prods2 256b n=23: TIMEOUT with, 472 s without  prods3 256b n=23: TIMEOUT with and without
// so only the variant that passes where the full harness does not is kept (prods2).  The NaN clause of prods2 stays
// checked at n = 6 and 11 by the full harnesses.
macro_rules! red_eq {
    ($name:ident, $body:ident, $S:ident, $L:expr, $N:expr, $fused:expr) => {
        #[kani::proof]
        #[kani::unwind(100)]
        fn $name() {
            $body::<$S, $L, $N>($S, $fused, false);
        }
    };
}

// ---- 256-bit emulation (4 lanes; the AVX2 shape): 23 = 16 + 4 + 3 ; 47 = 32 + 3*4 + 3
ew!(axpy_s256_n23, axpy_body, Scalar256b, 4, 23);
ew!(axpy_out_s256_n23, axpy_out_body, Scalar256b, 4, 23);
ew!(multiply_s256_n23, multiply_body, Scalar256b, 4, 23);
ew!(multiply_inplace_s256_n23, multiply_inplace_body, Scalar256b, 4, 23);
ew!(flow_s256_n23, flow_body, Scalar256b, 4, 23);
ew!(grad_flow_s256_n23, grad_flow_body, Scalar256b, 4, 23);
ew!(grad_flow_inplace_s256_n23, grad_flow_inplace_body, Scalar256b, 4, 23);
red!(dot_s256_n23, dot_body, Scalar256b, 4, 23, true);
red!(prods2_s256_n23, prods2_body, Scalar256b, 4, 23, true);
red!(prods3_s256_n23, prods3_body, Scalar256b, 4, 23, true);
ew!(axpy_s256_n47, axpy_body, Scalar256b, 4, 47);
ew!(multiply_s256_n47, multiply_body, Scalar256b, 4, 47);
red!(dot_s256_n47, dot_body, Scalar256b, 4, 47, true);
red!(prods3_s256_n47, prods3_body, Scalar256b, 4, 47, true);
red_eq!(prods2_eq_s256_n23, prods2_body, Scalar256b, 4, 23, true);
// smaller 4-lane reduction shapes (prods3 n=23 exceeds 30 min): 7 = 0 + 4 + 3 (SIMD tail into accumulator 0, lane
// tree, scalar tail with the tail's own association of the prods3 weight) ; 19 = 16 + 0 + 3 (all four accumulators)
red!(dot_s256_n7, dot_body, Scalar256b, 4, 7, true);
red!(prods3_s256_n7, prods3_body, Scalar256b, 4, 7, true);
red!(prods3_s256_n19, prods3_body, Scalar256b, 4, 19, true);

// ---- 128-bit emulation (2 lanes): 11 = 8 + 2 + 1 ; 23 = 16 + 3*2 + 1
ew!(axpy_s128_n11, axpy_body, Scalar128b, 2, 11);
ew!(axpy_out_s128_n11, axpy_out_body, Scalar128b, 2, 11);
ew!(multiply_s128_n11, multiply_body, Scalar128b, 2, 11);
ew!(multiply_inplace_s128_n11, multiply_inplace_body, Scalar128b, 2, 11);
ew!(flow_s128_n11, flow_body, Scalar128b, 2, 11);
ew!(grad_flow_s128_n11, grad_flow_body, Scalar128b, 2, 11);
ew!(grad_flow_inplace_s128_n11, grad_flow_inplace_body, Scalar128b, 2, 11);
red!(dot_s128_n11, dot_body, Scalar128b, 2, 11, true);
red!(prods2_s128_n11, prods2_body, Scalar128b, 2, 11, true);
red!(prods3_s128_n11, prods3_body, Scalar128b, 2, 11, true);
ew!(axpy_s128_n23, axpy_body, Scalar128b, 2, 23);
red!(dot_s128_n23, dot_body, Scalar128b, 2, 23, true);

// ---- 512-bit emulation (8 lanes; the AVX-512 shape): 41 = 32 + 8 + 1 ; 95 = 64 + 3*8 + 7
ew!(axpy_s512_n41, axpy_body, Scalar512b, 8, 41);
ew!(axpy_out_s512_n41, axpy_out_body, Scalar512b, 8, 41);
ew!(multiply_s512_n41, multiply_body, Scalar512b, 8, 41);
ew!(multiply_inplace_s512_n41, multiply_inplace_body, Scalar512b, 8, 41);
ew!(flow_s512_n41, flow_body, Scalar512b, 8, 41);
ew!(grad_flow_s512_n41, grad_flow_body, Scalar512b, 8, 41);
ew!(grad_flow_inplace_s512_n41, grad_flow_inplace_body, Scalar512b, 8, 41);
red!(dot_s512_n41, dot_body, Scalar512b, 8, 41, true);
red!(prods2_s512_n41, prods2_body, Scalar512b, 8, 41, true);
red!(prods3_s512_n41, prods3_body, Scalar512b, 8, 41, true);
ew!(axpy_s512_n95, axpy_body, Scalar512b, 8, 95);
red!(dot_s512_n95, dot_body, Scalar512b, 8, 95, true);

// ---- pulp::Scalar (1 lane, unfused mul_add_e; scalar tail is always empty): 6 = 4 + 2 ; 11 = 8 + 3
ew!(axpy_s1_n6, axpy_body, Scalar, 1, 6);
ew!(axpy_out_s1_n6, axpy_out_body, Scalar, 1, 6);
ew!(multiply_s1_n6, multiply_body, Scalar, 1, 6);
ew!(multiply_inplace_s1_n6, multiply_inplace_body, Scalar, 1, 6);
ew!(flow_s1_n6, flow_body, Scalar, 1, 6);
ew!(grad_flow_s1_n6, grad_flow_body, Scalar, 1, 6);
ew!(grad_flow_inplace_s1_n6, grad_flow_inplace_body, Scalar, 1, 6);
red!(dot_s1_n6, dot_body, Scalar, 1, 6, false);
red!(prods2_s1_n6, prods2_body, Scalar, 1, 6, false);
red!(prods3_s1_n6, prods3_body, Scalar, 1, 6, false);
ew!(axpy_s1_n11, axpy_body, Scalar, 1, 11);
red!(dot_s1_n11, dot_body, Scalar, 1, 11, false);

// ---- degenerate lengths at the 256-bit shape: 0 (nothing), 3 (scalar tail only), 4 (one SIMD-tail vector)
#[kani::proof]
#[kani::unwind(100)]
fn axpy_s256_n0() {
    axpy_empty_body::<Scalar256b, 4>(Scalar256b);
}
ew!(axpy_s256_n3, axpy_body, Scalar256b, 4, 3);
ew!(axpy_s256_n4, axpy_body, Scalar256b, 4, 4);
#[kani::proof]
#[kani::unwind(100)]
fn dot_s256_n0() {
    dot_empty_body::<Scalar256b, 4>(Scalar256b, true);
}
red!(dot_s256_n3, dot_body, Scalar256b, 4, 3, true);
red!(prods3_s256_n3, prods3_body, Scalar256b, 4, 3, true);

// ---- public functions through Arch::Scalar
#[kani::proof]
#[kani::unwind(100)]
fn public_api_arch_scalar_n6() {
    public_api_body::<6>();
}
