// K-var — property C08, clause C08.2 (engine E2, Kani on the real crate).
//
// Included into `crate::math::cpu_math` by the guarded hook
//   #[cfg(all(kani, nuts_rs_verif))] #[path = "/verif/kani/k_var.rs"] mod verif_kani;
//
// What is checked: the three element kernels of the REAL `CpuMath`
//   array_update_var_inv_std_draw / _draw_grad / _grad      (src/math/cpu_math.rs)
// called through the `Math` trait exactly as `DiagMassMatrix::update_diag_*` calls them
// (src/transform/diagonal.rs), with clamp = (1e-20, 1e20) (the only value any caller passes:
// LOWER_LIMIT/UPPER_LIMIT, INIT_LOWER_LIMIT/INIT_UPPER_LIMIT in transform/adapt/diagonal.rs and the
// literals in transform/mod.rs, transform/adapt/low_rank.rs).
//
// Inputs: every f64 bit pattern (`kani::any()`) for the old std / inv_std, draw_var, grad_var,
// scale / gradient; fill_invalid in {None, Some(1.0)} (resp. the f64 1.0 for the `_grad` kernel, the
// only value the caller passes).  No `kani::assume` anywhere in this file.
//
// Clauses:
//  (ND)   old std, inv_std finite and > 0  ==>  new std, inv_std finite and > 0
//  (KEEP) estimate NaN / +-inf / 0 and fill_invalid = None  ==>  new values BIT-identical to the old
//  (FILL) estimate invalid and fill_invalid = Some(1.0)     ==>  new values finite and > 0 whatever the old ones were
//  NOT checked: the value formula std = sqrt(clamp(est)) itself.  CBMC models sqrt by a nondeterministic
//  witness (lower^2 <= x < upper^2), so two sqrt instances can only be related by multiplier reasoning,
//  which did not terminate in 10 min; consequently an edit that swaps draw_var and grad_var (still
//  non-degenerate, still keeps on invalid input) is NOT caught here — that clause is C08.1 (engine E1).
//
// Arch: `pulp::Arch::Scalar` through the `new_with_arch` hook (cpuid inline asm of `Arch::new()`
// cannot run under Kani).  The element closures do not depend on the arch (plain f64 code inside
// `arch.dispatch(|| ..)`), only their auto-vectorisation by the compiler does (assumption A-intrinsics).
//
// dim = 1 harnesses are loop-free apart from iterating arrays of concrete length 1
// (#[kani::unwind] + unwinding assertions) => complete for one element over the whole f64 domain.
// dim = 2 harnesses cover the izip! scaffold (element i of every input goes to element i of both
// outputs) and are bounded in the dimension.

use std::collections::HashMap;

use nuts_storable::HasDims;

use super::{CpuLogpFunc, CpuMath, CpuMathError};
use crate::math::{LogpError, Math};

const CLAMP: (f64, f64) = (1e-20, 1e20);

#[derive(Debug)]
pub(crate) struct KLogp {
    dim: usize,
}

#[derive(Debug)]
pub(crate) enum KErr {}

impl std::fmt::Display for KErr {
    fn fmt(&self, _f: &mut std::fmt::Formatter<'_>) -> std::fmt::Result {
        Ok(())
    }
}
impl std::error::Error for KErr {}
impl LogpError for KErr {
    fn is_recoverable(&self) -> bool {
        false
    }
}

impl HasDims for KLogp {
    fn dim_sizes(&self) -> HashMap<String, u64> {
        HashMap::new()
    }
}

impl CpuLogpFunc for KLogp {
    type LogpError = KErr;
    type FlowParameters = ();
    type ExpandedVector = Vec<f64>;

    fn dim(&self) -> usize {
        self.dim
    }
    fn logp(&mut self, _position: &[f64], _gradient: &mut [f64]) -> Result<f64, KErr> {
        Ok(0.0)
    }
    fn expand_vector<R>(&mut self, _rng: &mut R, array: &[f64]) -> Result<Vec<f64>, CpuMathError>
    where
        R: rand::Rng + ?Sized,
    {
        Ok(array.to_vec())
    }
}

type M = CpuMath<KLogp>;

fn mk(dim: usize) -> M {
    CpuMath::new_with_arch(KLogp { dim }, pulp::Arch::Scalar)
}

fn vec_of<const D: usize>(math: &mut M, vals: &[f64; D]) -> <M as Math>::Vector {
    let mut v = math.new_array();
    math.read_from_slice(&mut v, &vals[..]);
    v
}

fn read<const D: usize>(math: &mut M, v: &<M as Math>::Vector) -> [f64; D] {
    let mut out = [0f64; D];
    math.write_to_slice(v, &mut out[..]);
    out
}

fn any_arr<const D: usize>() -> [f64; D] {
    let mut a = [0f64; D];
    let mut i = 0;
    while i < D {
        a[i] = kani::any();
        i += 1;
    }
    a
}

fn any_fill() -> Option<f64> {
    if kani::any() { None } else { Some(1.0) }
}

#[inline(always)]
fn pos_fin(x: f64) -> bool {
    x.is_finite() && x > 0.0
}

#[inline(always)]
fn same(a: f64, b: f64) -> bool {
    a.to_bits() == b.to_bits() || (a.is_nan() && b.is_nan())
}

#[inline(always)]
fn invalid(est: f64) -> bool {
    (!est.is_finite()) || est == 0.0
}

/// (ND) + (FILL) + (RANGE) for one element; needs no knowledge of the estimate.
#[inline(always)]
fn check_nd(old_std: f64, old_inv: f64, new_std: f64, new_inv: f64, fill: Option<f64>, range: bool) {
    match fill {
        None => {
            // (ND)
            if pos_fin(old_std) && pos_fin(old_inv) {
                assert!(pos_fin(new_std), "C08.2 ND: new std finite and > 0");
                assert!(pos_fin(new_inv), "C08.2 ND: new inv_std finite and > 0");
            }
        }
        Some(_) => {
            // (FILL) with a fill value the scale is (re)initialised whatever the old one was
            assert!(pos_fin(new_std), "C08.2 FILL: std finite and > 0 with fill_invalid = Some(1.0)");
            assert!(pos_fin(new_inv), "C08.2 FILL: inv_std finite and > 0 with fill_invalid = Some(1.0)");
        }
    }
    if range {
        // (RANGE) a value that was written lies in sqrt(clamp range) = [1e-10, 1e10] (factor 2 slack for
        // the two roundings); this is what the clamp is for.
        if new_std.to_bits() != old_std.to_bits() {
            assert!(new_std >= 0.5e-10 && new_std <= 2e10, "C08.2 RANGE: written std within sqrt(clamp)");
        }
        if new_inv.to_bits() != old_inv.to_bits() {
            assert!(new_inv >= 0.5e-10 && new_inv <= 2e10, "C08.2 RANGE: written inv_std within sqrt(clamp)");
        }
    }
}

/// (KEEP) for one element.  `est_invalid`: the estimate is NaN / +-inf / 0.
#[inline(always)]
fn check_keep(old_std: f64, old_inv: f64, new_std: f64, new_inv: f64, est_invalid: bool) {
    // The KEEP harnesses run on the SMT back-end (cvc5, FloatingPoint theory) which has ONE NaN value:
    // the bit pattern of a NaN is not observable there, so "bit-identical" is stated as
    // "same bits, or both NaN" (an old scale that is NaN is garbage anyway; for every non-NaN old value
    // — including +-0, +-inf, subnormals — this is bit-identity).
    if est_invalid {
        assert!(same(new_std, old_std), "C08.2 KEEP: std bit-identical");
        assert!(same(new_inv, old_inv), "C08.2 KEEP: inv_std bit-identical");
    }
}

#[derive(Clone, Copy, PartialEq)]
enum Mode {
    Nd,      // ND + FILL, fill_invalid symbolic in {None, Some(1.0)}            (SAT back-end)
    Range,   // RANGE, fill_invalid symbolic                                      (SAT back-end)
    Keep,    // KEEP, fill_invalid = None; recomputes the estimate => needs term sharing (SMT back-end)
}

// ------------------------------------------------------------------------------------------------
// draw_grad
// ------------------------------------------------------------------------------------------------
fn body_draw_grad<const D: usize>(mode: Mode) {
    let mut math = mk(D);
    let old_std: [f64; D] = any_arr();
    let old_inv: [f64; D] = any_arr();
    let dv: [f64; D] = any_arr();
    let gv: [f64; D] = any_arr();
    let fill = if mode == Mode::Keep { None } else { any_fill() };

    let mut std = vec_of(&mut math, &old_std);
    let mut inv_std = vec_of(&mut math, &old_inv);
    let draw_var = vec_of(&mut math, &dv);
    let grad_var = vec_of(&mut math, &gv);

    math.array_update_var_inv_std_draw_grad(&mut inv_std, &mut std, &draw_var, &grad_var, fill, CLAMP);

    let new_std: [f64; D] = read(&mut math, &std);
    let new_inv: [f64; D] = read(&mut math, &inv_std);
    let dv_after: [f64; D] = read(&mut math, &draw_var);
    let gv_after: [f64; D] = read(&mut math, &grad_var);
    let mut i = 0;
    while i < D {
        match mode {
            Mode::Nd => check_nd(old_std[i], old_inv[i], new_std[i], new_inv[i], fill, false),
            Mode::Range => check_nd(old_std[i], old_inv[i], new_std[i], new_inv[i], fill, true),
            Mode::Keep => {
                // est = sqrt(q), q = draw_var/grad_var.  IEEE-754 sqrt: sqrt(q) is NaN iff q is NaN or q < 0,
                // +inf iff q = +inf, (+-)0 iff q = +-0, finite > 0 for every finite q > 0 (also subnormal).
                // Hence "est is NaN/+-inf/0" <=> not (q finite and q > 0); stated on q so that no second
                // instance of CBMC's (nondeterministic-witness) sqrt model is needed.
                let q = dv[i] / gv[i];
                check_keep(old_std[i], old_inv[i], new_std[i], new_inv[i], !(q.is_finite() && q > 0.0));
            }
        }
        assert!(same(dv_after[i], dv[i]), "inputs untouched");
        assert!(same(gv_after[i], gv[i]), "inputs untouched");
        i += 1;
    }
}

#[kani::proof]
#[kani::unwind(3)]
fn var_draw_grad_nd_dim1() {
    body_draw_grad::<1>(Mode::Nd);
}
#[kani::proof]
#[kani::unwind(3)]
fn var_draw_grad_range_dim1() {
    body_draw_grad::<1>(Mode::Range);
}
#[kani::proof]
#[kani::unwind(3)]
fn var_draw_grad_keep_dim1() {
    body_draw_grad::<1>(Mode::Keep);
}
#[kani::proof]
#[kani::unwind(4)]
fn var_draw_grad_nd_dim2() {
    body_draw_grad::<2>(Mode::Nd);
}
#[kani::proof]
#[kani::unwind(4)]
fn var_draw_grad_keep_dim2() {
    body_draw_grad::<2>(Mode::Keep);
}

// ------------------------------------------------------------------------------------------------
// draw
// ------------------------------------------------------------------------------------------------
fn body_draw<const D: usize>(mode: Mode) {
    let mut math = mk(D);
    let old_std: [f64; D] = any_arr();
    let old_inv: [f64; D] = any_arr();
    let dv: [f64; D] = any_arr();
    let scale: f64 = kani::any();
    let fill = if mode == Mode::Keep { None } else { any_fill() };

    let mut std = vec_of(&mut math, &old_std);
    let mut inv_std = vec_of(&mut math, &old_inv);
    let draw_var = vec_of(&mut math, &dv);

    math.array_update_var_inv_std_draw(&mut inv_std, &mut std, &draw_var, scale, fill, CLAMP);

    let new_std: [f64; D] = read(&mut math, &std);
    let new_inv: [f64; D] = read(&mut math, &inv_std);
    let dv_after: [f64; D] = read(&mut math, &draw_var);
    let mut i = 0;
    while i < D {
        match mode {
            Mode::Nd => check_nd(old_std[i], old_inv[i], new_std[i], new_inv[i], fill, false),
            Mode::Range => check_nd(old_std[i], old_inv[i], new_std[i], new_inv[i], fill, true),
            Mode::Keep => {
                let est = dv[i] * scale;
                check_keep(old_std[i], old_inv[i], new_std[i], new_inv[i], invalid(est));
            }
        }
        assert!(same(dv_after[i], dv[i]), "inputs untouched");
        i += 1;
    }
}

#[kani::proof]
#[kani::unwind(3)]
fn var_draw_nd_dim1() {
    body_draw::<1>(Mode::Nd);
}
#[kani::proof]
#[kani::unwind(3)]
fn var_draw_range_dim1() {
    body_draw::<1>(Mode::Range);
}
#[kani::proof]
#[kani::unwind(3)]
fn var_draw_keep_dim1() {
    body_draw::<1>(Mode::Keep);
}
#[kani::proof]
#[kani::unwind(4)]
fn var_draw_nd_dim2() {
    body_draw::<2>(Mode::Nd);
}
#[kani::proof]
#[kani::unwind(4)]
fn var_draw_keep_dim2() {
    body_draw::<2>(Mode::Keep);
}

// ------------------------------------------------------------------------------------------------
// grad  (always overwrites; fill_invalid is a plain f64, the caller passes 1.0)
// ------------------------------------------------------------------------------------------------
fn body_grad<const D: usize>(range: bool) {
    let mut math = mk(D);
    let old_std: [f64; D] = any_arr();
    let old_inv: [f64; D] = any_arr();
    let g: [f64; D] = any_arr();

    let mut std = vec_of(&mut math, &old_std);
    let mut inv_std = vec_of(&mut math, &old_inv);
    let grad = vec_of(&mut math, &g);

    math.array_update_var_inv_std_grad(&mut inv_std, &mut std, &grad, 1.0, CLAMP);

    let new_std: [f64; D] = read(&mut math, &std);
    let new_inv: [f64; D] = read(&mut math, &inv_std);
    let g_after: [f64; D] = read(&mut math, &grad);
    let mut i = 0;
    while i < D {
        // (ND) unconditionally: this kernel initialises the scales, the old values are irrelevant
        assert!(pos_fin(new_std[i]), "C08.2 ND(grad): new std finite and > 0");
        assert!(pos_fin(new_inv[i]), "C08.2 ND(grad): new inv_std finite and > 0");
        if range {
            assert!(new_std[i] >= 0.5e-10 && new_std[i] <= 2e10, "C08.2 RANGE(grad): std within sqrt(clamp)");
            assert!(new_inv[i] >= 0.5e-10 && new_inv[i] <= 2e10, "C08.2 RANGE(grad): inv_std within sqrt(clamp)");
        }
        assert!(same(g_after[i], g[i]), "inputs untouched");
        i += 1;
    }
}

#[kani::proof]
#[kani::unwind(3)]
fn var_grad_nd_dim1() {
    body_grad::<1>(false);
}
#[kani::proof]
#[kani::unwind(3)]
fn var_grad_range_dim1() {
    body_grad::<1>(true);
}
#[kani::proof]
#[kani::unwind(4)]
fn var_grad_nd_dim2() {
    body_grad::<2>(false);
}

// ------------------------------------------------------------------------------------------------
// finite / non-zero predicates (C05.3 / C17: the whole-vector predicates agree with the scalar tests)
//   array_all_finite(v)              == every element is finite
//   array_all_finite_and_nonzero(v)  == every element is finite and != 0   (subnormals ARE non-zero)
// dim = 1 over all f64 bit patterns is complete for one element; dim = 3 is a bounded check of the
// conjunction over the elements.
// ------------------------------------------------------------------------------------------------
fn body_finite<const D: usize>() {
    let mut math = mk(D);
    let vals: [f64; D] = any_arr();
    let v = vec_of(&mut math, &vals);
    let mut all_fin = true;
    let mut all_fin_nz = true;
    let mut i = 0;
    while i < D {
        // scalar reference written with bit tests only (no call into the code under test)
        let bits = vals[i].to_bits();
        let exp_all_ones = (bits >> 52) & 0x7ff == 0x7ff;        // inf or NaN
        let is_zero = bits << 1 == 0;                            // +0.0 or -0.0
        all_fin = all_fin && !exp_all_ones;
        all_fin_nz = all_fin_nz && !exp_all_ones && !is_zero;
        i += 1;
    }
    assert!(math.array_all_finite(&v) == all_fin, "array_all_finite agrees with the scalar test");
    assert!(math.array_all_finite_and_nonzero(&v) == all_fin_nz, "array_all_finite_and_nonzero agrees with the scalar test");
}

#[kani::proof]
#[kani::unwind(4)]
fn finite_pred_dim1() {
    body_finite::<1>();
}

#[kani::proof]
#[kani::unwind(6)]
fn finite_pred_dim3() {
    body_finite::<3>();
}
