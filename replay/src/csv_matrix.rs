// C14 native driver (CSV column mapping): every element of a non-square matrix variable lands in the column named after
// its own multi-index.  Written by a seeding agent for K_C14_1 (public API only); kept as the general driver for the clause.
//! C14 demo 1: the CSV backend must write every element of a matrix-valued draw
//! variable into the column that carries its name, for non-square shapes too.
//!
//! The model exposes a 2x3 matrix `m` (dims "a" x "b", row-major like every other
//! backend) whose element (i, j) is `x0 + 100 * (3 * i + j)`, plus the scalar `x0`.
//! Re-parsing the CSV, column `m.<i+1>.<j+1>` minus column `x0` must therefore be
//! `100 * (3 * i + j)` in every row.

use std::collections::HashMap;
use std::time::Duration;

use nuts_derive::Storable;
use nuts_rs::{
    CpuLogpFunc, CpuMath, CpuMathError, CsvConfig, DiagNutsSettings, LogpError, Model, Sampler,
    SamplerWaitResult,
};
use nuts_storable::HasDims;
use rand::{Rng, RngExt};
use thiserror::Error;

#[derive(Debug, Error)]
enum NeverError {}

impl LogpError for NeverError {
    fn is_recoverable(&self) -> bool {
        false
    }
}

const NA: usize = 2;
const NB: usize = 3;

#[derive(Clone)]
struct MatrixLogp;

impl HasDims for MatrixLogp {
    fn dim_sizes(&self) -> HashMap<String, u64> {
        HashMap::from([("a".to_string(), NA as u64), ("b".to_string(), NB as u64)])
    }
}

#[derive(Storable)]
struct Expanded {
    #[storable(dims("a", "b"))]
    m: Vec<f64>,
    x0: f64,
}

impl CpuLogpFunc for MatrixLogp {
    type LogpError = NeverError;
    type FlowParameters = ();
    type ExpandedVector = Expanded;

    fn dim(&self) -> usize {
        2
    }

    fn logp(&mut self, x: &[f64], grad: &mut [f64]) -> Result<f64, Self::LogpError> {
        let mut logp = 0.0;
        for (g, &xi) in grad.iter_mut().zip(x) {
            logp -= 0.5 * xi * xi;
            *g = -xi;
        }
        Ok(logp)
    }

    fn expand_vector<R: Rng + ?Sized>(
        &mut self,
        _rng: &mut R,
        array: &[f64],
    ) -> Result<Self::ExpandedVector, CpuMathError> {
        let x0 = array[0];
        Ok(Expanded {
            m: (0..NA * NB).map(|k| x0 + 100.0 * k as f64).collect(),
            x0,
        })
    }
}

struct MatrixModel;

impl Model for MatrixModel {
    type Math<'model>
        = CpuMath<MatrixLogp>
    where
        Self: 'model;

    fn math<R: Rng + ?Sized>(&self, _rng: &mut R) -> anyhow::Result<Self::Math<'_>> {
        Ok(CpuMath::new(MatrixLogp))
    }

    fn init_position<R: Rng + ?Sized>(
        &self,
        rng: &mut R,
        position: &mut [f64],
    ) -> anyhow::Result<()> {
        for p in position.iter_mut() {
            *p = rng.random_range(-1.0..1.0);
        }
        Ok(())
    }
}

pub fn csv_non_square_matrix_columns_hold_their_own_elements() -> anyhow::Result<()> {
    let dir = tempfile::tempdir()?;
    let out = dir.path().join("trace");

    let settings = DiagNutsSettings {
        num_chains: 1,
        num_tune: 10,
        num_draws: 15,
        seed: 7,
        ..Default::default()
    };
    let config = CsvConfig::new(&out).with_precision(6).store_warmup(true);

    let mut sampler = Sampler::new(MatrixModel, settings, config, 1, None)?;
    loop {
        match sampler.wait_timeout(Duration::from_millis(200)) {
            SamplerWaitResult::Trace(_) => break,
            SamplerWaitResult::Timeout(s) => sampler = s,
            SamplerWaitResult::Err(err, _) => return Err(err),
        }
    }

    let text = std::fs::read_to_string(out.join("chain_0.csv"))?;
    let mut lines = text.lines();
    let header: Vec<&str> = lines.next().expect("header").split(',').collect();
    let col = |name: &str| -> usize {
        header
            .iter()
            .position(|h| *h == name)
            .unwrap_or_else(|| panic!("column {name} missing in header {header:?}"))
    };
    let x0_col = col("x0");

    let mut rows = 0;
    for line in lines {
        let fields: Vec<&str> = line.split(',').collect();
        assert_eq!(fields.len(), header.len(), "ragged row: {line}");
        let x0: f64 = fields[x0_col].parse()?;
        for i in 0..NA {
            for j in 0..NB {
                let name = format!("m.{}.{}", i + 1, j + 1);
                let got: f64 = fields[col(&name)].parse()?;
                let want = x0 + 100.0 * (NB * i + j) as f64;
                assert!(
                    (got - want).abs() < 1e-4,
                    "row {rows}: column {name} holds {got}, recorded element ({i},{j}) was {want}"
                );
            }
        }
        rows += 1;
    }
    assert_eq!(rows, 25, "10 warmup + 15 sampling rows expected");
    Ok(())
}
