// C05 native driver: a recoverable density error at ANY evaluation of a trajectory (also inside extra doublings) makes
// exactly that transition report a divergence; positions stay finite; no panic, no Err.  (Sweep written for a seeded
// change, public API only; kept as a general driver for the clause.)
// C05 demonstration: a recoverable density error at ANY evaluation belonging to a trajectory
// makes that transition be reported as divergent, and the returned draw is a valid state.
//
// The density counts its evaluations and fails (recoverably) at exactly evaluation `k`.
// A fault-free reference run with the same seed tells which draw evaluation `k` belongs to;
// the faulted run is bit-identical up to `k`, so that very draw has to report a divergence.
// The check is repeated for every `k` of a range of draws, for the default sampler and for the
// non-default `extra_doublings > 0` option.

use std::collections::HashMap;
use std::panic::{AssertUnwindSafe, catch_unwind};
use std::sync::{
    Arc,
    atomic::{AtomicU64, Ordering},
};

use nuts_rs::{Chain, CpuLogpFunc, CpuMath, DiagNutsSettings, HasDims, LogpError, Settings};
use rand::SeedableRng;
use thiserror::Error;

#[derive(Debug, Error)]
enum DemoError {
    #[error("recoverable failure of the density")]
    Recoverable,
}

impl LogpError for DemoError {
    fn is_recoverable(&self) -> bool {
        true
    }
}

struct FaultyNormal {
    dim: usize,
    count: Arc<AtomicU64>,
    /// 1-based index of the evaluation that fails; 0 = never
    fail_at: u64,
}

impl HasDims for FaultyNormal {
    fn dim_sizes(&self) -> HashMap<String, u64> {
        HashMap::from([("unconstrained_parameter".to_string(), self.dim as u64)])
    }
}

impl CpuLogpFunc for FaultyNormal {
    type LogpError = DemoError;
    type FlowParameters = ();
    type ExpandedVector = Vec<f64>;

    fn dim(&self) -> usize {
        self.dim
    }

    fn logp(&mut self, position: &[f64], grad: &mut [f64]) -> Result<f64, DemoError> {
        let n = self.count.fetch_add(1, Ordering::SeqCst) + 1;
        if n == self.fail_at {
            return Err(DemoError::Recoverable);
        }
        let mut logp = 0.0;
        for (i, (x, g)) in position.iter().zip(grad.iter_mut()).enumerate() {
            let s = 1.0 + i as f64;
            logp -= 0.5 * x * x / (s * s);
            *g = -x / (s * s);
        }
        Ok(logp)
    }

    fn expand_vector<R: rand::Rng + ?Sized>(
        &mut self,
        _rng: &mut R,
        array: &[f64],
    ) -> Result<Vec<f64>, nuts_rs::CpuMathError> {
        Ok(array.to_vec())
    }
}

const DIM: usize = 3;
const SEED: u64 = 2024;
const NUM_TUNE: u64 = 100;

fn settings(extra_doublings: u64) -> DiagNutsSettings {
    DiagNutsSettings {
        num_tune: NUM_TUNE,
        num_draws: 30,
        extra_doublings,
        maxdepth: 5,
        ..Default::default()
    }
}

/// Number of density evaluations consumed after `set_position` and after each draw of a
/// fault-free run.
fn reference_counts(extra_doublings: u64, first_draw: usize, n_draws: usize) -> Vec<u64> {
    let count = Arc::new(AtomicU64::new(0));
    let math = CpuMath::new(FaultyNormal {
        dim: DIM,
        count: count.clone(),
        fail_at: 0,
    });
    let mut rng = rand::rngs::StdRng::seed_from_u64(SEED);
    let mut chain = settings(extra_doublings).new_chain(0, math, &mut rng);
    chain.set_position(&[0.5; DIM]).unwrap();
    let mut counts = vec![count.load(Ordering::SeqCst)];
    for draw in 0..n_draws {
        let (_pos, progress) = chain.draw().unwrap();
        // (early warmup draws may diverge on their own while the step size is still far off)
        assert!(
            draw < first_draw || !progress.diverging,
            "reference run must be divergence free in the swept range"
        );
        counts.push(count.load(Ordering::SeqCst));
    }
    counts
}

fn sweep(extra_doublings: u64) {
    // the first draws after warmup: step size and mass matrix are settled, and the step-size
    // search (re-run after the first mass-matrix change) is long over, so every evaluation in
    // this range is a leapfrog of a trajectory
    let first_draw = NUM_TUNE as usize;
    let last_draw = first_draw + 12;
    let counts = reference_counts(extra_doublings, first_draw, last_draw + 1);

    let mut failures = vec![];
    let mut checked = 0;
    for target_draw in first_draw..=last_draw {
        // evaluations (counts[d], counts[d+1]] belong to draw d
        for k in (counts[target_draw] + 1)..=counts[target_draw + 1] {
            checked += 1;
            let count = Arc::new(AtomicU64::new(0));
            let math = CpuMath::new(FaultyNormal {
                dim: DIM,
                count: count.clone(),
                fail_at: k,
            });
            let mut rng = rand::rngs::StdRng::seed_from_u64(SEED);
            let mut chain = settings(extra_doublings).new_chain(0, math, &mut rng);
            chain.set_position(&[0.5; DIM]).unwrap();

            let outcome = catch_unwind(AssertUnwindSafe(|| {
                for draw in 0..(target_draw + 3) {
                    let before = count.load(Ordering::SeqCst);
                    let (pos, _expanded, stats, progress) = chain
                        .expanded_draw()
                        .map_err(|e| format!("draw {draw} returned Err: {e}"))?;
                    let after = count.load(Ordering::SeqCst);
                    let faulted_here = before < k && k <= after;
                    if faulted_here && draw != target_draw {
                        return Err(format!("fault landed in draw {draw}, expected {target_draw}"));
                    }
                    if !pos.iter().all(|x| x.is_finite()) || !stats.point.logp.is_finite() {
                        return Err(format!("draw {draw}: invalid draw {pos:?}"));
                    }
                    if progress.diverging != stats.divergence.diverging {
                        return Err(format!("draw {draw}: inconsistent diverging flags"));
                    }
                    if faulted_here && !progress.diverging {
                        return Err(format!(
                            "the density failed (recoverably) during draw {draw}, but the \
                             transition was not reported as divergent (depth {})",
                            stats.depth
                        ));
                    }
                    if !faulted_here && draw >= first_draw && draw < target_draw && progress.diverging
                    {
                        return Err(format!("draw {draw}: divergence without a fault"));
                    }
                }
                Ok(())
            }));
            match outcome {
                Ok(Ok(())) => {}
                Ok(Err(msg)) => failures.push(format!("k={k} (draw {target_draw}): {msg}")),
                Err(_) => failures.push(format!("k={k} (draw {target_draw}): PANIC")),
            }
        }
    }
    assert!(checked > 30, "sweep too small: {checked}");
    assert!(
        failures.is_empty(),
        "extra_doublings={extra_doublings}: {} of {checked} fault positions violate the property, e.g.\n{}",
        failures.len(),
        failures
            .iter()
            .take(5)
            .cloned()
            .collect::<Vec<_>>()
            .join("\n")
    );
}

pub fn recoverable_error_is_a_divergence_default_settings() {
    sweep(0);
}

pub fn recoverable_error_is_a_divergence_with_extra_doublings() {
    sweep(1);
    sweep(2);
}
