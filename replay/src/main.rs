//! Native replay drivers (DESIGN §4 "Replay"): each sub-command runs one failing-input class
//! against the real crate and prints `REPLAY <name> PASS|FAIL <detail>`; exit 0 = property
//! clause held on the inputs tried, exit 1 = a failing input was found (printed).
use nuts_rs::{
    Chain, CpuLogpFunc, CpuMath, CpuMathError, DiagMclmcSettings, DiagNutsSettings, HasDims,
    LogpError, LowRankNutsSettings, Settings,
};
use rand::SeedableRng;
use std::collections::HashMap;
use std::sync::Arc;
use std::sync::atomic::{AtomicUsize, Ordering};
use thiserror::Error;

#[derive(Debug, Error)]
enum E {
    #[error("recoverable")]
    Rec,
    #[error("fatal")]
    Fatal,
}
impl LogpError for E {
    fn is_recoverable(&self) -> bool {
        matches!(self, E::Rec)
    }
}

#[derive(Clone, Copy, Debug, PartialEq)]
enum Fault {
    None,
    Rec,
    Fatal,
    NanLogp,
    InfLogp,
    NanGrad,
}

#[derive(Clone)]
struct D {
    dim: usize,
    count: Arc<AtomicUsize>,
    fail_at: usize,
    fault: Fault,
}
impl HasDims for D {
    fn dim_sizes(&self) -> HashMap<String, u64> {
        HashMap::from([("unconstrained_parameter".to_string(), self.dim as u64)])
    }
}
impl CpuLogpFunc for D {
    type LogpError = E;
    type FlowParameters = ();
    type ExpandedVector = Vec<f64>;
    fn dim(&self) -> usize {
        self.dim
    }
    fn logp(&mut self, p: &[f64], g: &mut [f64]) -> Result<f64, E> {
        let k = self.count.fetch_add(1, Ordering::SeqCst);
        let mut l = 0.0;
        for (x, g) in p.iter().zip(g.iter_mut()) {
            *g = -x;
            l -= 0.5 * x * x;
        }
        if k == self.fail_at {
            match self.fault {
                Fault::None => {}
                Fault::Rec => return Err(E::Rec),
                Fault::Fatal => return Err(E::Fatal),
                Fault::NanLogp => return Ok(f64::NAN),
                Fault::InfLogp => return Ok(f64::INFINITY),
                Fault::NanGrad => {
                    g[0] = f64::NAN;
                }
            }
        }
        Ok(l)
    }
    fn expand_vector<R: rand::Rng + ?Sized>(
        &mut self,
        _r: &mut R,
        a: &[f64],
    ) -> Result<Vec<f64>, CpuMathError> {
        Ok(a.to_vec())
    }
}

fn density(dim: usize, fail_at: usize, fault: Fault) -> (D, Arc<AtomicUsize>) {
    let c = Arc::new(AtomicUsize::new(0));
    (
        D {
            dim,
            count: c.clone(),
            fail_at,
            fault,
        },
        c,
    )
}

/// C06: exactly the first num_tune draws are reported as tuning; any num_tune >= 0 works.
fn tuning_flag(kind: &str, num_tunes: &[u64]) -> bool {
    let mut ok = true;
    for &nt in num_tunes {
        let r = std::panic::catch_unwind(|| {
            let (d, _) = density(3, usize::MAX, Fault::None);
            let mut rng = rand::rngs::StdRng::seed_from_u64(1);
            let total = nt + 5;
            let mut flags = vec![];
            macro_rules! run {
                ($s:expr) => {{
                    let mut c = $s.new_chain(0, CpuMath::new(d), &mut rng);
                    c.set_position(&[0.1, 0.2, 0.3]).unwrap();
                    for _ in 0..total {
                        let (_p, pr) = c.draw().unwrap();
                        flags.push(pr.tuning);
                    }
                }};
            }
            match kind {
                "nuts" => run!(DiagNutsSettings {
                    num_tune: nt,
                    num_draws: 5,
                    ..Default::default()
                }),
                "lowrank" => run!(LowRankNutsSettings {
                    num_tune: nt,
                    num_draws: 5,
                    ..Default::default()
                }),
                _ => run!(DiagMclmcSettings {
                    num_tune: nt,
                    num_draws: 5,
                    ..Default::default()
                }),
            }
            flags
        });
        match r {
            Err(_) => {
                println!("REPLAY tuning_flag FAIL kind={kind} num_tune={nt}: PANIC");
                ok = false;
            }
            Ok(flags) => {
                let expect: Vec<bool> = (0..flags.len() as u64).map(|i| i < nt).collect();
                if flags != expect {
                    let n = flags.iter().filter(|b| **b).count();
                    println!(
                        "REPLAY tuning_flag FAIL kind={kind} num_tune={nt}: {n} draws reported as tuning"
                    );
                    ok = false;
                }
            }
        }
    }
    if ok {
        println!("REPLAY tuning_flag PASS kind={kind} num_tune in {:?}", num_tunes);
    }
    ok
}

/// C05: an unrecoverable error at evaluation k of set_position must make set_position return Err.
fn fatal_in_init(max_k: usize) -> bool {
    let mut ok = true;
    for k in 0..max_k {
        let r = std::panic::catch_unwind(|| {
            let (d, cnt) = density(3, k, Fault::Fatal);
            let mut rng = rand::rngs::StdRng::seed_from_u64(1);
            let s = DiagNutsSettings {
                num_tune: 10,
                num_draws: 5,
                ..Default::default()
            };
            let mut c = s.new_chain(0, CpuMath::new(d), &mut rng);
            let r = c.set_position(&[0.1, 0.2, 0.3]);
            (r.is_ok(), cnt.load(Ordering::SeqCst))
        });
        match r {
            Err(_) => {
                println!("REPLAY fatal_in_init FAIL k={k}: PANIC");
                ok = false;
            }
            Ok((is_ok, evals)) => {
                if is_ok && evals > k {
                    println!(
                        "REPLAY fatal_in_init FAIL k={k}: unrecoverable error at evaluation {k} (of {evals}) but set_position returned Ok"
                    );
                    ok = false;
                }
            }
        }
    }
    if ok {
        println!("REPLAY fatal_in_init PASS k in 0..{max_k}");
    }
    ok
}

/// C05: faults during draws: no panic; fatal -> Err from draw; others -> finite positions.
fn faults_in_draws(max_k: usize) -> bool {
    let mut ok = true;
    for fault in [Fault::Rec, Fault::Fatal, Fault::NanLogp, Fault::InfLogp, Fault::NanGrad] {
        for k in 0..max_k {
            let r = std::panic::catch_unwind(|| {
                let (d, cnt) = density(3, k, fault);
                let mut rng = rand::rngs::StdRng::seed_from_u64(7);
                let s = DiagNutsSettings {
                    num_tune: 20,
                    num_draws: 5,
                    ..Default::default()
                };
                let mut c = s.new_chain(0, CpuMath::new(d), &mut rng);
                let mut saw_err = false;
                let mut bad = None;
                if c.set_position(&[0.1, 0.2, 0.3]).is_err() {
                    return (true, None, cnt.load(Ordering::SeqCst));
                }
                for i in 0..25 {
                    match c.draw() {
                        Err(e) => {
                            if std::env::var("REPLAY_VERBOSE").is_ok() {
                                eprintln!("fault={fault:?} k={k}: draw {i} returned Err: {e:#} (evals so far {})", cnt.load(Ordering::SeqCst));
                            }
                            saw_err = true;
                            break;
                        }
                        Ok((p, _)) => {
                            if p.iter().any(|x| !x.is_finite()) {
                                bad = Some(i);
                                break;
                            }
                        }
                    }
                }
                (saw_err, bad, cnt.load(Ordering::SeqCst))
            });
            match r {
                Err(_) => {
                    println!("REPLAY faults_in_draws FAIL fault={fault:?} k={k}: PANIC");
                    ok = false;
                }
                Ok((saw_err, bad, evals)) => {
                    if let Some(i) = bad {
                        println!("REPLAY faults_in_draws FAIL fault={fault:?} k={k}: non-finite position at draw {i}");
                        ok = false;
                    }
                    if fault == Fault::Fatal && !saw_err && evals > k {
                        println!("REPLAY faults_in_draws FAIL fault={fault:?} k={k}: unrecoverable error swallowed");
                        ok = false;
                    }
                    if fault != Fault::Fatal && saw_err && k >= 2 {
                        println!("REPLAY faults_in_draws FAIL fault={fault:?} k={k}: recoverable fault surfaced as Err");
                        ok = false;
                    }
                }
            }
        }
    }
    if ok {
        println!("REPLAY faults_in_draws PASS k in 0..{max_k}");
    }
    ok
}

fn main() {
    let args: Vec<String> = std::env::args().collect();
    let cmd = args.get(1).map(|s| s.as_str()).unwrap_or("");
    std::panic::set_hook(Box::new(|_| {}));
    let ok = match cmd {
        "tuning_flag" => {
            let kind = args.get(2).map(|s| s.as_str()).unwrap_or("nuts");
            let nts: Vec<u64> = if args.len() > 3 {
                args[3..].iter().filter_map(|s| s.parse().ok()).collect()
            } else {
                vec![0, 1, 2, 3, 7, 10, 50, 100]
            };
            tuning_flag(kind, &nts)
        }
        "fatal_in_init" => fatal_in_init(args.get(2).and_then(|s| s.parse().ok()).unwrap_or(8)),
        "faults_in_draws" => faults_in_draws(args.get(2).and_then(|s| s.parse().ok()).unwrap_or(40)),
        _ => {
            eprintln!("usage: nuts-replay tuning_flag <nuts|lowrank|mclmc> [num_tune..] | fatal_in_init [k] | faults_in_draws [k]");
            std::process::exit(2);
        }
    };
    std::process::exit(if ok { 0 } else { 1 });
}
