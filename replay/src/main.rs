//! Native replay drivers (DESIGN §4 "Replay"): each sub-command runs one failing-input class
//! against the real crate and prints `REPLAY <name> PASS|FAIL <detail>`; exit 0 = property
//! clause held on the inputs tried, exit 1 = a failing input was found (printed).
use nuts_rs::{
    Chain, CpuLogpFunc, CpuMath, CpuMathError, DiagMclmcSettings, DiagNutsSettings, HasDims,
    LogpError, LowRankNutsSettings, Settings,
};
use rand::SeedableRng;
use std::collections::HashMap;
use std::sync::Arc;
use std::sync::atomic::{AtomicUsize, Ordering};
use thiserror::Error;

#[derive(Debug, Error)]
enum E {
    #[error("recoverable")]
    Rec,
    #[error("fatal")]
    Fatal,
}
impl LogpError for E {
    fn is_recoverable(&self) -> bool {
        matches!(self, E::Rec)
    }
}

#[derive(Clone, Copy, Debug, PartialEq)]
enum Fault {
    None,
    Rec,
    Fatal,
    NanLogp,
    InfLogp,
    NanGrad,
}

#[derive(Clone)]
struct D {
    dim: usize,
    count: Arc<AtomicUsize>,
    fail_at: usize,
    fault: Fault,
}
impl HasDims for D {
    fn dim_sizes(&self) -> HashMap<String, u64> {
        HashMap::from([("unconstrained_parameter".to_string(), self.dim as u64)])
    }
}
impl CpuLogpFunc for D {
    type LogpError = E;
    type FlowParameters = ();
    type ExpandedVector = Vec<f64>;
    fn dim(&self) -> usize {
        self.dim
    }
    fn logp(&mut self, p: &[f64], g: &mut [f64]) -> Result<f64, E> {
        let k = self.count.fetch_add(1, Ordering::SeqCst);
        let mut l = 0.0;
        for (x, g) in p.iter().zip(g.iter_mut()) {
            *g = -x;
            l -= 0.5 * x * x;
        }
        if k == self.fail_at {
            match self.fault {
                Fault::None => {}
                Fault::Rec => return Err(E::Rec),
                Fault::Fatal => return Err(E::Fatal),
                Fault::NanLogp => return Ok(f64::NAN),
                Fault::InfLogp => return Ok(f64::INFINITY),
                Fault::NanGrad => {
                    g[0] = f64::NAN;
                }
            }
        }
        Ok(l)
    }
    fn expand_vector<R: rand::Rng + ?Sized>(
        &mut self,
        _r: &mut R,
        a: &[f64],
    ) -> Result<Vec<f64>, CpuMathError> {
        Ok(a.to_vec())
    }
}

fn density(dim: usize, fail_at: usize, fault: Fault) -> (D, Arc<AtomicUsize>) {
    let c = Arc::new(AtomicUsize::new(0));
    (
        D {
            dim,
            count: c.clone(),
            fail_at,
            fault,
        },
        c,
    )
}

/// C06: exactly the first num_tune draws are reported as tuning; any num_tune >= 0 works.
fn tuning_flag(kind: &str, num_tunes: &[u64]) -> bool {
    let mut ok = true;
    for &nt in num_tunes {
        let r = std::panic::catch_unwind(|| {
            let (d, _) = density(3, usize::MAX, Fault::None);
            let mut rng = rand::rngs::StdRng::seed_from_u64(1);
            let total = nt + 5;
            let mut flags = vec![];
            macro_rules! run {
                ($s:expr) => {{
                    let mut c = $s.new_chain(0, CpuMath::new(d), &mut rng);
                    c.set_position(&[0.1, 0.2, 0.3]).unwrap();
                    for _ in 0..total {
                        let (_p, pr) = c.draw().unwrap();
                        flags.push(pr.tuning);
                    }
                }};
            }
            match kind {
                "nuts" => run!(DiagNutsSettings {
                    num_tune: nt,
                    num_draws: 5,
                    ..Default::default()
                }),
                "lowrank" => run!(LowRankNutsSettings {
                    num_tune: nt,
                    num_draws: 5,
                    ..Default::default()
                }),
                _ => run!(DiagMclmcSettings {
                    num_tune: nt,
                    num_draws: 5,
                    ..Default::default()
                }),
            }
            flags
        });
        match r {
            Err(_) => {
                println!("REPLAY tuning_flag FAIL kind={kind} num_tune={nt}: PANIC");
                ok = false;
            }
            Ok(flags) => {
                let expect: Vec<bool> = (0..flags.len() as u64).map(|i| i < nt).collect();
                if flags != expect {
                    let n = flags.iter().filter(|b| **b).count();
                    println!(
                        "REPLAY tuning_flag FAIL kind={kind} num_tune={nt}: {n} draws reported as tuning"
                    );
                    ok = false;
                }
            }
        }
    }
    if ok {
        println!("REPLAY tuning_flag PASS kind={kind} num_tune in {:?}", num_tunes);
    }
    ok
}

/// C05: an unrecoverable error at evaluation k of set_position must make set_position return Err.
fn fatal_in_init(max_k: usize) -> bool {
    let mut ok = true;
    for k in 0..max_k {
        let r = std::panic::catch_unwind(|| {
            let (d, cnt) = density(3, k, Fault::Fatal);
            let mut rng = rand::rngs::StdRng::seed_from_u64(1);
            let s = DiagNutsSettings {
                num_tune: 10,
                num_draws: 5,
                ..Default::default()
            };
            let mut c = s.new_chain(0, CpuMath::new(d), &mut rng);
            let r = c.set_position(&[0.1, 0.2, 0.3]);
            (r.is_ok(), cnt.load(Ordering::SeqCst))
        });
        match r {
            Err(_) => {
                println!("REPLAY fatal_in_init FAIL k={k}: PANIC");
                ok = false;
            }
            Ok((is_ok, evals)) => {
                if is_ok && evals > k {
                    println!(
                        "REPLAY fatal_in_init FAIL k={k}: unrecoverable error at evaluation {k} (of {evals}) but set_position returned Ok"
                    );
                    ok = false;
                }
            }
        }
    }
    if ok {
        println!("REPLAY fatal_in_init PASS k in 0..{max_k}");
    }
    ok
}

/// C05: faults during draws: no panic; fatal -> Err from draw; others -> finite positions.
fn faults_in_draws(max_k: usize) -> bool {
    let mut ok = true;
    for fault in [Fault::Rec, Fault::Fatal, Fault::NanLogp, Fault::InfLogp, Fault::NanGrad] {
        for k in 0..max_k {
            let r = std::panic::catch_unwind(|| {
                let (d, cnt) = density(3, k, fault);
                let mut rng = rand::rngs::StdRng::seed_from_u64(7);
                let s = DiagNutsSettings {
                    num_tune: 20,
                    num_draws: 5,
                    ..Default::default()
                };
                let mut c = s.new_chain(0, CpuMath::new(d), &mut rng);
                let mut saw_err = false;
                let mut bad = None;
                if c.set_position(&[0.1, 0.2, 0.3]).is_err() {
                    // a fault during initialisation legitimately makes set_position fail
                    // (the caller retries with another start point): nothing to check here
                    return (fault == Fault::Fatal, None, usize::MAX);
                }
                for i in 0..25 {
                    match c.draw() {
                        Err(e) => {
                            if std::env::var("REPLAY_VERBOSE").is_ok() {
                                eprintln!("fault={fault:?} k={k}: draw {i} returned Err: {e:#} (evals so far {})", cnt.load(Ordering::SeqCst));
                            }
                            saw_err = true;
                            break;
                        }
                        Ok((p, _)) => {
                            if p.iter().any(|x| !x.is_finite()) {
                                bad = Some(i);
                                break;
                            }
                        }
                    }
                }
                (saw_err, bad, cnt.load(Ordering::SeqCst))
            });
            match r {
                Err(_) => {
                    println!("REPLAY faults_in_draws FAIL fault={fault:?} k={k}: PANIC");
                    ok = false;
                }
                Ok((saw_err, bad, evals)) => {
                    if let Some(i) = bad {
                        println!("REPLAY faults_in_draws FAIL fault={fault:?} k={k}: non-finite position at draw {i}");
                        ok = false;
                    }
                    if evals == usize::MAX {
                        continue;
                    }
                    if fault == Fault::Fatal && !saw_err && evals > k {
                        println!("REPLAY faults_in_draws FAIL fault={fault:?} k={k}: unrecoverable error swallowed");
                        ok = false;
                    }
                    if fault != Fault::Fatal && saw_err && k >= 2 {
                        println!("REPLAY faults_in_draws FAIL fault={fault:?} k={k}: recoverable fault surfaced as Err");
                        ok = false;
                    }
                }
            }
        }
    }
    if ok {
        println!("REPLAY faults_in_draws PASS k in 0..{max_k}");
    }
    ok
}

/// C03: a model with parameters integrates at least one step per draw whenever maxdepth >= 1
/// (also with target_integration_time set), and the step size stays finite.
fn min_one_step(targets: &[f64]) -> bool {
    let mut ok = true;
    for &t in targets {
        let r = std::panic::catch_unwind(|| {
            let (d, _) = density(3, usize::MAX, Fault::None);
            let mut rng = rand::rngs::StdRng::seed_from_u64(3);
            let s = DiagNutsSettings {
                num_tune: 30,
                num_draws: 10,
                target_integration_time: Some(t),
                ..Default::default()
            };
            let mut c = s.new_chain(0, CpuMath::new(d), &mut rng);
            c.set_position(&[0.1, 0.2, 0.3]).unwrap();
            let mut zero_steps = vec![];
            let mut bad_step = None;
            let mut moved = false;
            let mut last: Option<Box<[f64]>> = None;
            for i in 0..40 {
                let (p, pr) = c.draw().unwrap();
                if pr.num_steps == 0 {
                    zero_steps.push(i);
                }
                if !pr.step_size.is_finite() && bad_step.is_none() {
                    bad_step = Some(i);
                }
                if let Some(l) = &last {
                    if l != &p {
                        moved = true;
                    }
                }
                last = Some(p);
            }
            (zero_steps, bad_step, moved)
        });
        match r {
            Err(_) => {
                println!("REPLAY min_one_step FAIL target_integration_time={t}: PANIC");
                ok = false;
            }
            Ok((zero, bad, moved)) => {
                if !zero.is_empty() || bad.is_some() {
                    println!(
                        "REPLAY min_one_step FAIL target_integration_time={t}: {} of 40 draws integrated 0 steps (first: draw {:?}); non-finite step size from draw {:?}; chain moved: {moved}",
                        zero.len(),
                        zero.first(),
                        bad
                    );
                    ok = false;
                }
            }
        }
    }
    if ok {
        println!("REPLAY min_one_step PASS target_integration_time in {:?}", targets);
    }
    ok
}

/// C14.3 / F5: the HashMap backend has to finalise a trace that contains String-typed variables
/// (every NUTS run records the string statistic `divergence_message`).  Runs the real `Sampler`
/// with `HashMapConfig` through the public API and checks that finalisation succeeds and that
/// every non-event column holds num_tune + num_draws entries (warmup before sampling draws).
struct HmModel {
    dim: usize,
}
impl nuts_rs::Model for HmModel {
    type Math<'m>
        = CpuMath<D>
    where
        Self: 'm;
    fn math<R: rand::Rng + ?Sized>(&self, _r: &mut R) -> anyhow::Result<Self::Math<'_>> {
        let (d, _) = density(self.dim, usize::MAX, Fault::None);
        Ok(CpuMath::new(d))
    }
    fn init_position<R: rand::Rng + ?Sized>(&self, _r: &mut R, p: &mut [f64]) -> anyhow::Result<()> {
        for (i, x) in p.iter_mut().enumerate() {
            *x = 0.1 * (i as f64 + 1.0);
        }
        Ok(())
    }
}

fn hashmap_string(cases: &[(u64, u64)]) -> bool {
    use nuts_rs::{HashMapConfig, HashMapValue, Sampler, SamplerWaitResult};
    let mut ok = true;
    for &(num_tune, num_draws) in cases {
        let r = std::panic::catch_unwind(|| -> anyhow::Result<Vec<(Vec<String>, Vec<(String, usize)>)>> {
            let settings = DiagNutsSettings {
                num_tune,
                num_draws,
                num_chains: 2,
                seed: 42,
                ..Default::default()
            };
            let mut sampler = Some(Sampler::new(HmModel { dim: 3 }, settings, HashMapConfig::new(), 1, None)?);
            let traces = loop {
                match sampler.take().unwrap().wait_timeout(std::time::Duration::from_millis(100)) {
                    SamplerWaitResult::Trace(t) => break t,
                    SamplerWaitResult::Timeout(s) => sampler = Some(s),
                    SamplerWaitResult::Err(e, _) => return Err(e),
                }
            };
            let mut out = vec![];
            for t in traces.iter() {
                let mut strings = vec![];
                let mut lens = vec![];
                for (name, v) in t.stats.iter().chain(t.draws.iter()) {
                    match v {
                        HashMapValue::String(s) => {
                            strings.push(name.clone());
                            let _ = s;
                        }
                        HashMapValue::F64(x) => lens.push((name.clone(), x.len())),
                        HashMapValue::F32(x) => lens.push((name.clone(), x.len())),
                        HashMapValue::Bool(x) => lens.push((name.clone(), x.len())),
                        HashMapValue::I64(x) => lens.push((name.clone(), x.len())),
                        HashMapValue::U64(x) => lens.push((name.clone(), x.len())),
                    }
                }
                out.push((strings, lens));
            }
            Ok(out)
        });
        match r {
            Err(payload) => {
                let msg = payload
                    .downcast_ref::<String>()
                    .cloned()
                    .or_else(|| payload.downcast_ref::<&str>().map(|s| s.to_string()))
                    .unwrap_or_else(|| "<non-string panic payload>".to_string());
                println!("REPLAY hashmap_string FAIL num_tune={num_tune} num_draws={num_draws}: PANIC in Sampler/HashMapConfig finalisation: {msg}");
                ok = false;
            }
            Ok(Err(e)) => {
                println!("REPLAY hashmap_string FAIL num_tune={num_tune} num_draws={num_draws}: sampler returned Err: {e:#}");
                ok = false;
            }
            Ok(Ok(chains)) => {
                let total = (num_tune + num_draws) as usize;
                for (c, (strings, lens)) in chains.iter().enumerate() {
                    if strings.is_empty() {
                        println!("REPLAY hashmap_string FAIL num_tune={num_tune} num_draws={num_draws}: chain {c}: no String-typed column in the finalised trace");
                        ok = false;
                    }
                    // scalar per-draw statistics that every draw records
                    for key in ["depth", "n_steps", "energy", "diverging"] {
                        if let Some((_, n)) = lens.iter().find(|(k, _)| k == key) {
                            if *n != total {
                                println!("REPLAY hashmap_string FAIL num_tune={num_tune} num_draws={num_draws}: chain {c}: column {key} has {n} entries, expected {total}");
                                ok = false;
                            }
                        }
                    }
                }
                if std::env::var("REPLAY_VERBOSE").is_ok() {
                    eprintln!("num_tune={num_tune} num_draws={num_draws}: {:?}", chains);
                }
            }
        }
    }
    if ok {
        println!("REPLAY hashmap_string PASS (num_tune, num_draws) in {:?}", cases);
    }
    ok
}

/// C13 (F4): an unrecoverable density error raised DURING SAMPLING (after initialisation succeeded)
/// in one or several chains of the real parallel `Sampler` must come back from
/// `wait_timeout` as `SamplerWaitResult::Err`.  It must not panic the calling thread (today:
/// `sampler.expanded_draw().unwrap()` in the chain closure panics, rayon re-raises the panic in the
/// controller, `abort()` re-raises it in the caller), report success, or hang.
struct ChainFaultStats {
    /// number of `Model::math` calls so far (call 0 is the controller's, calls 1.. are the chains')
    math_calls: AtomicUsize,
    init_calls: AtomicUsize,
    /// (math-call ordinal, evaluation counter of that density)
    counters: std::sync::Mutex<Vec<(usize, Arc<AtomicUsize>)>>,
}
struct ChainFaultModel {
    dim: usize,
    fail_at: usize,
    /// math-call ordinals whose density raises `Fault::Fatal` at evaluation `fail_at`
    faulty: Vec<usize>,
    stats: Arc<ChainFaultStats>,
}
impl nuts_rs::Model for ChainFaultModel {
    type Math<'m>
        = CpuMath<D>
    where
        Self: 'm;
    fn math<R: rand::Rng + ?Sized>(&self, _r: &mut R) -> anyhow::Result<Self::Math<'_>> {
        let ord = self.stats.math_calls.fetch_add(1, Ordering::SeqCst);
        let k = if self.faulty.contains(&ord) { self.fail_at } else { usize::MAX };
        let (d, c) = density(self.dim, k, Fault::Fatal);
        self.stats.counters.lock().unwrap().push((ord, c));
        Ok(CpuMath::new(d))
    }
    fn init_position<R: rand::Rng + ?Sized>(&self, _r: &mut R, p: &mut [f64]) -> anyhow::Result<()> {
        self.stats.init_calls.fetch_add(1, Ordering::SeqCst);
        for (i, x) in p.iter_mut().enumerate() {
            *x = 0.1 * (i as f64 + 1.0);
        }
        Ok(())
    }
}

fn chain_unwrap() -> bool {
    use nuts_rs::{HashMapConfig, Sampler, SamplerWaitResult};
    use std::time::{Duration, Instant};
    enum Outcome {
        Err(String),
        Success,
        Hang,
    }
    let mut ok = true;
    // (number of chains, faulty math-call ordinals, evaluation index of the fault)
    let cases: Vec<(usize, Vec<usize>, usize)> = vec![
        (1, vec![1], 60),            // single chain, fault during warm-up
        (1, vec![1], 2500),          // single chain, fault during the sampling phase
        (4, vec![2], 60),            // one faulty chain among healthy ones
        (4, vec![1, 2, 3, 4], 2500), // every chain faulty
    ];
    for (chains, faulty, k) in cases {
        let stats = Arc::new(ChainFaultStats {
            math_calls: AtomicUsize::new(0),
            init_calls: AtomicUsize::new(0),
            counters: std::sync::Mutex::new(vec![]),
        });
        let st = stats.clone();
        let fl = faulty.clone();
        let r = std::panic::catch_unwind(std::panic::AssertUnwindSafe(move || {
            let settings = DiagNutsSettings {
                num_tune: 100,
                num_draws: 1500,
                num_chains: chains,
                seed: 42,
                ..Default::default()
            };
            let model = ChainFaultModel { dim: 3, fail_at: k, faulty: fl, stats: st };
            let mut sampler = match Sampler::new(model, settings, HashMapConfig::new(), 4, None) {
                Ok(s) => s,
                Err(e) => return Outcome::Err(format!("Sampler::new: {e:#}")),
            };
            // watchdog: give up after 60 s
            let deadline = Instant::now() + Duration::from_secs(60);
            loop {
                match sampler.wait_timeout(Duration::from_millis(200)) {
                    SamplerWaitResult::Trace(_) => return Outcome::Success,
                    SamplerWaitResult::Err(e, _) => return Outcome::Err(format!("{e:#}")),
                    SamplerWaitResult::Timeout(s) => {
                        if Instant::now() > deadline {
                            std::mem::forget(s);
                            return Outcome::Hang;
                        }
                        sampler = s;
                    }
                }
            }
        }));
        let reached = stats
            .counters
            .lock()
            .unwrap()
            .iter()
            .any(|(ord, c)| faulty.contains(ord) && c.load(Ordering::SeqCst) > k);
        let inits = stats.init_calls.load(Ordering::SeqCst);
        let tag = format!("chains={chains} faulty_math_calls={faulty:?} fatal_at_evaluation={k} init_position_calls={inits}");
        match r {
            Err(_) => {
                println!("REPLAY chain_unwrap FAIL {tag}: the thread calling wait_timeout/abort PANICKED (unrecoverable density error not surfaced as Err)");
                ok = false;
            }
            Ok(Outcome::Success) => {
                if reached {
                    println!("REPLAY chain_unwrap FAIL {tag}: fault was raised but the sampler reported SUCCESS");
                } else {
                    println!("REPLAY chain_unwrap FAIL {tag}: fault index never reached (driver mis-sized), nothing was tested");
                }
                ok = false;
            }
            Ok(Outcome::Hang) => {
                println!("REPLAY chain_unwrap FAIL {tag}: no result after 60 s (hang)");
                ok = false;
            }
            Ok(Outcome::Err(msg)) => {
                if !reached {
                    println!("REPLAY chain_unwrap FAIL {tag}: Err({msg}) although the fault index was never reached");
                    ok = false;
                } else if std::env::var("REPLAY_VERBOSE").is_ok() {
                    eprintln!("{tag}: surfaced as Err: {msg}");
                }
            }
        }
    }
    if ok {
        println!("REPLAY chain_unwrap PASS unrecoverable density error during sampling surfaced as SamplerWaitResult::Err (1 and 4 chains, warm-up and sampling phase)");
    }
    ok
}

/// C13 (F9): the CSV backend must not panic a chain thread (and through the poisoned trace lock the thread
/// calling `wait_timeout`) for any `CsvConfig`: `with_precision` accepts every usize, core::fmt panics
/// ("Formatting argument out of range") for a run-time precision above u16::MAX.
fn csv_precision(precisions: &[usize]) -> bool {
    use nuts_rs::{CsvConfig, Sampler, SamplerWaitResult};
    use std::time::{Duration, Instant};
    let mut ok = true;
    for &prec in precisions {
        let dir = std::env::temp_dir().join(format!("nuts_replay_csv_{}_{}", std::process::id(), prec));
        let _ = std::fs::remove_dir_all(&dir);
        let d2 = dir.clone();
        let r = std::panic::catch_unwind(std::panic::AssertUnwindSafe(move || {
            let stats = Arc::new(ChainFaultStats {
                math_calls: AtomicUsize::new(0),
                init_calls: AtomicUsize::new(0),
                counters: std::sync::Mutex::new(vec![]),
            });
            let settings = DiagNutsSettings { num_tune: 5, num_draws: 10, num_chains: 1, seed: 123, ..Default::default() };
            let model = ChainFaultModel { dim: 3, fail_at: usize::MAX, faulty: vec![], stats };
            let mut sampler = match Sampler::new(model, settings, CsvConfig::new(&d2).with_precision(prec), 1, None) {
                Ok(s) => s,
                Err(e) => return format!("err: Sampler::new: {e:#}"),
            };
            let deadline = Instant::now() + Duration::from_secs(60);
            loop {
                match sampler.wait_timeout(Duration::from_millis(200)) {
                    SamplerWaitResult::Trace(_) => return "trace".to_string(),
                    SamplerWaitResult::Err(e, _) => return format!("err: {e:#}"),
                    SamplerWaitResult::Timeout(s) => {
                        if Instant::now() > deadline {
                            return "hang".to_string();
                        }
                        sampler = s;
                    }
                }
            }
        }));
        let _ = std::fs::remove_dir_all(&dir);
        match r {
            Err(_) => {
                println!("REPLAY csv_precision FAIL precision={prec}: the thread calling wait_timeout PANICKED (formatting panic in the CSV backend not surfaced as Err)");
                ok = false;
            }
            Ok(s) if s == "hang" => {
                println!("REPLAY csv_precision FAIL precision={prec}: no result after 60 s");
                ok = false;
            }
            Ok(s) => {
                if std::env::var("REPLAY_VERBOSE").is_ok() {
                    eprintln!("precision={prec}: {s}");
                }
            }
        }
    }
    if ok {
        println!("REPLAY csv_precision PASS precisions {:?}: trace or Err, no panic", precisions);
    }
    ok
}

#[allow(dead_code)]
mod fault_divergence;

#[allow(dead_code)]
mod csv_matrix;

/// C14 (CSV backend): a 2x3 matrix variable is re-read from the CSV file; column `m.i.j` must hold element (i,j).
fn csv_matrix_driver() -> bool {
    match std::panic::catch_unwind(|| csv_matrix::csv_non_square_matrix_columns_hold_their_own_elements()) {
        Ok(Ok(())) => {
            println!("REPLAY csv_matrix PASS 2x3 matrix variable: every CSV column holds its own element");
            true
        }
        Ok(Err(e)) => {
            println!("REPLAY csv_matrix FAIL {}", format!("{e:#}").replace('\n', " | "));
            false
        }
        Err(p) => {
            let msg = p.downcast_ref::<String>().cloned().or_else(|| p.downcast_ref::<&str>().map(|s| s.to_string())).unwrap_or_default();
            println!("REPLAY csv_matrix FAIL {}", msg.replace('\n', " | "));
            false
        }
    }
}

fn fault_is_divergence() -> bool {
    let mut ok = true;
    for (name, f) in [("extra_doublings=0", fault_divergence::recoverable_error_is_a_divergence_default_settings as fn()),
                      ("extra_doublings=1,2", fault_divergence::recoverable_error_is_a_divergence_with_extra_doublings as fn())] {
        match std::panic::catch_unwind(f) {
            Ok(()) => {}
            Err(p) => {
                let msg = p.downcast_ref::<String>().cloned().or_else(|| p.downcast_ref::<&str>().map(|s| s.to_string())).unwrap_or_default();
                println!("REPLAY fault_is_divergence FAIL {name}: {}", msg.replace('\n', " | "));
                ok = false;
            }
        }
    }
    if ok {
        println!("REPLAY fault_is_divergence PASS recoverable fault at every evaluation of 13 post-warmup draws, extra_doublings 0, 1, 2");
    }
    ok
}

fn main() {
    let args: Vec<String> = std::env::args().collect();
    let cmd = args.get(1).map(|s| s.as_str()).unwrap_or("");
    std::panic::set_hook(Box::new(|_| {}));
    let ok = match cmd {
        "tuning_flag" => {
            let kind = args.get(2).map(|s| s.as_str()).unwrap_or("nuts");
            let nts: Vec<u64> = if args.len() > 3 {
                args[3..].iter().filter_map(|s| s.parse().ok()).collect()
            } else {
                vec![0, 1, 2, 3, 7, 10, 50, 100]
            };
            tuning_flag(kind, &nts)
        }
        "fatal_in_init" => fatal_in_init(args.get(2).and_then(|s| s.parse().ok()).unwrap_or(8)),
        "faults_in_draws" => faults_in_draws(args.get(2).and_then(|s| s.parse().ok()).unwrap_or(40)),
        "min_one_step" => {
            let ts: Vec<f64> = if args.len() > 2 {
                args[2..].iter().filter_map(|s| s.parse().ok()).collect()
            } else {
                vec![10.0, 1.0, 0.05, 0.001]
            };
            min_one_step(&ts)
        }
        "hashmap_string" => {
            // optional arguments: pairs "num_tune num_draws"
            let nums: Vec<u64> = args[2.min(args.len())..].iter().filter_map(|s| s.parse().ok()).collect();
            let cases: Vec<(u64, u64)> = if nums.len() >= 2 {
                nums.chunks_exact(2).map(|c| (c[0], c[1])).collect()
            } else {
                vec![(10, 5), (0, 3), (4, 0)]
            };
            hashmap_string(&cases)
        }
        "chain_unwrap" => chain_unwrap(),
        "fault_is_divergence" => fault_is_divergence(),
        "csv_matrix" => csv_matrix_driver(),
        "csv_precision" => {
            let ps: Vec<usize> = args[2.min(args.len())..].iter().filter_map(|s| s.parse().ok()).collect();
            csv_precision(if ps.is_empty() { &[6, 65_535, 65_536, 1_000_000] } else { &ps })
        }
        _ => {
            eprintln!("usage: nuts-replay tuning_flag <nuts|lowrank|mclmc> [num_tune..] | fatal_in_init [k] | faults_in_draws [k]");
            std::process::exit(2);
        }
    };
    std::process::exit(if ok { 0 } else { 1 });
}
