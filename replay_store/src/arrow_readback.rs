// Native confirmation for unit arrowstore (public API only).  Copy to <tree>/tests/arrow_readback.rs and run
//     CARGO_NET_OFFLINE=true cargo test --offline --features arrow --test arrow_readback -- --nocapture --test-threads 1
// On the pinned tree: `arrow_values_read_back` passes (every value / null / tensor row written through ArrowConfig is
// read back and equals what HashMapConfig returns for the same run; store_warmup=false = the last num_draws rows),
// `arrow_flattened_option_group` FAILS ("all columns in a record batch must have the specified row count"; with the
// optional group declared BEFORE `x` the chain thread panics "Draw name mismatch: expected e1, got x").
// With finding_positional_zip.patch both pass.
// Read-back test for the Arrow backend (public API only): every value recorded through `Sampler` with
// `ArrowConfig` is read back from the record batches and compared with what `HashMapConfig` returns for the
// same model, settings and seed (C14: "all backends agree with each other").


use std::collections::HashMap;
use std::time::Duration;

use arrow::array::{
    Array, BooleanArray, Float64Array, Int64Array, LargeListArray, StringArray, UInt64Array,
};
use arrow::datatypes::DataType;
use nuts_rs::{
    ArrowConfig, ArrowTrace, CpuLogpFunc, CpuMath, CpuMathError, DiagNutsSettings, HashMapConfig,
    HashMapValue, LogpError, Model, Sampler, SamplerWaitResult, Storable,
};
use nuts_storable::HasDims;
use rand::{Rng, RngExt};
use thiserror::Error;

#[derive(Debug, Error)]
enum MyErr {
    #[error("recoverable")]
    Rec,
}
impl LogpError for MyErr {
    fn is_recoverable(&self) -> bool {
        true
    }
}

#[derive(Clone)]
struct Logp {
    n: usize,
}
impl HasDims for Logp {
    fn dim_sizes(&self) -> HashMap<String, u64> {
        HashMap::from([("x".to_string(), self.n as u64)])
    }
}

#[derive(Storable)]
struct Expanded {
    #[storable(dims("x"))]
    x: Vec<f64>,
    first: f64,
    count: u64,
    neg: i64,
    pos: bool,
    label: String,
}

impl CpuLogpFunc for Logp {
    type LogpError = MyErr;
    type FlowParameters = ();
    type ExpandedVector = Expanded;
    fn dim(&self) -> usize {
        self.n
    }
    fn logp(&mut self, x: &[f64], grad: &mut [f64]) -> Result<f64, MyErr> {
        // a wall: positions beyond it are a recoverable error => divergences (event statistics get values)
        if x[0] > 1.2 {
            return Err(MyErr::Rec);
        }
        let mut l = 0.0;
        for i in 0..x.len() {
            l -= 0.5 * x[i] * x[i];
            grad[i] = -x[i];
        }
        Ok(l)
    }
    fn expand_vector<R: Rng + ?Sized>(&mut self, _rng: &mut R, a: &[f64]) -> Result<Expanded, CpuMathError> {
        Ok(Expanded {
            x: a.to_vec(),
            first: a[0],
            count: (a[0].abs() * 1000.0) as u64,
            neg: -((a[1].abs() * 1000.0) as i64),
            pos: a[0] > 0.0,
            label: format!("l{}", (a[0] * 10.0) as i64),
        })
    }
}

struct M {
    math: CpuMath<Logp>,
}
impl Model for M {
    type Math<'m>
        = CpuMath<Logp>
    where
        Self: 'm;
    fn math<R: Rng + ?Sized>(&self, _rng: &mut R) -> anyhow::Result<Self::Math<'_>> {
        Ok(self.math.clone())
    }
    fn init_position<R: Rng + ?Sized>(&self, rng: &mut R, p: &mut [f64]) -> anyhow::Result<()> {
        for v in p.iter_mut() {
            *v = rng.random_range(-1.0..1.0);
        }
        Ok(())
    }
}

const N: usize = 3;
const TUNE: u64 = 40;
const DRAWS: u64 = 25;

fn settings() -> DiagNutsSettings {
    let mut s = DiagNutsSettings::default();
    s.num_chains = 1;
    s.num_tune = TUNE;
    s.num_draws = DRAWS;
    s.seed = 7;
    s
}
fn model() -> M {
    M { math: CpuMath::new(Logp { n: N }) }
}

fn run_arrow(store_warmup: bool) -> ArrowTrace {
    let mut conf = ArrowConfig::default();
    conf.store_warmup = store_warmup;
    let sampler = Sampler::new(model(), settings(), conf, 1, None).unwrap();
    match sampler.wait_timeout(Duration::from_secs(60)) {
        SamplerWaitResult::Trace(mut t) => {
            assert_eq!(t.len(), 1);
            t.remove(0)
        }
        SamplerWaitResult::Err(e, _) => panic!("arrow run failed: {e:?}"),
        SamplerWaitResult::Timeout(_) => panic!("timeout"),
    }
}

/// one column, flattened: (per row: None = null, Some(elements as strings))
fn column_rows(col: &dyn Array) -> Vec<Option<Vec<String>>> {
    fn prim(col: &dyn Array, i: usize) -> String {
        match col.data_type() {
            DataType::Float64 => format!("{:?}", col.as_any().downcast_ref::<Float64Array>().unwrap().value(i)),
            DataType::UInt64 => format!("{:?}", col.as_any().downcast_ref::<UInt64Array>().unwrap().value(i)),
            DataType::Int64 => format!("{:?}", col.as_any().downcast_ref::<Int64Array>().unwrap().value(i)),
            DataType::Boolean => format!("{:?}", col.as_any().downcast_ref::<BooleanArray>().unwrap().value(i)),
            DataType::Utf8 => col.as_any().downcast_ref::<StringArray>().unwrap().value(i).to_string(),
            other => panic!("unexpected type {other}"),
        }
    }
    let mut out = vec![];
    match col.data_type() {
        DataType::LargeList(_) => {
            let l = col.as_any().downcast_ref::<LargeListArray>().unwrap();
            for i in 0..l.len() {
                if l.is_null(i) {
                    out.push(None);
                } else {
                    let v = l.value(i);
                    assert_eq!(v.null_count(), 0);
                    out.push(Some((0..v.len()).map(|j| prim(v.as_ref(), j)).collect()));
                }
            }
        }
        _ => {
            for i in 0..col.len() {
                if col.is_null(i) {
                    out.push(None);
                } else {
                    out.push(Some(vec![prim(col, i)]));
                }
            }
        }
    }
    out
}

fn hm_flat(v: &HashMapValue) -> Vec<String> {
    match v {
        HashMapValue::F64(v) => v.iter().map(|x| format!("{:?}", x)).collect(),
        HashMapValue::F32(v) => v.iter().map(|x| format!("{:?}", x)).collect(),
        HashMapValue::Bool(v) => v.iter().map(|x| format!("{:?}", x)).collect(),
        HashMapValue::I64(v) => v.iter().map(|x| format!("{:?}", x)).collect(),
        HashMapValue::U64(v) => v.iter().map(|x| format!("{:?}", x)).collect(),
        HashMapValue::String(v) => v.clone(),
    }
}

pub fn arrow_values_read_back() {
    // reference: the HashMap backend (keeps warmup and sampling draws, in recording order, absent values skipped)
    let sampler = Sampler::new(model(), settings(), HashMapConfig::new(), 1, None).unwrap();
    let hm = match sampler.wait_timeout(Duration::from_secs(60)) {
        SamplerWaitResult::Trace(mut t) => t.remove(0),
        SamplerWaitResult::Err(e, _) => panic!("hashmap run failed: {e:?}"),
        SamplerWaitResult::Timeout(_) => panic!("timeout"),
    };
    let full = run_arrow(true);
    let post = run_arrow(false);
    let total = (TUNE + DRAWS) as usize;
    assert_eq!(full.posterior.num_rows(), total);
    assert_eq!(full.sample_stats.num_rows(), total);
    assert_eq!(post.posterior.num_rows(), DRAWS as usize);
    assert_eq!(post.sample_stats.num_rows(), DRAWS as usize);

    let mut n_event_values = 0usize;
    let mut n_nulls = 0usize;
    for (batch_full, batch_post, reference, what) in [
        (&full.posterior, &post.posterior, &hm.draws, "draws"),
        (&full.sample_stats, &post.sample_stats, &hm.stats, "stats"),
    ] {
        let schema = batch_full.schema();
        assert_eq!(schema.fields().len(), batch_post.schema().fields().len());
        for (ci, field) in schema.fields().iter().enumerate() {
            let name = field.name();
            assert_eq!(batch_post.schema().field(ci).name(), name);
            let rows = column_rows(batch_full.column(ci).as_ref());
            assert_eq!(rows.len(), total, "{what}.{name}: row count");
            // (1) every column has one row per recorded draw; the present values, in order, are exactly what the
            //     HashMap backend holds for the same name (HashMap skips absent values and the draw / chain counters)
            let flat: Vec<String> = rows.iter().flatten().flatten().cloned().collect();
            n_nulls += rows.iter().filter(|r| r.is_none()).count();
            if name == "draw" || name == "chain" {
                // bookkeeping counters: the HashMap backend does not store them
            } else if let Some(r) = reference.get(name) {
                assert_eq!(flat, hm_flat(r), "{what}.{name}: values differ from the HashMap backend");
                if rows.iter().any(|r| r.is_none()) {
                    n_event_values += flat.len();
                }
            } else {
                panic!("{what}.{name} missing in the HashMap backend");
            }
            // (2) store_warmup = false omits exactly the warmup rows: what remains are the last DRAWS rows
            let rows_post = column_rows(batch_post.column(ci).as_ref());
            assert_eq!(rows_post.as_slice(), &rows[TUNE as usize..], "{what}.{name}: store_warmup=false");
            // (3) declared shape: a tensor row has the declared number of elements
            if let DataType::LargeList(_) = field.data_type() {
                let shape: usize = field.metadata()["shape"].split(',').map(|s| s.parse::<usize>().unwrap()).product();
                for r in rows.iter().flatten() {
                    assert_eq!(r.len(), shape, "{what}.{name}: row length vs declared shape");
                }
            }
        }
    }
    // warmup before sampling draws: the `tuning` statistic is true on exactly the first TUNE rows, `draw` counts up
    let stats = &full.sample_stats;
    let idx = stats.schema().index_of("tuning").unwrap();
    let tuning = column_rows(stats.column(idx).as_ref());
    for (i, t) in tuning.iter().enumerate() {
        assert_eq!(t.as_ref().unwrap()[0], format!("{}", i < TUNE as usize), "tuning flag at row {i}");
    }
    let idx = stats.schema().index_of("draw").unwrap();
    let draw = column_rows(stats.column(idx).as_ref());
    for (i, d) in draw.iter().enumerate() {
        let first: usize = draw[0].as_ref().unwrap()[0].parse().unwrap();
        assert_eq!(d.as_ref().unwrap()[0], format!("{}", first + i), "draw counter at row {i}");
    }
    // the run must have exercised nulls AND present event values, otherwise the comparison above is weak
    assert!(n_nulls > 0, "no null seen");
    assert!(n_event_values > 0, "no event value seen");
    println!("nulls: {n_nulls}, event values: {n_event_values}");
}

// ---------------------------------------------------------------------------------------------------
// a draw type whose derive(Storable) has a flattened OPTIONAL group: `names()` lists the group's fields
// unconditionally, `get_all()` omits them while the group is None
// ---------------------------------------------------------------------------------------------------
#[derive(Storable)]
struct Extra {
    e1: f64,
    e2: u64,
}
#[derive(Storable)]
struct ExpandedOpt {
    #[storable(dims("x"))]
    x: Vec<f64>,
    #[storable(flatten)]
    extra: Option<Extra>,
}
#[derive(Clone)]
struct LogpOpt {
    n: usize,
}
impl HasDims for LogpOpt {
    fn dim_sizes(&self) -> HashMap<String, u64> {
        HashMap::from([("x".to_string(), self.n as u64)])
    }
}
impl CpuLogpFunc for LogpOpt {
    type LogpError = MyErr;
    type FlowParameters = ();
    type ExpandedVector = ExpandedOpt;
    fn dim(&self) -> usize {
        self.n
    }
    fn logp(&mut self, x: &[f64], grad: &mut [f64]) -> Result<f64, MyErr> {
        let mut l = 0.0;
        for i in 0..x.len() {
            l -= 0.5 * x[i] * x[i];
            grad[i] = -x[i];
        }
        Ok(l)
    }
    fn expand_vector<R: Rng + ?Sized>(&mut self, _rng: &mut R, a: &[f64]) -> Result<ExpandedOpt, CpuMathError> {
        Ok(ExpandedOpt {
            x: a.to_vec(),
            extra: if a[0] > 0.0 { Some(Extra { e1: a[0], e2: 1 }) } else { None },
        })
    }
}
struct MOpt {
    math: CpuMath<LogpOpt>,
}
impl Model for MOpt {
    type Math<'m>
        = CpuMath<LogpOpt>
    where
        Self: 'm;
    fn math<R: Rng + ?Sized>(&self, _rng: &mut R) -> anyhow::Result<Self::Math<'_>> {
        Ok(self.math.clone())
    }
    fn init_position<R: Rng + ?Sized>(&self, rng: &mut R, p: &mut [f64]) -> anyhow::Result<()> {
        for v in p.iter_mut() {
            *v = rng.random_range(-1.0..1.0);
        }
        Ok(())
    }
}

pub fn arrow_flattened_option_group() {
    let mk = || MOpt { math: CpuMath::new(LogpOpt { n: N }) };
    let sampler = Sampler::new(mk(), settings(), HashMapConfig::new(), 1, None).unwrap();
    let hm = match sampler.wait_timeout(Duration::from_secs(60)) {
        SamplerWaitResult::Trace(mut t) => t.remove(0),
        SamplerWaitResult::Err(e, _) => panic!("hashmap run failed: {e:?}"),
        SamplerWaitResult::Timeout(_) => panic!("timeout"),
    };
    let n_e1 = hm_flat(&hm.draws["e1"]).len();
    println!("HashMap backend: e1 has {} values, x has {} values", n_e1, hm_flat(&hm.draws["x"]).len());
    assert!(n_e1 > 0 && n_e1 < (TUNE + DRAWS) as usize, "the group must be present on some draws and absent on others");

    let sampler = Sampler::new(mk(), settings(), ArrowConfig::default(), 1, None).unwrap();
    let tr = match sampler.wait_timeout(Duration::from_secs(60)) {
        SamplerWaitResult::Trace(mut t) => t.remove(0),
        SamplerWaitResult::Err(e, _) => panic!("arrow run failed: {e:?}"),
        SamplerWaitResult::Timeout(_) => panic!("timeout"),
    };
    let total = (TUNE + DRAWS) as usize;
    assert_eq!(tr.posterior.num_rows(), total);
    let idx = tr.posterior.schema().index_of("e1").unwrap();
    let rows = column_rows(tr.posterior.column(idx).as_ref());
    let flat: Vec<String> = rows.iter().flatten().flatten().cloned().collect();
    assert_eq!(flat, hm_flat(&hm.draws["e1"]), "e1 differs from the HashMap backend");
}
