// Native replay drivers (features ndarray + zarr) for the C14 findings of units ndstore / zarrevents.
// Each sub-command runs the demonstration against the real crate and prints
//   REPLAY <cmd> FAIL <what>   (exit 1)   or   REPLAY <cmd> PASS   (exit 0).
#[allow(dead_code)]
mod ndarray_draws;
#[allow(dead_code)]
mod zarr_events;
#[allow(dead_code)]
mod ndarray_divergence;
#[allow(dead_code)]
mod arrow_readback;

fn run_unit(name: &str, f: fn()) -> bool {
    match std::panic::catch_unwind(f) {
        Ok(()) => {
            println!("REPLAY {name} PASS");
            true
        }
        Err(p) => {
            let msg = p.downcast_ref::<String>().cloned().or_else(|| p.downcast_ref::<&str>().map(|s| s.to_string())).unwrap_or_default();
            println!("REPLAY {name} FAIL {msg}");
            false
        }
    }
}

fn run(name: &str, f: fn() -> anyhow::Result<()>) -> bool {
    match std::panic::catch_unwind(f) {
        Ok(Ok(())) => {
            println!("REPLAY {name} PASS");
            true
        }
        Ok(Err(e)) => {
            println!("REPLAY {name} FAIL error from the real crate: {e:#}");
            false
        }
        Err(p) => {
            let msg = p.downcast_ref::<String>().cloned().or_else(|| p.downcast_ref::<&str>().map(|s| s.to_string())).unwrap_or_default();
            println!("REPLAY {name} FAIL {msg}");
            false
        }
    }
}

fn main() {
    let args: Vec<String> = std::env::args().collect();
    if std::env::var("REPLAY_VERBOSE").is_err() {
        std::panic::set_hook(Box::new(|_| {}));
    }
    let ok = match args.get(1).map(|s| s.as_str()).unwrap_or("") {
        "ndarray_draws" => run("ndarray_draws", ndarray_draws::ndarray_trace_holds_the_draw_variables),
        "ndarray_divergence" => {
            run("ndarray_divergence", ndarray_divergence::ndarray_trace_holds_the_divergence_messages)
                & run("ndarray_strings", ndarray_divergence::ndarray_trace_holds_string_and_time_draw_variables)
        }
        "arrow_optional_group" => run_unit("arrow_optional_group", arrow_readback::arrow_flattened_option_group),
        "arrow_readback" => run_unit("arrow_readback", arrow_readback::arrow_values_read_back),
        "zarr_events" => run("zarr_events", zarr_events::zarr_reports_every_transformation_update),
        _ => {
            eprintln!("usage: nuts-replay-store ndarray_draws | ndarray_divergence | zarr_events | arrow_optional_group | arrow_readback");
            std::process::exit(2);
        }
    };
    std::process::exit(if ok { 0 } else { 1 });
}
