// Native demonstration of the C14 finding "NdarrayConfig::new_trace builds the draws arrays from the
// statistics schema".  Copy to `tests/ndarray_draws.rs` of a checkout and run
//     cargo test --offline --features ndarray --test ndarray_draws -- --nocapture
// Public API only.  The same chain (same seed) is sampled with the HashMap backend (oracle) and with the
// ndarray backend; C14 demands that the ndarray trace holds the draw variable `value` (the name that
// `Vec<f64>: Storable` declares -- it is not the name of any statistic) with shape
// (chains, tune + draws, dim) and exactly the recorded values, warmup first.
// On the unfixed tree sampling aborts at the very first draw: "Unknown posterior variable name: value".
// (The shipped `examples/ndarray_storage.rs` shows the same failure.)  The model and seed are chosen so that no
// divergence occurs: a divergence would hit a SECOND, independent defect of the backend
// (`NdarrayValue::set_value` has no arm for `divergence_message: ScalarString`, "Mismatched item type").
use std::time::Duration;

use nuts_rs::{
    CpuLogpFunc, CpuMath, DiagNutsSettings, HashMapConfig, HashMapValue, LogpError, Model,
    NdarrayConfig, NdarrayValue, Sampler, SamplerWaitResult,
};
use nuts_storable::HasDims;
use rand::prelude::Rng;
use thiserror::Error;

const DIM: usize = 3;
const TUNE: u64 = 100;
const DRAWS: u64 = 50;

struct NormalLogp;

#[derive(Error, Debug)]
enum NormalLogpError {}

impl LogpError for NormalLogpError {
    fn is_recoverable(&self) -> bool {
        true
    }
}

impl HasDims for NormalLogp {
    fn dim_sizes(&self) -> std::collections::HashMap<String, u64> {
        std::collections::HashMap::from([
            ("unconstrained_parameter".to_string(), DIM as u64),
            ("dim".to_string(), DIM as u64),
        ])
    }
}

impl CpuLogpFunc for NormalLogp {
    type LogpError = NormalLogpError;
    type FlowParameters = ();
    type ExpandedVector = Vec<f64>;

    fn dim(&self) -> usize {
        DIM
    }

    fn logp(&mut self, position: &[f64], grad: &mut [f64]) -> Result<f64, Self::LogpError> {
        let mut logp = 0f64;
        for (p, g) in position.iter().zip(grad.iter_mut()) {
            logp -= p * p / 2.;
            *g = -p;
        }
        Ok(logp)
    }

    fn expand_vector<R>(
        &mut self,
        _rng: &mut R,
        array: &[f64],
    ) -> Result<Self::ExpandedVector, nuts_rs::CpuMathError>
    where
        R: rand::Rng + ?Sized,
    {
        Ok(array.to_vec())
    }
}

struct NormalModel;

impl Model for NormalModel {
    type Math<'model>
        = CpuMath<NormalLogp>
    where
        Self: 'model;

    fn math<R: Rng + ?Sized>(&self, _rng: &mut R) -> anyhow::Result<Self::Math<'_>> {
        Ok(CpuMath::new(NormalLogp))
    }

    fn init_position<R: Rng + ?Sized>(
        &self,
        _rng: &mut R,
        position: &mut [f64],
    ) -> anyhow::Result<()> {
        position.iter_mut().for_each(|x| *x = 0.1);
        Ok(())
    }
}

fn settings() -> DiagNutsSettings {
    DiagNutsSettings {
        seed: 7,
        num_chains: 1,
        num_tune: TUNE,
        num_draws: DRAWS,
        ..Default::default()
    }
}

fn wait<F: Send + 'static>(mut sampler: Sampler<F>) -> anyhow::Result<F> {
    loop {
        match sampler.wait_timeout(Duration::from_secs(1)) {
            SamplerWaitResult::Trace(trace) => return Ok(trace),
            SamplerWaitResult::Timeout(new_sampler) => sampler = new_sampler,
            SamplerWaitResult::Err(err, _trace) => return Err(err),
        };
    }
}

pub fn ndarray_trace_holds_the_draw_variables() -> anyhow::Result<()> {
    // oracle
    let trace = wait(Sampler::new(NormalModel, settings(), HashMapConfig::new(), 1, None)?)?;
    let expected = match &trace[0].draws["value"] {
        HashMapValue::F64(v) => v.clone(),
        _ => panic!("unexpected type"),
    };
    let divergences = match &trace[0].stats["diverging"] {
        HashMapValue::Bool(v) => v.iter().filter(|&&d| d).count(),
        _ => panic!("unexpected type"),
    };
    println!("HashMap backend: {} values of `value`, {divergences} divergences", expected.len());
    assert_eq!(expected.len() as u64, (TUNE + DRAWS) * DIM as u64);
    assert_eq!(divergences, 0, "pick another seed: a divergence hits the ScalarString defect");

    let trace = wait(Sampler::new(NormalModel, settings(), NdarrayConfig::new(), 1, None)?)?;
    let mut names: Vec<_> = trace.draws.keys().cloned().collect();
    names.sort();
    println!("ndarray backend: draw variables {names:?}");
    assert_eq!(names, vec!["value".to_string()]);
    let NdarrayValue::F64(arr) = &trace.draws["value"] else {
        panic!("declared type of `value` is f64")
    };
    assert_eq!(arr.shape(), &[1, (TUNE + DRAWS) as usize, DIM]);
    let got: Vec<f64> = arr.iter().copied().collect();
    assert_eq!(got, expected, "ndarray and HashMap backends disagree");
    assert!(!trace.stats.contains_key("draw") && !trace.stats.contains_key("chain"));
    Ok(())
}
