// Native demonstration of the C14 finding "Zarr event counts come from the first field of the dimension".
// Copy to `tests/zarr_event_counts.rs` of a checkout and run
//     cargo test --offline --features zarr --test zarr_event_counts -- --nocapture
// (needs a `[[test]] name = "zarr_event_counts" required-features = ["zarr"]` entry or just `--features zarr`).
// Public API only.  The same chain (same seed) is sampled once with the HashMap backend -- the oracle: its
// `transformation_update_id` column holds one entry per mass-matrix update -- and several times with the Zarr
// backend.  The length of the event dimension "transformation_update" of the Zarr arrays must equal that number.
// On the unfixed tree it is 0 whenever HashMap iteration happens to visit `mass_matrix_inv` or
// `transformation_mu` (never populated without `store_mass_matrix`) before `transformation_update_id`;
// the order changes with every `HashMap` instance, so a few repetitions are enough to hit it.
use std::{sync::Arc, time::Duration};

use nuts_rs::{
    CpuLogpFunc, CpuMath, DiagNutsSettings, HashMapConfig, HashMapValue, LogpError, Model, Sampler,
    SamplerWaitResult, ZarrConfig,
};
use nuts_storable::HasDims;
use rand::prelude::Rng;
use rand_distr::{Distribution, StandardNormal};
use thiserror::Error;
use zarrs::{
    array::Array,
    storage::{ReadableListableStorageTraits, store::MemoryStore},
};

struct NormalLogp {
    dim: usize,
}

#[derive(Error, Debug)]
enum NormalLogpError {}

impl LogpError for NormalLogpError {
    fn is_recoverable(&self) -> bool {
        true
    }
}

impl HasDims for NormalLogp {
    fn dim_sizes(&self) -> std::collections::HashMap<String, u64> {
        std::collections::HashMap::from([
            ("unconstrained_parameter".to_string(), self.dim as u64),
            ("dim".to_string(), self.dim as u64),
        ])
    }
}

impl CpuLogpFunc for NormalLogp {
    type LogpError = NormalLogpError;
    type FlowParameters = ();
    type ExpandedVector = Vec<f64>;

    fn dim(&self) -> usize {
        self.dim
    }

    fn logp(&mut self, position: &[f64], grad: &mut [f64]) -> Result<f64, Self::LogpError> {
        let mut logp = 0f64;
        for (p, g) in position.iter().zip(grad.iter_mut()) {
            logp -= p * p / 2.;
            *g = -p;
        }
        Ok(logp)
    }

    fn expand_vector<R>(
        &mut self,
        _rng: &mut R,
        array: &[f64],
    ) -> Result<Self::ExpandedVector, nuts_rs::CpuMathError>
    where
        R: rand::Rng + ?Sized,
    {
        Ok(array.to_vec())
    }
}

struct NormalModel {
    dim: usize,
}

impl Model for NormalModel {
    type Math<'model>
        = CpuMath<NormalLogp>
    where
        Self: 'model;

    fn math<R: Rng + ?Sized>(&self, _rng: &mut R) -> anyhow::Result<Self::Math<'_>> {
        Ok(CpuMath::new(NormalLogp { dim: self.dim }))
    }

    fn init_position<R: Rng + ?Sized>(
        &self,
        rng: &mut R,
        position: &mut [f64],
    ) -> anyhow::Result<()> {
        let normal = StandardNormal;
        position.iter_mut().for_each(|x| *x = normal.sample(rng));
        Ok(())
    }
}

fn settings() -> DiagNutsSettings {
    DiagNutsSettings {
        seed: 42,
        num_chains: 1,
        num_tune: 300,
        num_draws: 100,
        ..Default::default()
    }
}

fn wait<F: Send + 'static>(mut sampler: Sampler<F>) -> anyhow::Result<F> {
    loop {
        match sampler.wait_timeout(Duration::from_secs(1)) {
            SamplerWaitResult::Trace(trace) => return Ok(trace),
            SamplerWaitResult::Timeout(new_sampler) => sampler = new_sampler,
            SamplerWaitResult::Err(err, _trace) => return Err(err),
        };
    }
}

pub fn zarr_reports_every_transformation_update() -> anyhow::Result<()> {
    // oracle: the HashMap backend keeps one entry per event
    let trace = wait(Sampler::new(
        NormalModel { dim: 10 },
        settings(),
        HashMapConfig::new(),
        1,
        None,
    )?)?;
    let events = match &trace[0].stats["transformation_update_id"] {
        HashMapValue::I64(v) => v.len() as u64,
        _ => panic!("unexpected type"),
    };
    println!("mass-matrix updates that occurred (HashMap backend): {events}");
    assert!(events > 0);

    let mut lengths = vec![];
    for _ in 0..8 {
        let store = Arc::new(MemoryStore::new());
        wait(Sampler::new(
            NormalModel { dim: 10 },
            settings(),
            ZarrConfig::new(store.clone()),
            1,
            None,
        )?)?;
        let store_dyn: Arc<dyn ReadableListableStorageTraits> = store.clone();
        let warmup = Array::open(
            store_dyn.clone(),
            "/warmup_sample_stats/transformation_update_id",
        )?;
        let sample = Array::open(store_dyn.clone(), "/sample_stats/transformation_update_id")?;
        lengths.push(warmup.shape()[1] + sample.shape()[1]);
    }
    println!("length of the event dimension in 8 Zarr traces of the same chain: {lengths:?}");
    assert!(
        lengths.iter().all(|&n| n == events),
        "Zarr event dimension truncated: {lengths:?}, expected {events} everywhere"
    );
    Ok(())
}
