#!/bin/sh
# Build the framework from files on disk only (offline).
set -e
cd "$(dirname "$0")"
export CARGO_NET_OFFLINE=true
(cd tools/vx-extract && cargo build --offline --release)
mkdir -p /root/.cache/nuts-verif build evidence replays
# native replay driver (only needed to illustrate a violation; failure here is not fatal)
(cd replay && CARGO_TARGET_DIR=/root/.cache/nuts-verif/replay-target cargo build --offline --release) || echo "warning: replay driver did not build"
