#!/usr/bin/env python3
"""Splice seeded/SUMMARY.md and harmless/SUMMARY.md into DESIGN.md between their markers."""
import os, re
V = os.path.dirname(os.path.dirname(os.path.abspath(__file__)))
s = open(os.path.join(V, "DESIGN.md")).read()
for tag, f in (("SEED", "seeded/SUMMARY.md"), ("HARMLESS", "harmless/SUMMARY.md")):
    p = os.path.join(V, f)
    body = open(p).read().strip() if os.path.exists(p) else "(not run yet)"
    s = re.sub(rf"<!-- {tag}-TABLE-BEGIN -->.*?<!-- {tag}-TABLE-END -->", lambda m: f"<!-- {tag}-TABLE-BEGIN -->\n{body}\n<!-- {tag}-TABLE-END -->", s, flags=re.S)
open(os.path.join(V, "DESIGN.md"), "w").write(s)
