#!/usr/bin/env python3
"""facade_sync.py: every ensures clause that units/_shared/dyn_facade.rs (ASSUMED by units nuts / stepsize_init /
chain / mclmc) states for a Hamiltonian / Collector method must also be stated by units/leapfrog/prelude.rs, where it
is PROVED for the real TransformedHamiltonian.  Exit 0 if so, 1 with the list of drifting clauses otherwise."""
import os, re, sys
V = os.path.dirname(os.path.dirname(os.path.abspath(__file__)))

def strip_comments(t):
    return re.sub(r"//.*", "", t)

def methods(text, trait):
    m = re.search(r"pub trait %s<[^{]*\{" % trait, text)
    if not m:
        return {}
    i = m.end(); depth = 1; j = i
    while depth and j < len(text):
        depth += {"{": 1, "}": -1}.get(text[j], 0); j += 1
    body = strip_comments(text[i:j - 1])
    out = {}
    for fm in re.finditer(r"\bfn\s+(\w+)", body):
        name = fm.group(1)
        rest = body[fm.end():]
        # up to the terminating ';' or a default body '{' at depth 0
        depth = 0; k = 0
        while k < len(rest):
            c = rest[k]
            if c in "([{":
                if c == "{" and depth == 0 and not re.search(r"(match\s+\w+|=>)\s*$", rest[:k]):
                    pass
                depth += 1
            elif c in ")]}":
                depth -= 1
            elif c == ";" and depth == 0:
                break
            k += 1
        decl = rest[:k]
        em = re.search(r"\bensures\b", decl)
        if not em:
            out[name] = []
            continue
        ens = decl[em.end():]
        clauses = []; depth = 0; cur = ""
        for c in ens:
            if c in "([{": depth += 1
            if c in ")]}": depth -= 1
            if c == "," and depth == 0:
                clauses.append(cur); cur = ""
            else:
                cur += c
        clauses.append(cur)
        out[name] = [re.sub(r"\s+", " ", c).strip() for c in clauses if c.strip()]
    return out

a = open(os.path.join(V, "units/_shared/dyn_facade.rs")).read()
b = open(os.path.join(V, "units/leapfrog/prelude.rs")).read()
drift = []
checked = 0
for trait, names in (("Hamiltonian", ["leapfrog", "is_turning", "initialize_trajectory", "step_size", "step_size_mut", "init_state", "copy_state"]),
                     ("Collector", ["register_leapfrog"])):
    ma, mb = methods(a, trait), methods(b, trait)
    for n in names:
        if n not in ma:
            continue
        if n not in mb:
            drift.append(f"{trait}::{n}: not declared in units/leapfrog/prelude.rs"); continue
        nb = [re.sub(r"msame\(final\(math\), old\(math\)\)", "", c) for c in mb[n]]
        for c in ma[n]:
            checked += 1
            if c in mb[n]:
                continue
            # dim frame / no_eval are implied by msame(final(math), old(math)) in the leapfrog prelude
            if c in ("final(math).dim_spec() == old(math).dim_spec()", "no_eval(old(math), final(math))") and any(("msame(final(math), old(math))" in x or "mkeep(final(math), old(math))" in x) for x in mb[n]) and (c.startswith("final(math).dim") or any("msame(final(math), old(math))" in x for x in mb[n])):
                continue
            drift.append(f"{trait}::{n}: clause not proved in unit leapfrog: {c[:160]}")
print(f"facade_sync: {checked} clauses of dyn_facade.rs compared with units/leapfrog/prelude.rs, {len(drift)} drifting")
for d in drift:
    print("  DRIFT", d)
sys.exit(1 if drift else 0)
