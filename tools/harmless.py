#!/usr/bin/env python3
"""harmless.py [-j N] <dir-with-NN/patch.diff> <prefix>  -- false-alarm regression.

Every patch is a BEHAVIOUR-PRESERVING refactoring of /repo (produced with a green suite and an identical A/B digest).
For each: scratch worktree of /repo HEAD, apply, run ./check for every claimed property that has a unit (or Kani
harness) reading one of the touched files, with VERIF_REPO / VERIF_OUT pointing at scratch locations. Expected: exit 0,
or exit 2 (undecided: the refactoring needs an annotation / uses a construct the verifier lacks). exit 1 = FALSE ALARM.
Stores /verif/harmless/<prefix>_<NN>/{patch.diff, notes.md, result.json} and rewrites /verif/harmless/SUMMARY.md."""
import glob, json, os, re, shutil, subprocess, sys, time
from concurrent.futures import ThreadPoolExecutor
V = os.path.dirname(os.path.dirname(os.path.abspath(__file__)))
args = sys.argv[1:]
jobs = 3
if args and args[0] == "-j":
    jobs = int(args[1]); args = args[2:]
src, prefix = args[0], args[1]
props = json.load(open(os.path.join(V, "props.json")))

def unit_files(unit):
    u = json.load(open(os.path.join(V, "units", unit, "unit.json")))
    return {s["file"] for s in u.get("sources", [])}

KANI_FILES = {"C08": {"src/math/cpu_math.rs"}, "C17": {"src/math/util.rs", "src/math/cpu_math.rs"}, "C05": {"src/math/cpu_math.rs"}}

def props_for(files):
    out = []
    for pid, p in sorted(props.items()):
        fs = set()
        for um in p.get("units", []):
            fs |= unit_files(um["unit"])
        if p.get("kani"):
            fs |= KANI_FILES.get(pid, set())
        if fs & files:
            out.append(pid)
    return out

def run_one(d):
    nn = os.path.basename(d.rstrip("/"))
    name = f"{prefix}_{nn}"
    patch = os.path.join(d, "patch.diff")
    files = set(re.findall(r"^\+\+\+ b/(\S+)", open(patch).read(), re.M))
    todo = props_for(files)
    wt, out = "/tmp/hl_" + name, "/tmp/hl_out_" + name
    subprocess.run(["git", "-C", "/repo", "worktree", "remove", "--force", wt], capture_output=True)
    shutil.rmtree(out, ignore_errors=True)
    subprocess.run(["git", "-C", "/repo", "worktree", "add", "-q", wt, "HEAD"], check=True)
    res = {}
    try:
        p = subprocess.run(["git", "apply", patch], cwd=wt, capture_output=True, text=True)
        if p.returncode != 0:
            res["_apply"] = {"exit": 3, "lines": [p.stderr[-300:]]}
        else:
            for pr in todo:
                t0 = time.time()
                env = dict(os.environ, VERIF_REPO=wt, VERIF_OUT=out, VERIF_JOBS=str(max(4, 16 // jobs)))
                p = subprocess.run(["./check", pr], cwd=V, capture_output=True, text=True, env=env)
                lines = [l.replace(out, "<out>") for l in p.stdout.split("\n")
                         if l.startswith(("VIOLATION", "UNDECIDED", "KNOWN-FINDING", "property ", "  obligation", "  kani"))]
                res[pr] = {"exit": p.returncode, "lines": lines[-6:], "wall_s": round(time.time() - t0, 1)}
    finally:
        subprocess.run(["git", "-C", "/repo", "worktree", "remove", "--force", wt], capture_output=True)
        shutil.rmtree(out, ignore_errors=True)
    dst = os.path.join(V, "harmless", name)
    os.makedirs(dst, exist_ok=True)
    shutil.copy(patch, os.path.join(dst, "patch.diff"))
    if os.path.exists(os.path.join(d, "notes.md")):
        shutil.copy(os.path.join(d, "notes.md"), os.path.join(dst, "notes.md"))
    json.dump({"files": sorted(files), "checks": res}, open(os.path.join(dst, "result.json"), "w"), indent=1)
    alarms = [k for k, r in res.items() if r["exit"] == 1]
    und = [k for k, r in res.items() if r["exit"] == 2]
    print(f"{name}: files={sorted(files)} checks={todo} " + ("FALSE-ALARM " + ",".join(alarms) if alarms else "quiet") +
          (" undecided " + ",".join(und) if und else ""), flush=True)
    return name

dirs = sorted(os.path.dirname(p) for p in glob.glob(os.path.join(src, "*", "patch.diff")))
with ThreadPoolExecutor(jobs) as ex:
    list(ex.map(run_one, dirs))

rows = []
for rj in sorted(glob.glob(os.path.join(V, "harmless", "*", "result.json"))):
    r = json.load(open(rj))
    name = os.path.basename(os.path.dirname(rj))
    ch = r["checks"]
    rows.append((name, ", ".join(r["files"]), " ".join(f"{k}:{v['exit']}" for k, v in sorted(ch.items())),
                 "FALSE ALARM" if any(v["exit"] == 1 for v in ch.values()) else ("undecided" if any(v["exit"] == 2 for v in ch.values()) else "quiet")))
with open(os.path.join(V, "harmless", "SUMMARY.md"), "w") as f:
    f.write("| refactoring | files | property:exit | verdict |\n|---|---|---|---|\n")
    for r in rows:
        f.write("| " + " | ".join(r) + " |\n")
    f.write(f"\n{sum(1 for r in rows if r[3]=='quiet')} quiet, {sum(1 for r in rows if r[3]=='undecided')} undecided (exit 2), "
            f"{sum(1 for r in rows if r[3]=='FALSE ALARM')} false alarms of {len(rows)}.\n")
print(open(os.path.join(V, "harmless", "SUMMARY.md")).read().split("\n")[-2])
