#!/usr/bin/env python3
"""mutest.py <unit> <model> <file> <old-text> <new-text> [--count n]
Apply a textual edit to a scratch worktree of /repo and run the unit against it (dev validation helper)."""
import os, subprocess, sys, tempfile, shutil
sys.path.insert(0, os.path.dirname(os.path.dirname(os.path.abspath(__file__))))
unit, model, file, old, new = sys.argv[1:6]
wt = tempfile.mkdtemp(prefix="mt_", dir="/tmp")
os.rmdir(wt)
subprocess.run(["git", "-C", "/repo", "worktree", "add", "-q", wt, "HEAD"], check=True)
try:
    p = os.path.join(wt, file)
    s = open(p).read()
    n = s.count(old)
    if n != 1 and "--all" not in sys.argv:
        print(f"MUTEST: old text occurs {n} times"); sys.exit(3)
    open(p, "w").write(s.replace(old, new))
    os.environ["VERIF_REPO"] = wt
    from vx import core
    core.REPO = wt
    try:
        g = core.build(unit, model, repo=wt, tag="_mt%d" % os.getpid())
    except core.UnitError as e:
        print("MUTEST: UNIT ERROR (undecided):", str(e)[:300]); sys.exit(2)
    r = core.run_verus(g.path)
    os.remove(g.path)
    if r.fatal:
        print("MUTEST: verus fatal (undecided):", r.fatal[:600]); sys.exit(2)
    fails = core.attribute(g, r)
    names = sorted({(f["name"], f["message"]) for f in fails})
    if names:
        print("MUTEST: DETECTED", names[:6])
        if os.environ.get("MUTEST_VERBOSE"):
            for f in fails[:6]:
                print(f["rendered"][:1200])
    else:
        print("MUTEST: NOT DETECTED (unit verifies)")
finally:
    subprocess.run(["git", "-C", "/repo", "worktree", "remove", "--force", wt])
