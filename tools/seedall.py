#!/usr/bin/env python3
"""seedall.py [-j N] [name ...]  -- regression of the checks against every stored seeded change.

For each /verif/seeded/<name>/ (patch.diff + meta.json, confirmed by tools/seedtest.py): make a scratch worktree of
/repo HEAD outside /repo and /verif, apply the patch, run ./check for the property the change was written against
(and the further properties recorded in meta.json) with VERIF_REPO pointing at the worktree and VERIF_OUT at a
scratch directory (so /verif/evidence and /verif/build are not touched), record exit code and the deciding lines
in meta.json["check_results"], remove the worktree and the scratch output.
Prints one line per seed and a summary; writes /verif/seeded/SUMMARY.md (the table of DESIGN §11.8)."""
import json, os, shutil, subprocess, sys, time
from concurrent.futures import ThreadPoolExecutor
V = os.path.dirname(os.path.dirname(os.path.abspath(__file__)))
S = os.path.join(V, "seeded")
args = sys.argv[1:]
jobs = 3
if args and args[0] == "-j":
    jobs = int(args[1]); args = args[2:]
names = args or sorted(d for d in os.listdir(S) if os.path.exists(os.path.join(S, d, "patch.diff")))

def run_seed(name):
    d = os.path.join(S, name)
    meta = json.load(open(os.path.join(d, "meta.json")))
    props = [meta["property"]] + [p for p in meta.get("check_results", {}) if p != meta["property"]]
    wt = "/tmp/sa_" + name
    out = "/tmp/sa_out_" + name
    subprocess.run(["git", "-C", "/repo", "worktree", "remove", "--force", wt], capture_output=True)
    shutil.rmtree(out, ignore_errors=True)
    subprocess.run(["git", "-C", "/repo", "worktree", "add", "-q", wt, "HEAD"], check=True)
    results = {}
    try:
        p = subprocess.run(["git", "apply", os.path.join(d, "patch.diff")], cwd=wt, capture_output=True, text=True)
        if p.returncode != 0:
            return name, meta, {"_apply": {"exit": 3, "lines": [p.stderr[-300:]]}}
        for pr in props:
            t0 = time.time()
            env = dict(os.environ, VERIF_REPO=wt, VERIF_OUT=out, VERIF_JOBS=str(max(4, 16 // jobs)))
            p = subprocess.run(["./check", pr], cwd=V, capture_output=True, text=True, env=env)
            lines = [l for l in p.stdout.split("\n")
                     if l.startswith(("VIOLATION", "UNDECIDED", "KNOWN-FINDING", "property ", "  obligation", "  kani"))]
            results[pr] = {"exit": p.returncode, "lines": [l.replace(out, "<out>") for l in lines[-8:]],
                           "wall_s": round(time.time() - t0, 1)}
    finally:
        subprocess.run(["git", "-C", "/repo", "worktree", "remove", "--force", wt], capture_output=True)
        shutil.rmtree(out, ignore_errors=True)
    return name, meta, results

rows = []
with ThreadPoolExecutor(jobs) as ex:
    for name, meta, results in ex.map(run_seed, names):
        meta["check_results"] = results
        meta["caught_by"] = [pr for pr, r in results.items() if r["exit"] == 1]
        meta["undecided_by"] = [pr for pr, r in results.items() if r["exit"] == 2]
        json.dump(meta, open(os.path.join(S, name, "meta.json"), "w"), indent=1)
        st = "CAUGHT by " + ",".join(meta["caught_by"]) if meta["caught_by"] else (
            "UNDECIDED (exit 2) in " + ",".join(meta["undecided_by"]) if meta["undecided_by"] else "missed")
        print(f"{name}: {st}", flush=True)

# summary table over ALL stored seeds
allnames = sorted(d for d in os.listdir(S) if os.path.exists(os.path.join(S, d, "meta.json")))
with open(os.path.join(S, "SUMMARY.md"), "w") as f:
    f.write("| seed | property | confirmed | outcome | failing obligation(s) |\n|---|---|---|---|---|\n")
    n_c = n_u = n_m = 0
    for name in allnames:
        m = json.load(open(os.path.join(S, name, "meta.json")))
        cr = m.get("check_results", {})
        caught = [p for p, r in cr.items() if r["exit"] == 1]
        und = [p for p, r in cr.items() if r["exit"] == 2]
        obl = []
        for p, r in cr.items():
            for l in r.get("lines", []):
                l = l.strip()
                if l.startswith("obligation ") or l.startswith("kani "):
                    o = l.split(" failed")[0].replace("obligation ", "")
                    if o not in obl:
                        obl.append(o)
        if caught:
            oc = "caught (" + ", ".join(caught) + ")"; n_c += 1
        elif und:
            oc = "undecided, exit 2 (" + ", ".join(und) + ")"; n_u += 1
        else:
            oc = "missed"; n_m += 1
        f.write(f"| {name} | {m['property']} | {'yes' if m.get('confirmed') else 'NO'} | {oc} | {'; '.join(obl[:3])} |\n")
    f.write(f"\n{n_c} caught, {n_u} undecided, {n_m} missed of {len(allnames)}.\n")
print(open(os.path.join(S, "SUMMARY.md")).read().split("\n")[-2])
