#!/usr/bin/env python3
"""seedtest.py <seed_out_dir> <property> <name>  -- confirm a seeded change and run the property's check against it.
1. scratch worktree of /repo HEAD: apply patch.diff, run the existing suite (must stay green), run the demo (must fail)
2. revert: demo must pass
3. apply the patch to /repo, run ./check <property>, undo (git checkout -- .)
4. store /verif/seeded/<name>/{patch.diff, demo files, meta.json}"""
import glob, json, os, shutil, subprocess, sys, time
V = os.path.dirname(os.path.dirname(os.path.abspath(__file__)))
src, prop, name = sys.argv[1], sys.argv[2], sys.argv[3]
extra_checks = sys.argv[4:]          # further properties to run the checks of
wt = "/tmp/sv_" + name
tgt = "/tmp/sv-target"
env = dict(os.environ, CARGO_TARGET_DIR=tgt, CARGO_NET_OFFLINE="true")
FEAT = (" --features " + os.environ["SEED_FEATURES"]) if os.environ.get("SEED_FEATURES") else ""
def sh(cmd, cwd=None, timeout=3000):
    p = subprocess.run(cmd, shell=True, cwd=cwd, env=env, capture_output=True, text=True, timeout=timeout)
    return p.returncode, (p.stdout + p.stderr)
patch = os.path.join(src, "patch.diff")
demos = [f for f in glob.glob(os.path.join(src, "*.rs"))]
wiring = glob.glob(os.path.join(src, "demo_wiring*.diff"))   # in-crate demo: the .rs goes to src/, wired by this diff
def place_demos(wt):
    if wiring:
        for w in wiring:
            subprocess.run(["git", "apply", w], cwd=wt)
        for d in demos:
            shutil.copy(d, os.path.join(wt, "src", os.path.basename(d)))
    else:
        os.makedirs(os.path.join(wt, "tests"), exist_ok=True)
        for d in demos:
            shutil.copy(d, os.path.join(wt, "tests", os.path.basename(d)))
def demo_cmd(dn, tail):
    if wiring:
        return f"cargo test --offline{FEAT} --lib {dn} 2>&1 | tail -{tail}"
    return f"cargo test --offline{FEAT} --test {dn} 2>&1 | tail -{tail}"
meta = {"property": prop, "source": src, "ran": []}
subprocess.run(["git", "-C", "/repo", "worktree", "remove", "--force", wt], capture_output=True)
subprocess.run(["git", "-C", "/repo", "worktree", "add", "-q", wt, "HEAD"], check=True)
try:
    rc, out = sh(f"git apply {patch}", wt)
    if rc != 0:
        print("PATCH DOES NOT APPLY:", out[-500:]); meta["confirmed"] = False; raise SystemExit(3)
    rc, out = sh("cargo test --workspace --offline" + FEAT + " 2>&1 | grep -E '^test result|FAILED|^error' ", wt)
    suite_ok = ("FAILED" not in out) and ("error" not in out) and ("test result: ok" in out)
    meta["ran"].append({"cmd": "cargo test --workspace --offline (with the change, without the demo)", "ok": suite_ok, "out": out[-600:]})
    place_demos(wt)
    demo_names = [os.path.basename(d)[:-3] for d in demos]
    fails_with = True
    for dn in demo_names:
        rc, out = sh(demo_cmd(dn, 15), wt)
        bad = ("FAILED" in out) or ("panicked" in out) or ("test result: FAILED" in out)
        meta["ran"].append({"cmd": f"cargo test --offline --test {dn} (with the change)", "demo_fails": bad, "out": out[-800:]})
        fails_with = fails_with and bad
    sh("git checkout -- src nuts-derive nuts-storable Cargo.toml 2>/dev/null; git checkout -- .", wt)
    sh("git clean -fdq src tests", wt)
    place_demos(wt)
    passes_without = True
    for dn in demo_names:
        rc, out = sh(demo_cmd(dn, 6), wt)
        good = ("test result: ok" in out) and ("FAILED" not in out)
        meta["ran"].append({"cmd": f"cargo test --offline --test {dn} (unchanged tree)", "demo_passes": good, "out": out[-400:]})
        passes_without = passes_without and good
    meta["confirmed"] = bool(suite_ok and fails_with and passes_without)
    print(f"SEED {name}: suite_green_with_change={suite_ok} demo_fails_with_change={fails_with} demo_passes_without={passes_without}")
finally:
    subprocess.run(["git", "-C", "/repo", "worktree", "remove", "--force", wt], capture_output=True)
if os.environ.get("SEED_CONFIRM_ONLY") == "1":
    # re-confirmation of a stored seed (the confirm step is not safe to run concurrently with others: shared target dir)
    mp = os.path.join(V, "seeded", name, "meta.json")
    old_meta = json.load(open(mp))
    old_meta["ran"] = meta["ran"]; old_meta["confirmed"] = meta["confirmed"]
    json.dump(old_meta, open(mp, "w"), indent=1)
    sys.exit(0)
# run the checks against it (in a scratch worktree via VERIF_REPO while other work reads /repo;
# SEED_IN_REPO=1 applies the patch to /repo itself and undoes it afterwards)
results = {}
out_dir = "/tmp/sv_out_" + name      # build / evidence / replay output of the runs on the changed tree (removed below)
in_repo = os.environ.get("SEED_IN_REPO") == "1"
if in_repo:
    rc, out = sh(f"git -C /repo apply {patch}")
    target_repo = "/repo"
else:
    subprocess.run(["git", "-C", "/repo", "worktree", "remove", "--force", wt], capture_output=True)
    subprocess.run(["git", "-C", "/repo", "worktree", "add", "-q", wt, "HEAD"], check=True)
    rc, out = sh(f"git apply {patch}", wt)
    target_repo = wt
if rc != 0:
    print("cannot apply:", out[-300:]); sys.exit(3)
try:
    for pr in [prop] + extra_checks:
        t0 = time.time()
        e2 = dict(os.environ, VERIF_REPO=target_repo, VERIF_OUT=out_dir)
        p = subprocess.run(["./check", pr], cwd=V, capture_output=True, text=True, env=e2)
        lines = [l.replace(out_dir, "<out>") for l in p.stdout.split("\n") if l.startswith(("VIOLATION", "UNDECIDED", "KNOWN-FINDING", "property ", "  obligation"))]
        results[pr] = {"exit": p.returncode, "lines": lines[-8:], "wall_s": round(time.time() - t0, 1)}
        print(f"  check {pr}: exit {p.returncode}  " + " | ".join(lines[-3:])[:400])
finally:
    if in_repo:
        subprocess.run("git -C /repo checkout -- .", shell=True)
    else:
        subprocess.run(["git", "-C", "/repo", "worktree", "remove", "--force", wt], capture_output=True)
    shutil.rmtree(out_dir, ignore_errors=True)
meta["check_results"] = results
meta["caught_by"] = [pr for pr, r in results.items() if r["exit"] == 1]
dst = os.path.join(V, "seeded", name)
os.makedirs(dst, exist_ok=True)
shutil.copy(patch, os.path.join(dst, "patch.diff"))
for d in demos:
    shutil.copy(d, os.path.join(dst, os.path.basename(d)))
for w in wiring:
    shutil.copy(w, os.path.join(dst, os.path.basename(w)))
if os.path.exists(os.path.join(src, "notes.md")):
    shutil.copy(os.path.join(src, "notes.md"), os.path.join(dst, "notes.md"))
json.dump(meta, open(os.path.join(dst, "meta.json"), "w"), indent=1)
