#!/usr/bin/env python3
"""tagcheck.py -- every property tag used in a unit's contracts must have that unit registered under the property in
props.json (otherwise the tagged contract is never run for that property). Exit 1 and list what is missing."""
import glob, json, os, re, sys
V = os.path.dirname(os.path.dirname(os.path.abspath(__file__)))
p = json.load(open(os.path.join(V, "props.json")))
bad = 0
for uj in sorted(glob.glob(os.path.join(V, "units", "*", "unit.json"))):
    u = os.path.basename(os.path.dirname(uj))
    tags = set()
    for f in glob.glob(os.path.join(V, "units", u, "*.vspec")) + glob.glob(os.path.join(V, "units", u, "*.rs")):
        for m in re.finditer(r"\[((?:C\d\d(?:\.\w+)?\s*)+)\]", open(f).read()):
            tags.update(t[:3] for t in m.group(1).split())
    registered = any(any(x["unit"] == u for x in v.get("units", [])) for v in p.values())
    for t in sorted(tags):
        if t in p and not any(x["unit"] == u for x in p[t]["units"]):
            print(f"unit {u}: tag {t} used but {t} does not list the unit" + ("" if registered else " (unit not registered anywhere)"))
            bad += 1
sys.exit(1 if bad else 0)
