//! vx-extract: mechanical extraction of items from /repo sources for Verus.
//!
//! Reads a JSON request on stdin, writes a JSON response on stdout.
//! The tool copies the *original text range* of every selected item and applies
//! a fixed, counted list of syntactic rewrites (DESIGN.md §2.2) as span edits.
//!
//! Request:
//! {
//!   "repo": "/repo",
//!   "sources": [ { "file": "src/x.rs", "items": [ Selector, ... ] } ],
//!   "contracts": { "<key>": { "ret": "r", "spec": "...", "loops": ["..."],
//!                             "inserts": [ {"anchor": "...", "pos": "before|after", "text": "..."} ],
//!                             "body_prefix": "..." } },
//!   "rules": { "float": true, "boolops": ["key", ...], "mutself": ["key"],
//!              "macro_map": { "format": "opaque_string()" },
//!              "method_map": { } }
//! }
//! Selector: {"kind": "struct|enum|fn|impl|trait|const|type", "name": "...",
//!            "trait": "...", "type": "...", "fns": [...], "drop": [...], "nth": 0,
//!            "header": "replacement impl header text (optional)",
//!            "loop_lift": {"fn": "finalize", "loop": 0, ...}}  (see lift)
//!
//! Response:
//! { "ok": true, "segments": [ { "key": ..., "file": ..., "start_line": n, "end_line": n,
//!     "orig": "original text", "text": "rewritten text", "linemap": [src line per output line or 0],
//!     "rewrites": {"R2.lit": n, ...}, "fns": [ {key, start_line, end_line, orig} ] } ],
//!   "errors": [ ... ] }
use proc_macro2::{Span, TokenStream, TokenTree};
use quote::ToTokens;
use serde_json::{json, Map, Value};
use std::collections::{BTreeMap, HashMap, HashSet};
use std::io::Read;
use syn::spanned::Spanned;
use syn::visit::{self, Visit};

#[derive(Clone, Debug)]
struct Edit {
    start: usize,
    end: usize,
    text: String,
    rule: String,
    seq: usize,
}

struct Ctx<'a> {
    src: &'a str,
    /// byte offset of the start of each line (0-based index = line-1)
    line_starts: Vec<usize>,
    edits: Vec<Edit>,
    seq: usize,
    errors: Vec<String>,
    /// (fn key, anchor key, line relative to the fn body start) of every resolved text anchor
    anchor_lines: Vec<(String, String, i64)>,
    /// per-selector override of the derive traits that are kept (R0.derive)
    derive_keep: Option<Vec<String>>,
    /// closure signatures per fn (reported, pinned by the driver and passed back as `pinned_closure_sigs`)
    closure_sigs: Vec<(String, Vec<String>)>,
    pinned_closure_sigs: HashMap<String, Vec<String>>,
    /// loop headers per fn with loop contracts (text from the loop keyword to its body), pinned like closure_sigs:
    /// when a loop is inserted or removed, contracts keyed by ordinal are re-aligned (`R1.loop.realigned`); the
    /// contract of a loop that disappeared is dropped (`R1.droppedloop`)
    loop_sigs: Vec<(String, Vec<String>)>,
    pinned_loop_sigs: HashMap<String, Vec<String>>,
    /// R1.renamedlocal: pinned binding names per fn, fns whose ghost text was renamed
    pinned_locals: HashMap<String, Vec<String>>,
    renamed_fns: Vec<String>,
    /// names of the impl / trait items removed by R0.dropfn / R0.dropassoc (reported in the evidence)
    dropped_items: Vec<String>,
    /// functions for which a hint / loop contract / closure contract was dropped because its anchor disappeared
    hint_dropped_fns: Vec<String>,
    /// keys (`fn key`, `pos|anchor|occurrence`) of the hints dropped because their anchor disappeared, and the hints
    /// the driver asks to drop on purpose (rules.force_drop_inserts: {fn key: [insert keys]}), used to test on the
    /// PINNED tree whether a dropped hint was essential for the proof
    dropped_hint_keys: Vec<(String, String)>,
    force_drop: HashMap<String, Vec<String>>,
    /// functions in which a hint was re-attached by similarity (R1.fuzzyanchor)
    fuzzy_fns: Vec<String>,
    float: bool,
    macro_map: HashMap<String, String>,
    /// R9.method: method-call identifier renames (`x.extend(v)` -> `x.vx_extend(v)`), the target is a prelude stub
    method_map: HashMap<String, String>,
    /// R9.extend: `X.extend(Y.iter().cloned())` -> `X.extend_from_slice(Y.as_slice())` (rules.extend_slice)
    r9_extend: bool,
    boolops_all: bool,
    /// R10.forrange (rules.forrange: [keys]): `for PAT in LO..HI { B }` ->
    /// `{ let mut vx_iK = LO; let vx_hiK = HI; while vx_iK < vx_hiK { let PAT = vx_iK; vx_iK += 1; B } }`
    /// (Verus for-loops do not support `continue`); K = ordinal of the rewritten loop in the item
    forrange: bool,
    /// R10.foriter (rules.foriter: [keys]): any other `for` loop -> explicit iterator facade + while loop
    foriter: bool,
    /// R10.foriter.snapshot (rules.foriter_snapshot: true): ghost snapshot of the facade iterator's item sequence
    /// between its creation and the while loop (`let ghost vx_allK = vx_itK.all();`), so that a loop invariant can
    /// relate the iterator at the loop head to the iterator that was created (needed for `iter_mut()`: the link
    /// between the items' final values and the borrowed vector is a fact about the CREATED iterator)
    foriter_snapshot: bool,
    for_seq: usize,
    /// R11.wildclosure (rules.wild_closure_args: true): a closure parameter written as the wildcard pattern `_`
    /// becomes the fresh, unused variable `_vx_wK` (Verus: "only variables are supported here, not general
    /// patterns"). Same meaning for `Copy` arguments (a reference, an integer): nothing is moved or dropped earlier.
    wild_closure: bool,
    wild_seq: usize,
    /// R13.closurepat (rules.closure_param_patterns: true): a closure parameter written as a destructuring
    /// pattern, `|(a, b)| body`, becomes `|vx_cpK| { let (a, b) = vx_cpK; body }` with K = position of the
    /// parameter in its closure (Verus: "only variables are supported here, not general patterns"). Same
    /// meaning: the pattern is irrefutable and a `let` applies the same default binding modes as a closure
    /// parameter. Analogue of R13.parampat for closures. Runs after R1.closure, so a closure contract of the
    /// unit refers to the parameter as `vx_cpK`.
    closure_pats: bool,
    /// R12.typemap (rules.type_map: {"<type, spaces removed>": "Replacement"}): a type written exactly like the
    /// key is replaced by a prelude façade type (e.g. `Arc<dyn Error + Send + Sync>`: Verus has no multi-trait dyn)
    type_map: HashMap<String, String>,
    /// R14.letchain (rules.let_chains: true): an `if` WITHOUT `else` whose condition is a top-level `&&` chain
    /// containing `let` operands, `if A && B && let P = E { S }`, becomes the nested form
    /// `if A && B { if let P = E { S } }`: every `&&` token next to a `let` operand is replaced by `{ if` and one
    /// ` }` per replaced token is appended after the block (Verus: "does not yet support let expressions";
    /// rustc < edition 2024 rejects let chains). Same meaning: `&&` evaluates left to right and short-circuits,
    /// the bindings of P are in scope in the later operands and in S, and without an `else` "condition false"
    /// means "do nothing" at every nesting level. An `if` WITH `else` is left untouched (front-end error =
    /// undecided, never an alarm). No line is added or removed.
    let_chains: bool,
}

impl<'a> Ctx<'a> {
    fn new(src: &'a str) -> Self {
        let mut line_starts = vec![0usize];
        for (i, b) in src.bytes().enumerate() {
            if b == b'\n' {
                line_starts.push(i + 1);
            }
        }
        Ctx {
            src,
            line_starts,
            edits: vec![],
            seq: 0,
            errors: vec![],
            anchor_lines: vec![],
            derive_keep: None,
            closure_sigs: vec![],
            pinned_closure_sigs: HashMap::new(),
            loop_sigs: vec![],
            pinned_loop_sigs: HashMap::new(),
            pinned_locals: HashMap::new(),
            renamed_fns: vec![],
            dropped_items: vec![],
            hint_dropped_fns: vec![],
            dropped_hint_keys: vec![],
            force_drop: HashMap::new(),
            fuzzy_fns: vec![],
            float: false,
            macro_map: HashMap::new(),
            method_map: HashMap::new(),
            r9_extend: false,
            boolops_all: false,
            forrange: false,
            foriter: false,
            foriter_snapshot: false,
            for_seq: 0,
            wild_closure: false,
            wild_seq: 0,
            closure_pats: false,
            type_map: HashMap::new(),
            let_chains: false,
        }
    }
    fn off(&self, lc: proc_macro2::LineColumn) -> usize {
        // column is in chars; convert to bytes
        let ls = self.line_starts[lc.line - 1];
        let line = &self.src[ls..];
        let mut bytes = 0;
        for (n, ch) in line.chars().enumerate() {
            if n == lc.column {
                break;
            }
            bytes += ch.len_utf8();
        }
        ls + bytes
    }
    fn range(&self, sp: Span) -> (usize, usize) {
        (self.off(sp.start()), self.off(sp.end()))
    }
    fn line_of(&self, off: usize) -> usize {
        match self.line_starts.binary_search(&off) {
            Ok(i) => i + 1,
            Err(i) => i,
        }
    }
    fn push(&mut self, start: usize, end: usize, text: impl Into<String>, rule: &str) {
        self.seq += 1;
        self.edits.push(Edit {
            start,
            end,
            text: text.into(),
            rule: rule.to_string(),
            seq: self.seq,
        });
    }
    fn text(&self, sp: Span) -> &str {
        let (a, b) = self.range(sp);
        &self.src[a..b]
    }
}

fn float_lit_to_real(s: &str) -> Option<String> {
    // s: Rust float literal like 1.0, 1., 0.15, 1e-10, 2f64, 1_000.0
    let mut t: String = s.chars().filter(|c| *c != '_').collect();
    for suf in ["f64", "f32"] {
        if t.ends_with(suf) {
            t.truncate(t.len() - 3);
        }
    }
    let (mant, exp) = match t.find(|c| c == 'e' || c == 'E') {
        Some(i) => (t[..i].to_string(), t[i + 1..].parse::<i64>().ok()?),
        None => (t.clone(), 0i64),
    };
    let (ip, fp) = match mant.find('.') {
        Some(i) => (mant[..i].to_string(), mant[i + 1..].to_string()),
        None => (mant.clone(), String::new()),
    };
    if !ip.chars().all(|c| c.is_ascii_digit()) || !fp.chars().all(|c| c.is_ascii_digit()) {
        return None;
    }
    // digits = ip ++ fp, decimal point after ip.len() + exp
    let digits = format!("{}{}", ip, fp);
    let mut point = ip.len() as i64 + exp;
    let mut d = digits;
    if point <= 0 {
        d = format!("{}{}", "0".repeat((1 - point) as usize), d);
        point = 1;
    }
    if (point as usize) > d.len() {
        d = format!("{}{}", d, "0".repeat(point as usize - d.len()));
    }
    let (a, b) = d.split_at(point as usize);
    let a = a.trim_start_matches('0');
    let a = if a.is_empty() { "0" } else { a };
    let b = b.trim_end_matches('0');
    let b = if b.is_empty() { "0" } else { b };
    Some(format!("{}.{}", a, b))
}

struct Rewriter<'c, 'a> {
    cx: &'c mut Ctx<'a>,
    boolops: bool,
    in_macro: bool,
}

const INT_TYPES: &[&str] = &[
    "u8", "u16", "u32", "u64", "u128", "usize", "i8", "i16", "i32", "i64", "i128", "isize",
];

impl<'c, 'a> Rewriter<'c, 'a> {
    fn visit_macro_args(&mut self, mac: &syn::Macro) {
        // try to parse the body as a comma separated expression list and rewrite inside
        let parser = syn::punctuated::Punctuated::<syn::Expr, syn::Token![,]>::parse_terminated;
        if let Ok(args) = mac.parse_body_with(parser) {
            let saved = self.in_macro;
            self.in_macro = true;
            for a in args.iter() {
                self.visit_expr(a);
            }
            self.in_macro = saved;
        } else if let Ok((elem, len)) = mac.parse_body_with(|input: syn::parse::ParseStream| {
            // repeat form `vec![elem; len]`
            let a: syn::Expr = input.parse()?;
            input.parse::<syn::Token![;]>()?;
            let b: syn::Expr = input.parse()?;
            Ok((a, b))
        }) {
            let saved = self.in_macro;
            self.in_macro = true;
            self.visit_expr(&elem);
            self.visit_expr(&len);
            self.in_macro = saved;
        }
    }
}

/// decimal string "a.b" -> (numerator, denominator) as u64 if it fits
fn real_to_frac(r: &str) -> Option<(u64, u64)> {
    let (a, b) = r.split_once('.')?;
    let b = b.trim_end_matches('0');
    let mut d: u64 = 1;
    for _ in 0..b.len() {
        d = d.checked_mul(10)?;
    }
    let n: u64 = format!("{}{}", a, b).parse().ok()?;
    Some((n, d))
}

impl<'c, 'a, 'ast> Visit<'ast> for Rewriter<'c, 'a> {
    fn visit_attribute(&mut self, _a: &'ast syn::Attribute) {
        // handled separately
    }
    fn visit_expr_cast(&mut self, e: &'ast syn::ExprCast) {
        let tytext = e.ty.to_token_stream().to_string().replace(' ', "");
        let (es, ee) = self.cx.range(e.expr.span());
        let (_, ce) = self.cx.range(e.span());
        if self.cx.float && tytext == "f64" {
            self.cx.push(es, es, "ToF::to_f(", "R2.cast_f64");
            self.visit_expr(&e.expr);
            self.cx.push(ee, ce, ")", "R2.cast_f64");
            return;
        }
        if self.cx.float && INT_TYPES.contains(&tytext.as_str()) {
            self.cx
                .push(es, es, format!("CastTo::<{}>::cast(", tytext), "R2.cast_int");
            self.visit_expr(&e.expr);
            self.cx.push(ee, ce, ")", "R2.cast_int");
            return;
        }
        visit::visit_expr_cast(self, e);
    }
    fn visit_expr_lit(&mut self, e: &'ast syn::ExprLit) {
        if let syn::Lit::Int(f) = &e.lit {
            // integer literal with a float suffix: 0f64
            if self.cx.float && (f.suffix() == "f64" || f.suffix() == "f32") {
                let (a, b) = self.cx.range(f.span());
                let digits = f.base10_digits().to_string();
                if self.in_macro {
                    self.cx.push(a, b, format!("F::frac({}, 1)", digits), "R2.lit");
                } else {
                    self.cx.push(a, b, format!("F::lit(Ghost({}.0real))", digits), "R2.lit");
                }
            }
        }
        if let syn::Lit::Float(f) = &e.lit {
            if self.cx.float {
                let (a, b) = self.cx.range(f.span());
                let s = self.cx.src[a..b].to_string();
                match float_lit_to_real(&s) {
                    Some(r) if self.in_macro => match real_to_frac(&r) {
                        Some((n, d)) => self.cx.push(a, b, format!("F::frac({}, {})", n, d), "R2.lit"),
                        None => self.cx.errors.push(format!("float literal {} inside a macro does not fit F::frac", s)),
                    },
                    Some(r) => self.cx.push(a, b, format!("F::lit(Ghost({}real))", r), "R2.lit"),
                    None => self.cx.errors.push(format!("cannot convert float literal {}", s)),
                }
            }
        }
    }
    fn visit_expr_closure(&mut self, e: &'ast syn::ExprClosure) {
        // R11.wildclosure: `|_| body` -> `|_vx_wK| body`
        if self.cx.wild_closure {
            for p in e.inputs.iter() {
                let w = match p {
                    syn::Pat::Wild(w) => Some(w),
                    syn::Pat::Type(t) => match &*t.pat { syn::Pat::Wild(w) => Some(w), _ => None },
                    _ => None,
                };
                if let Some(w) = w {
                    let (a, b) = self.cx.range(w.underscore_token.span());
                    let k = self.cx.wild_seq;
                    self.cx.wild_seq += 1;
                    self.cx.push(a, b, format!("_vx_w{}", k), "R11.wildclosure");
                }
            }
        }
        // R13.closurepat: `|(a, b)| body` -> `|vx_cpK| { let (a, b) = vx_cpK; body }`
        if self.cx.closure_pats {
            let mut lets = String::new();
            for (k, p) in e.inputs.iter().enumerate() {
                let pat: &syn::Pat = match p {
                    syn::Pat::Type(t) => &*t.pat,
                    other => other,
                };
                if matches!(pat, syn::Pat::Tuple(_) | syn::Pat::TupleStruct(_) | syn::Pat::Struct(_) | syn::Pat::Reference(_) | syn::Pat::Slice(_)) {
                    let (ps, pe) = self.cx.range(pat.span());
                    let ptxt = self.cx.src[ps..pe].to_string();
                    // K = position of the parameter in ITS closure (stable under edits elsewhere)
                    self.cx.push(ps, pe, format!("vx_cp{}", k), "R13.closurepat");
                    lets.push_str(&format!(" let {} = vx_cp{};", ptxt, k));
                }
            }
            if !lets.is_empty() {
                let (bs, be) = self.cx.range(e.body.span());
                if let syn::Expr::Block(_) = &*e.body {
                    self.cx.push(bs + 1, bs + 1, lets, "R13.closurepat.let");
                } else {
                    self.cx.push(bs, bs, format!("{{{} ", lets), "R13.closurepat.let");
                    self.cx.push(be, be, " }", "R13.closurepat.close");
                }
            }
        }
        visit::visit_expr_closure(self, e);
    }
    fn visit_type(&mut self, t: &'ast syn::Type) {
        // R12.typemap: exact (whitespace-insensitive) match of the written type
        if !self.cx.type_map.is_empty() {
            let key: String = self.cx.text(t.span()).chars().filter(|c| !c.is_whitespace()).collect();
            if let Some(rep) = self.cx.type_map.get(&key).cloned() {
                let (a, b) = self.cx.range(t.span());
                self.cx.push(a, b, rep, "R12.typemap");
                return;
            }
        }
        visit::visit_type(self, t);
    }
    fn visit_path(&mut self, p: &'ast syn::Path) {
        if self.cx.float {
            for seg in p.segments.iter() {
                if seg.ident == "f64" {
                    let (a, b) = self.cx.range(seg.ident.span());
                    self.cx.push(a, b, "F", "R2.type");
                }
            }
        }
        visit::visit_path(self, p);
    }
    fn visit_expr_for_loop(&mut self, e: &'ast syn::ExprForLoop) {
        // R10.forrange: integer range for-loop -> while loop with the same iteration values.
        // The increment is placed at the head of the body, so `continue`/`break` keep their meaning
        // (this is exactly Range::next: yield the current value, then step).
        if self.cx.forrange && e.label.is_none() {
            if let syn::Expr::Range(r) = &*e.expr {
                if let (Some(lo), Some(hi), syn::RangeLimits::HalfOpen(_)) = (&r.start, &r.end, &r.limits) {
                    let k = self.cx.for_seq;
                    self.cx.for_seq += 1;
                    let (fs, _) = self.cx.range(e.for_token.span());
                    let (bs, be) = self.cx.range(e.body.span());
                    let lo_t = self.cx.text(lo.span()).to_string();
                    let hi_t = self.cx.text(hi.span()).to_string();
                    let pat_t = self.cx.text(e.pat.span()).to_string();
                    self.cx.push(
                        fs,
                        bs,
                        format!("{{ let mut vx_i{k} = {lo_t}; let vx_hi{k} = {hi_t}; while vx_i{k} < vx_hi{k} "),
                        "R10.forrange",
                    );
                    self.cx.push(bs + 1, bs + 1, format!(" let {pat_t} = vx_i{k}; vx_i{k} += 1;"), "R10.forrange.head");
                    self.cx.push(be, be, " }", "R10.forrange.close");
                    self.visit_block(&e.body);
                    return;
                }
            }
        }
        // R10.foriter (rules.foriter: [keys]): `for PAT in EXPR { B }` (EXPR not rewritten by R10.forrange) ->
        // `{ let mut vx_itK = vx_iter(EXPR); while vx_itK.vx_more() { let PAT = vx_itK.vx_next(); B } }`.
        // This is Rust's own desugaring (IntoIterator::into_iter + next) with the advance at the head of the
        // body, so `continue` / `break` / `?` keep their meaning; EXPR is copied verbatim (and still visited);
        // vx_iter / vx_more / vx_next are prelude facade functions of the unit.
        if self.cx.foriter && e.label.is_none() {
            let k = self.cx.for_seq;
            self.cx.for_seq += 1;
            let (fs, _) = self.cx.range(e.for_token.span());
            let (es, ee) = self.cx.range(e.expr.span());
            let (bs, be) = self.cx.range(e.body.span());
            let pat_t = self.cx.text(e.pat.span()).to_string();
            self.cx.push(fs, es, format!("{{ let mut vx_it{k} = vx_iter("), "R10.foriter");
            if self.cx.foriter_snapshot {
                self.cx.push(ee, bs, format!("); let ghost vx_all{k} = vx_it{k}.all(); while vx_it{k}.vx_more() "), "R10.foriter.cond");
            } else {
                self.cx.push(ee, bs, format!("); while vx_it{k}.vx_more() "), "R10.foriter.cond");
            }
            self.cx.push(bs + 1, bs + 1, format!(" let {pat_t} = vx_it{k}.vx_next();"), "R10.foriter.head");
            self.cx.push(be, be, " }", "R10.foriter.close");
            self.visit_expr(&e.expr);
            self.visit_block(&e.body);
            return;
        }
        visit::visit_expr_for_loop(self, e);
    }
    fn visit_expr_if(&mut self, e: &'ast syn::ExprIf) {
        // R14.letchain: `if A && let P = E { S }` (no else) -> `if A { if let P = E { S } }`
        if self.cx.let_chains && e.else_branch.is_none() {
            // flatten the left-associated top-level `&&` chain of the condition
            let mut ops: Vec<&syn::Expr> = vec![];
            let mut toks: Vec<Span> = vec![];
            let mut cur: &syn::Expr = &e.cond;
            loop {
                match cur {
                    syn::Expr::Binary(b) if matches!(b.op, syn::BinOp::And(_)) => {
                        ops.push(&b.right);
                        toks.push(b.op.span());
                        cur = &b.left;
                    }
                    other => {
                        ops.push(other);
                        break;
                    }
                }
            }
            ops.reverse();
            toks.reverse();
            let is_let = |x: &syn::Expr| matches!(x, syn::Expr::Let(_));
            if ops.len() >= 2 && ops.iter().any(|o| is_let(o)) {
                let mut n = 0;
                for (i, t) in toks.iter().enumerate() {
                    if is_let(ops[i]) || is_let(ops[i + 1]) {
                        let (a, b) = self.cx.range(*t);
                        self.cx.push(a, b, "{ if", "R14.letchain");
                        n += 1;
                    }
                }
                let (_, be) = self.cx.range(e.then_branch.span());
                self.cx.push(be, be, " }".repeat(n), "R14.letchain.close");
            }
        }
        visit::visit_expr_if(self, e);
    }
    fn visit_expr_binary(&mut self, e: &'ast syn::ExprBinary) {
        if self.boolops || self.cx.boolops_all {
            match &e.op {
                syn::BinOp::BitOr(t) => {
                    let (a, b) = self.cx.range(t.span());
                    self.cx.push(a, b, "||", "R3.boolop");
                }
                syn::BinOp::BitAnd(t) => {
                    let (a, b) = self.cx.range(t.span());
                    self.cx.push(a, b, "&&", "R3.boolop");
                }
                _ => {}
            }
        }
        visit::visit_expr_binary(self, e);
    }
    fn visit_expr_method_call(&mut self, e: &'ast syn::ExprMethodCall) {
        // R9.extend (rules.extend_slice): `X.extend(Y.iter().cloned())` -> `X.extend_from_slice(Y.as_slice())`
        // (Verus has no iterator adapters; vstd specifies Vec::extend_from_slice). Same result for Vec<T: Clone>.
        if self.cx.r9_extend && e.method == "extend" && e.args.len() == 1 && e.turbofish.is_none() {
            if let syn::Expr::MethodCall(c) = &e.args[0] {
                if let (true, syn::Expr::MethodCall(it)) = (c.method == "cloned" && c.args.is_empty(), &*c.receiver) {
                    if it.method == "iter" && it.args.is_empty() {
                        let (a, b) = self.cx.range(e.method.span());
                        self.cx.push(a, b, "extend_from_slice", "R9.extend");
                        let (_, ye) = self.cx.range(it.receiver.span());
                        let (_, ce) = self.cx.range(c.span());
                        self.cx.push(ye, ce, ".as_slice()", "R9.extend.arg");
                        self.visit_expr(&e.receiver);
                        self.visit_expr(&it.receiver);
                        return;
                    }
                }
            }
        }
        // R15.ctorfn: a datatype constructor used as a function value in argument position (`x.map(Some)`, `.map_err(Err)`)
        // -> the eta-expanded closure `|vx_c| Some(vx_c)` with the contract "result is the constructor applied to the
        // argument" (Verus: "using a datatype constructor as a function value" is unsupported). Same meaning.
        for a in e.args.iter() {
            if let syn::Expr::Path(pth) = a {
                if pth.qself.is_none() && pth.path.segments.len() == 1 {
                    let id = pth.path.segments[0].ident.to_string();
                    if id == "Some" || id == "Ok" || id == "Err" {
                        let (s0, e0) = self.cx.range(a.span());
                        self.cx.push(s0, e0, format!("|vx_c| -> (vx_q: _) ensures equal(vx_q, {id}(vx_c)) {{ {id}(vx_c) }}"), "R15.ctorfn");
                    }
                }
            }
        }
        // R9.method: rename the method identifier only (receiver and arguments untouched)
        if let Some(rep) = self.cx.method_map.get(&e.method.to_string()).cloned() {
            let (a, b) = self.cx.range(e.method.span());
            self.cx.push(a, b, rep, "R9.method");
        }
        visit::visit_expr_method_call(self, e);
    }
    fn visit_macro(&mut self, mac: &'ast syn::Macro) {
        let name = mac
            .path
            .segments
            .last()
            .map(|s| s.ident.to_string())
            .unwrap_or_default();
        if let Some(rep) = self.cx.macro_map.get(&name).cloned() {
            let (a, b) = self.cx.range(mac.span());
            if rep == "@first" {
                // keep only the first argument (message literal) : panic!("..", x) -> panic!("..")
                let parser =
                    syn::punctuated::Punctuated::<syn::Expr, syn::Token![,]>::parse_terminated;
                if let Ok(args) = mac.parse_body_with(parser) {
                    if args.len() > 1 {
                        let first = args.first().unwrap();
                        let (_, fe) = self.cx.range(first.span());
                        let (_, last_e) = self.cx.range(args.last().unwrap().span());
                        self.cx.push(fe, last_e, "", "R5.msgargs");
                    }
                }
                return;
            }
            if rep == "@noargs" {
                // drop all arguments: panic!("fmt {}", x) -> panic!()
                let parser =
                    syn::punctuated::Punctuated::<syn::Expr, syn::Token![,]>::parse_terminated;
                if let Ok(args) = mac.parse_body_with(parser) {
                    if !args.is_empty() {
                        let (fs, _) = self.cx.range(args.first().unwrap().span());
                        let (_, le) = self.cx.range(args.last().unwrap().span());
                        self.cx.push(fs, le, "", "R5.msgargs");
                    }
                }
                return;
            }
            if rep == "@cond" {
                // keep only the first argument (condition): assert!(c, "msg {}", x) -> assert!(c)
                let parser =
                    syn::punctuated::Punctuated::<syn::Expr, syn::Token![,]>::parse_terminated;
                if let Ok(args) = mac.parse_body_with(parser) {
                    if let Some(first) = args.first() {
                        let saved = self.in_macro;
                        self.in_macro = true;
                        self.visit_expr(first);
                        self.in_macro = saved;
                        if args.len() > 1 {
                            let (_, fe) = self.cx.range(first.span());
                            let (_, last_e) = self.cx.range(args.last().unwrap().span());
                            self.cx.push(fe, last_e, "", "R5.msgargs");
                        }
                    }
                }
                return;
            }
            self.cx.push(a, b, rep, "R5.macro");
            return;
        }
        self.visit_macro_args(mac);
    }
}

/// similarity of two lines: 2*LCS/(|a|+|b|) over characters
/// LCS similarity of an anchor with a source line; an anchor that is only the BEGINNING of a statement
/// (`let is_late = next_window_size + draw`) is also compared with the equally long prefix of the line.
fn similarity(a: &str, b: &str) -> f64 {
    let full = similarity_full(a, b);
    let (na, nb) = (a.chars().count(), b.chars().count());
    if na + 4 < nb {
        let prefix: String = b.chars().take(na + 2).collect();
        return full.max(similarity_full(a, &prefix));
    }
    full
}

fn similarity_full(a: &str, b: &str) -> f64 {
    let a: Vec<char> = a.chars().collect();
    let b: Vec<char> = b.chars().collect();
    if a.is_empty() || b.is_empty() {
        return 0.0;
    }
    let mut prev = vec![0usize; b.len() + 1];
    for i in 1..=a.len() {
        let mut cur = vec![0usize; b.len() + 1];
        for j in 1..=b.len() {
            cur[j] = if a[i - 1] == b[j - 1] { prev[j - 1] + 1 } else { prev[j].max(cur[j - 1]) };
        }
        prev = cur;
    }
    2.0 * prev[b.len()] as f64 / (a.len() + b.len()) as f64
}

/// strip attributes (R0): all non-doc outer attributes are removed; derive lists are filtered.
fn attr_edits(cx: &mut Ctx, attrs: &[syn::Attribute]) {
    const KEEP_DEFAULT: &[&str] = &["Clone", "Copy", "PartialEq", "Eq", "Default"];
    let keep_owned: Vec<String> = match &cx.derive_keep {
        Some(k) => k.clone(),
        None => KEEP_DEFAULT.iter().map(|s| s.to_string()).collect(),
    };
    let KEEP: Vec<&str> = keep_owned.iter().map(|s| s.as_str()).collect();
    for a in attrs {
        if a.path().is_ident("doc") || a.path().is_ident("default") {
            continue;
        }
        let (s, e) = cx.range(a.span());
        if a.path().is_ident("derive") {
            let mut kept = vec![];
            let _ = a.parse_nested_meta(|m| {
                if let Some(id) = m.path.segments.last() {
                    let n = id.ident.to_string();
                    if KEEP.contains(&n.as_str()) {
                        kept.push(n);
                    }
                }
                Ok(())
            });
            if kept.is_empty() {
                cx.push(s, e, "", "R0.attr");
            } else {
                cx.push(s, e, format!("#[derive({})]", kept.join(", ")), "R0.derive");
            }
        } else {
            cx.push(s, e, "", "R0.attr");
        }
    }
}

struct AttrStripper<'c, 'a> {
    cx: &'c mut Ctx<'a>,
}
impl<'c, 'a, 'ast> Visit<'ast> for AttrStripper<'c, 'a> {
    fn visit_item_struct(&mut self, i: &'ast syn::ItemStruct) {
        attr_edits(self.cx, &i.attrs);
        visit::visit_item_struct(self, i);
    }
    fn visit_item_enum(&mut self, i: &'ast syn::ItemEnum) {
        attr_edits(self.cx, &i.attrs);
        visit::visit_item_enum(self, i);
    }
    fn visit_item_fn(&mut self, i: &'ast syn::ItemFn) {
        attr_edits(self.cx, &i.attrs);
        visit::visit_item_fn(self, i);
    }
    fn visit_item_impl(&mut self, i: &'ast syn::ItemImpl) {
        attr_edits(self.cx, &i.attrs);
        visit::visit_item_impl(self, i);
    }
    fn visit_item_trait(&mut self, i: &'ast syn::ItemTrait) {
        attr_edits(self.cx, &i.attrs);
        visit::visit_item_trait(self, i);
    }
    fn visit_item_const(&mut self, i: &'ast syn::ItemConst) {
        attr_edits(self.cx, &i.attrs);
        visit::visit_item_const(self, i);
    }
    fn visit_item_type(&mut self, i: &'ast syn::ItemType) {
        attr_edits(self.cx, &i.attrs);
        visit::visit_item_type(self, i);
    }
    fn visit_impl_item_fn(&mut self, i: &'ast syn::ImplItemFn) {
        attr_edits(self.cx, &i.attrs);
        visit::visit_impl_item_fn(self, i);
    }
    fn visit_trait_item_fn(&mut self, i: &'ast syn::TraitItemFn) {
        attr_edits(self.cx, &i.attrs);
        visit::visit_trait_item_fn(self, i);
    }
    fn visit_field(&mut self, i: &'ast syn::Field) {
        attr_edits(self.cx, &i.attrs);
        visit::visit_field(self, i);
    }
    fn visit_variant(&mut self, i: &'ast syn::Variant) {
        attr_edits(self.cx, &i.attrs);
        visit::visit_variant(self, i);
    }
    fn visit_expr_closure(&mut self, i: &'ast syn::ExprClosure) {
        attr_edits(self.cx, &i.attrs);
        visit::visit_expr_closure(self, i);
    }
    fn visit_local(&mut self, i: &'ast syn::Local) {
        attr_edits(self.cx, &i.attrs);
        visit::visit_local(self, i);
    }
}

/// R0.vis: visibility normalisation -- everything extracted becomes `pub` (single-file crate,
/// so visibility has no semantic effect; Verus treats types with private fields as opaque).
fn vis_edit(cx: &mut Ctx, vis: &syn::Visibility, at: Span) {
    match vis {
        syn::Visibility::Public(_) => {}
        syn::Visibility::Inherited => {
            let (a, _) = cx.range(at);
            cx.push(a, a, "pub ", "R0.vis");
        }
        syn::Visibility::Restricted(r) => {
            let (a, b) = cx.range(r.span());
            cx.push(a, b, "pub", "R0.vis");
        }
    }
}

fn vis_edits_item(cx: &mut Ctx, it: &syn::Item) {
    match it {
        syn::Item::Struct(s) => {
            vis_edit(cx, &s.vis, s.struct_token.span());
            for f in s.fields.iter() {
                let at = match &f.ident {
                    Some(id) => id.span(),
                    None => f.ty.span(),
                };
                vis_edit(cx, &f.vis, at);
            }
        }
        syn::Item::Enum(e) => vis_edit(cx, &e.vis, e.enum_token.span()),
        syn::Item::Fn(f) => {
            let at = first_sig_token(&f.sig);
            vis_edit(cx, &f.vis, at);
        }
        syn::Item::Impl(i) if i.trait_.is_none() => {
            for ii in i.items.iter() {
                if let syn::ImplItem::Fn(f) = ii {
                    let at = first_sig_token(&f.sig);
                    vis_edit(cx, &f.vis, at);
                }
            }
        }
        syn::Item::Trait(t) => vis_edit(cx, &t.vis, t.trait_token.span()),
        syn::Item::Const(c) => vis_edit(cx, &c.vis, c.const_token.span()),
        syn::Item::Type(t) => vis_edit(cx, &t.vis, t.type_token.span()),
        _ => {}
    }
}

fn first_sig_token(sig: &syn::Signature) -> Span {
    if let Some(c) = &sig.constness {
        return c.span();
    }
    if let Some(c) = &sig.asyncness {
        return c.span();
    }
    if let Some(c) = &sig.unsafety {
        return c.span();
    }
    if let Some(c) = &sig.abi {
        return c.span();
    }
    sig.fn_token.span()
}

/// all statements of a block, recursively (with whether they end in `;` / are items or lets)
struct StmtFinder {
    at_line_col: Option<(usize, usize)>,
    spans: Vec<(Span, bool)>,
}
impl<'ast> Visit<'ast> for StmtFinder {
    fn visit_stmt(&mut self, st: &'ast syn::Stmt) {
        let semi = match st {
            syn::Stmt::Local(_) => true,
            syn::Stmt::Item(_) => true,
            syn::Stmt::Expr(_, s) => s.is_some(),
            syn::Stmt::Macro(m) => m.semi_token.is_some(),
        };
        let _ = self.at_line_col;
        self.spans.push((st.span(), semi));
        visit::visit_stmt(self, st);
    }
}

/// collect loops of a block in pre-order (source order)
/// Minimal edit script (substitution allowed) between a pinned and a current list of signatures:
/// pinned ordinal -> current ordinal (None = the pinned item disappeared).
fn align_sigs(p: &[String], cur: &[String]) -> Vec<Option<usize>> {
    let (n, m) = (p.len(), cur.len());
    let mut d = vec![vec![0usize; m + 1]; n + 1];
    for i in 0..=n { d[i][0] = i; }
    for j in 0..=m { d[0][j] = j; }
    for i in 1..=n {
        for j in 1..=m {
            let sub = d[i - 1][j - 1] + if p[i - 1] == cur[j - 1] { 0 } else { 1 };
            d[i][j] = sub.min(d[i - 1][j] + 1).min(d[i][j - 1] + 1);
        }
    }
    let mut map = vec![None; n];
    let (mut i, mut j) = (n, m);
    while i > 0 && j > 0 {
        let sub = d[i - 1][j - 1] + if p[i - 1] == cur[j - 1] { 0 } else { 1 };
        if d[i][j] == sub {
            map[i - 1] = Some(j - 1);
            i -= 1;
            j -= 1;
        } else if d[i][j] == d[i - 1][j] + 1 {
            i -= 1;
        } else {
            j -= 1;
        }
    }
    map
}

struct LoopFinder {
    loops: Vec<(Span, Span)>, // (whole loop span, body block span)
}
impl<'ast> Visit<'ast> for LoopFinder {
    fn visit_expr_while(&mut self, e: &'ast syn::ExprWhile) {
        self.loops.push((e.span(), e.body.span()));
        visit::visit_expr_while(self, e);
    }
    fn visit_expr_for_loop(&mut self, e: &'ast syn::ExprForLoop) {
        self.loops.push((e.span(), e.body.span()));
        visit::visit_expr_for_loop(self, e);
    }
    fn visit_expr_loop(&mut self, e: &'ast syn::ExprLoop) {
        self.loops.push((e.span(), e.body.span()));
        visit::visit_expr_loop(self, e);
    }
    fn visit_expr_closure(&mut self, _e: &'ast syn::ExprClosure) {
        // loops inside closures are not addressed by ordinal
    }
    fn visit_item(&mut self, _i: &'ast syn::Item) {}
}

fn walk_tokens_self(cx: &mut Ctx, ts: TokenStream) {
    for tt in ts {
        match tt {
            TokenTree::Group(g) => walk_tokens_self(cx, g.stream()),
            TokenTree::Ident(id) => {
                if id == "self" {
                    let (a, b) = cx.range(id.span());
                    cx.push(a, b, "this", "R4.mutself");
                }
            }
            _ => {}
        }
    }
}

struct FnInfo<'x> {
    in_trait_impl: bool,
    key: String,
    sig: Option<&'x syn::Signature>,
    block: Option<&'x syn::Block>,
    span: Span,
}

/// R7.impltrait: `fn f<G>(x: &impl Tr<M>)` -> `fn f<G, VxImpl0: Tr<M>>(x: &VxImpl0)` (DESIGN §2.2 R7).
/// Semantically the identity (argument-position `impl Trait` *is* an anonymous type parameter);
/// Verus generates ill-typed AIR for the anonymous form in trait-method contracts.
fn impl_trait_arg_edits(cx: &mut Ctx, sig: &syn::Signature) {
    struct V<'x> {
        found: Vec<&'x syn::TypeImplTrait>,
    }
    impl<'ast> Visit<'ast> for V<'ast> {
        fn visit_type_impl_trait(&mut self, t: &'ast syn::TypeImplTrait) {
            self.found.push(t);
        }
    }
    let mut v = V { found: vec![] };
    for inp in sig.inputs.iter() {
        v.visit_fn_arg(inp);
    }
    if v.found.is_empty() {
        return;
    }
    let mut decls: Vec<String> = vec![];
    for (k, t) in v.found.iter().enumerate() {
        let name = format!("VxImpl{}", k);
        let (a, b) = cx.range(t.span());
        let bounds = cx.text(t.bounds.span()).to_string();
        decls.push(format!("{}: {}", name, bounds));
        cx.push(a, b, name, "R7.impltrait");
    }
    match (&sig.generics.lt_token, &sig.generics.gt_token) {
        (Some(_), Some(gt)) => {
            let (gs, _) = cx.range(gt.span());
            let sep = if sig.generics.params.is_empty() || sig.generics.params.trailing_punct() { "" } else { ", " };
            cx.push(gs, gs, format!("{}{}", sep, decls.join(", ")), "R7.impltrait.generics");
        }
        _ => {
            let (_, ie) = cx.range(sig.ident.span());
            cx.push(ie, ie, format!("<{}>", decls.join(", ")), "R7.impltrait.generics");
        }
    }
}

/// R13.parampat (rules.param_patterns: [keys]): a parameter written as a destructuring pattern `(a, b): T`
/// becomes `vx_argK: T` (K = position of the parameter) and `let (a, b) = vx_argK;` is the first statement of
/// the body (the verus! macro accepts only identifiers as parameters). Same meaning: the pattern is irrefutable.
fn param_pattern_edits(cx: &mut Ctx, sig: &syn::Signature, block: &syn::Block) {
    let (bs, _) = cx.range(block.span());
    let mut lets = String::new();
    for (k, a) in sig.inputs.iter().enumerate() {
        if let syn::FnArg::Typed(pt) = a {
            if !matches!(&*pt.pat, syn::Pat::Ident(_)) {
                let (ps, pe) = cx.range(pt.pat.span());
                let ptxt = cx.src[ps..pe].to_string();
                cx.push(ps, pe, format!("vx_arg{}", k), "R13.parampat");
                lets.push_str(&format!(" let {} = vx_arg{};", ptxt, k));
            }
        }
    }
    if !lets.is_empty() {
        cx.push(bs + 1, bs + 1, lets, "R13.parampat.let");
    }
}

/// names bound in a function, in source order: parameters first, then every `Pat::Ident` of the body
/// (let bindings, match arms, closure and loop patterns)
fn fn_locals(f: &FnInfo) -> Vec<String> {
    struct L { names: Vec<String> }
    impl<'ast> Visit<'ast> for L {
        fn visit_pat_ident(&mut self, p: &'ast syn::PatIdent) {
            self.names.push(p.ident.to_string());
            visit::visit_pat_ident(self, p);
        }
        fn visit_item(&mut self, _i: &'ast syn::Item) {}
    }
    let mut l = L { names: vec![] };
    if let Some(sig) = f.sig {
        for a in sig.inputs.iter() {
            l.visit_fn_arg(a);
        }
    }
    if let Some(b) = f.block {
        l.visit_block(b);
    }
    l.names
}

/// replace whole-word occurrences of identifiers (never inside a longer identifier, never after a `.`: field names stay)
fn rename_idents(text: &str, map: &HashMap<String, String>) -> String {
    let cs: Vec<char> = text.chars().collect();
    let mut out = String::with_capacity(text.len());
    let mut i = 0;
    while i < cs.len() {
        let c = cs[i];
        if c.is_alphabetic() || c == '_' {
            let st = i;
            while i < cs.len() && (cs[i].is_alphanumeric() || cs[i] == '_') {
                i += 1;
            }
            let w: String = cs[st..i].iter().collect();
            let after_dot = st > 0 && cs[st - 1] == '.' && !(st > 1 && cs[st - 2] == '.');
            match map.get(&w) {
                Some(n) if !after_dot => out.push_str(n),
                _ => out.push_str(&w),
            }
        } else {
            out.push(c);
            i += 1;
        }
    }
    out
}

/// R1.renamedlocal: the ghost text of a contract names locals / parameters of the pinned function body; when the
/// current body binds different names at the aligned positions (a rename), the ghost text follows the rename.
/// Only ghost text changes and Verus re-checks it; functions touched are reported so that a failure there is not
/// trusted without a failing input.
fn renamed_contract(cx: &mut Ctx, f: &FnInfo, c: &Value) -> Option<Value> {
    let pinned = cx.pinned_locals.get(&f.key)?.clone();
    let cur = fn_locals(f);
    if pinned == cur {
        return None;
    }
    let mapping = align_sigs(&pinned, &cur);
    let curset: HashSet<&String> = cur.iter().collect();
    let mut map: HashMap<String, String> = HashMap::new();
    let mut bad: HashSet<String> = HashSet::new();
    for (i, m) in mapping.iter().enumerate() {
        if let Some(j) = m {
            let (a, b) = (&pinned[i], &cur[*j]);
            if a != b && !curset.contains(a) {
                match map.get(a) {
                    Some(prev) if prev != b => { bad.insert(a.clone()); }
                    _ => { map.insert(a.clone(), b.clone()); }
                }
            }
        }
    }
    for b in bad { map.remove(&b); }
    if map.is_empty() {
        return None;
    }
    fn walk(v: &Value, map: &HashMap<String, String>, key: Option<&str>) -> Value {
        match v {
            Value::String(s) => {
                // anchors are SOURCE text (already renamed in the current tree): rename them too so that they are found
                let _ = key;
                Value::String(rename_idents(s, map))
            }
            Value::Array(a) => Value::Array(a.iter().map(|x| walk(x, map, None)).collect()),
            Value::Object(o) => Value::Object(o.iter().map(|(k, x)| (k.clone(), if k == "ret" || k == "pos" { x.clone() } else { walk(x, map, Some(k)) })).collect()),
            other => other.clone(),
        }
    }
    let renamed = walk(c, &map, None);
    if &renamed == c {
        // the contract text names none of the renamed bindings: nothing to adapt
        return None;
    }
    let (b0, _) = cx.range(f.span);
    for _ in 0..map.len() {
        cx.push(b0, b0, "", "R1.renamedlocal");
    }
    cx.renamed_fns.push(f.key.clone());
    Some(renamed)
}

fn apply_contract(cx: &mut Ctx, f: &FnInfo, contract: Option<&Value>, mutself: bool) {
    let block = match f.block {
        Some(b) => b,
        None => {
            // trait method declaration without body: splice spec before the `;`
            if let Some(c) = contract {
                if let Some(ret) = c.get("ret").and_then(|v| v.as_str()) {
                    if let Some(syn::ReturnType::Type(_, ty)) = f.sig.map(|s| &s.output) {
                        let (a, b) = cx.range(ty.span());
                        cx.push(a, a, format!("({}: ", ret), "R1.ret");
                        cx.push(b, b, ")", "R1.ret");
                    }
                }
                if let Some(spec) = c.get("spec").and_then(|v| v.as_str()) {
                    let (_, e) = cx.range(f.span);
                    // f.span ends after `;`
                    let pos = e - 1;
                    cx.push(pos, pos, format!("\n{}\n", spec), "R1.spec");
                }
            }
            return;
        }
    };
    let (bs, be) = cx.range(block.span());
    if mutself {
        if let Some(syn::FnArg::Receiver(r)) = f.sig.and_then(|s| s.inputs.first()) {
            if let Some(m) = &r.mutability {
                if r.reference.is_none() {
                    let (a, _) = cx.range(m.span());
                    let (sa, _) = cx.range(r.self_token.span());
                    cx.push(a, sa, "", "R4.mutself");
                    cx.push(bs + 1, bs + 1, " let mut this = self; ", "R4.mutself");
                    walk_tokens_self(cx, block.to_token_stream());
                }
            }
        }
    }
    let c = match contract {
        Some(c) => c,
        None => return,
    };
    if let (Some(ret), Some(sig)) = (c.get("ret").and_then(|v| v.as_str()), f.sig) {
        if let syn::ReturnType::Type(_, ty) = &sig.output {
            let (a, b) = cx.range(ty.span());
            cx.push(a, a, format!("({}: ", ret), "R1.ret");
            cx.push(b, b, ")", "R1.ret");
        } else {
            cx.errors
                .push(format!("{}: ret name given but function returns ()", f.key));
        }
    }
    if let Some(spec) = c.get("spec").and_then(|v| v.as_str()) {
        cx.push(bs, bs, format!("\n{}\n", spec), "R1.spec");
    }
    if let Some(pre) = c.get("body_prefix").and_then(|v| v.as_str()) {
        cx.push(bs + 1, bs + 1, format!("\n{}\n", pre), "R1.proof");
    }
    if let Some(suf) = c.get("body_suffix").and_then(|v| v.as_str()) {
        cx.push(be - 1, be - 1, format!("\n{}\n", suf), "R1.proof");
    }
    if c.get("loops").and_then(|v| v.as_object()).is_some() || c.get("loop_ends").and_then(|v| v.as_object()).is_some() {
        let mut lf = LoopFinder { loops: vec![] };
        lf.visit_block(block);
        let cur_sigs: Vec<String> = lf
            .loops
            .iter()
            .map(|(whole, body)| {
                let (ws, _) = cx.range(*whole);
                let (bs2, _) = cx.range(*body);
                cx.src[ws..bs2].split_whitespace().collect::<Vec<_>>().join(" ")
            })
            .collect();
        cx.loop_sigs.push((f.key.clone(), cur_sigs.clone()));
        let pinned: Option<Vec<String>> = cx.pinned_loop_sigs.get(&f.key).cloned();
        let mapping: Option<Vec<Option<usize>>> = match &pinned {
            Some(p) if p != &cur_sigs => Some(align_sigs(p, &cur_sigs)),
            _ => None,
        };
        let blk0 = cx.range(block.span()).0;
        let mut resolve = |cx: &mut Ctx, idx0: usize| -> Option<usize> {
            match &mapping {
                Some(mp) => match mp.get(idx0).copied().flatten() {
                    Some(j) => {
                        if j != idx0 {
                            cx.push(blk0, blk0, "", "R1.loop.realigned");
                        }
                        Some(j)
                    }
                    None => {
                        // (not a reason to distrust a failure: the loop is gone, what took its place is straight-line
                        // code the verifier sees directly - only proof HINTS that lose their anchor are)
                        cx.push(blk0, blk0, "", "R1.droppedloop");
                        None
                    }
                },
                None => {
                    if idx0 >= lf.loops.len() {
                        cx.errors.push(format!("ANCHOR-LOST {}: loop ordinal {} not found ({} loops)", f.key, idx0, lf.loops.len()));
                        None
                    } else {
                        Some(idx0)
                    }
                }
            }
        };
        if let Some(loops) = c.get("loops").and_then(|v| v.as_object()) {
            for (k, v) in loops {
                let idx0: usize = match k.parse() {
                    Ok(i) => i,
                    Err(_) => {
                        cx.errors.push(format!("{}: bad loop ordinal {}", f.key, k));
                        continue;
                    }
                };
                if let Some(idx) = resolve(cx, idx0) {
                    let (ls, _) = cx.range(lf.loops[idx].1);
                    cx.push(ls, ls, format!("\n{}\n", v.as_str().unwrap_or("")), "R1.loop");
                }
            }
        }
        if let Some(loops) = c.get("loop_ends").and_then(|v| v.as_object()) {
            // ghost code at the end of the body of loop k (before its closing brace)
            for (k, v) in loops {
                let idx0: usize = k.parse().unwrap_or(usize::MAX);
                if let Some(idx) = resolve(cx, idx0) {
                    let (_, le) = cx.range(lf.loops[idx].1);
                    cx.push(le - 1, le - 1, format!("\n{}\n", v.as_str().unwrap_or("")), "R1.proof");
                }
            }
        }
    }
    if let Some(ins) = c.get("inserts").and_then(|v| v.as_array()) {
        let body = &cx.src[bs..be];
        let mut todo = vec![];
        for i in ins {
            let anchor = i.get("anchor").and_then(|v| v.as_str()).unwrap_or("");
            let pos = i.get("pos").and_then(|v| v.as_str()).unwrap_or("before");
            let text = i.get("text").and_then(|v| v.as_str()).unwrap_or("");
            let n = body.matches(anchor).count();
            let occ = i.get("occurrence").and_then(|v| v.as_u64());
            let ins_key = format!("{}|{}|{}", pos, anchor, occ.unwrap_or(0));
            if cx.force_drop.get(&f.key).map(|v| v.contains(&ins_key)).unwrap_or(false) {
                cx.push(bs, bs, "", "R1.forcedrop");
                continue;
            }
            let expect = i.get("of").and_then(|v| v.as_u64()).unwrap_or(1) as usize;
            let mut fuzzy_at: Option<usize> = None;
            if n != expect && n >= 1 && expect > 1 && pos != "replace" {
                // `"text"@k/n` and the number of occurrences changed: take the occurrence nearest to the pinned line
                if let Some(hl) = i.get("hint_line").and_then(|v| v.as_i64()) {
                    let fn_line = cx.line_of(bs) as i64;
                    let mut cand: Option<(i64, usize)> = None;
                    for (o, _) in body.match_indices(anchor) {
                        let rel = cx.line_of(bs + o) as i64 - fn_line;
                        let d = (rel - hl).abs();
                        if cand.map(|c| d < c.0).unwrap_or(true) {
                            cand = Some((d, bs + o));
                        }
                    }
                    if let Some((d, o)) = cand {
                        if d <= 2 {
                            fuzzy_at = Some(o);
                        }
                    }
                }
                if fuzzy_at.is_none() && i.get("droppable").and_then(|v| v.as_bool()).unwrap_or(false) {
                    cx.push(bs, bs, "", "R1.droppedhint");
                    cx.hint_dropped_fns.push(f.key.clone());
                    cx.dropped_hint_keys.push((f.key.clone(), ins_key.clone()));
                    continue;
                }
            }
            if fuzzy_at.is_none() && (n != expect || anchor.is_empty() || occ.map(|o| o as usize >= n).unwrap_or(false)) {
                // The anchored statement was edited: fall back to the single most similar line of the
                // body (first line of the anchor), so that an edit of an anchored statement is still
                // *decided* instead of being reported as a lost anchor. Counted as R1.fuzzyanchor.
                if pos != "replace" && n == 0 && expect == 1 && !anchor.is_empty() {
                    let first = anchor.lines().next().unwrap_or("").trim();
                    let mut best: (f64, usize) = (0.0, 0);
                    let mut second = 0.0f64;
                    let mut off = bs;
                    for ln in body.split_inclusive('\n') {
                        let sim = similarity(first, ln.trim());
                        if sim > best.0 {
                            second = best.0;
                            best = (sim, off);
                        } else if sim > second {
                            second = sim;
                        }
                        off += ln.len();
                    }
                    if best.0 >= 0.6 && best.0 - second >= 0.08 {
                        fuzzy_at = Some(best.1);
                    } else if let Some(hl) = i.get("hint_line").and_then(|v| v.as_i64()) {
                        // several similar lines: take the one nearest to where the anchor was on the pinned tree
                        let fn_line = cx.line_of(bs) as i64;
                        let mut cand: Option<(i64, usize)> = None;
                        let mut off2 = bs;
                        for ln in body.split_inclusive('\n') {
                            let sim = similarity(first, ln.trim());
                            if sim >= 0.6 {
                                let rel = cx.line_of(off2) as i64 - fn_line;
                                let d = (rel - hl).abs();
                                if cand.map(|c| d < c.0).unwrap_or(true) {
                                    cand = Some((d, off2));
                                }
                            }
                            off2 += ln.len();
                        }
                        if let Some((d, o)) = cand {
                            if d <= 3 {
                                fuzzy_at = Some(o);
                            }
                        }
                    }
                }
                if fuzzy_at.is_none() && i.get("droppable").and_then(|v| v.as_bool()).unwrap_or(false) {
                    // the anchored statement is gone: drop this proof hint (ghost code only) and say so
                    cx.push(bs, bs, "", "R1.droppedhint");
                    cx.hint_dropped_fns.push(f.key.clone());
                    cx.dropped_hint_keys.push((f.key.clone(), ins_key.clone()));
                    continue;
                }
                if fuzzy_at.is_none() {
                    cx.errors.push(format!(
                        "ANCHOR-LOST {}: anchor {:?} occurs {} times (expected {})",
                        f.key, anchor, n, expect
                    ));
                    continue;
                }
            }
            let at = match fuzzy_at {
                Some(a) => {
                    cx.push(a, a, "", "R1.fuzzyanchor");
                    cx.fuzzy_fns.push(f.key.clone());
                    // `a` is the start of the matched LINE: step over its indentation, otherwise the innermost
                    // statement containing the position is the enclosing block's, not the matched statement
                    let bytes = cx.src.as_bytes();
                    let mut a2 = a;
                    while a2 < bytes.len() && (bytes[a2] == b' ' || bytes[a2] == b'\t') {
                        a2 += 1;
                    }
                    a2
                }
                None => bs + body.match_indices(anchor).nth(occ.unwrap_or(0) as usize).unwrap().0,
            };
            // statement-based placement: `before` = in front of the innermost statement containing the anchor,
            // `after` = behind that statement (robust against statements that span several lines)
            let (stmt_s, stmt_e, stmt_semi) = {
                let mut sf = StmtFinder { at_line_col: None, spans: vec![] };
                sf.visit_block(block);
                let mut best: Option<(usize, usize, bool)> = None;
                for (sp, semi) in sf.spans.iter() {
                    let (a, b) = cx.range(*sp);
                    if a <= at && at < b {
                        if best.map(|x| (b - a) < (x.1 - x.0)).unwrap_or(true) {
                            best = Some((a, b, *semi));
                        }
                    }
                }
                if anchor.trim_start().starts_with("//") {
                    // an anchor on a comment line is placed line-based (comments are not statements)
                    (at, at, true)
                } else {
                    best.unwrap_or((at, at, true))
                }
            };
            let line = cx.line_of(if pos == "after" { stmt_e.max(1) - 1 } else { stmt_s });
            if pos == "after" && !stmt_semi && stmt_e > stmt_s {
                cx.errors.push(format!("ANCHOR-LOST {}: anchor {:?} is in a tail expression; `after` would break the syntax", f.key, anchor));
                continue;
            }
            cx.anchor_lines.push((f.key.clone(), format!("{}|{}|{}", pos, anchor, occ.unwrap_or(0)), line as i64 - cx.line_of(bs) as i64));
            let off = match pos {
                "before" => cx.line_starts[line - 1],
                "after" => {
                    if line < cx.line_starts.len() {
                        cx.line_starts[line]
                    } else {
                        cx.src.len()
                    }
                }
                "replace" => at,
                _ => {
                    cx.errors.push(format!("{}: bad pos {}", f.key, pos));
                    continue;
                }
            };
            if pos == "replace" {
                todo.push((off, off + anchor.len(), text.to_string()));
            } else {
                todo.push((off, off, format!("{}\n", text)));
            }
        }
        for (a, b, t) in todo {
            let rule = if a == b { "R1.proof" } else { "RX.replace" };
            cx.push(a, b, t, rule);
        }
    }
}

/// R1.closure (rules.closure_specs: {"<fn key>": [{"index": k, "types": ["T0", ..], "ret": "(q: T)", "spec": "ensures .."}]}):
/// contract of the k-th closure (source order) of a function. Inserts `: Ti` after the i-th untyped
/// parameter pattern and ` -> ret spec ` between the parameter list and the body. Nothing executable
/// changes: a type ascription and a Verus closure contract (Verus knows nothing about the result of an
/// unannotated closure).
/// body of a closure that is a projection: paths, field accesses, `!`, `*`, `&`, `&&`, `||`, parentheses,
/// `true`/`false`. Such a body is also a Verus spec expression with the same meaning.
fn simple_pure(e: &syn::Expr) -> bool {
    match e {
        syn::Expr::Path(p) => p.qself.is_none(),
        syn::Expr::Lit(l) => matches!(l.lit, syn::Lit::Bool(_)),
        syn::Expr::Field(f) => simple_pure(&f.base),
        syn::Expr::Paren(p) => simple_pure(&p.expr),
        syn::Expr::Reference(r) => r.mutability.is_none() && simple_pure(&r.expr),
        syn::Expr::Unary(u) => matches!(u.op, syn::UnOp::Not(_) | syn::UnOp::Deref(_)) && simple_pure(&u.expr),
        syn::Expr::Binary(b) => matches!(b.op, syn::BinOp::And(_) | syn::BinOp::Or(_)) && simple_pure(&b.left) && simple_pure(&b.right),
        syn::Expr::Block(b) => {
            b.label.is_none() && b.block.stmts.len() == 1
                && match &b.block.stmts[0] { syn::Stmt::Expr(e, None) => simple_pure(e), _ => false }
        }
        _ => false,
    }
}

/// Returns (closures, closures left without a contract).
fn apply_closure_specs(cx: &mut Ctx, f: &FnInfo, specs: Option<&Value>, mutself: bool) -> (usize, usize) {
    let empty: Vec<Value> = vec![];
    let (block, specs) = match (f.block, specs.and_then(|v| v.as_array())) {
        (Some(b), Some(s)) => (b, s),
        (Some(b), None) => (b, &empty),
        _ => return (0, 0),
    };
    let mut specified: HashSet<usize> = HashSet::new();
    struct ClosureFinder<'q> { found: Vec<&'q syn::ExprClosure> }
    impl<'ast> Visit<'ast> for ClosureFinder<'ast> {
        fn visit_expr_closure(&mut self, e: &'ast syn::ExprClosure) {
            self.found.push(e);
            visit::visit_expr_closure(self, e);
        }
        fn visit_item(&mut self, _i: &'ast syn::Item) {}
    }
    let mut cf = ClosureFinder { found: vec![] };
    cf.visit_block(block);
    // signature of each closure: its parameter text (a mutated / inserted closure is re-aligned against the
    // pinned list of signatures, so that contracts keyed by ordinal stay on "their" closures)
    let cur_sigs: Vec<String> = cf.found.iter().map(|c| c.inputs.to_token_stream().to_string().replace(' ', "")).collect();
    if cf.found.is_empty() {
        return (0, 0);
    }
    if !specs.is_empty() {
        cx.closure_sigs.push((f.key.clone(), cur_sigs.clone()));
    }
    let pinned: Option<Vec<String>> = cx.pinned_closure_sigs.get(&f.key).cloned();
    // map pinned ordinal -> current ordinal by a minimal edit script (substitution allowed)
    let mapping: Option<Vec<Option<usize>>> = pinned.as_ref().map(|p| {
        let (n, m) = (p.len(), cur_sigs.len());
        let mut d = vec![vec![0usize; m + 1]; n + 1];
        for i in 0..=n { d[i][0] = i; }
        for j in 0..=m { d[0][j] = j; }
        for i in 1..=n {
            for j in 1..=m {
                let sub = d[i - 1][j - 1] + if p[i - 1] == cur_sigs[j - 1] { 0 } else { 1 };
                d[i][j] = sub.min(d[i - 1][j] + 1).min(d[i][j - 1] + 1);
            }
        }
        let mut map = vec![None; n];
        let (mut i, mut j) = (n, m);
        while i > 0 && j > 0 {
            let sub = d[i - 1][j - 1] + if p[i - 1] == cur_sigs[j - 1] { 0 } else { 1 };
            if d[i][j] == sub {
                map[i - 1] = Some(j - 1);
                i -= 1;
                j -= 1;
            } else if d[i][j] == d[i - 1][j] + 1 {
                i -= 1;
            } else {
                j -= 1;
            }
        }
        map
    });
    for s in specs {
        let idx0 = s["index"].as_u64().unwrap_or(0) as usize;
        let idx = match &mapping {
            Some(mp) if mp.len() != cur_sigs.len() || pinned.as_ref().map(|p| p != &cur_sigs).unwrap_or(false) => match mp.get(idx0).copied().flatten() {
                Some(j) => {
                    if j != idx0 {
                        cx.push(cx.range(block.span()).0, cx.range(block.span()).0, "", "R1.closure.realigned");
                    }
                    j
                }
                None => {
                    // the closure is gone (inlined / rewritten): its contract is dropped with it; as for loops this
                    // does not make a failure untrustworthy
                    cx.push(cx.range(block.span()).0, cx.range(block.span()).0, "", "R1.droppedclosure");
                    continue;
                }
            },
            _ => idx0,
        };
        let c = match cf.found.get(idx) {
            Some(c) => *c,
            None => {
                cx.errors.push(format!("ANCHOR-LOST {}: closure ordinal {} not found ({} closures)", f.key, idx, cf.found.len()));
                continue;
            }
        };
        let types: Vec<String> = s["types"].as_array().map(|a| a.iter().filter_map(|v| v.as_str().map(String::from)).collect()).unwrap_or_default();
        if types.len() != c.inputs.len() {
            cx.errors.push(format!("ANCHOR-LOST {}: closure {} has {} parameters, contract names {}", f.key, idx, c.inputs.len(), types.len()));
            continue;
        }
        for (p, t) in c.inputs.iter().zip(types.iter()) {
            if let syn::Pat::Type(_) = p {
                continue; // already typed in the source
            }
            let (_, pe) = cx.range(p.span());
            cx.push(pe, pe, format!(": {}", t), "R1.closure.type");
        }
        if !matches!(c.output, syn::ReturnType::Default) {
            cx.errors.push(format!("{}: closure {} already has a return type", f.key, idx));
            continue;
        }
        let (bs, _) = cx.range(c.body.span());
        let ret = s["ret"].as_str().unwrap_or("");
        let spec = s["spec"].as_str().unwrap_or("");
        cx.push(bs, bs, format!("-> {}\n{}\n", ret, spec), "R1.closure");
        // a closure with an explicit return type needs a block body: `|x| e` -> `|x| -> T spec { e }`
        if !matches!(&*c.body, syn::Expr::Block(_)) {
            let (_, be) = cx.range(c.body.span());
            cx.push(bs, bs, "{ ", "R1.closure.brace");
            cx.push(be, be, " }", "R1.closure.brace");
        }
        specified.insert(idx);
    }
    // R1.closure.auto: a closure without a contract whose body is a projection gets the contract
    // "result equals the body" (the body text read as a spec expression). Nothing executable changes.
    let mut unspecified = 0usize;
    for (k, c) in cf.found.iter().enumerate() {
        if specified.contains(&k) {
            continue;
        }
        let (bs, be) = cx.range(c.body.span());
        let text = cx.src[bs..be].to_string();
        let uses_self = c.body.to_token_stream().into_iter().any(|t| t.to_string() == "self") || text.contains("self");
        let plain_params = c.inputs.iter().all(|p| match p {
            syn::Pat::Type(t) => matches!(&*t.pat, syn::Pat::Ident(_) | syn::Pat::Wild(_)),
            syn::Pat::Ident(_) | syn::Pat::Wild(_) => true,
            _ => false,
        });
        if matches!(c.output, syn::ReturnType::Default) && simple_pure(&c.body) && !(mutself && uses_self) && c.capture.is_none() && plain_params {
            cx.push(bs, bs, format!("-> (vx_q: _) ensures equal(vx_q, {}) ", text), "R1.closure.auto");
            if !matches!(&*c.body, syn::Expr::Block(_)) {
                cx.push(bs, bs, "{ ", "R1.closure.brace");
                cx.push(be, be, " }", "R1.closure.brace");
            }
        } else {
            unspecified += 1;
        }
    }
    (cf.found.len(), unspecified)
}

/// number of loops (for / while / loop) in a function body, closures and nested items excluded
fn count_loops(b: &syn::Block) -> usize {
    struct L { n: usize }
    impl<'ast> Visit<'ast> for L {
        fn visit_expr_for_loop(&mut self, e: &'ast syn::ExprForLoop) { self.n += 1; visit::visit_expr_for_loop(self, e); }
        fn visit_expr_while(&mut self, e: &'ast syn::ExprWhile) { self.n += 1; visit::visit_expr_while(self, e); }
        fn visit_expr_loop(&mut self, e: &'ast syn::ExprLoop) { self.n += 1; visit::visit_expr_loop(self, e); }
        fn visit_item(&mut self, _i: &'ast syn::Item) {}
    }
    let mut l = L { n: 0 };
    l.visit_block(b);
    l.n
}

fn type_last_ident(ty: &syn::Type) -> String {
    match ty {
        syn::Type::Path(p) => p
            .path
            .segments
            .last()
            .map(|s| s.ident.to_string())
            .unwrap_or_default(),
        syn::Type::Reference(r) => type_last_ident(&r.elem),
        _ => ty.to_token_stream().to_string(),
    }
}

fn impl_names(i: &syn::ItemImpl) -> (Option<String>, String) {
    let tr = i
        .trait_
        .as_ref()
        .and_then(|(_, p, _)| p.segments.last().map(|s| s.ident.to_string()));
    (tr, type_last_ident(&i.self_ty))
}

fn apply_edits(cx: &Ctx, start: usize, end: usize) -> (String, Vec<usize>, BTreeMap<String, usize>) {
    // select edits inside [start,end], drop those contained in a replaced range of another edit
    let mut eds: Vec<Edit> = cx
        .edits
        .iter()
        .filter(|e| e.start >= start && e.end <= end)
        .cloned()
        .collect();
    eds.sort_by(|a, b| (a.start, a.seq).cmp(&(b.start, b.seq)));
    let mut keep: Vec<Edit> = vec![];
    let repl: Vec<(usize, usize, usize)> = eds
        .iter()
        .filter(|e| e.end > e.start)
        .map(|e| (e.start, e.end, e.seq))
        .collect();
    'outer: for e in eds.iter() {
        for (a, b, s) in repl.iter() {
            if *s == e.seq {
                continue;
            }
            // e strictly inside replaced range [a,b) of another edit (and not identical range)
            let inside = if e.end > e.start {
                e.start >= *a && e.end <= *b && !(e.start == *a && e.end == *b)
            } else {
                e.start > *a && e.start < *b
            };
            if inside {
                continue 'outer;
            }
            if e.end > e.start && e.start == *a && e.end == *b && *s < e.seq {
                // duplicate replacement of identical range: keep the first
                continue 'outer;
            }
        }
        keep.push(e.clone());
    }
    let mut out = String::new();
    let mut counts = BTreeMap::new();
    // linemap: for each output line, source line number or 0
    let mut linemap: Vec<usize> = vec![];
    let mut pos = start;
    let mut at_line_start = true;
    let push_text = |out: &mut String,
                         linemap: &mut Vec<usize>,
                         at_line_start: &mut bool,
                         text: &str,
                         src_off: Option<usize>| {
        let mut off = src_off;
        for ch in text.chars() {
            if *at_line_start {
                linemap.push(match off {
                    Some(o) => cx.line_of(o),
                    None => 0,
                });
                *at_line_start = false;
            }
            out.push(ch);
            if ch == '\n' {
                *at_line_start = true;
            }
            if let Some(o) = off.as_mut() {
                *o += ch.len_utf8();
            }
        }
    };
    for e in keep.iter() {
        if e.start < pos {
            // overlapping edit: skip (reported)
            continue;
        }
        push_text(
            &mut out,
            &mut linemap,
            &mut at_line_start,
            &cx.src[pos..e.start],
            Some(pos),
        );
        push_text(&mut out, &mut linemap, &mut at_line_start, &e.text, None);
        *counts.entry(e.rule.clone()).or_insert(0) += 1;
        pos = e.end;
    }
    push_text(
        &mut out,
        &mut linemap,
        &mut at_line_start,
        &cx.src[pos..end],
        Some(pos),
    );
    (out, linemap, counts)
}

fn main() {
    let mut inp = String::new();
    std::io::stdin().read_to_string(&mut inp).unwrap();
    let req: Value = serde_json::from_str(&inp).expect("bad request json");
    let repo = req["repo"].as_str().unwrap_or("/repo").to_string();
    let empty = Map::new();
    let contracts = req["contracts"].as_object().unwrap_or(&empty).clone();
    let rules = &req["rules"];
    let float = rules["float"].as_bool().unwrap_or(false);
    let boolops: HashSet<String> = rules["boolops"]
        .as_array()
        .map(|a| a.iter().filter_map(|v| v.as_str().map(String::from)).collect())
        .unwrap_or_default();
    let mutself: HashSet<String> = rules["mutself"]
        .as_array()
        .map(|a| a.iter().filter_map(|v| v.as_str().map(String::from)).collect())
        .unwrap_or_default();
    let forrange: HashSet<String> = rules["forrange"]
        .as_array()
        .map(|a| a.iter().filter_map(|v| v.as_str().map(String::from)).collect())
        .unwrap_or_default();
    let foriter_snapshot = rules["foriter_snapshot"].as_bool().unwrap_or(false);
    let foriter: HashSet<String> = rules["foriter"]
        .as_array()
        .map(|a| a.iter().filter_map(|v| v.as_str().map(String::from)).collect())
        .unwrap_or_default();
    // R7.impltrait (rules.impl_trait_args: [keys]): argument-position `impl Trait` -> named type parameter
    let impl_trait_args: HashSet<String> = rules["impl_trait_args"]
        .as_array()
        .map(|a| a.iter().filter_map(|v| v.as_str().map(String::from)).collect())
        .unwrap_or_default();
    let macro_map: HashMap<String, String> = rules["macro_map"]
        .as_object()
        .map(|m| {
            m.iter()
                .map(|(k, v)| (k.clone(), v.as_str().unwrap_or("").to_string()))
                .collect()
        })
        .unwrap_or_default();

    let method_map: HashMap<String, String> = rules["method_map"]
        .as_object()
        .map(|m| {
            m.iter()
                .map(|(k, v)| (k.clone(), v.as_str().unwrap_or("").to_string()))
                .collect()
        })
        .unwrap_or_default();

    let r9_extend = rules["extend_slice"].as_bool().unwrap_or(false);
    let wild_closure = rules["wild_closure_args"].as_bool().unwrap_or(false);
    let closure_pats = rules["closure_param_patterns"].as_bool().unwrap_or(false);
    let let_chains = rules["let_chains"].as_bool().unwrap_or(false);
    let param_patterns: HashSet<String> = rules["param_patterns"]
        .as_array()
        .map(|a| a.iter().filter_map(|v| v.as_str().map(String::from)).collect())
        .unwrap_or_default();
    let type_map: HashMap<String, String> = rules["type_map"]
        .as_object()
        .map(|m| {
            m.iter()
                .map(|(k, v)| (k.chars().filter(|c| !c.is_whitespace()).collect(), v.as_str().unwrap_or("").to_string()))
                .collect()
        })
        .unwrap_or_default();
    let mut segments = vec![];
    let mut errors: Vec<String> = vec![];
    let mut used_contracts: HashSet<String> = HashSet::new();

    for srcreq in req["sources"].as_array().unwrap_or(&vec![]) {
        let file = srcreq["file"].as_str().unwrap().to_string();
        let path = format!("{}/{}", repo, file);
        let src = match std::fs::read_to_string(&path) {
            Ok(s) => s,
            Err(e) => {
                errors.push(format!("ANCHOR-LOST cannot read {}: {}", path, e));
                continue;
            }
        };
        let ast = match syn::parse_file(&src) {
            Ok(a) => a,
            Err(e) => {
                errors.push(format!("PARSE-ERROR {}: {}", path, e));
                continue;
            }
        };
        // flatten top-level items, also descending into inline modules (not cfg(test))
        let mut items: Vec<&syn::Item> = vec![];
        fn collect<'x>(items: &mut Vec<&'x syn::Item>, list: &'x [syn::Item]) {
            for it in list {
                if let syn::Item::Mod(m) = it {
                    let is_test = m.attrs.iter().any(|a| {
                        a.path().is_ident("cfg") && a.to_token_stream().to_string().contains("test")
                    });
                    if !is_test {
                        if let Some((_, content)) = &m.content {
                            collect(items, content);
                        }
                    }
                } else {
                    items.push(it);
                }
            }
        }
        collect(&mut items, &ast.items);

        for sel in srcreq["items"].as_array().unwrap_or(&vec![]) {
            let kind = sel["kind"].as_str().unwrap_or("");
            let name = sel["name"].as_str().unwrap_or("");
            let nth = sel["nth"].as_u64().unwrap_or(0) as usize;
            let mut cx = Ctx::new(&src);
            cx.float = float && !sel["nofloat"].as_bool().unwrap_or(false);
            cx.macro_map = macro_map.clone();
            cx.method_map = method_map.clone(); cx.r9_extend = r9_extend;
            cx.wild_closure = wild_closure; cx.closure_pats = closure_pats; cx.type_map = type_map.clone(); cx.let_chains = let_chains;
            if kind == "lift" {
                // R6/R8: lift a closure bound to a `let` or the body of loop k of a function into a free fn
                let want_ty = sel["type"].as_str();
                let want_tr = sel["trait"].as_str();
                let want_fn = sel["fn"].as_str().unwrap_or("");
                let mut the_fn: Option<(&syn::Block, Span)> = None;
                for it in items.iter() {
                    match it {
                        syn::Item::Impl(i) if want_ty.is_some() => {
                            let (tr, ty) = impl_names(i);
                            if tr.as_deref() == want_tr && Some(ty.as_str()) == want_ty {
                                for ii in i.items.iter() {
                                    if let syn::ImplItem::Fn(f) = ii {
                                        if f.sig.ident == want_fn {
                                            the_fn = Some((&f.block, f.span()));
                                        }
                                    }
                                }
                            }
                        }
                        syn::Item::Fn(f) if want_ty.is_none() => {
                            if f.sig.ident == want_fn {
                                the_fn = Some((&f.block, f.span()));
                            }
                        }
                        _ => {}
                    }
                }
                let lname = sel["name"].as_str().unwrap_or("lifted").to_string();
                let (fblock, fspan) = match the_fn {
                    Some(x) => x,
                    None => {
                        errors.push(format!("ANCHOR-LOST {}: lift: fn {} not found", file, want_fn));
                        continue;
                    }
                };
                // locate the block
                struct LetFinder<'q> { name: String, found: Option<&'q syn::Block> }
                impl<'ast> Visit<'ast> for LetFinder<'ast> {
                    fn visit_local(&mut self, l: &'ast syn::Local) {
                        if let syn::Pat::Ident(pi) = &l.pat {
                            if pi.ident == self.name {
                                if let Some(init) = &l.init {
                                    if let syn::Expr::Closure(c) = &*init.expr {
                                        if let syn::Expr::Block(b) = &*c.body {
                                            self.found = Some(&b.block);
                                        }
                                    }
                                }
                            }
                        }
                        visit::visit_local(self, l);
                    }
                }
                struct LoopBlocks<'q> { blocks: Vec<&'q syn::Block> }
                impl<'ast> Visit<'ast> for LoopBlocks<'ast> {
                    fn visit_expr_while(&mut self, e: &'ast syn::ExprWhile) { self.blocks.push(&e.body); visit::visit_expr_while(self, e); }
                    fn visit_expr_for_loop(&mut self, e: &'ast syn::ExprForLoop) { self.blocks.push(&e.body); visit::visit_expr_for_loop(self, e); }
                    fn visit_expr_loop(&mut self, e: &'ast syn::ExprLoop) { self.blocks.push(&e.body); visit::visit_expr_loop(self, e); }
                    fn visit_expr_closure(&mut self, _e: &'ast syn::ExprClosure) {}
                }
                let block: Option<&syn::Block> = if let Some(n) = sel["let"].as_str() {
                    let mut lf = LetFinder { name: n.to_string(), found: None };
                    lf.visit_block(fblock);
                    lf.found
                } else {
                    let k = sel["loop"].as_u64().unwrap_or(0) as usize;
                    let mut lb = LoopBlocks { blocks: vec![] };
                    lb.visit_block(fblock);
                    lb.blocks.get(k).copied()
                };
                let block = match block {
                    Some(b) => b,
                    None => {
                        errors.push(format!("ANCHOR-LOST {}: lift: block not found in {}", file, want_fn));
                        continue;
                    }
                };
                let mut cx = Ctx::new(&src);
                cx.float = float && !sel["nofloat"].as_bool().unwrap_or(false);
                cx.macro_map = macro_map.clone();
                cx.method_map = method_map.clone(); cx.r9_extend = r9_extend;
                {
                    let mut st = AttrStripper { cx: &mut cx };
                    st.visit_block(block);
                }
                let fi = FnInfo { in_trait_impl: false, key: lname.clone(), sig: None, block: Some(block), span: block.span() };
                let c = contracts.get(&lname);
                if c.is_some() {
                    used_contracts.insert(lname.clone());
                }
                apply_contract(&mut cx, &fi, c, false);
                if sel["self_as_this"].as_bool().unwrap_or(false) {
                    walk_tokens_self(&mut cx, block.to_token_stream());
                }
                {
                    cx.boolops_all = boolops.contains("*");
                    let b = boolops.contains(&lname);
                    cx.forrange = forrange.contains(&lname);
                    cx.foriter = foriter.contains(&lname); cx.foriter_snapshot = foriter_snapshot;
                    let mut rw = Rewriter { cx: &mut cx, boolops: b, in_macro: false };
                    rw.visit_block(block);
                }
                let (bs, be) = cx.range(block.span());
                let (text, mut linemap, mut counts) = apply_edits(&cx, bs, be);
                let header = sel["header"].as_str().unwrap_or("");
                // header on its own line(s), then the (possibly spec-prefixed) block
                let header_lines = header.matches('\n').count() + 1;
                let mut lm2 = vec![0usize; header_lines];
                lm2.append(&mut linemap);
                *counts.entry(if sel["let"].is_string() { "R6.closurelift".to_string() } else { "R8.looplift".to_string() }).or_insert(0) += 1;
                errors.extend(cx.errors.iter().map(|e| format!("{}: {}", file, e)));
                let (fs, _fe) = cx.range(fspan);
                let _ = fs;
                segments.push(json!({
                    "key": format!("lift {}::{} -> {}", want_ty.unwrap_or(""), want_fn, lname),
                    "file": file,
                    "start_line": cx.line_of(bs),
                    "end_line": cx.line_of(be.saturating_sub(1)),
                    "orig": &src[bs..be],
                    "text": format!("{}\n{}", header, text),
                    "linemap": lm2,
                    "rewrites": counts,
                    "fns": [json!({
                        "key": lname,
                        "start_line": cx.line_of(bs),
                        "end_line": cx.line_of(be.saturating_sub(1)),
                        "orig": &src[bs..be],
                        "has_contract": c.is_some(),
                        "in_trait_impl": false,
                    })],
                }));
                continue;
            }
            let mut found: Vec<&syn::Item> = vec![];
            for it in items.iter() {
                let ok = match (kind, it) {
                    ("struct", syn::Item::Struct(s)) => s.ident == name,
                    ("enum", syn::Item::Enum(s)) => s.ident == name,
                    ("fn", syn::Item::Fn(s)) => s.sig.ident == name,
                    ("trait", syn::Item::Trait(s)) => s.ident == name,
                    ("const", syn::Item::Const(s)) => s.ident == name,
                    ("type", syn::Item::Type(s)) => s.ident == name,
                    ("impl", syn::Item::Impl(i)) => {
                        let (tr, ty) = impl_names(i);
                        let want_tr = sel["trait"].as_str();
                        let want_ty = sel["type"].as_str().unwrap_or("");
                        let fns: Vec<&str> = sel["fns"]
                            .as_array()
                            .map(|a| a.iter().filter_map(|v| v.as_str()).collect())
                            .unwrap_or_default();
                        let has_fn = fns.is_empty()
                            || i.items.iter().any(|ii| match ii {
                                syn::ImplItem::Fn(f) => fns.contains(&f.sig.ident.to_string().as_str()),
                                _ => false,
                            });
                        tr.as_deref() == want_tr && ty == want_ty && has_fn
                    }
                    _ => false,
                };
                if ok {
                    found.push(it);
                }
            }
            let selkey = format!(
                "{} {}{}{}",
                kind,
                sel["trait"].as_str().map(|t| format!("{} for ", t)).unwrap_or_default(),
                sel["type"].as_str().unwrap_or(""),
                name
            );
            if found.len() <= nth {
                errors.push(format!(
                    "ANCHOR-LOST {}: selector {} matched {} items (nth={})",
                    file,
                    selkey,
                    found.len(),
                    nth
                ));
                continue;
            }
            let it = found[nth];
            cx.force_drop = rules["force_drop_inserts"].as_object().map(|m| m.iter().map(|(k, v)| (k.clone(), v.as_array().map(|a| a.iter().filter_map(|x| x.as_str().map(String::from)).collect()).unwrap_or_default())).collect()).unwrap_or_default();
            cx.pinned_locals = rules["pinned_locals"].as_object().map(|m| m.iter().map(|(k, v)| (k.clone(), v.as_array().map(|a| a.iter().filter_map(|x| x.as_str().map(String::from)).collect()).unwrap_or_default())).collect()).unwrap_or_default();
            cx.pinned_loop_sigs = rules["pinned_loop_sigs"].as_object().map(|m| m.iter().map(|(k, v)| (k.clone(), v.as_array().map(|a| a.iter().filter_map(|x| x.as_str().map(String::from)).collect()).unwrap_or_default())).collect()).unwrap_or_default();
            cx.pinned_closure_sigs = rules["pinned_closure_sigs"].as_object().map(|m| m.iter().map(|(k, v)| (k.clone(), v.as_array().map(|a| a.iter().filter_map(|x| x.as_str().map(String::from)).collect()).unwrap_or_default())).collect()).unwrap_or_default();
            cx.derive_keep = sel["derive_keep"].as_array().map(|a| a.iter().filter_map(|v| v.as_str().map(String::from)).collect());
            let (istart, iend) = cx.range(it.span());
            // R0 attributes
            {
                let mut st = AttrStripper { cx: &mut cx };
                st.visit_item(it);
            }
            if let Some(a) = sel["attrs"].as_str() {
                // verifier-only attributes (e.g. reject_recursive_types) in front of the item
                cx.push(istart, istart, format!("{}\n", a), "R1.verifierattr");
            }
            vis_edits_item(&mut cx, it);
            let mut fninfos: Vec<FnInfo> = vec![];
            let mut fn_meta = vec![];
            match it {
                syn::Item::Fn(f) => {
                    fninfos.push(FnInfo {
                        in_trait_impl: false,
                        key: f.sig.ident.to_string(),
                        sig: Some(&f.sig),
                        block: Some(&f.block),
                        span: f.span(),
                    });
                }
                syn::Item::Impl(i) => {
                    let (tr, ty) = impl_names(i);
                    let fns: Vec<String> = sel["fns"]
                        .as_array()
                        .map(|a| a.iter().filter_map(|v| v.as_str().map(String::from)).collect())
                        .unwrap_or_default();
                    let drop: Vec<String> = sel["drop"]
                        .as_array()
                        .map(|a| a.iter().filter_map(|v| v.as_str().map(String::from)).collect())
                        .unwrap_or_default();
                    let mut seen: HashSet<String> = HashSet::new();
                    for ii in i.items.iter() {
                        match ii {
                            syn::ImplItem::Fn(f) => {
                                let n = f.sig.ident.to_string();
                                if !fns.is_empty() && !fns.contains(&n) {
                                    let (a, b) = cx.range(ii.span());
                                    // a dropped fn without attributes starts at its `fn` token: the
                                    // zero-width `pub ` (R0.vis) inserted there must go with it
                                    cx.edits.retain(|e| !(e.rule == "R0.vis" && e.start >= a && e.end <= b));
                                    cx.push(a, b, "", "R0.dropfn");
                                    cx.dropped_items.push(format!("{}::{}", selkey, n));
                                } else {
                                    seen.insert(n.clone());
                                    // selector "fn_attrs": {"fn name": "#[verifier::…]"}: verifier-only
                                    // attribute in front of one method (before its visibility)
                                    if let Some(a) = sel["fn_attrs"].get(&n).and_then(|v| v.as_str()) {
                                        let fs = cx.range(first_sig_token(&f.sig)).0;
                                        let at = match &f.vis {
                                            syn::Visibility::Inherited => fs,
                                            v => cx.range(v.span()).0,
                                        };
                                        let txt = format!("{} ", a);
                                        if let Some(e) = cx.edits.iter_mut().find(|e| e.rule == "R0.vis" && e.start == at) {
                                            e.text = format!("{}{}", txt, e.text);
                                        } else {
                                            cx.push(at, at, txt, "R1.verifierattr");
                                        }
                                    }
                                    let key = match &tr {
                                        Some(t) if sel["keytrait"].as_bool().unwrap_or(false) => {
                                            format!("{} for {}::{}", t, ty, n)
                                        }
                                        _ => format!("{}::{}", ty, n),
                                    };
                                    fninfos.push(FnInfo {
                                        in_trait_impl: tr.is_some(),
                                        key,
                                        sig: Some(&f.sig),
                                        block: Some(&f.block),
                                        span: f.span(),
                                    });
                                }
                            }
                            syn::ImplItem::Type(t) => {
                                if drop.contains(&t.ident.to_string()) {
                                    let (a, b) = cx.range(ii.span());
                                    cx.push(a, b, "", "R0.dropassoc");
                                }
                            }
                            syn::ImplItem::Const(t) => {
                                if drop.contains(&t.ident.to_string()) {
                                    let (a, b) = cx.range(ii.span());
                                    cx.push(a, b, "", "R0.dropassoc");
                                }
                            }
                            _ => {}
                        }
                    }
                    for n in fns.iter() {
                        if !seen.contains(n) {
                            errors.push(format!(
                                "ANCHOR-LOST {}: fn {} not found in {}",
                                file, n, selkey
                            ));
                        }
                    }
                    if let Some(x) = sel["extra"].as_str() {
                        let (_, be) = cx.range(i.brace_token.span.open());
                        cx.push(be, be, format!("\n{}\n", x), "R1.ghostitems");
                    }
                    if let Some(h) = sel["header"].as_str() {
                        // replace the impl header (from `impl` to the opening brace)
                        let (bs, _) = cx.range(i.brace_token.span.open());
                        let hs = cx.range(i.impl_token.span()).0;
                        cx.push(hs, bs, format!("{} ", h), "R7.header");
                    }
                }
                syn::Item::Trait(t) => {
                    let fns: Vec<String> = sel["fns"]
                        .as_array()
                        .map(|a| a.iter().filter_map(|v| v.as_str().map(String::from)).collect())
                        .unwrap_or_default();
                    for ti in t.items.iter() {
                        if let syn::TraitItem::Fn(f) = ti {
                            let n = f.sig.ident.to_string();
                            if !fns.is_empty() && !fns.contains(&n) {
                                let (a, b) = cx.range(ti.span());
                                cx.push(a, b, "", "R0.dropfn");
                                cx.dropped_items.push(format!("{}::{}", t.ident, n));
                            } else {
                                fninfos.push(FnInfo {
                                    in_trait_impl: false,
                                    key: format!("{}::{}", t.ident, n),
                                    sig: Some(&f.sig),
                                    block: f.default.as_ref(),
                                    span: f.span(),
                                });
                            }
                        }
                    }
                    if let Some(x) = sel["extra"].as_str() {
                        let (_, be) = cx.range(t.brace_token.span.open());
                        cx.push(be, be, format!("\n{}\n", x), "R1.ghostitems");
                    }
                    if let Some(h) = sel["header"].as_str() {
                        let (bs, _) = cx.range(t.brace_token.span.open());
                        let hs = cx.range(t.span()).0;
                        // keep attributes edits; header starts at vis/`trait` token
                        let ts = cx.range(t.trait_token.span()).0;
                        let vs = match &t.vis {
                            syn::Visibility::Inherited => ts,
                            v => cx.range(v.span()).0,
                        };
                        let _ = hs;
                        cx.push(vs, bs, format!("{} ", h), "R7.header");
                    }
                }
                _ => {}
            }
            // contracts + per-fn rules
            for f in fninfos.iter() {
                let c = contracts.get(&f.key);
                if c.is_some() {
                    used_contracts.insert(f.key.clone());
                }
                if param_patterns.contains(&f.key) {
                    if let (Some(sig), Some(block)) = (f.sig, f.block) {
                        param_pattern_edits(&mut cx, sig, block);
                    }
                }
                let renamed = c.and_then(|c0| renamed_contract(&mut cx, f, c0));
                let c = if renamed.is_some() { renamed.as_ref() } else { c };
                apply_contract(&mut cx, f, c, mutself.contains(&f.key));
                if impl_trait_args.contains(&f.key) {
                    if let Some(sig) = f.sig {
                        impl_trait_arg_edits(&mut cx, sig);
                    }
                }
                let (n_closures, n_closures_unspec) = apply_closure_specs(&mut cx, f, rules["closure_specs"].get(&f.key), mutself.contains(&f.key));
                let n_loops = f.block.map(|b| count_loops(b)).unwrap_or(0);
                let (a, b) = cx.range(f.span);
                fn_meta.push(json!({
                    "key": f.key,
                    "start_line": cx.line_of(a),
                    "end_line": cx.line_of(b.saturating_sub(1)),
                    "orig": &src[a..b],
                    "has_contract": c.is_some(),
                    "has_body": f.block.is_some(),
                    "in_trait_impl": f.in_trait_impl,
                    "locals": fn_locals(f),
                    "closures": n_closures,
                    "closures_without_contract": n_closures_unspec,
                    "loops": n_loops,
                }));
            }
            // generic rewrites over the item; boolops per fn
            {
                let all_bool = boolops.contains("*");
                cx.boolops_all = all_bool;
                match it {
                    syn::Item::Impl(i) => {
                        // visit header + kept items
                        let kept: HashSet<String> = fninfos.iter().map(|f| f.key.clone()).collect();
                        let (tr, ty) = impl_names(i);
                        {
                            let mut rw = Rewriter { cx: &mut cx, boolops: false, in_macro: false };
                            rw.visit_generics(&i.generics);
                            if let Some((_, p, _)) = &i.trait_ {
                                rw.visit_path(p);
                            }
                            rw.visit_type(&i.self_ty);
                        }
                        for ii in i.items.iter() {
                            match ii {
                                syn::ImplItem::Fn(f) => {
                                    let n = f.sig.ident.to_string();
                                    let k1 = format!("{}::{}", ty, n);
                                    let k2 = tr.as_ref().map(|t| format!("{} for {}::{}", t, ty, n));
                                    let key = if kept.contains(&k1) {
                                        Some(k1)
                                    } else if k2.as_ref().map(|k| kept.contains(k)).unwrap_or(false) {
                                        k2
                                    } else {
                                        None
                                    };
                                    if let Some(k) = key {
                                        let b = boolops.contains(&k);
                                        cx.forrange = forrange.contains(&k);
                                        cx.foriter = foriter.contains(&k); cx.foriter_snapshot = foriter_snapshot;
                                        let mut rw = Rewriter { cx: &mut cx, boolops: b, in_macro: false };
                                        rw.visit_impl_item_fn(f);
                                    }
                                }
                                other => {
                                    let mut rw = Rewriter { cx: &mut cx, boolops: false, in_macro: false };
                                    rw.visit_impl_item(other);
                                }
                            }
                        }
                    }
                    syn::Item::Fn(f) => {
                        let b = boolops.contains(&f.sig.ident.to_string());
                        cx.forrange = forrange.contains(&f.sig.ident.to_string());
                        cx.foriter = foriter.contains(&f.sig.ident.to_string()); cx.foriter_snapshot = foriter_snapshot;
                        let mut rw = Rewriter { cx: &mut cx, boolops: b, in_macro: false };
                        rw.visit_item_fn(f);
                    }
                    syn::Item::Const(c)
                        if cx.float
                            && matches!(&*c.ty, syn::Type::Path(p) if p.path.is_ident("f64"))
                            && matches!(&*c.expr, syn::Expr::Lit(l) if matches!(l.lit, syn::Lit::Float(_)))
                            && float_lit_to_real(cx.text(c.expr.span())).is_some() =>
                    {
                        // R2.const: `const N: f64 = <float literal>;` ->
                        // `exec const N: F ensures N.r() == <real> { F { v: Ghost(<real>) } }`
                        // (rustc evaluates const initialisers at compile time, so the non-const
                        // constructor `F::lit` of the ordinary R2.lit rewrite cannot be used here)
                        let r = float_lit_to_real(cx.text(c.expr.span())).unwrap();
                        {
                            let mut rw = Rewriter { cx: &mut cx, boolops: false, in_macro: false };
                            rw.visit_type(&c.ty);
                        }
                        let (cs, _) = cx.range(c.const_token.span());
                        cx.push(cs, cs, "exec ", "R2.const");
                        let (es, _) = cx.range(c.eq_token.span());
                        let (_, se) = cx.range(c.semi_token.span());
                        let n = c.ident.to_string();
                        cx.push(es, se, format!("ensures {n}.r() == {r}real {{ F {{ v: Ghost({r}real) }} }}"), "R2.const");
                    }
                    other => {
                        let mut rw = Rewriter { cx: &mut cx, boolops: false, in_macro: false };
                        rw.visit_item(other);
                    }
                }
            }
            // vis override: make item pub? not needed.
            let (text, linemap, counts) = apply_edits(&cx, istart, iend);
            errors.extend(cx.errors.iter().map(|e| format!("{}: {}", file, e)));
            segments.push(json!({
                "key": selkey,
                "file": file,
                "start_line": cx.line_of(istart),
                "end_line": cx.line_of(iend.saturating_sub(1)),
                "orig": &src[istart..iend],
                "text": text,
                "linemap": linemap,
                "rewrites": counts,
                "fns": fn_meta,
                "anchor_lines": cx.anchor_lines.iter().map(|(k, a, l)| json!([k, a, l])).collect::<Vec<_>>(),
                "closure_sigs": cx.closure_sigs.iter().map(|(k, v)| json!([k, v])).collect::<Vec<_>>(),
                "renamed_fns": cx.renamed_fns.clone(),
                "dropped_items": cx.dropped_items.clone(),
                "hint_dropped_fns": cx.hint_dropped_fns.clone(),
                "fuzzy_fns": cx.fuzzy_fns.clone(),
                "dropped_hint_keys": cx.dropped_hint_keys.iter().map(|(k, v)| json!([k, v])).collect::<Vec<_>>(),
                "loop_sigs": cx.loop_sigs.iter().map(|(k, v)| json!([k, v])).collect::<Vec<_>>(),
            }));
        }
    }
    for k in contracts.keys() {
        if !used_contracts.contains(k) {
            errors.push(format!("ANCHOR-LOST contract for {} matched no extracted function", k));
        }
    }
    let resp = json!({"ok": errors.is_empty(), "segments": segments, "errors": errors});
    println!("{}", serde_json::to_string(&resp).unwrap());
}
