// Shared dynamics façade (model R): Math / Point / State / rand / Collector / Hamiltonian as seen by the
// tree builder, the step-size search and the chain drivers. The including unit must extract (or define)
// Direction, LeapfrogResult, SampleInfo and NutsOptions. Contracts here are ASSUMPTIONS of the including
// unit; the Hamiltonian contract is proved for TransformedHamiltonian in unit `leapfrog` (same text).
use core::marker::PhantomData;
use core::fmt::Debug;

#[derive(Debug)]
pub struct BoxedErr { pub code: u64 }
#[derive(Debug)]
pub enum NutsError { LogpFailure(BoxedErr), SerializeFailure(), BadInitGrad(BoxedErr) }
pub struct DivergenceInfo { pub code: u64 }

pub trait LogpError: Sized {
    spec fn recoverable(&self) -> bool;
    fn is_recoverable(&self) -> (r: bool) ensures r == self.recoverable();
}
pub trait Math: Sized {
    type LogpErr: LogpError + Into<BoxedErr>;   // `err.into()` boxes the error (Box<dyn Error> in /repo)
    spec fn dim_spec(&self) -> nat;
    fn dim(&self) -> (r: usize) ensures r as nat == self.dim_spec();
    /// ghost history of the density held by this Math value (C05 quantifies over "the sequence of density
    /// evaluations of a run"): number of evaluations so far, and how many of them ended in an
    /// unrecoverable error.  One leapfrog / init_state is exactly one evaluation.
    spec fn evals(&self) -> nat;
    spec fn fatal_evals(&self) -> nat;
    // ---- (added for unit `chain`, expanded_draw) the vector types of /repo's Math and the trace expansion
    type Vector;
    type ExpandedVector;
    type Err: ErrorLike;
    /// content of a vector (A-math: vectors are sequences of reals)
    spec fn vv(v: &Self::Vector) -> Seq<real>;
    /// the values stored in the trace for a position (the model's `expand`; may consume randomness)
    fn expand_vector<R: Rng + ?Sized>(&mut self, rng: &mut R, array: &Self::Vector) -> (r: core::result::Result<Self::ExpandedVector, Self::Err>)
        ensures final(self).dim_spec() == old(self).dim_spec();
}
/// marker of the error types that convert into `anyhow::Error` with `?` (std::error::Error + Send + Sync + 'static in /repo)
pub trait ErrorLike {}
/// a `&mut math` call that does not evaluate the density
pub open spec fn no_eval<M: Math>(m0: &M, m1: &M) -> bool { m1.evals() == m0.evals() && m1.fatal_evals() == m0.fatal_evals() }
/// exactly one density evaluation; if it failed unrecoverably the call returned Err (quantifier-free form of
/// "exists fatal. one_eval(m0, m1, fatal) && (fatal ==> is_err)")
pub open spec fn one_eval_err<M: Math>(m0: &M, m1: &M, is_err: bool) -> bool {
    m1.evals() == m0.evals() + 1 && (m1.fatal_evals() == m0.fatal_evals() || (m1.fatal_evals() == m0.fatal_evals() + 1 && is_err))
}
/// a `&mut math` call that evaluates the density exactly once; `fatal`: it ended in an unrecoverable error
pub open spec fn one_eval<M: Math>(m0: &M, m1: &M, fatal: bool) -> bool {
    m1.evals() == m0.evals() + 1 && m1.fatal_evals() == m0.fatal_evals() + (if fatal { 1nat } else { 0nat })
}
/// ghost view of a transformation: version counter and the parameters it applies (as in units adapt / leapfrog)
pub struct TransView { pub id: int, pub params: Seq<real> }

//@include state_view.rs

pub trait Point<M: Math>: Sized {
    spec fn pview(&self) -> StateView;
    fn initial_energy(&self) -> (r: F) ensures r.r() == self.pview().e0;
    fn energy_error(&self) -> (r: F) ensures r.r() == self.pview().energy - self.pview().e0;
    /// (added for unit `chain`) the untransformed position of the point
    fn position(&self) -> (r: &M::Vector) ensures M::vv(r) == self.pview().x;
    /// the rest of the real `Point` read API (src/dynamics/hamiltonian.rs), offered so that an edit which starts
    /// using it stays decidable; unit `leapfrog` proves the same statements for `TransformedPoint`
    fn gradient(&self) -> (r: &M::Vector) ensures M::vv(r) == self.pview().g;
    fn index_in_trajectory(&self) -> (r: i64) ensures r as int == self.pview().idx;
    fn energy(&self) -> (r: F) ensures r.r() == self.pview().energy;
    fn logp(&self) -> (r: F) ensures r.r() == self.pview().logp;
}

#[verifier::external_body]
#[verifier::reject_recursive_types(M)]
#[verifier::reject_recursive_types(P)]
pub struct State<M: Math, P: Point<M>> { _m: PhantomData<M>, _p: PhantomData<P> }
impl<M: Math, P: Point<M>> State<M, P> {
    pub uninterp spec fn view(&self) -> StateView;
    #[verifier::external_body]
    pub fn point(&self) -> (r: &P) ensures r.pview() == self.view() { unimplemented!() }
    #[verifier::external_body]
    pub fn index_in_trajectory(&self) -> (r: i64) ensures r as int == self.view().idx { unimplemented!() }
    /// `State::energy` of src/dynamics/state.rs (= point().energy(); proved in unit statepool)
    #[verifier::external_body]
    pub fn energy(&self) -> (r: F) ensures r.r() == self.view().energy { unimplemented!() }
}
impl<M: Math, P: Point<M>> Clone for State<M, P> {
    #[verifier::external_body]
    fn clone(&self) -> (r: Self) ensures r.view() == self.view() { unimplemented!() }
}

// ---- rand façade with a ghost event log (A-rng-fair: Coin(b) is a fair coin, Bern(p,b) is true w.p. p)
pub enum RngEv { Coin(bool), Bern(real, bool), Momentum }
/// specification half of rand's `Distribution<T> for StandardUniform` (split off to avoid a trait cycle)
pub trait DistSpec<T> {
    spec fn sample_post(l0: Seq<RngEv>, l1: Seq<RngEv>, r: T) -> bool;
}
pub trait Rng {
    spec fn log(&self) -> Seq<RngEv>;
    fn random_bool(&mut self, p: F) -> (b: bool)
        ensures final(self).log() == old(self).log().push(RngEv::Bern(p.r(), b));
    /// rand: `rng.random::<T>()` is `StandardUniform.sample(rng)`
    fn random<T>(&mut self) -> (r: T) where StandardUniform: DistSpec<T>
        ensures <StandardUniform as DistSpec<T>>::sample_post(old(self).log(), final(self).log(), r);
}
pub mod rand { pub use super::Rng; }
pub struct StandardUniform {}
pub trait Distribution<T>: DistSpec<T> {
    fn sample<R: Rng + ?Sized>(&self, rng: &mut R) -> (r: T)
        ensures Self::sample_post(old(rng).log(), final(rng).log(), r);
}
impl DistSpec<bool> for StandardUniform {
    open spec fn sample_post(l0: Seq<RngEv>, l1: Seq<RngEv>, r: bool) -> bool { l1 == l0.push(RngEv::Coin(r)) }
}
impl DistSpec<Direction> for StandardUniform {
    // [C01.6] a direction is one fair coin, mapped bijectively to {Forward, Backward}
    open spec fn sample_post(l0: Seq<RngEv>, l1: Seq<RngEv>, r: Direction) -> bool { dir_sample_post(l0, l1, r) }
}

// ---- Collector façade: ghost bookkeeping of what the integrator did in this trajectory
pub trait Collector<M: Math, P: Point<M>> {
    /// number of leapfrog steps since register_init (divergent ones included)
    spec fn leapfrogs(&self) -> nat;
    /// states the integrator produced in this trajectory, by trajectory index
    spec fn traj(&self) -> Map<int, StateView>;
    /// states passed to register_draw
    spec fn draws(&self) -> Seq<StateView>;
    /// number of divergent integration steps since register_init
    spec fn divs(&self) -> nat;
    /// what a concrete collector computes from one integrator step ending in `end` (or diverging) resp. from
    /// register_init: supplied by the implementor (for AcceptanceRateCollector: arc_leapfrog_post / arc_init_post
    /// of _shared/stepsize_spec.rs, proved for the real impl in unit `stepsize`)
    spec fn lf_post(&self, post: &Self, end: StateView, diverged: bool) -> bool;
    spec fn init_post(&self, post: &Self, state: StateView) -> bool;
    fn register_draw(&mut self, math: &mut M, state: &State<M, P>, info: &SampleInfo)
        ensures final(self).draws() == old(self).draws().push(state.view()),
                final(self).leapfrogs() == old(self).leapfrogs(), final(self).traj() == old(self).traj(),
                final(self).divs() == old(self).divs(),
                final(math).dim_spec() == old(math).dim_spec(), no_eval(old(math), final(math));
    fn register_init(&mut self, math: &mut M, state: &State<M, P>, options: &NutsOptions)
        ensures final(self).leapfrogs() == 0, final(self).divs() == 0,
                final(self).traj() == Map::<int, StateView>::empty().insert(state.view().idx, state.view()),
                final(self).draws() == old(self).draws(),
                final(math).dim_spec() == old(math).dim_spec(), no_eval(old(math), final(math)),
                old(self).init_post(final(self), state.view());
    /// called by the integrator once per completed step (never after an unrecoverable error)
    fn register_leapfrog(&mut self, math: &mut M, start: &State<M, P>, end: &State<M, P>, divergence_info: Option<&DivergenceInfo>)
        ensures final(self).leapfrogs() == old(self).leapfrogs() + 1,
                final(self).draws() == old(self).draws(),
                final(self).divs() == old(self).divs() + (if divergence_info is Some { 1nat } else { 0nat }),
                divergence_info is None ==> final(self).traj() == old(self).traj().insert(end.view().idx, end.view()),
                divergence_info is Some ==> final(self).traj() == old(self).traj(),
                final(math).dim_spec() == old(math).dim_spec(), no_eval(old(math), final(math)),
                old(self).lf_post(final(self), end.view(), divergence_info is Some);
}

pub open spec fn dir_sign(d: Direction) -> int { match d { Direction::Forward => 1, Direction::Backward => -1 } }
pub spec const IDX_BIG: int = 0x4000_0000_0000_0000;

pub trait Hamiltonian<M: Math>: Sized {
    type Point: Point<M>;
    spec fn step(&self) -> real;
    /// U-turn criterion between an earlier (lo) and a later (hi) state of one trajectory
    spec fn turn_spec(&self, lo: StateView, hi: StateView) -> bool;
    /// the transformation (mass matrix / flow) the Hamiltonian currently applies
    spec fn trans(&self) -> TransView;

    fn leapfrog<C: Collector<M, Self::Point>>(
        &mut self,
        math: &mut M,
        start: &State<M, Self::Point>,
        dir: Direction,
        step_size_factor: F,
        energy_baseline: F,
        max_energy_error: F,
        collector: &mut C,
    ) -> (r: LeapfrogResult<M, Self::Point>)
        requires -IDX_BIG < start.view().idx < IDX_BIG
        ensures
            final(self).step() == old(self).step(),
            forall|a: StateView, b: StateView| final(self).turn_spec(a, b) == old(self).turn_spec(a, b),
            final(math).dim_spec() == old(math).dim_spec(),
            // every completed integration step is reported to the collector exactly once (also divergent ones);
            // an unrecoverable error aborts before the collector is notified
            !(r is Err) ==> final(collector).leapfrogs() == old(collector).leapfrogs() + 1,
            r is Err ==> final(collector).leapfrogs() == old(collector).leapfrogs(),
            final(collector).draws() == old(collector).draws(),
            // a divergent step is counted as such by the collector (and only a divergent one)
            final(collector).divs() == old(collector).divs() + (if r is Divergence { 1nat } else { 0nat }),
            match r {
                LeapfrogResult::Ok(out) => {
                    &&& out.view().idx == start.view().idx + dir_sign(dir)
                    &&& out.view().e0 == start.view().e0
                    &&& final(collector).traj() == old(collector).traj().insert(out.view().idx, out.view())
                    // an accepted state has an energy error within the limit, measured against the baseline handed in
                    &&& out.view().energy - energy_baseline.r() <= max_energy_error.r()
                },
                LeapfrogResult::Divergence(_) => final(collector).traj() == old(collector).traj(),
                LeapfrogResult::Err(e) => final(collector).traj() == old(collector).traj() && !e.recoverable(),
            },
            final(self).trans() == old(self).trans(),
            // one leapfrog is one density evaluation; it returns Err exactly when that evaluation failed unrecoverably
            one_eval(old(math), final(math), r is Err),
            // the collector is notified through register_leapfrog(start, out, divergence?) (not on Err)
            match r {
                LeapfrogResult::Ok(out) => old(collector).lf_post(final(collector), out.view(), false),
                LeapfrogResult::Divergence(_) => exists|e: StateView| #[trigger] old(collector).lf_post(final(collector), e, true),
                LeapfrogResult::Err(_) => true,
            };

    fn is_turning(&self, math: &mut M, state1: &State<M, Self::Point>, state2: &State<M, Self::Point>) -> (r: bool)
        ensures
            final(math).dim_spec() == old(math).dim_spec(), no_eval(old(math), final(math)),
            // order-normalised by trajectory index (C01.5): the earlier state comes first
            r == (if state1.view().idx < state2.view().idx { self.turn_spec(state1.view(), state2.view()) }
                  else { self.turn_spec(state2.view(), state1.view()) });

    fn initialize_trajectory<R: Rng + ?Sized>(
        &self,
        math: &mut M,
        state: &mut State<M, Self::Point>,
        resaple_velocity: bool,
        rng: &mut R,
    ) -> (r: core::result::Result<(), NutsError>)
        ensures
            final(math).dim_spec() == old(math).dim_spec(), no_eval(old(math), final(math)),
            r is Ok ==> final(state).view().idx == 0 && final(state).view().e0 == final(state).view().energy,
            resaple_velocity ==> final(rng).log() == old(rng).log().push(RngEv::Momentum),
            !resaple_velocity ==> final(rng).log() == old(rng).log();

    fn step_size(&self) -> (r: F) ensures r.r() == self.step();
    fn step_size_mut(&mut self) -> (r: &mut F)
        ensures r.r() == old(self).step(), final(self).step() == final(r).r(), final(self).trans() == old(self).trans();
    /// one density evaluation at `init`; ANY failure of it (recoverable or not, non-finite value/gradient) is an Err
    fn init_state(&mut self, math: &mut M, init: &[F]) -> (r: core::result::Result<State<M, Self::Point>, NutsError>)
        ensures final(math).dim_spec() == old(math).dim_spec(), final(self).trans() == old(self).trans(), final(self).step() == old(self).step(),
                one_eval_err(old(math), final(math), r is Err);
    /// an independent copy of an already evaluated state (no density evaluation)
    fn copy_state(&mut self, math: &mut M, state: &State<M, Self::Point>) -> (r: State<M, Self::Point>)
        ensures final(math).dim_spec() == old(math).dim_spec(), no_eval(old(math), final(math)),
                final(self).step() == old(self).step(), final(self).trans() == old(self).trans(),
                r.view() == state.view();
}
