// Model Fin (DESIGN 2.3): f64 is replaced by an abstract value `F` with ONE predicate `fin(x)` ("x is a
// finite IEEE-754 number"). Arithmetic results and comparisons are uninterpreted; the only facts supplied
// are true of IEEE-754 binary64 (assumption A-fin):
//   * the result of + - * / and of unary minus / abs is finite only if the operands are finite
//     (NaN and infinities propagate; an overflow may make a result non-finite, never the other way round)
//   * literals are finite;  x.is_finite() returns fin(x);  x.is_nan() implies !fin(x)
//   * NOTHING is assumed about the outcome of a comparison that involves a non-finite operand,
//     and nothing about the outcome of comparisons between finite values either (they are uninterpreted)
use vstd::std_specs::ops::*;
use vstd::std_specs::cmp::*;

#[verifier::external_body]
pub struct FV { _x: u8 }
#[derive(Clone, Copy)]
pub struct F { pub v: Ghost<FV> }

pub uninterp spec fn fin(x: F) -> bool;
pub uninterp spec fn f_add(a: F, b: F) -> F;
pub uninterp spec fn f_sub(a: F, b: F) -> F;
pub uninterp spec fn f_mul(a: F, b: F) -> F;
pub uninterp spec fn f_div(a: F, b: F) -> F;
pub uninterp spec fn f_neg(a: F) -> F;
pub uninterp spec fn f_abs(a: F) -> F;
pub uninterp spec fn f_sqrt(a: F) -> F;
pub uninterp spec fn f_lit(x: real) -> F;
pub uninterp spec fn f_of_int(i: int) -> F;
pub uninterp spec fn f_cmp(a: F, b: F) -> Option<core::cmp::Ordering>;
pub uninterp spec fn f_eq(a: F, b: F) -> bool;

// ---- A-fin: IEEE-true propagation facts
#[verifier::external_body] pub broadcast proof fn ax_fin_add(a: F, b: F) ensures fin(#[trigger] f_add(a, b)) ==> fin(a) && fin(b) {}
#[verifier::external_body] pub broadcast proof fn ax_fin_sub(a: F, b: F) ensures fin(#[trigger] f_sub(a, b)) ==> fin(a) && fin(b) {}
#[verifier::external_body] pub broadcast proof fn ax_fin_mul(a: F, b: F) ensures fin(#[trigger] f_mul(a, b)) ==> fin(a) && fin(b) {}
#[verifier::external_body] pub broadcast proof fn ax_fin_div(a: F, b: F) ensures fin(#[trigger] f_div(a, b)) ==> fin(a) {}
#[verifier::external_body] pub broadcast proof fn ax_fin_neg(a: F) ensures fin(#[trigger] f_neg(a)) == fin(a) {}
#[verifier::external_body] pub broadcast proof fn ax_fin_abs(a: F) ensures fin(#[trigger] f_abs(a)) == fin(a) {}
#[verifier::external_body] pub broadcast proof fn ax_fin_lit(x: real) ensures fin(#[trigger] f_lit(x)) {}
#[verifier::external_body] pub broadcast proof fn ax_fin_int(i: int) ensures fin(#[trigger] f_of_int(i)) {}
pub broadcast group group_fin { ax_fin_add, ax_fin_sub, ax_fin_mul, ax_fin_div, ax_fin_neg, ax_fin_abs, ax_fin_lit, ax_fin_int }

impl F {
    #[verifier::external_body] pub fn lit(x: Ghost<real>) -> (o: F) ensures o == f_lit(x@) { unimplemented!() }
    #[verifier::external_body] pub fn frac(n: u64, d: u64) -> (o: F) ensures fin(o) { unimplemented!() }
    #[verifier::external_body] pub fn abs(self) -> (o: F) ensures o == f_abs(self) { unimplemented!() }
    #[verifier::external_body] pub fn sqrt(self) -> (o: F) ensures o == f_sqrt(self) { unimplemented!() }
    #[verifier::external_body] pub fn is_finite(self) -> (o: bool) ensures o == fin(self) { unimplemented!() }
    #[verifier::external_body] pub fn is_nan(self) -> (o: bool) ensures o ==> !fin(self) { unimplemented!() }
    #[verifier::external_body] pub fn exp(self) -> (o: F) { unimplemented!() }
    #[verifier::external_body] pub fn exp_m1(self) -> (o: F) { unimplemented!() }
    #[verifier::external_body] pub fn ln(self) -> (o: F) { unimplemented!() }
    #[verifier::external_body] pub fn min(self, y: F) -> (o: F) { unimplemented!() }
    #[verifier::external_body] pub fn max(self, y: F) -> (o: F) { unimplemented!() }
}
impl AddSpecImpl<F> for F { open spec fn obeys_add_spec() -> bool { true } open spec fn add_req(self, rhs: F) -> bool { true } open spec fn add_spec(self, rhs: F) -> F { f_add(self, rhs) } }
impl core::ops::Add<F> for F { type Output = F; #[verifier::external_body] fn add(self, rhs: F) -> F { unimplemented!() } }
impl SubSpecImpl<F> for F { open spec fn obeys_sub_spec() -> bool { true } open spec fn sub_req(self, rhs: F) -> bool { true } open spec fn sub_spec(self, rhs: F) -> F { f_sub(self, rhs) } }
impl core::ops::Sub<F> for F { type Output = F; #[verifier::external_body] fn sub(self, rhs: F) -> F { unimplemented!() } }
impl MulSpecImpl<F> for F { open spec fn obeys_mul_spec() -> bool { true } open spec fn mul_req(self, rhs: F) -> bool { true } open spec fn mul_spec(self, rhs: F) -> F { f_mul(self, rhs) } }
impl core::ops::Mul<F> for F { type Output = F; #[verifier::external_body] fn mul(self, rhs: F) -> F { unimplemented!() } }
impl DivSpecImpl<F> for F { open spec fn obeys_div_spec() -> bool { true } open spec fn div_req(self, rhs: F) -> bool { true } open spec fn div_spec(self, rhs: F) -> F { f_div(self, rhs) } }
impl core::ops::Div<F> for F { type Output = F; #[verifier::external_body] fn div(self, rhs: F) -> F { unimplemented!() } }
// compound assignment (`x += y` is `x = x + y` for f64): offered so that a refactoring between the two forms stays decidable
impl AddAssignSpecImpl<F> for F { open spec fn obeys_add_assign_spec() -> bool { true } open spec fn add_assign_req(&self, rhs: F) -> bool { true } open spec fn add_assign_spec(&self, rhs: F) -> &F { &f_add(*self, rhs) } }
impl core::ops::AddAssign<F> for F { #[verifier::external_body] fn add_assign(&mut self, rhs: F) { unimplemented!() } }
impl SubAssignSpecImpl<F> for F { open spec fn obeys_sub_assign_spec() -> bool { true } open spec fn sub_assign_req(&self, rhs: F) -> bool { true } open spec fn sub_assign_spec(&self, rhs: F) -> &F { &f_sub(*self, rhs) } }
impl core::ops::SubAssign<F> for F { #[verifier::external_body] fn sub_assign(&mut self, rhs: F) { unimplemented!() } }
impl MulAssignSpecImpl<F> for F { open spec fn obeys_mul_assign_spec() -> bool { true } open spec fn mul_assign_req(&self, rhs: F) -> bool { true } open spec fn mul_assign_spec(&self, rhs: F) -> &F { &f_mul(*self, rhs) } }
impl core::ops::MulAssign<F> for F { #[verifier::external_body] fn mul_assign(&mut self, rhs: F) { unimplemented!() } }
impl DivAssignSpecImpl<F> for F { open spec fn obeys_div_assign_spec() -> bool { true } open spec fn div_assign_req(&self, rhs: F) -> bool { true } open spec fn div_assign_spec(&self, rhs: F) -> &F { &f_div(*self, rhs) } }
impl core::ops::DivAssign<F> for F { #[verifier::external_body] fn div_assign(&mut self, rhs: F) { unimplemented!() } }
impl NegSpecImpl for F { open spec fn obeys_neg_spec() -> bool { true } open spec fn neg_req(self) -> bool { true } open spec fn neg_spec(self) -> F { f_neg(self) } }
impl core::ops::Neg for F { type Output = F; #[verifier::external_body] fn neg(self) -> F { unimplemented!() } }
impl PartialEqSpecImpl for F { open spec fn obeys_eq_spec() -> bool { true } open spec fn eq_spec(&self, o: &F) -> bool { f_eq(*self, *o) } }
impl PartialEq for F { #[verifier::external_body] fn eq(&self, o: &F) -> bool { unimplemented!() } }
impl PartialOrdSpecImpl for F { open spec fn obeys_partial_cmp_spec() -> bool { true } open spec fn partial_cmp_spec(&self, o: &F) -> Option<core::cmp::Ordering> { f_cmp(*self, *o) } }
impl PartialOrd for F { #[verifier::external_body] fn partial_cmp(&self, o: &F) -> Option<core::cmp::Ordering> { unimplemented!() } }

pub trait ToF { fn to_f(self) -> (o: F) ensures fin(o); }
impl ToF for u64 { #[verifier::external_body] fn to_f(self) -> (o: F) { unimplemented!() } }
impl ToF for usize { #[verifier::external_body] fn to_f(self) -> (o: F) { unimplemented!() } }
impl ToF for i64 { #[verifier::external_body] fn to_f(self) -> (o: F) { unimplemented!() } }
impl ToF for i32 { #[verifier::external_body] fn to_f(self) -> (o: F) { unimplemented!() } }
pub trait CastTo<T>: Sized { fn cast(self) -> (o: T); }
impl CastTo<u64> for F { #[verifier::external_body] fn cast(self) -> (o: u64) { unimplemented!() } }
impl CastTo<i64> for i64 { fn cast(self) -> (o: i64) { self } }
impl CastTo<u64> for u64 { fn cast(self) -> (o: u64) { self } }
impl CastTo<usize> for usize { fn cast(self) -> (o: usize) { self } }
