// Model R (DESIGN §2.3): f64 is replaced by `F`, whose value is a ghost mathematical real.
// NaN, infinities, rounding and overflow do not exist in this model (assumption A-real).
// Everything marked external_body / uninterp below is part of A-real.
use vstd::std_specs::ops::*;
use vstd::std_specs::cmp::*;

#[derive(Clone, Copy)]
pub struct F { pub v: Ghost<real> }

pub uninterp spec fn exp_r(x: real) -> real;
pub uninterp spec fn ln_r(x: real) -> real;
pub uninterp spec fn sqrt_r(x: real) -> real;
pub uninterp spec fn sin_r(x: real) -> real;
pub uninterp spec fn cos_r(x: real) -> real;
pub uninterp spec fn pow_r(x: real, y: real) -> real;
pub uninterp spec fn round_r(x: real) -> real;
pub uninterp spec fn floor_r(x: real) -> real;
pub uninterp spec fn ceil_r(x: real) -> real;
pub uninterp spec fn log2_r(x: real) -> real;
/// value of f64::NEG_INFINITY / INFINITY in model R: an unspecified real (no axioms)
pub uninterp spec fn neg_inf_r() -> real;
pub uninterp spec fn pos_inf_r() -> real;
pub uninterp spec fn nan_r() -> real;

pub open spec fn abs_r(x: real) -> real { if x < 0real { -x } else { x } }
pub open spec fn max_r(x: real, y: real) -> real { if x >= y { x } else { y } }
pub open spec fn min_r(x: real, y: real) -> real { if x <= y { x } else { y } }
pub open spec fn i2r(i: int) -> real { i as real }

// ---- A-real axioms (true statements about the real functions)
#[verifier::external_body]
pub broadcast proof fn ax_exp_pos(x: real)
    ensures #[trigger] exp_r(x) > 0real {}
#[verifier::external_body]
pub broadcast proof fn ax_exp_mono(x: real, y: real)
    ensures (x < y) == (#[trigger] exp_r(x) < #[trigger] exp_r(y)) {}
#[verifier::external_body]
pub broadcast proof fn ax_exp_add(x: real, y: real)
    ensures #[trigger] exp_r(x + y) == exp_r(x) * exp_r(y) {}
#[verifier::external_body]
pub broadcast proof fn ax_exp_zero()
    ensures #[trigger] exp_r(0real) == 1real {}
#[verifier::external_body]
pub broadcast proof fn ax_ln_exp(x: real)
    ensures ln_r(#[trigger] exp_r(x)) == x {}
#[verifier::external_body]
pub broadcast proof fn ax_exp_ln(x: real)
    requires x > 0real
    ensures exp_r(#[trigger] ln_r(x)) == x {}
#[verifier::external_body]
pub broadcast proof fn ax_sqrt(x: real)
    requires x >= 0real
    ensures #[trigger] sqrt_r(x) >= 0real, sqrt_r(x) * sqrt_r(x) == x {}
#[verifier::external_body]
pub broadcast proof fn ax_sincos(x: real)
    ensures #[trigger] sin_r(x) * sin_r(x) + #[trigger] cos_r(x) * cos_r(x) == 1real {}
#[verifier::external_body]
pub broadcast proof fn ax_round(x: real)
    ensures #[trigger] round_r(x) - 0.5real <= x, x <= round_r(x) + 0.5real,
            exists|i: int| round_r(x) == i2r(i) {}
#[verifier::external_body]
pub broadcast proof fn ax_floor(x: real)
    ensures #[trigger] floor_r(x) <= x, x < floor_r(x) + 1real,
            exists|i: int| floor_r(x) == i2r(i) {}
#[verifier::external_body]
pub broadcast proof fn ax_ceil(x: real)
    ensures #[trigger] ceil_r(x) >= x, x > ceil_r(x) - 1real,
            exists|i: int| ceil_r(x) == i2r(i) {}

/// 0 < x < 1, integer n >= 1  ==>  0 < x^n < 1
#[verifier::external_body]
pub broadcast proof fn ax_pow_frac_int(x: real, n: int)
    requires 0real < x, x < 1real, n >= 1
    ensures 0real < #[trigger] pow_r(x, i2r(n)), pow_r(x, i2r(n)) < 1real {}
/// x >= 1, y <= 0  ==>  0 < x^y <= 1
#[verifier::external_body]
pub broadcast proof fn ax_pow_ge1_nonpos(x: real, y: real)
    requires x >= 1real, y <= 0real
    ensures 0real < #[trigger] pow_r(x, y), pow_r(x, y) <= 1real {}

/// x >= 1 ==> log2 x >= 0 ; x <= 2^64 ==> log2 x <= 64
#[verifier::external_body]
pub broadcast proof fn ax_log2(x: real)
    ensures x >= 1real ==> #[trigger] log2_r(x) >= 0real, (0real < x && x <= 18446744073709551616real) ==> log2_r(x) <= 64real {}

pub broadcast group group_real_axioms {
    ax_exp_pos, ax_exp_mono, ax_exp_zero, ax_ln_exp, ax_exp_ln, ax_sqrt,
}

impl F {
    pub open spec fn r(self) -> real { self.v@ }
    pub fn lit(x: Ghost<real>) -> (o: F) ensures o.r() == x@ { F { v: x } }
    /// float literal inside a std macro (assert!), where `Ghost(..real)` syntax is unavailable: n/d
    pub fn frac(n: u64, d: u64) -> (o: F) requires d > 0 ensures o.r() == i2r(n as int) / i2r(d as int), d == 1 ==> o.r() == i2r(n as int) {
        proof { assert(i2r(n as int) / 1real == i2r(n as int)) by(nonlinear_arith); }
        F { v: Ghost(i2r(n as int) / i2r(d as int)) }
    }
    pub fn exp(self) -> (o: F) ensures o.r() == exp_r(self.r()) { F { v: Ghost(exp_r(self.r())) } }
    pub fn exp_m1(self) -> (o: F) ensures o.r() == exp_r(self.r()) - 1real { F { v: Ghost(exp_r(self.r()) - 1real) } }
    pub fn ln(self) -> (o: F) ensures o.r() == ln_r(self.r()) { F { v: Ghost(ln_r(self.r())) } }
    pub fn ln_1p(self) -> (o: F) ensures o.r() == ln_r(1real + self.r()) { F { v: Ghost(ln_r(1real + self.r())) } }
    pub fn sqrt(self) -> (o: F) ensures o.r() == sqrt_r(self.r()) { F { v: Ghost(sqrt_r(self.r())) } }
    pub fn sin(self) -> (o: F) ensures o.r() == sin_r(self.r()) { F { v: Ghost(sin_r(self.r())) } }
    pub fn cos(self) -> (o: F) ensures o.r() == cos_r(self.r()) { F { v: Ghost(cos_r(self.r())) } }
    pub fn powf(self, y: F) -> (o: F) ensures o.r() == pow_r(self.r(), y.r()) { F { v: Ghost(pow_r(self.r(), y.r())) } }
    pub fn powi(self, y: i32) -> (o: F) ensures o.r() == pow_r(self.r(), i2r(y as int)) { F { v: Ghost(pow_r(self.r(), i2r(y as int))) } }
    pub fn abs(self) -> (o: F) ensures o.r() == abs_r(self.r()) { F { v: Ghost(abs_r(self.r())) } }
    pub fn max(self, y: F) -> (o: F) ensures o.r() == max_r(self.r(), y.r()) { F { v: Ghost(max_r(self.r(), y.r())) } }
    pub fn min(self, y: F) -> (o: F) ensures o.r() == min_r(self.r(), y.r()) { F { v: Ghost(min_r(self.r(), y.r())) } }
    pub fn round(self) -> (o: F) ensures o.r() == round_r(self.r()) { F { v: Ghost(round_r(self.r())) } }
    pub fn floor(self) -> (o: F) ensures o.r() == floor_r(self.r()) { F { v: Ghost(floor_r(self.r())) } }
    pub fn ceil(self) -> (o: F) ensures o.r() == ceil_r(self.r()) { F { v: Ghost(ceil_r(self.r())) } }
    pub fn log2(self) -> (o: F) ensures o.r() == log2_r(self.r()) { F { v: Ghost(log2_r(self.r())) } }
    pub fn recip(self) -> (o: F) requires self.r() != 0real ensures o.r() == 1real / self.r() { F { v: Ghost(1real / self.r()) } }
    pub fn mul_add(self, a: F, b: F) -> (o: F) ensures o.r() == self.r() * a.r() + b.r() { F { v: Ghost(self.r() * a.r() + b.r()) } }
    pub fn clamp(self, lo: F, hi: F) -> (o: F) requires lo.r() <= hi.r() ensures o.r() == min_r(max_r(self.r(), lo.r()), hi.r()) { F { v: Ghost(min_r(max_r(self.r(), lo.r()), hi.r())) } }
    /// model R: every value is finite and not NaN
    pub fn is_finite(self) -> (o: bool) ensures o { true }
    pub fn is_nan(self) -> (o: bool) ensures !o { false }
    pub fn is_infinite(self) -> (o: bool) ensures !o { false }
    pub fn neg_infinity() -> (o: F) ensures o.r() == neg_inf_r() { F { v: Ghost(neg_inf_r()) } }
    pub fn infinity() -> (o: F) ensures o.r() == pos_inf_r() { F { v: Ghost(pos_inf_r()) } }
    #[verifier::external_body]
    pub fn to_u64(self) -> (o: Option<u64>)
        ensures (0real <= self.r() && self.r() < 18446744073709551616real) ==> (o is Some && i2r(o->0 as int) <= self.r() && self.r() < i2r(o->0 as int) + 1real),
                (self.r() <= -1real || self.r() >= 18446744073709551616real) ==> o is None,
    { unimplemented!() }
}

impl Default for F { fn default() -> (o: F) ensures o.r() == 0real { F { v: Ghost(0real) } } }

impl AddSpecImpl<F> for F {
    open spec fn obeys_add_spec() -> bool { true }
    open spec fn add_req(self, rhs: F) -> bool { true }
    open spec fn add_spec(self, rhs: F) -> F { F { v: Ghost(self.r() + rhs.r()) } }
}
impl core::ops::Add<F> for F { type Output = F; #[verifier::external_body] fn add(self, rhs: F) -> F { F { v: Ghost(self.r() + rhs.r()) } } }
impl SubSpecImpl<F> for F {
    open spec fn obeys_sub_spec() -> bool { true }
    open spec fn sub_req(self, rhs: F) -> bool { true }
    open spec fn sub_spec(self, rhs: F) -> F { F { v: Ghost(self.r() - rhs.r()) } }
}
impl core::ops::Sub<F> for F { type Output = F; #[verifier::external_body] fn sub(self, rhs: F) -> F { F { v: Ghost(self.r() - rhs.r()) } } }
impl MulSpecImpl<F> for F {
    open spec fn obeys_mul_spec() -> bool { true }
    open spec fn mul_req(self, rhs: F) -> bool { true }
    open spec fn mul_spec(self, rhs: F) -> F { F { v: Ghost(self.r() * rhs.r()) } }
}
impl core::ops::Mul<F> for F { type Output = F; #[verifier::external_body] fn mul(self, rhs: F) -> F { F { v: Ghost(self.r() * rhs.r()) } } }
impl DivSpecImpl<F> for F {
    open spec fn obeys_div_spec() -> bool { true }
    // model R: division is total; x/0 is an unspecified real (as in SMT-LIB)
    open spec fn div_req(self, rhs: F) -> bool { true }
    open spec fn div_spec(self, rhs: F) -> F { F { v: Ghost(self.r() / rhs.r()) } }
}
impl core::ops::Div<F> for F { type Output = F; #[verifier::external_body] fn div(self, rhs: F) -> F { F { v: Ghost(self.r() / rhs.r()) } } }
impl NegSpecImpl for F {
    open spec fn obeys_neg_spec() -> bool { true }
    open spec fn neg_req(self) -> bool { true }
    open spec fn neg_spec(self) -> F { F { v: Ghost(-self.r()) } }
}
impl core::ops::Neg for F { type Output = F; #[verifier::external_body] fn neg(self) -> F { F { v: Ghost(-self.r()) } } }

impl AddAssignSpecImpl<F> for F {
    open spec fn obeys_add_assign_spec() -> bool { true }
    open spec fn add_assign_req(&self, rhs: F) -> bool { true }
    open spec fn add_assign_spec(&self, rhs: F) -> &F { &F { v: Ghost(self.r() + rhs.r()) } }
}
impl core::ops::AddAssign<F> for F { fn add_assign(&mut self, rhs: F) { self.v = Ghost(self.r() + rhs.r()); } }
impl SubAssignSpecImpl<F> for F {
    open spec fn obeys_sub_assign_spec() -> bool { true }
    open spec fn sub_assign_req(&self, rhs: F) -> bool { true }
    open spec fn sub_assign_spec(&self, rhs: F) -> &F { &F { v: Ghost(self.r() - rhs.r()) } }
}
impl core::ops::SubAssign<F> for F { fn sub_assign(&mut self, rhs: F) { self.v = Ghost(self.r() - rhs.r()); } }
impl MulAssignSpecImpl<F> for F {
    open spec fn obeys_mul_assign_spec() -> bool { true }
    open spec fn mul_assign_req(&self, rhs: F) -> bool { true }
    open spec fn mul_assign_spec(&self, rhs: F) -> &F { &F { v: Ghost(self.r() * rhs.r()) } }
}
impl core::ops::MulAssign<F> for F { fn mul_assign(&mut self, rhs: F) { self.v = Ghost(self.r() * rhs.r()); } }
impl DivAssignSpecImpl<F> for F {
    open spec fn obeys_div_assign_spec() -> bool { true }
    open spec fn div_assign_req(&self, rhs: F) -> bool { true }
    open spec fn div_assign_spec(&self, rhs: F) -> &F { &F { v: Ghost(self.r() / rhs.r()) } }
}
impl core::ops::DivAssign<F> for F { fn div_assign(&mut self, rhs: F) { self.v = Ghost(self.r() / rhs.r()); } }

impl PartialEqSpecImpl for F {
    open spec fn obeys_eq_spec() -> bool { true }
    open spec fn eq_spec(&self, o: &F) -> bool { self.r() == o.r() }
}
impl PartialEq for F { #[verifier::external_body] fn eq(&self, o: &F) -> bool { unimplemented!() } }
impl PartialOrdSpecImpl for F {
    open spec fn obeys_partial_cmp_spec() -> bool { true }
    open spec fn partial_cmp_spec(&self, o: &F) -> Option<core::cmp::Ordering> {
        if self.r() < o.r() { Some(core::cmp::Ordering::Less) }
        else if self.r() == o.r() { Some(core::cmp::Ordering::Equal) }
        else { Some(core::cmp::Ordering::Greater) }
    }
}
impl PartialOrd for F { #[verifier::external_body] fn partial_cmp(&self, o: &F) -> Option<core::cmp::Ordering> { unimplemented!() } }

// (the operator bodies above are external_body: they ARE the definition of model R; Verus could not re-check them once
// an operator is used inside a trait default method -- the specification is the *SpecImpl next to each)
// ---- casts (rule R2): `e as f64` -> ToF::to_f(e); `e as <int>` -> CastTo::<int>::cast(e)
pub trait ToF { spec fn to_f_spec(self) -> real; fn to_f(self) -> (o: F) ensures o.r() == self.to_f_spec(); }
impl ToF for u64 { open spec fn to_f_spec(self) -> real { i2r(self as int) } fn to_f(self) -> (o: F) { F { v: Ghost(i2r(self as int)) } } }
impl ToF for usize { open spec fn to_f_spec(self) -> real { i2r(self as int) } fn to_f(self) -> (o: F) { F { v: Ghost(i2r(self as int)) } } }
impl ToF for i64 { open spec fn to_f_spec(self) -> real { i2r(self as int) } fn to_f(self) -> (o: F) { F { v: Ghost(i2r(self as int)) } } }
impl ToF for u32 { open spec fn to_f_spec(self) -> real { i2r(self as int) } fn to_f(self) -> (o: F) { F { v: Ghost(i2r(self as int)) } } }
impl ToF for i32 { open spec fn to_f_spec(self) -> real { i2r(self as int) } fn to_f(self) -> (o: F) { F { v: Ghost(i2r(self as int)) } } }
impl ToF for F { open spec fn to_f_spec(self) -> real { self.r() } fn to_f(self) -> (o: F) { self } }

pub trait CastTo<T>: Sized { spec fn cast_ok(self, o: T) -> bool; fn cast(self) -> (o: T) ensures self.cast_ok(o); }
/// Rust's saturating float->int cast, truncation toward zero, in model R (no NaN)
pub open spec fn f_to_u64_ok(x: real, o: u64) -> bool {
    if x <= 0real { o == 0 }
    else if x >= 18446744073709551615real { o == 18446744073709551615u64 }
    else { i2r(o as int) <= x && x < i2r(o as int) + 1real }
}
impl CastTo<u64> for F {
    open spec fn cast_ok(self, o: u64) -> bool { f_to_u64_ok(self.r(), o) }
    #[verifier::external_body] fn cast(self) -> (o: u64) { unimplemented!() }
}
impl CastTo<usize> for F {
    open spec fn cast_ok(self, o: usize) -> bool { f_to_u64_ok(self.r(), o as u64) }
    #[verifier::external_body] fn cast(self) -> (o: usize) { unimplemented!() }
}
impl CastTo<u64> for u64 { open spec fn cast_ok(self, o: u64) -> bool { o == self } fn cast(self) -> (o: u64) { self } }
impl CastTo<u64> for usize { open spec fn cast_ok(self, o: u64) -> bool { o == self as u64 } fn cast(self) -> (o: u64) { self as u64 } }
impl CastTo<usize> for u64 { open spec fn cast_ok(self, o: usize) -> bool { o == self as usize } fn cast(self) -> (o: usize) { self as usize } }
impl CastTo<usize> for usize { open spec fn cast_ok(self, o: usize) -> bool { o == self } fn cast(self) -> (o: usize) { self } }
impl CastTo<i64> for u64 { open spec fn cast_ok(self, o: i64) -> bool { o == self as i64 } fn cast(self) -> (o: i64) { self as i64 } }
impl CastTo<i64> for usize { open spec fn cast_ok(self, o: i64) -> bool { o == self as i64 } fn cast(self) -> (o: i64) { self as i64 } }
impl CastTo<i64> for i64 { open spec fn cast_ok(self, o: i64) -> bool { o == self } fn cast(self) -> (o: i64) { self } }
impl CastTo<u64> for i64 { open spec fn cast_ok(self, o: u64) -> bool { o == self as u64 } fn cast(self) -> (o: u64) { self as u64 } }
impl CastTo<u64> for u32 { open spec fn cast_ok(self, o: u64) -> bool { o == self as u64 } fn cast(self) -> (o: u64) { self as u64 } }
impl CastTo<i32> for u64 { open spec fn cast_ok(self, o: i32) -> bool { o == self as i32 } fn cast(self) -> (o: i32) { self as i32 } }
impl CastTo<i32> for i64 { open spec fn cast_ok(self, o: i32) -> bool { o == self as i32 } fn cast(self) -> (o: i32) { self as i32 } }
impl CastTo<u32> for u64 { open spec fn cast_ok(self, o: u32) -> bool { o == self as u32 } fn cast(self) -> (o: u32) { self as u32 } }

// ---- `f64::NEG_INFINITY` / `f64::INFINITY` (rule R2 turns the type token into `F`): the unspecified
// reals neg_inf_r() / pos_inf_r() declared above (definitions, no new axiom)
impl F {
    pub exec const NEG_INFINITY: F ensures Self::NEG_INFINITY.r() == neg_inf_r() { F { v: Ghost(neg_inf_r()) } }
    pub exec const INFINITY: F ensures Self::INFINITY.r() == pos_inf_r() { F { v: Ghost(pos_inf_r()) } }
}
