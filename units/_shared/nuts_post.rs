// Postcondition vocabulary of nuts::draw, shared by unit nuts (where it is PROVED) and unit chain (where it is ASSUMED)
pub open spec fn pow2(n: nat) -> int decreases n { if n == 0 { 1 } else { 2 * pow2((n - 1) as nat) } }
/// `traj` holds a state for index i (named so that quantifiers have a stable trigger)
pub open spec fn has(t: Map<int, StateView>, i: int) -> bool { t.dom().contains(i) }

/// [C03.3] what a finished NUTS transition guarantees about the returned state and its statistics
pub open spec fn draw_post(state: StateView, info: SampleInfo, init: StateView, traj: Map<int, StateView>,
    steps: nat, divs: nat, dim: nat, opts: NutsOptions) -> bool
{
    let d = info.depth as nat;
    // the draw is a state the integrator produced in this trajectory (or its start)
    &&& has(traj, state.idx) && traj[state.idx] == state
    &&& has(traj, 0) && traj[0] == init
    // index 0 iff the chain did not move
    &&& (state.idx == 0 ==> state == init)
    &&& -(pow2(d) - 1) <= state.idx <= pow2(d) - 1
    &&& (opts.target_integration_time is None ==> info.depth <= opts.maxdepth + opts.extra_doublings)
    &&& info.depth <= 60
    // step count of a depth-d trajectory (extra doublings after a U-turn may add rejected sub-trees)
    &&& (opts.extra_doublings == 0 ==> pow2(d) - 1 <= steps <= 2 * pow2(d) - 1)
    &&& (dim == 0 ==> steps == 0 && state == init && info.depth == 0)
    // [C05.2] the transition is reported as divergent exactly when one of its integration steps diverged
    &&& divs <= 1 && (info.divergence_info is Some) == (divs == 1)
    &&& (info.divergence_info is Some ==> !info.reached_maxdepth)
    &&& (info.reached_maxdepth ==> steps == pow2(d) - 1)
}


/// [C01.6] one fair coin per direction, mapped bijectively
pub open spec fn dir_sample_post(l0: Seq<RngEv>, l1: Seq<RngEv>, r: Direction) -> bool {
    // exactly one coin is consumed and the direction is a bijective image of it
    l1 == l0.push(RngEv::Coin(r is Forward))
}
