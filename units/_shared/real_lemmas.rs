// elementary facts of real arithmetic (proved by Z3's nonlinear engine, no axioms)
pub proof fn lemma_div_sign(a: real, b: real)
    requires b > 0real
    ensures (a / b > 0real) == (a > 0real), (a / b < 0real) == (a < 0real), (a / b == 0real) == (a == 0real), (a / b >= 0real) == (a >= 0real)
{
    assert((a / b) * b == a) by(nonlinear_arith) requires b > 0real;
    assert((a / b > 0real) ==> (a / b) * b > 0real) by(nonlinear_arith) requires b > 0real;
    assert((a / b < 0real) ==> (a / b) * b < 0real) by(nonlinear_arith) requires b > 0real;
    assert((a / b == 0real) ==> (a / b) * b == 0real) by(nonlinear_arith);
}
pub proof fn lemma_mul_sign(a: real, b: real)
    requires a > 0real
    ensures (a * b > 0real) == (b > 0real), (a * b < 0real) == (b < 0real), (a * b == 0real) == (b == 0real)
{
    assert((b > 0real) ==> a * b > 0real) by(nonlinear_arith) requires a > 0real;
    assert((b < 0real) ==> a * b < 0real) by(nonlinear_arith) requires a > 0real;
    assert((b == 0real) ==> a * b == 0real) by(nonlinear_arith);
}
pub proof fn lemma_mul_nonneg(a: real, b: real)
    requires a >= 0real, b >= 0real
    ensures a * b >= 0real
{
    assert(a * b >= 0real) by(nonlinear_arith) requires a >= 0real, b >= 0real;
}
pub proof fn lemma_div_cancel(a: real, b: real)
    requires b != 0real
    ensures (a / b) * b == a, (a * b) / b == a
{
    assert((a / b) * b == a) by(nonlinear_arith) requires b != 0real;
    assert((a * b) / b == a) by(nonlinear_arith) requires b != 0real;
}
pub proof fn lemma_mul_le(a: real, b: real, c: real)
    requires a <= b, c >= 0real
    ensures a * c <= b * c, c * a <= c * b
{
    assert(a * c <= b * c) by(nonlinear_arith) requires a <= b, c >= 0real;
    assert(c * a <= c * b) by(nonlinear_arith) requires a <= b, c >= 0real;
}
pub proof fn lemma_mul_lt(a: real, b: real, c: real)
    requires a < b, c > 0real
    ensures a * c < b * c, c * a < c * b
{
    assert(a * c < b * c) by(nonlinear_arith) requires a < b, c > 0real;
    assert(c * a < c * b) by(nonlinear_arith) requires a < b, c > 0real;
}
