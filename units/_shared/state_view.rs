/// ghost view of a phase-space state: index in the trajectory, total energy, energy at the start of the
/// trajectory, and the point itself (original position/gradient, whitened position/gradient, velocity, logp)
pub struct StateView {
    pub idx: int, pub energy: real, pub e0: real,
    pub x: Seq<real>, pub g: Seq<real>, pub q: Seq<real>, pub gq: Seq<real>, pub v: Seq<real>, pub logp: real,
}
