// Specifications of std combinators that vstd 0.2026.09.13 does not cover.  Each one is an ASSUMPTION about
// the standard library (A-std-extra): the text follows the documented behaviour of the function.
pub assume_specification<T, P: FnOnce(&T) -> bool>[Option::<T>::filter](o: Option<T>, p: P) -> (r: Option<T>)
    requires o is Some ==> p.requires((&o->0,)),
    ensures
        o is None ==> r is None,
        o is Some ==> ((r is None && p.ensures((&o->0,), false)) || (r == o && p.ensures((&o->0,), true)));
