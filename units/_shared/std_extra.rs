// Specifications of std combinators that vstd 0.2026.09.13 does not cover.  Each one is an ASSUMPTION about
// the standard library (A-std-extra): the text follows the documented behaviour of the function.
pub assume_specification<T, P: FnOnce(&T) -> bool>[Option::<T>::filter](o: Option<T>, p: P) -> (r: Option<T>)
    requires o is Some ==> p.requires((&o->0,)),
    ensures
        o is None ==> r is None,
        o is Some ==> ((r is None && p.ensures((&o->0,), false)) || (r == o && p.ensures((&o->0,), true)));

// `str::contains`: result unconstrained (no string reasoning in Verus); offered so that an edit which starts using it
// stays decidable - whatever depends on its value must hold for both outcomes.
#[verifier::allow(undeclared_external_trait)]
pub assume_specification<P: core::str::pattern::Pattern>[str::contains::<P>](s: &str, pat: P) -> (r: bool);
