// `Option<Result<T, E>>::transpose`, which vstd 0.2026.09.13 does not cover.  ASSUMPTION about the standard library
// (A-std-extra); text = documented behaviour: None -> Ok(None), Some(Ok(x)) -> Ok(Some(x)), Some(Err(e)) -> Err(e).
pub assume_specification<T, E2>[Option::<core::result::Result<T, E2>>::transpose](o: Option<core::result::Result<T, E2>>) -> (r: core::result::Result<Option<T>, E2>)
    ensures
        o is None ==> r == Ok::<Option<T>, E2>(None),
        o is Some && o->0 is Ok ==> r == Ok::<Option<T>, E2>(Some(o->0->Ok_0)),
        o is Some && o->0 is Err ==> r == Err::<Option<T>, E2>(o->0->Err_0);
