// Specification vocabulary for step-size adaptation, written from the property statements
// (C06, C07), not from the code.  Shared by units adapt / stepsize / stepsize_init.

// ---- Nesterov dual averaging (Hoffman & Gelman 2014, Alg. 5/6) with the max_step_size clamp
pub struct DAView { pub x: real, pub xbar: real, pub hbar: real, pub mu: real, pub m: int }
pub struct DACfg { pub t0: real, pub gamma: real, pub kappa: real, pub ln_max: real }

pub open spec fn da_next(s: DAView, c: DACfg, accept: real, target: real) -> DAView {
    let mr = i2r(s.m);
    let w = 1real / (mr + c.t0);
    let hbar = (1real - w) * s.hbar + w * (target - accept);
    let x = min_r(s.mu - sqrt_r(mr) * hbar / c.gamma, c.ln_max);
    let eta = pow_r(mr, -c.kappa);
    DAView { x: x, xbar: eta * x + (1real - eta) * s.xbar, hbar: hbar, mu: s.mu, m: s.m + 1 }
}
pub open spec fn da_view(d: DualAverage) -> DAView {
    DAView { x: d.log_step.r(), xbar: d.log_step_adapted.r(), hbar: d.hbar.r(), mu: d.mu.r(), m: d.count as int }
}
pub open spec fn da_cfg(o: DualAverageOptions) -> DACfg {
    DACfg { t0: o.t0.r(), gamma: o.gamma.r(), kappa: o.k.r(), ln_max: ln_r(o.max_step_size.r()) }
}
pub open spec fn da_init(o: DualAverageOptions, initial_step: real) -> DAView {
    DAView { x: ln_r(initial_step), xbar: ln_r(initial_step), hbar: 0real, mu: ln_r(10real * initial_step), m: 1 }
}
pub open spec fn da_cfg_ok(c: DACfg) -> bool { c.t0 >= 0real && c.gamma > 0real && c.kappa >= 0real }

// ---- Adam on the log step size: the smoothed signal is the EMA of (accept - target)
pub open spec fn adam_wf(a: Adam) -> bool {
    0real < a.settings.beta1.r() && a.settings.beta1.r() < 1real
    && 0real < a.settings.beta2.r() && a.settings.beta2.r() < 1real
    && a.settings.epsilon.r() > 0real && a.settings.learning_rate.r() > 0real
    && a.v.r() >= 0real
}
pub open spec fn ema(prev: real, beta: real, g: real) -> real { beta * prev + (1real - beta) * g }

/// option values for which the step-size strategy is defined (helper precondition, from the code)
pub open spec fn strat_opts_ok(o: StepSizeSettings) -> bool {
    &&& match o.jitter { Some(j) => 0real < j.r(), None => true }
    &&& (o.adapt_options.method is Adam ==> {
            let a = o.adapt_options.adam;
            0real < a.beta1.r() && a.beta1.r() < 1real && 0real < a.beta2.r() && a.beta2.r() < 1real
            && a.epsilon.r() > 0real && a.learning_rate.r() > 0real })
}
// ---- the Strategy dispatcher
pub open spec fn strat_wf(s: Strategy) -> bool {
    &&& (s.adaptation is None) == (s.options.adapt_options.method is Fixed)
    &&& match s.adaptation {
        Some(Either::Left(d)) => d.count >= 1 && d.settings == s.options.adapt_options.dual_average,
        Some(Either::Right(a)) => adam_wf(a) && a.settings == s.options.adapt_options.adam,
        None => true,
    }
    &&& match s.options.jitter { Some(j) => 0real < j.r(), None => true }
}
/// what one estimator update must do to the adaptation state
pub open spec fn strat_advanced(a0: Option<Either<DualAverage, Adam>>, a1: Option<Either<DualAverage, Adam>>, accept: real, target: real) -> bool {
    match (a0, a1) {
        (None, None) => true,
        (Some(Either::Left(d0)), Some(Either::Left(d1))) =>
            d1.settings == d0.settings && da_view(d1) == da_next(da_view(d0), da_cfg(d0.settings), accept, target),
        (Some(Either::Right(m0)), Some(Either::Right(m1))) =>
            m1.settings == m0.settings && m1.t == m0.t + 1
            && m1.m.r() == ema(m0.m.r(), m0.settings.beta1.r(), accept - target)
            && m1.v.r() == ema(m0.v.r(), m0.settings.beta2.r(), (accept - target) * (accept - target))
            && ((m1.log_step.r() > m0.log_step.r()) == (m1.m.r() > 0real))
            && ((m1.log_step.r() < m0.log_step.r()) == (m1.m.r() < 0real))
            && m1.v.r() >= 0real,
        _ => false,
    }
}
/// number of estimator updates since the last (re-)seed, used to bound the machine counters
pub open spec fn strat_budget(s: Strategy) -> int {
    match s.adaptation {
        Some(Either::Left(d)) => d.count as int,
        Some(Either::Right(a)) => a.t as int + 1,
        None => 1,
    }
}
/// the base (un-jittered) step size the strategy proposes
pub open spec fn strat_base(s: Strategy, best: bool) -> real {
    match s.adaptation {
        None => match s.options.adapt_options.method { StepSizeAdaptMethod::Fixed(v) => v.r(), _ => 0real },
        Some(Either::Left(d)) => if best { exp_r(d.log_step_adapted.r()) } else { exp_r(d.log_step.r()) },
        Some(Either::Right(a)) => exp_r(a.log_step.r()),
    }
}
pub open spec fn jit_ok(u: real, j: real, step: real, base: real) -> bool { (1real - j) <= u && u < (1real + j) && step == base * u }
/// `step` lies within the configured jitter band around `base`
pub open spec fn in_jitter_band(step: real, base: real, jitter: Option<F>) -> bool {
    match jitter {
        None => step == base,
        Some(j) => exists|u: real| #[trigger] jit_ok(u, j.r(), step, base),
    }
}
/// a freshly (re-)seeded adaptation state for step size `step`
pub open spec fn fresh_adapt(o: StepSizeSettings, a: Option<Either<DualAverage, Adam>>, step: real) -> bool {
    match a {
        Some(Either::Left(d)) => d.settings == o.adapt_options.dual_average && da_view(d) == da_init(d.settings, step),
        Some(Either::Right(m)) => m.settings == o.adapt_options.adam && m.log_step.r() == ln_r(step) && m.m.r() == 0real && m.v.r() == 0real && m.t == 0,
        None => false,
    }
}
/// contract of the initial step-size search (Strategy::init), as far as callers rely on it
pub open spec fn ss_init_post(s0: Strategy, s1: Strategy, step0: real, step1: real, ok: bool) -> bool {
    &&& s1.options == s0.options
    &&& s1.last_mean_tree_accept == s0.last_mean_tree_accept
    &&& s1.last_sym_mean_tree_accept == s0.last_sym_mean_tree_accept
    &&& s1.last_n_steps == s0.last_n_steps
    &&& s1.last_max_energy_error == s0.last_max_energy_error
    &&& strat_wf(s0) ==> strat_wf(s1)
    &&& ok ==> match s0.options.adapt_options.method {
            StepSizeAdaptMethod::Fixed(v) => step1 == v.r() && s1.adaptation == s0.adaptation,
            _ => (s1.adaptation == s0.adaptation && step1 == s0.options.initial_step.r())
                 || fresh_adapt(s0.options, s1.adaptation, step1),
        }
}

// ---- per-leapfrog acceptance statistics (C07.5), written from the property text; dE = E_end - E_init
/// asymmetric statistic a(dE) = min(1, e^{-dE})
pub open spec fn acc_asym(de: real) -> real { min_r(1real, exp_r(-de)) }
/// symmetric statistic s(dE) = 2 min(1, e^{-dE}) / (1 + e^{-dE})
pub open spec fn acc_symm(de: real) -> real { 2real * min_r(1real, exp_r(-de)) / (1real + exp_r(-de)) }
/// machine-range helper precondition of register_leapfrog (the two u64 counters do not overflow)
pub open spec fn arc_leapfrog_pre(c: AcceptanceRateCollector) -> bool {
    c.mean.count < 0xffff_ffff_ffff_fff0 && c.mean_sym.count < 0xffff_ffff_ffff_fff0
}
/// what one leapfrog ending at total energy `end_energy` (or diverging) does to the collector:
/// both means receive one value -- a(dE) resp. s(dE), or 0 on a divergence -- and the count advances
/// by one in BOTH cases (C03.5: n_steps = number of leapfrogs); dE is measured against the energy
/// stored by register_init
pub open spec fn arc_leapfrog_post(c0: AcceptanceRateCollector, c1: AcceptanceRateCollector, end_energy: real, diverged: bool) -> bool {
    let de = end_energy - c0.initial_energy.r();
    &&& c1.initial_energy == c0.initial_energy
    &&& c1.mean.count == c0.mean.count + 1 && c1.mean_sym.count == c0.mean_sym.count + 1
    &&& c1.mean.sum.r() == c0.mean.sum.r() + (if diverged { 0real } else { acc_asym(de) })
    &&& c1.mean_sym.sum.r() == c0.mean_sym.sum.r() + (if diverged { 0real } else { acc_symm(de) })
    &&& (!diverged ==> c1.max_energy_error.r() == (if abs_r(-de) > abs_r(c0.max_energy_error.r()) { -de } else { c0.max_energy_error.r() }))
}
/// register_init stores the state's energy as baseline and resets both means
pub open spec fn arc_init_post(c1: AcceptanceRateCollector, energy: real) -> bool {
    &&& c1.initial_energy.r() == energy
    &&& c1.mean.sum.r() == 0real && c1.mean.count == 0
    &&& c1.mean_sym.sum.r() == 0real && c1.mean_sym.count == 0
    &&& c1.max_energy_error.r() == 0real
}
