// Vectors as sequences of reals: the element-wise vocabulary used by the Math façade contracts (A-math)
pub open spec fn axpy_s(x: Seq<real>, y: Seq<real>, a: real) -> Seq<real> { Seq::new(y.len(), |i: int| y[i] + a * x[i]) }
pub open spec fn add_s(x: Seq<real>, y: Seq<real>) -> Seq<real> { Seq::new(x.len(), |i: int| x[i] + y[i]) }
pub open spec fn sub_s(x: Seq<real>, y: Seq<real>) -> Seq<real> { Seq::new(x.len(), |i: int| x[i] - y[i]) }
pub open spec fn mul_s(x: Seq<real>, y: Seq<real>) -> Seq<real> { Seq::new(x.len(), |i: int| x[i] * y[i]) }
pub open spec fn scale_s(x: Seq<real>, a: real) -> Seq<real> { Seq::new(x.len(), |i: int| a * x[i]) }
pub open spec fn const_s(n: nat, a: real) -> Seq<real> { Seq::new(n, |i: int| a) }
pub open spec fn dot_s(x: Seq<real>, y: Seq<real>) -> real decreases x.len() {
    if x.len() == 0 { 0real } else { dot_s(x.drop_last(), y.drop_last()) + x.last() * y.last() }
}
/// harmonic flow of the standard normal: (q cos e + v sin e, -q sin e + v cos e)
pub open spec fn rot_q(q: Seq<real>, v: Seq<real>, e: real) -> Seq<real> { Seq::new(q.len(), |i: int| q[i] * cos_r(e) + v[i] * sin_r(e)) }
pub open spec fn rot_v(q: Seq<real>, v: Seq<real>, e: real) -> Seq<real> { Seq::new(q.len(), |i: int| q[i] * (-sin_r(e)) + v[i] * cos_r(e)) }
/// residual-gradient kick of the ExactNormal integrator: v + e*(q + g)
pub open spec fn kick_s(q: Seq<real>, g: Seq<real>, v: Seq<real>, e: real) -> Seq<real> { Seq::new(v.len(), |i: int| v[i] + e * (q[i] + g[i])) }
