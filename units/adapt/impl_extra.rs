    // ghost items spliced into `impl AdaptStrategy<M> for GlobalStrategy<M, A>` (rule R1: contracts)
    open spec fn new_pre(options: Self::Options, num_tune: u64) -> bool { gs_new_pre::<M, A>(options, num_tune) }
    open spec fn new_post(options: Self::Options, num_tune: u64, r: Self) -> bool { gs_new_post::<M, A>(options, num_tune, r) }
    open spec fn adapt_pre(&self, h: &Self::Hamiltonian, draw: u64) -> bool { gs_adapt_pre::<M, A>(*self, draw) }
    open spec fn adapt_post(&self, post: &Self, h0: &Self::Hamiltonian, h1: &Self::Hamiltonian, draw: u64,
                       collector: &Self::Collector, r: Result<(), NutsError>) -> bool {
        gs_adapt_post::<M, A>(*self, *post, *h0, *h1, draw, *collector, r)
    }
    open spec fn tuning_view(&self) -> bool { self.tuning }
    open spec fn last_steps_view(&self) -> u64 { self.step_size.last_n_steps }
    open spec fn init_pre(&self) -> bool { gs_init_pre(*self) }
    open spec fn init_post(&self, post: &Self, h0: &Self::Hamiltonian, h1: &Self::Hamiltonian, r: Result<(), NutsError>) -> bool { gs_init_post(*self, *post, *h0, *h1, r) }
