pub open spec fn gs_new_pre<M: Math, A: MassMatrixAdaptStrategy<M>>(options: EuclideanAdaptOptions<A::Options>, num_tune: u64) -> bool { true }
pub open spec fn gs_new_post<M: Math, A: MassMatrixAdaptStrategy<M>>(options: EuclideanAdaptOptions<A::Options>, num_tune: u64, r: GlobalStrategy<M, A>) -> bool { true }
pub open spec fn gs_adapt_pre<M: Math, A: MassMatrixAdaptStrategy<M>>(s: GlobalStrategy<M, A>, draw: u64) -> bool { true }
pub open spec fn gs_adapt_post<M: Math, A: MassMatrixAdaptStrategy<M>>(s0: GlobalStrategy<M, A>, s1: GlobalStrategy<M, A>,
    h0: TransformedHamiltonian<M, A::Transformation>, h1: TransformedHamiltonian<M, A::Transformation>, draw: u64,
    c: CombinedCollector<M, TransformedPoint<M>, AcceptanceRateCollector, A::Collector>, r: Result<(), NutsError>) -> bool { true }
