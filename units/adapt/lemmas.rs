//@include ../_shared/stepsize_spec.rs

// =====================================================================================
// Warm-up schedule, written from the statements of C06 and C09
// =====================================================================================
pub spec const BIG: u64 = 0x4000_0000;   // 2^30: machine-range bound on num_tune / window sizes (Adam casts its counter to i32)

pub open spec fn max_u(a: int, b: int) -> int { if a >= b { a } else { b } }

pub open spec fn gs_cfg_ok<M: Math, A: MassMatrixAdaptStrategy<M>>(s: GlobalStrategy<M, A>) -> bool {
    &&& s.final_step_size_window <= s.num_tune
    &&& s.num_tune <= BIG
    &&& s.options.mass_matrix_switch_freq <= BIG
    &&& s.options.early_mass_matrix_switch_freq <= BIG
    &&& 1real <= s.options.mass_matrix_window_growth.r() <= 1024real
    &&& s.step_size.options == s.options.step_size_settings
}

pub open spec fn gs_new_pre<M: Math, A: MassMatrixAdaptStrategy<M>>(options: EuclideanAdaptOptions<A::Options>, num_tune: u64) -> bool {
    // C06.1: *every* num_tune >= 0 (up to the machine-range bound) and window fractions in [0,1)
    &&& num_tune <= BIG
    &&& 0real <= options.early_window.r() < 1real
    &&& 0real <= options.step_size_window.r() < 1real
    &&& options.mass_matrix_switch_freq <= BIG
    &&& options.early_mass_matrix_switch_freq <= BIG
    &&& 1real <= options.mass_matrix_window_growth.r() <= 1024real
    &&& strat_opts_ok(options.step_size_settings)
}

pub open spec fn floor_of(x: real, o: int) -> bool { i2r(o) <= x && x < i2r(o) + 1real }

pub open spec fn gs_new_post<M: Math, A: MassMatrixAdaptStrategy<M>>(options: EuclideanAdaptOptions<A::Options>, num_tune: u64, r: GlobalStrategy<M, A>) -> bool {
    &&& r.num_tune == num_tune
    &&& r.options == options
    &&& r.tuning
    &&& r.has_initial_mass_matrix
    &&& r.last_update == 0
    &&& r.current_window_size == options.mass_matrix_switch_freq
    // early_end = floor(early_window * num_tune)
    &&& floor_of(options.early_window.r() * i2r(num_tune as int), r.early_end as int)
    // final window starts at num_tune - floor(step_size_window * num_tune)
    &&& floor_of(options.step_size_window.r() * i2r(num_tune as int), num_tune - r.final_step_size_window)
    &&& r.final_step_size_window <= num_tune
    &&& r.mass_matrix_adapt.fg().len() == 0 && r.mass_matrix_adapt.bg().len() == 0
    &&& strat_wf(r.step_size) && strat_budget(r.step_size) == 1
    &&& gs_cfg_ok(r)
    &&& gs_inv(r, 0)
}

/// invariant between calls of adapt; `draw` is the index the next call will get
pub open spec fn gs_inv<M: Math, A: MassMatrixAdaptStrategy<M>>(s: GlobalStrategy<M, A>, draw: u64) -> bool {
    &&& gs_cfg_ok(s)
    &&& strat_wf(s.step_size)
    &&& s.last_update <= draw
    // (the estimator's init pushes the start point, so a window may hold one sample more than draws were made)
    &&& s.mass_matrix_adapt.bg().len() <= draw + 1
    &&& s.current_window_size as int <= max_u(s.options.mass_matrix_switch_freq as int, s.num_tune as int)
    &&& strat_budget(s.step_size) <= draw + 1
}

/// GlobalStrategy::init (set_position): called on a freshly constructed strategy
pub open spec fn gs_init_pre<M: Math, A: MassMatrixAdaptStrategy<M>>(s: GlobalStrategy<M, A>) -> bool {
    gs_inv(s, 0) && s.mass_matrix_adapt.fg().len() == 0 && s.mass_matrix_adapt.bg().len() == 0 && strat_budget(s.step_size) == 1
}
/// it establishes the invariant `adapt` needs at draw 0 (the start point sits in both estimator windows),
/// initialises the transformation and runs the step-size search; its errors propagate
pub open spec fn gs_init_post<M: Math, A: MassMatrixAdaptStrategy<M>>(s0: GlobalStrategy<M, A>, s1: GlobalStrategy<M, A>,
    h0: TransformedHamiltonian<M, A::Transformation>, h1: TransformedHamiltonian<M, A::Transformation>, r: Result<(), NutsError>) -> bool
{
    &&& s1.num_tune == s0.num_tune && s1.early_end == s0.early_end && s1.final_step_size_window == s0.final_step_size_window
    &&& s1.options == s0.options && s1.tuning == s0.tuning && s1.has_initial_mass_matrix == s0.has_initial_mass_matrix
    &&& (r is Ok ==> gs_inv(s1, 0) && h1.trans().id == h0.trans().id + 1
            && s1.mass_matrix_adapt.fg().len() == 1 && s1.mass_matrix_adapt.bg().len() == 1)
}

pub open spec fn gs_adapt_pre<M: Math, A: MassMatrixAdaptStrategy<M>>(s: GlobalStrategy<M, A>, draw: u64) -> bool {
    gs_inv(s, draw) && draw < 0xffff_ffff_ffff_fff0
}

/// The schedule of one warm-up draw before the final step-size window (C09, from the property text).
pub struct SchedOut { pub fg: Seq<Sample>, pub bg: Seq<Sample>, pub cws: int, pub switched: bool, pub reestimate: bool, pub late: bool }

pub open spec fn next_window(cws: int, growth: real, early: bool, early_freq: int) -> int {
    if early { early_freq } else { max_u(cws + 1, sat_u64(round_r(i2r(cws) * growth))) }
}
/// value of Rust's saturating `as u64` for an integral real
pub open spec fn sat_u64(x: real) -> int {
    if x <= 0real { 0 } else if x >= 18446744073709551615real { 18446744073709551615 } else { choose|o: int| i2r(o) <= x && x < i2r(o) + 1real }
}

pub open spec fn sched<M: Math, A: MassMatrixAdaptStrategy<M>>(s: GlobalStrategy<M, A>, draw: u64, good: bool, sample: Sample) -> SchedOut {
    let early = draw < s.early_end;
    // at the first main-phase draw the window size is seeded with max(configured, background count)
    let cws0 = if !early && draw == s.early_end { max_u(s.current_window_size as int, s.mass_matrix_adapt.bg().len() as int) } else { s.current_window_size as int };
    let threshold = if early { s.options.early_mass_matrix_switch_freq as int } else { cws0 };
    let fg1 = if good { s.mass_matrix_adapt.fg().push(sample) } else { s.mass_matrix_adapt.fg() };
    let bg1 = if good { s.mass_matrix_adapt.bg().push(sample) } else { s.mass_matrix_adapt.bg() };
    let nw = next_window(cws0, s.options.mass_matrix_window_growth.r(), early, s.options.early_mass_matrix_switch_freq as int);
    // another full window must still fit before the final step-size window
    let fits = nw + draw <= s.final_step_size_window;
    let switched = bg1.len() >= threshold && fits;
    SchedOut {
        fg: if switched { bg1 } else { fg1 },
        bg: if switched { Seq::<Sample>::empty() } else { bg1 },
        cws: if switched && !early { nw } else { cws0 },
        switched: switched,
        reestimate: switched || draw - s.last_update >= s.options.mass_matrix_update_freq,
        late: !fits,
    }
}

pub open spec fn acc_of(c: AcceptanceRateCollector) -> real { c.mean.sum.r() / i2r(c.mean.count as int) }
pub open spec fn acc_sym_of(c: AcceptanceRateCollector) -> real { c.mean_sym.sum.r() / i2r(c.mean_sym.count as int) }

/// configuration never touched; per-draw statistics taken from this draw's collector; tuning flag
pub open spec fn gs_post_common<M: Math, A: MassMatrixAdaptStrategy<M>>(s0: GlobalStrategy<M, A>, s1: GlobalStrategy<M, A>, draw: u64,
    c: CombinedCollector<M, TransformedPoint<M>, AcceptanceRateCollector, A::Collector>) -> bool
{
    &&& s1.num_tune == s0.num_tune && s1.early_end == s0.early_end
    &&& s1.final_step_size_window == s0.final_step_size_window && s1.options == s0.options
    &&& s1.step_size.options == s0.step_size.options
    &&& s1.step_size.last_mean_tree_accept.r() == acc_of(c.collector1)
    &&& s1.step_size.last_sym_mean_tree_accept.r() == acc_sym_of(c.collector1)
    &&& s1.step_size.last_n_steps == c.collector1.mean.count
    // [C06.2] tuning flag: cleared exactly from draw num_tune on, never set again
    &&& s1.tuning == (s0.tuning && draw < s0.num_tune)
}

/// [C06.5] after warm-up: adaptation state frozen, only jitter around the averaged step
pub open spec fn gs_post_after<M: Math, A: MassMatrixAdaptStrategy<M>>(s0: GlobalStrategy<M, A>, s1: GlobalStrategy<M, A>,
    h0: TransformedHamiltonian<M, A::Transformation>, h1: TransformedHamiltonian<M, A::Transformation>) -> bool
{
    &&& s1.step_size.adaptation == s0.step_size.adaptation
    &&& s1.mass_matrix_adapt == s0.mass_matrix_adapt
    &&& s1.current_window_size == s0.current_window_size && s1.last_update == s0.last_update
    &&& s1.has_initial_mass_matrix == s0.has_initial_mass_matrix
    &&& h1.trans() == h0.trans()
    &&& in_jitter_band(h1.step(), strat_base(s0.step_size, true), s0.options.step_size_settings.jitter)
}

/// [C06.4] final step-size window: transformation and estimators frozen; [C09] symmetric statistic
pub open spec fn gs_post_final<M: Math, A: MassMatrixAdaptStrategy<M>>(s0: GlobalStrategy<M, A>, s1: GlobalStrategy<M, A>,
    h0: TransformedHamiltonian<M, A::Transformation>, h1: TransformedHamiltonian<M, A::Transformation>, draw: u64,
    c: CombinedCollector<M, TransformedPoint<M>, AcceptanceRateCollector, A::Collector>) -> bool
{
    &&& s1.mass_matrix_adapt == s0.mass_matrix_adapt
    &&& s1.current_window_size == s0.current_window_size && s1.last_update == s0.last_update
    &&& s1.has_initial_mass_matrix == s0.has_initial_mass_matrix
    &&& h1.trans() == h0.trans()
    &&& strat_advanced(s0.step_size.adaptation, s1.step_size.adaptation, acc_sym_of(c.collector1), s0.options.step_size_settings.target_accept.r())
    // the last warm-up draw already uses the averaged step size
    &&& in_jitter_band(h1.step(), strat_base(s1.step_size, draw == s0.num_tune - 1), s0.options.step_size_settings.jitter)
}

/// [C09.2] windowed phase
pub open spec fn gs_post_window<M: Math, A: MassMatrixAdaptStrategy<M>>(s0: GlobalStrategy<M, A>, s1: GlobalStrategy<M, A>,
    h0: TransformedHamiltonian<M, A::Transformation>, h1: TransformedHamiltonian<M, A::Transformation>, draw: u64,
    c: CombinedCollector<M, TransformedPoint<M>, AcceptanceRateCollector, A::Collector>, ok: bool) -> bool
{
    let target = s0.options.step_size_settings.target_accept.r();
    let e = sched(s0, draw, A::coll_good(&c.collector2), A::coll_sample(&c.collector2));
    let stat = if e.late { acc_sym_of(c.collector1) } else { acc_of(c.collector1) };
    let changed = h1.trans() != h0.trans();
    &&& s1.mass_matrix_adapt.fg() == e.fg && s1.mass_matrix_adapt.bg() == e.bg
    &&& s1.current_window_size as int == e.cws
    // the transformation is re-estimated only on a switch or when the update frequency is due,
    // and then from the (new) foreground estimator
    &&& (changed ==> e.reestimate && h1.trans().id == h0.trans().id + 1
            && A::estimated_from(h1.trans(), e.fg) && s1.last_update == draw)
    &&& (!changed ==> s1.last_update == s0.last_update)
    &&& s1.has_initial_mass_matrix == (s0.has_initial_mass_matrix && !changed)
    // first change of the transformation re-runs the step-size search; otherwise one estimator update
    &&& (changed && s0.has_initial_mass_matrix ==> exists|mid: Strategy| {
            &&& strat_advanced(s0.step_size.adaptation, mid.adaptation, stat, target)
            &&& #[trigger] ss_init_post(mid, s1.step_size, h0.step(), h1.step(), ok) })
    &&& (!(changed && s0.has_initial_mass_matrix) ==> {
            &&& ok
            &&& strat_advanced(s0.step_size.adaptation, s1.step_size.adaptation, stat, target)
            &&& in_jitter_band(h1.step(), strat_base(s1.step_size, false), s0.options.step_size_settings.jitter) })
}

pub open spec fn gs_adapt_post<M: Math, A: MassMatrixAdaptStrategy<M>>(s0: GlobalStrategy<M, A>, s1: GlobalStrategy<M, A>,
    h0: TransformedHamiltonian<M, A::Transformation>, h1: TransformedHamiltonian<M, A::Transformation>, draw: u64,
    c: CombinedCollector<M, TransformedPoint<M>, AcceptanceRateCollector, A::Collector>, r: Result<(), NutsError>) -> bool
{
    &&& gs_post_common(s0, s1, draw, c)
    // invariant for the next call
    &&& (r is Ok ==> gs_inv(s1, (draw + 1) as u64))
    &&& (draw >= s0.num_tune ==> r is Ok && gs_post_after(s0, s1, h0, h1))
    &&& (s0.final_step_size_window <= draw < s0.num_tune ==> r is Ok && gs_post_final(s0, s1, h0, h1, draw, c))
    &&& (draw < s0.final_step_size_window ==> gs_post_window(s0, s1, h0, h1, draw, c, r is Ok))
}

pub proof fn lemma_floor_unique(x: real, a: int, b: int)
    requires i2r(a) <= x, x < i2r(a) + 1real, i2r(b) <= x, x < i2r(b) + 1real
    ensures a == b
{
}
/// the value computed by `x.round() as u64` is sat_u64(round_r(x))
pub proof fn lemma_sat_u64(x: real, o: u64)
    requires f_to_u64_ok(x, o)
    ensures o as int == sat_u64(x)
{
    if 0real < x && x < 18446744073709551615real {
        let c = choose|c: int| i2r(c) <= x && x < i2r(c) + 1real;
        lemma_floor_unique(x, o as int, c);
    }
}
