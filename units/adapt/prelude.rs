// Prelude of unit `adapt`: everything the extracted code calls but that is not extracted here.
// Each contract below is an ASSUMPTION of this unit unless another unit proves the real
// implementation against the same text (see DESIGN §6).
use core::marker::PhantomData;
use core::fmt::Debug;
pub type StepSizeStrategy = Strategy;

pub mod std_shim { }
#[derive(Debug)]
pub struct NutsError { pub code: u64 }
pub enum Either<L, R> { Left(L), Right(R) }

// ---- rand façade (A-rng-uniform)
#[derive(Debug)]
pub struct UniformErr {}
pub struct Uniform { pub lo: F, pub hi: F }
impl Uniform {
    #[verifier::external_body]
    pub fn new(lo: F, hi: F) -> (r: Result<Uniform, UniformErr>)
        ensures lo.r() < hi.r() ==> (r is Ok && r->Ok_0.lo == lo && r->Ok_0.hi == hi),
                !(lo.r() < hi.r()) ==> r is Err,
    { unimplemented!() }
}
pub trait Rng {
    /// A-rng-uniform: a sample of Uniform::new(lo, hi) lies in [lo, hi)
    fn sample(&mut self, u: Uniform) -> (r: F)
        ensures u.lo.r() <= r.r() && r.r() < u.hi.r();
}

// ---- Math / Point / State façade
pub trait Math: Sized {
    type Vector;
    fn box_array(&mut self, array: &Self::Vector) -> (r: Box<[F]>);
}
pub trait Point<M: Math>: Sized {
    fn position(&self) -> &M::Vector;
}
pub struct TransformedPoint<M: Math> { pub pos: M::Vector }
impl<M: Math> Point<M> for TransformedPoint<M> { fn position(&self) -> &M::Vector { &self.pos } }
pub struct State<M: Math, P: Point<M>> { pub p: P, pub _m: PhantomData<M> }
impl<M: Math, P: Point<M>> State<M, P> { pub fn point(&self) -> &P { &self.p } }
pub trait Collector<M: Math, P: Point<M>> {}
impl<M: Math, P: Point<M>> Collector<M, P> for AcceptanceRateCollector {}
impl<M: Math, P: Point<M>, C1: Collector<M, P>, C2: Collector<M, P>> Collector<M, P> for CombinedCollector<M, P, C1, C2> {}

// ---- transformation / hamiltonian façade
/// ghost view of a transformation: version counter and the parameters it applies
pub struct TransView { pub id: int, pub params: Seq<real> }
pub trait Transformation<M: Math>: Sized { spec fn view(&self) -> TransView; }

pub trait Hamiltonian<M: Math>: Sized {
    type Point: Point<M>;
    spec fn step(&self) -> real;
    spec fn trans(&self) -> TransView;
    fn step_size(&self) -> (r: F) ensures r.r() == self.step();
    fn step_size_mut(&mut self) -> (r: &mut F)
        ensures r.r() == old(self).step(), final(self).step() == final(r).r(),
                final(self).trans() == old(self).trans();
    /// (contract proved for TransformedHamiltonian in unit leapfrog: frames of init_state_untransformed)
    fn init_state_untransformed(&mut self, math: &mut M, init: &[F]) -> (r: Result<State<M, Self::Point>, NutsError>)
        ensures final(self).trans() == old(self).trans(), final(self).step() == old(self).step();
}
pub struct TransformedHamiltonian<M: Math, T: Transformation<M>> { pub step_size: F, pub transformation: T, pub _p: PhantomData<M> }
impl<M: Math, T: Transformation<M>> Hamiltonian<M> for TransformedHamiltonian<M, T> {
    type Point = TransformedPoint<M>;
    open spec fn step(&self) -> real { self.step_size.r() }
    open spec fn trans(&self) -> TransView { self.transformation.view() }
    fn step_size(&self) -> (r: F) { self.step_size }
    fn step_size_mut(&mut self) -> (r: &mut F) { &mut self.step_size }
    #[verifier::external_body]
    fn init_state_untransformed(&mut self, math: &mut M, init: &[F]) -> (r: Result<State<M, Self::Point>, NutsError>) { unimplemented!() }
}
impl<M: Math, T: Transformation<M>> TransformedHamiltonian<M, T> {
    pub fn transformation_mut(&mut self) -> (r: &mut T)
        ensures *r == old(self).transformation, *final(r) == final(self).transformation,
                final(self).step_size == old(self).step_size,
    { &mut self.transformation }
}

// ---- mass-matrix estimator façade (contract proved for DiagAdaptStrategy in unit `diagadapt`)
pub struct Sample { pub draw: Seq<real>, pub grad: Seq<real> }
pub trait MassMatrixAdaptStrategy<M: Math>: Sized {
    type Transformation: Transformation<M>;
    type Collector: Collector<M, TransformedPoint<M>>;
    type Options: Copy + Debug + Default;
    /// samples accumulated in the foreground / background estimator, oldest first
    spec fn fg(&self) -> Seq<Sample>;
    spec fn bg(&self) -> Seq<Sample>;
    spec fn coll_good(c: &Self::Collector) -> bool;
    spec fn coll_sample(c: &Self::Collector) -> Sample;
    /// `t` carries the estimate computed from the foreground estimator `fg`
    spec fn estimated_from(t: TransView, fg: Seq<Sample>) -> bool;

    fn new(math: &mut M, options: Self::Options, num_tune: u64, chain: u64) -> (r: Self)
        ensures r.fg().len() == 0, r.bg().len() == 0;
    fn update_estimators(&mut self, math: &mut M, collector: &Self::Collector)
        ensures
            Self::coll_good(collector) ==> final(self).fg() == old(self).fg().push(Self::coll_sample(collector))
                && final(self).bg() == old(self).bg().push(Self::coll_sample(collector)),
            !Self::coll_good(collector) ==> final(self).fg() == old(self).fg() && final(self).bg() == old(self).bg();
    fn switch(&mut self, math: &mut M)
        ensures final(self).fg() == old(self).bg(), final(self).bg() == Seq::<Sample>::empty();
    fn current_count(&self) -> (r: u64) ensures r as int == self.fg().len();
    fn background_count(&self) -> (r: u64) ensures r as int == self.bg().len();
    /// the start point seeds both windows and the transformation is initialised from its gradient
    /// (relational form proved in units diagadapt / lowrankadapt)
    fn init<R: Rng + ?Sized, VxP: Point<M>>(&mut self, math: &mut M, options: &mut NutsOptions, mass_matrix: &mut Self::Transformation,
                                 point: &VxP, rng: &mut R) -> (r: Result<(), NutsError>)
        ensures
            r is Ok,
            *final(options) == *old(options),
            final(self).fg().len() == old(self).fg().len() + 1, final(self).bg().len() == old(self).bg().len() + 1,
            final(mass_matrix).view().id == old(mass_matrix).view().id + 1;
    fn adapt(&self, math: &mut M, mass_matrix: &mut Self::Transformation) -> (r: bool)
        ensures !r ==> *final(mass_matrix) == *old(mass_matrix),
                r ==> final(mass_matrix).view().id == old(mass_matrix).view().id + 1
                      && Self::estimated_from(final(mass_matrix).view(), self.fg());
}

// ---- Strategy::init is proved in unit `stepsize_init` against this same contract text
impl Strategy {
    #[verifier::external_body]
    pub fn init<M: Math, R: Rng + ?Sized, P: Point<M>, H: Hamiltonian<M, Point = P>>(
        &mut self,
        math: &mut M,
        options: &mut NutsOptions,
        hamiltonian: &mut H,
        position: &[F],
        start: Option<&State<M, P>>,
        rng: &mut R,
    ) -> (r: Result<(), NutsError>)
        requires
            strat_wf(*old(self)),
        ensures
            final(hamiltonian).trans() == old(hamiltonian).trans(),
            *final(options) == *old(options),
            ss_init_post(*old(self), *final(self), old(hamiltonian).step(), final(hamiltonian).step(), r is Ok),
    { unimplemented!() }
}

// ---- the trait implemented by GlobalStrategy; the per-impl contract is supplied by the
// ghost items spliced into the extracted impl (impl_extra.rs)
pub trait AdaptStrategy<M: Math>: Sized {
    type Hamiltonian: Hamiltonian<M>;
    type Collector: Collector<M, <Self::Hamiltonian as Hamiltonian<M>>::Point>;
    type Options: Copy;

    spec fn new_pre(options: Self::Options, num_tune: u64) -> bool;
    spec fn new_post(options: Self::Options, num_tune: u64, r: Self) -> bool;
    fn new(math: &mut M, options: Self::Options, num_tune: u64, chain: u64) -> (r: Self)
        requires Self::new_pre(options, num_tune)
        ensures Self::new_post(options, num_tune, r);

    spec fn init_pre(&self) -> bool;
    spec fn init_post(&self, post: &Self, h0: &Self::Hamiltonian, h1: &Self::Hamiltonian, r: Result<(), NutsError>) -> bool;
    fn init<R: Rng + ?Sized>(&mut self, math: &mut M, options: &mut NutsOptions, hamiltonian: &mut Self::Hamiltonian, position: &[F], rng: &mut R)
        -> (r: Result<(), NutsError>)
        requires old(self).init_pre()
        ensures *final(options) == *old(options), old(self).init_post(final(self), old(hamiltonian), final(hamiltonian), r);

    spec fn adapt_pre(&self, h: &Self::Hamiltonian, draw: u64) -> bool;
    spec fn adapt_post(&self, post: &Self, h0: &Self::Hamiltonian, h1: &Self::Hamiltonian, draw: u64,
                       collector: &Self::Collector, r: Result<(), NutsError>) -> bool;
    fn adapt<R: Rng + ?Sized>(
        &mut self,
        math: &mut M,
        options: &mut NutsOptions,
        hamiltonian: &mut Self::Hamiltonian,
        draw: u64,
        collector: &Self::Collector,
        state: &State<M, <Self::Hamiltonian as Hamiltonian<M>>::Point>,
        rng: &mut R,
    ) -> (r: Result<(), NutsError>)
        requires old(self).adapt_pre(old(hamiltonian), draw)
        ensures *final(options) == *old(options),
                old(self).adapt_post(final(self), old(hamiltonian), final(hamiltonian), draw, collector, r);

    spec fn tuning_view(&self) -> bool;
    fn is_tuning(&self) -> (r: bool) ensures r == self.tuning_view();
    spec fn last_steps_view(&self) -> u64;
    fn last_num_steps(&self) -> (r: u64) ensures r == self.last_steps_view();
}
