    // ghost items spliced into `impl ChainStorage for ArrowChainStorage` (rule R1: contracts)
    open spec fn record_sample_pre(&self, stats: Seq<(&str, Option<Value>)>, draws: Seq<(&str, Option<Value>)>, info: &Progress) -> bool {
        rs_pre(*self, stats, draws, *info)
    }
    open spec fn record_sample_post(&self, post: &Self, stats: Seq<(&str, Option<Value>)>, draws: Seq<(&str, Option<Value>)>, info: &Progress, r: Result<()>) -> bool {
        rs_post(*self, *post, stats, draws, *info, r)
    }
    open spec fn finalize_pre(&self) -> bool { cs_inv(*self) }
    open spec fn finalize_post(&self, r: Result<ArrowTrace>) -> bool { fin_post(*self, r) }
    open spec fn inspect_pre(&self) -> bool { cs_inv(*self) }
    open spec fn inspect_post(&self, r: Result<Option<ArrowTrace>>) -> bool {
        match r {
            Ok(Some(t)) => fin_post(*self, Ok(t)),   // [C14.a6] inspecting yields what finalising the same storage yields
            Ok(None) => false,                        // [C14.a6] ... never None
            Err(e) => fin_post(*self, Err(e)),
        }
    }
    open spec fn flush_post(&self, r: Result<()>) -> bool { r is Ok }
