    // ghost items spliced into `impl StorageConfig for ArrowConfig` (rule R1: contracts)
    open spec fn new_trace_pre<M: Math, S: Settings>(&self, settings: &S, math: &M) -> bool {
        nt_pre(settings, math)
    }
    open spec fn new_trace_post<M: Math, S: Settings>(&self, settings: &S, math: &M, r: Result<ArrowTraceStorage>) -> bool {
        nt_post(*self, settings, math, r)
    }
