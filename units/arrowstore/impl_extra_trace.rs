    // ghost items spliced into `impl TraceStorage for ArrowTraceStorage` (rule R1: contracts)
    open spec fn init_pre(&self, chain_id: u64) -> bool { ts_wf(*self) }
    open spec fn init_post(&self, chain_id: u64, r: Result<ArrowChainStorage>) -> bool { init_post_of(*self, r) }
    open spec fn finalize_post(&self, traces: Seq<Result<ArrowTrace>>, r: Result<(Option<anyhow::Error>, Vec<ArrowTrace>)>) -> bool {
        chains_post(traces, r)
    }
    open spec fn inspect_post(&self, traces: Seq<Result<Option<ArrowTrace>>>, r: Result<(Option<anyhow::Error>, Vec<ArrowTrace>)>) -> bool {
        chains_post_opt(traces, r)
    }
