// =====================================================================================
// Specification vocabulary of C14 for the Arrow backend, written from the property statement:
// "finalising or inspecting a trace succeeds and yields, for every chain and every statistic and draw variable,
//  exactly the recorded values in recording order with the declared type and shape, warmup before sampling
//  draws; event statistics contain exactly the events that occurred [Arrow: nulls for absent events].
//  store_warmup=false omits exactly the warmup draws".
// =====================================================================================

// ---- one column -----------------------------------------------------------------------

/// declared element type -> element kind of the column (DateTime64 / TimeDelta64: not supported by this backend)
pub open spec fn it_kind(t: ItemType) -> BKind {
    match t {
        ItemType::U64 => BKind::U64,
        ItemType::I64 => BKind::I64,
        ItemType::F64 => BKind::F64,
        ItemType::F32 => BKind::F32,
        ItemType::Bool => BKind::Bool,
        ItemType::String => BKind::Str,
        ItemType::DateTime64(_) => BKind::I64,
        ItemType::TimeDelta64(_) => BKind::I64,
    }
}
/// A-arrow-values: the two `panic!("... not supported in arrow storage")` families
pub open spec fn it_supported(t: ItemType) -> bool { !(t is DateTime64) && !(t is TimeDelta64) }
pub open spec fn value_supported(v: Value) -> bool { !(v is DateTime64) && !(v is TimeDelta64) }

/// abstract content of one builder of the backend: element type, tensor (LargeList) or scalar column, and ONE
/// ENTRY PER RECORDED ROW (None = null)
pub struct ColView { pub kind: BKind, pub tensor: bool, pub rows: Seq<Row> }

pub open spec fn ab_view(b: ArrowBuilder) -> ColView {
    match b {
        ArrowBuilder::Scalar(d) => ColView { kind: d.kind(), tensor: false, rows: prim_rows(d.cells()) },
        ArrowBuilder::Tensor(l) => ColView { kind: l.kind(), tensor: true, rows: l.rows() },
    }
}
/// between two calls a tensor builder has no half-written row
pub open spec fn ab_wf(b: ArrowBuilder) -> bool {
    match b {
        ArrowBuilder::Scalar(_) => true,
        ArrowBuilder::Tensor(l) => l.pending().len() == 0,
    }
}

/// the element type of a recorded value
pub open spec fn value_kind(v: Value) -> BKind {
    match v {
        Value::U64(_) | Value::ScalarU64(_) => BKind::U64,
        Value::I64(_) | Value::ScalarI64(_) => BKind::I64,
        Value::F64(_) | Value::ScalarF64(_) => BKind::F64,
        Value::F32(_) | Value::ScalarF32(_) => BKind::F32,
        Value::Bool(_) | Value::ScalarBool(_) => BKind::Bool,
        Value::ScalarString(_) | Value::Strings(_) => BKind::Str,
        Value::DateTime64(_, _) | Value::TimeDelta64(_, _) => BKind::I64,
    }
}
/// the elements of a recorded value, in order (a scalar is a one-element row)
pub open spec fn value_slots(v: Value) -> Seq<Option<Elem>> {
    match v {
        Value::U64(x) => some_u64(x@),
        Value::I64(x) => some_i64(x@),
        Value::F64(x) => some_f64(x@),
        Value::F32(x) => some_f32(x@),
        Value::Bool(x) => some_bool(x@),
        Value::Strings(x) => some_str(x@),
        Value::ScalarString(x) => seq![Some(Elem::Str(x@))],
        Value::ScalarU64(x) => seq![Some(Elem::U64(x))],
        Value::ScalarI64(x) => seq![Some(Elem::I64(x))],
        Value::ScalarF64(x) => seq![Some(Elem::F64(x))],
        Value::ScalarF32(x) => seq![Some(Elem::F32(x))],
        Value::ScalarBool(x) => seq![Some(Elem::Bool(x))],
        Value::DateTime64(_, x) => some_i64(x@),
        Value::TimeDelta64(_, x) => some_i64(x@),
    }
}
/// shape side of "declared type and shape" for a SCALAR column: the value has exactly one element.
/// Code: `assert!(items.len() == 1)` in the five numeric / bool vector arms of `append_value` (arrow.rs:84-104);
/// the `Value::Strings` arm (arrow.rs:105) has no such assert and would append `items.len()` rows - the same
/// condition is required here from the declaration (observation O-A1 in the report).
pub open spec fn scalar_shape_ok(b: ArrowBuilder, v: Value) -> bool {
    b is Scalar ==> value_slots(v).len() == 1
}
/// the row a recorded entry denotes: the value's elements, or null for an absent value (event did not happen)
pub open spec fn entry_row(o: Option<Value>) -> Row {
    match o { Some(v) => Some(value_slots(v)), None => None }
}
pub open spec fn push_row(c: ColView, r: Row) -> ColView { ColView { kind: c.kind, tensor: c.tensor, rows: c.rows.push(r) } }

// [C14.a1]
pub proof fn lemma_prim_rows_push(cells: Seq<Option<Elem>>, e: Option<Elem>)
    ensures prim_rows(cells.push(e)) == prim_rows(cells).push(match e { Some(x) => Some(seq![Some(x)]), None => None })
{
    assert(prim_rows(cells.push(e)) =~= prim_rows(cells).push(match e { Some(x) => Some(seq![Some(x)]), None => None }));
}
// [C14.a1]
pub proof fn lemma_prim_rows_append1(cells: Seq<Option<Elem>>, s: Seq<Option<Elem>>)
    requires s.len() == 1, s[0] is Some
    ensures prim_rows(cells + s) == prim_rows(cells).push(Some(s))
{
    assert(s =~= seq![Some(s[0]->Some_0)]);
    assert(prim_rows(cells + s) =~= prim_rows(cells).push(Some(s)));
}

// ---- one chain ------------------------------------------------------------------------

pub type Entry<'a> = (&'a str, Option<Value>);
pub type Named = (String, ArrowBuilder);

/// declaration of builder j: name, declared element type, declared dimension names
pub open spec fn decl_ok(b: Named, ty: (String, ItemType), dims: (String, Vec<String>)) -> bool {
    &&& b.0@ == ty.0@
    &&& dims.0@ == ty.0@
    &&& it_supported(ty.1)
    &&& ab_view(b.1).kind == it_kind(ty.1)                  // declared type
    &&& ab_view(b.1).tensor == (dims.1@.len() != 0)         // tensor column iff the variable has dimensions
}
/// the builders are exactly the declared variables, in declaration order, every column has `k` rows
pub open spec fn builders_ok(bs: Seq<Named>, tys: Seq<(String, ItemType)>, dims: Seq<(String, Vec<String>)>, k: int) -> bool {
    &&& bs.len() == tys.len()
    &&& dims.len() == tys.len()
    &&& forall|j: int| 0 <= j < bs.len() ==> decl_ok(#[trigger] bs[j], tys[j], dims[j])
    &&& forall|j: int| 0 <= j < bs.len() ==> ab_wf((#[trigger] bs[j]).1)
    &&& forall|j: int| 0 <= j < bs.len() ==> ab_view((#[trigger] bs[j]).1).rows.len() == k
}
/// every dimension name used by a declared variable has a size (`.expect("Dimension size not found")` in
/// create_field_with_shape; established by ArrowChainStorage::new, which fails with Err otherwise)
pub open spec fn dims_known(dims: Seq<(String, Vec<String>)>, sizes: Map<Seq<char>, u64>) -> bool {
    forall|j: int, d: int| 0 <= j < dims.len() && 0 <= d < dims[j].1@.len() ==> sizes.contains_key(#[trigger] dims[j].1@[d]@)
}
/// invariant of a chain storage between two calls: `draw_count` rows in every column of both tables
pub open spec fn cs_inv(s: ArrowChainStorage) -> bool {
    &&& builders_ok(s.draw_builders@, s.draw_types@, s.draw_dims@, s.draw_count as int)
    &&& builders_ok(s.stats_builders@, s.stat_types@, s.stats_dims@, s.draw_count as int)
    &&& s.stat_event_dims@.len() == s.stat_types@.len()
    &&& dims_known(s.draw_dims@, s.draw_dim_sizes@)
    &&& dims_known(s.stats_dims@, s.stat_dim_sizes@)
}

// ---- how an incoming (name, Option<Value>) list is laid onto the builders -------------------------------
// The builders are created in schema order (`Settings::stat_names` = `Storable::names`), the incoming list is
// `Storable::get_all`.  What nuts-derive guarantees is that get_all is an ORDER-PRESERVING SUB-LIST of names
// (a `#[storable(flatten)] Option<T>` group that is None leaves its entries out; everything else contributes
// exactly its names in order).  The reference semantics used here: the LEFTMOST order-preserving matching.

pub open spec fn bnames(bs: Seq<Named>) -> Seq<Seq<char>> { Seq::new(bs.len(), |j: int| bs[j].0@) }

/// number of incoming entries consumed before column j
pub open spec fn consumed(es: Seq<Entry>, bn: Seq<Seq<char>>, j: int) -> int
    decreases j
{
    if j <= 0 { 0 } else {
        let i = consumed(es, bn, j - 1);
        if 0 <= i < es.len() && es[i].0@ == bn[j - 1] { i + 1 } else { i }
    }
}
/// column j receives the next unconsumed entry iff that entry carries the column's name
pub open spec fn matched(es: Seq<Entry>, bn: Seq<Seq<char>>, j: int) -> bool {
    let i = consumed(es, bn, j);
    0 <= i < es.len() && es[i].0@ == bn[j]
}
/// the value column j receives: the value recorded under ITS name, absent if the matched entry has no value or no
/// entry carries its name
pub open spec fn mvalue(es: Seq<Entry>, bn: Seq<Seq<char>>, j: int) -> Option<Value> {
    if matched(es, bn, j) { es[consumed(es, bn, j)].1 } else { None }
}
/// no incoming entry is left over (a left-over entry = a value that would be dropped)
pub open spec fn all_consumed(es: Seq<Entry>, bs: Seq<Named>) -> bool {
    consumed(es, bnames(bs), bs.len() as int) == es.len()
}
/// `es[i..]` is an order-preserving sub-list of the names `bn[j..]`
pub open spec fn embeds(es: Seq<Entry>, i: int, bn: Seq<Seq<char>>, j: int) -> bool
    decreases bn.len() - j
{
    if i >= es.len() { true } else if j >= bn.len() { false } else {
        (i >= 0 && es[i].0@ == bn[j] && embeds(es, i + 1, bn, j + 1)) || embeds(es, i, bn, j + 1)
    }
}
/// A-storable-order, strong form: the incoming list enumerates exactly the builders' names, in the builders' order
pub open spec fn names_match(es: Seq<Entry>, bs: Seq<Named>) -> bool {
    &&& es.len() == bs.len()
    &&& forall|j: int| 0 <= j < es.len() ==> (#[trigger] es[j]).0@ == bs[j].0@
}
/// A-storable-order, weak form (what nuts-derive guarantees): an order-preserving sub-list
pub open spec fn names_embed(es: Seq<Entry>, bs: Seq<Named>) -> bool { embeds(es, 0, bnames(bs), 0) }

/// A-arrow-values + declared shape, per matched value (preconditions of append_value)
pub open spec fn values_ok(es: Seq<Entry>, bs: Seq<Named>) -> bool {
    forall|j: int| 0 <= j < bs.len() && (#[trigger] mvalue(es, bnames(bs), j)) is Some ==>
        value_supported(mvalue(es, bnames(bs), j)->Some_0) && scalar_shape_ok(bs[j].1, mvalue(es, bnames(bs), j)->Some_0)
}
/// every present value has the declared type of the column it lands in
pub open spec fn types_ok(es: Seq<Entry>, bs: Seq<Named>) -> bool {
    forall|j: int| 0 <= j < bs.len() && (#[trigger] mvalue(es, bnames(bs), j)) is Some ==>
        value_kind(mvalue(es, bnames(bs), j)->Some_0) == ab_view(bs[j].1).kind
}
/// [C14.a4] every column got exactly ONE new row: the value recorded under its name, null iff that value is absent
pub open spec fn recorded(b0: Seq<Named>, b1: Seq<Named>, es: Seq<Entry>) -> bool {
    &&& b1.len() == b0.len()
    &&& forall|j: int| 0 <= j < b0.len() ==> (#[trigger] b1[j]).0 == b0[j].0
    &&& forall|j: int| 0 <= j < b0.len() ==> ab_wf((#[trigger] b1[j]).1)
    &&& forall|j: int| 0 <= j < b0.len() ==> ab_view((#[trigger] b1[j]).1) == push_row(ab_view(b0[j].1), entry_row(mvalue(es, bnames(b0), j)))
}
/// what one step does to one (name, builder) pair
pub open spec fn entry_recorded(b0: Named, b1: Named, o: Option<Value>, q: Result<()>) -> bool {
    &&& b1.0 == b0.0
    &&& ab_wf(b1.1)
    &&& (q is Ok) == (o is Some ==> value_kind(o->Some_0) == ab_view(b0.1).kind)
    &&& q is Ok ==> ab_view(b1.1) == push_row(ab_view(b0.1), entry_row(o))
    &&& q is Err ==> ab_view(b1.1) == ab_view(b0.1)
}
/// (positional zip of the unpatched text) every present value has the type of the column AT ITS POSITION
pub open spec fn types_pos(es: Seq<Entry>, bs: Seq<Named>) -> bool {
    forall|j: int| 0 <= j < es.len() && j < bs.len() && (#[trigger] es[j]).1 is Some ==> value_kind(es[j].1->Some_0) == ab_view(bs[j].1).kind
}
/// (positional zip of the unpatched text) precondition of one step
pub open spec fn entry_pre(e: Entry, b: Named) -> bool {
    &&& e.0@ == b.0@                      // panic!("Draw name mismatch ...")
    &&& ab_wf(b.1)
    &&& e.1 is Some ==> value_supported(e.1->Some_0) && scalar_shape_ok(b.1, e.1->Some_0)
}

pub open spec fn rs_pre(s: ArrowChainStorage, stats: Seq<Entry>, draws: Seq<Entry>, info: Progress) -> bool {
    &&& cs_inv(s)
    &&& names_ok(stats, s.stats_builders@)      // A-storable-order (strong / weak form: order_strong.rs / order_weak.rs)
    &&& names_ok(draws, s.draw_builders@)
    &&& values_ok(stats, s.stats_builders@)
    &&& values_ok(draws, s.draw_builders@)
    &&& s.draw_count < usize::MAX                  // A-nooverflow
}
pub open spec fn frame_ok(s0: ArrowChainStorage, s1: ArrowChainStorage) -> bool {
    &&& s1.stat_types == s0.stat_types && s1.draw_types == s0.draw_types
    &&& s1.stats_dims == s0.stats_dims && s1.draw_dims == s0.draw_dims
    &&& s1.stat_dim_sizes == s0.stat_dim_sizes && s1.draw_dim_sizes == s0.draw_dim_sizes
    &&& s1.stat_event_dims == s0.stat_event_dims
    &&& s1.store_warmup == s0.store_warmup
}
pub open spec fn rs_post(s0: ArrowChainStorage, s1: ArrowChainStorage, stats: Seq<Entry>, draws: Seq<Entry>, info: Progress, r: Result<()>) -> bool {
    if !s0.store_warmup && info.tuning {
        // [C14.a5] store_warmup = false omits exactly the warmup draws: nothing is written
        r is Ok && s1 == s0
    } else {
        // [C14.a4] Err <==> a value of another type than its column, or a left-over entry (never a panic, never a
        // dropped or re-typed value)
        &&& (r is Ok) == (all_consumed(stats, s0.stats_builders@) && types_ok(stats, s0.stats_builders@)
                          && all_consumed(draws, s0.draw_builders@) && types_ok(draws, s0.draw_builders@))
        &&& r is Ok ==> {
            &&& recorded(s0.stats_builders@, s1.stats_builders@, stats)
            &&& recorded(s0.draw_builders@, s1.draw_builders@, draws)
            &&& s1.draw_count == s0.draw_count + 1
            &&& frame_ok(s0, s1)
            &&& cs_inv(s1)
        }
    }
}

// [C14.a4]
pub proof fn lemma_consumed_bounds(es: Seq<Entry>, bn: Seq<Seq<char>>, j: int)
    ensures 0 <= consumed(es, bn, j) <= es.len(), j >= 0 ==> consumed(es, bn, j) <= j
    decreases j
{
    if j > 0 { lemma_consumed_bounds(es, bn, j - 1); }
}
/// dropping the first entry keeps an embedding
// [C14.a4]
pub proof fn lemma_embeds_tail(es: Seq<Entry>, i: int, bn: Seq<Seq<char>>, j: int)
    requires embeds(es, i, bn, j), 0 <= i
    ensures embeds(es, i + 1, bn, j)
    decreases bn.len() - j
{
    if i + 1 >= es.len() {
    } else if j >= bn.len() {
    } else {
        if es[i].0@ == bn[j] && embeds(es, i + 1, bn, j + 1) {
            lemma_embeds_tail(es, i + 1, bn, j + 1);
        } else {
            lemma_embeds_tail(es, i, bn, j + 1);
        }
    }
}
/// the leftmost matching never gets stuck: what is left of the list still embeds into the remaining columns
// [C14.a4]
pub proof fn lemma_greedy_embeds(es: Seq<Entry>, bn: Seq<Seq<char>>, j: int)
    requires embeds(es, 0, bn, 0), 0 <= j <= bn.len()
    ensures embeds(es, consumed(es, bn, j), bn, j)
    decreases j
{
    if j > 0 {
        lemma_greedy_embeds(es, bn, j - 1);
        lemma_consumed_bounds(es, bn, j - 1);
        let i = consumed(es, bn, j - 1);
        if i < es.len() && es[i].0@ == bn[j - 1] {
            if !embeds(es, i + 1, bn, j) {
                // then the embedding of es[i..] into bn[j-1..] skips column j-1
                assert(embeds(es, i, bn, j));
                lemma_embeds_tail(es, i, bn, j);
            }
        }
    }
}
/// [C14.a4] under A-storable-order (weak form) no entry is left over
// [C14.a4]
pub proof fn lemma_embed_all_consumed(es: Seq<Entry>, bs: Seq<Named>)
    requires names_embed(es, bs)
    ensures all_consumed(es, bs)
{
    let bn = bnames(bs);
    lemma_greedy_embeds(es, bn, bn.len() as int);
    lemma_consumed_bounds(es, bn, bn.len() as int);
}
/// [C14.a4] the strong form is the positional case: column j receives entry j
// [C14.a4]
pub proof fn lemma_positional(es: Seq<Entry>, bs: Seq<Named>, j: int)
    requires names_match(es, bs), 0 <= j <= bs.len()
    ensures
        consumed(es, bnames(bs), j) == j,
        j < bs.len() ==> matched(es, bnames(bs), j) && mvalue(es, bnames(bs), j) == es[j].1,
    decreases j
{
    if j > 0 { lemma_positional(es, bs, j - 1); }
}
/// under the strong form the positional reading and the matching reading of "types fit" coincide
// [C14.a4]
pub proof fn lemma_types_pos(es: Seq<Entry>, bs: Seq<Named>)
    requires names_match(es, bs)
    ensures types_ok(es, bs) == types_pos(es, bs)
{
    assert forall|j: int| 0 <= j < bs.len() implies mvalue(es, bnames(bs), j) == es[j].1 by { lemma_positional(es, bs, j); }
    if types_ok(es, bs) {
        assert forall|j: int| 0 <= j < es.len() && j < bs.len() && (#[trigger] es[j]).1 is Some implies value_kind(es[j].1->Some_0) == ab_view(bs[j].1).kind by {
            assert(mvalue(es, bnames(bs), j) is Some);
        }
    }
    if types_pos(es, bs) {
        assert forall|j: int| 0 <= j < bs.len() && (#[trigger] mvalue(es, bnames(bs), j)) is Some implies
            value_kind(mvalue(es, bnames(bs), j)->Some_0) == ab_view(bs[j].1).kind by {
            assert(es[j].1 is Some);
        }
    }
}
// [C14.a4]
pub proof fn lemma_match_is_embed(es: Seq<Entry>, bs: Seq<Named>)
    requires names_match(es, bs)
    ensures names_embed(es, bs), all_consumed(es, bs)
{
    lemma_match_embeds_from(es, bs, 0);
    lemma_positional(es, bs, bs.len() as int);
}
// [C14.a4]
pub proof fn lemma_match_embeds_from(es: Seq<Entry>, bs: Seq<Named>, k: int)
    requires names_match(es, bs), 0 <= k <= bs.len()
    ensures embeds(es, k, bnames(bs), k)
    decreases bs.len() - k
{
    if k < bs.len() { lemma_match_embeds_from(es, bs, k + 1); }
}
/// [C14.a4] "each value lands in the column of ITS name": every consumed entry i sits in a column that carries its
/// name (if the builder names are pairwise distinct that column is THE column of its name)
// [C14.a4]
pub proof fn lemma_landed(es: Seq<Entry>, bn: Seq<Seq<char>>, k: int, i: int)
    requires 0 <= k <= bn.len(), 0 <= i < consumed(es, bn, k)
    ensures exists|j: int| 0 <= j < k && consumed(es, bn, j) == i && #[trigger] matched(es, bn, j) && bn[j] == es[i].0@ && mvalue(es, bn, j) == es[i].1
    decreases k
{
    lemma_consumed_bounds(es, bn, k - 1);
    if consumed(es, bn, k - 1) > i {
        lemma_landed(es, bn, k - 1, i);
    } else {
        assert(consumed(es, bn, k - 1) == i);
        assert(matched(es, bn, k - 1));
    }
}

// ---- finalize / inspect ------------------------------------------------------------------

/// preconditions of create_field_with_shape: supported type (panic! arms), every dimension has a size (`.expect`)
pub open spec fn cf_pre(ty: ItemType, dims: Seq<String>, sizes: Map<Seq<char>, u64>) -> bool {
    &&& it_supported(ty)
    &&& forall|d: int| 0 <= d < dims.len() ==> sizes.contains_key(#[trigger] dims[d]@)
}
/// the schema field of a declared variable: its name, its declared element type, LargeList iff it has dimensions,
/// nullable (absent events are nulls)
pub open spec fn field_decl(f: Field, name: Seq<char>, ty: ItemType, dims: Seq<String>) -> bool {
    &&& f.name@ == name
    &&& dt_kind(f.data_type) == it_kind(ty)
    &&& f.list == (dims.len() != 0)
    &&& f.nullable
}
pub open spec fn cf_post(name: Seq<char>, ty: ItemType, dims: Seq<String>, r: Result<Field>) -> bool {
    r is Ok && field_decl(r->Ok_0, name, ty, dims)
}
pub open spec fn arr_of(c: ColView) -> ArrView { ArrView { kind: c.kind, list: c.tensor, rows: c.rows } }

/// [C14.a6] a finalised table: one column per builder, in builder order, holding EXACTLY the builder's rows
/// (recording order), under a field with the variable's name / declared type / list-ness; `k` rows
pub open spec fn batch_is(b: RecordBatch, bs: Seq<Named>, tys: Seq<(String, ItemType)>, dims: Seq<(String, Vec<String>)>, k: int) -> bool {
    &&& b.row_count as int == k
    &&& b.columns@.len() == bs.len()
    &&& b.schema.fields@.len() == bs.len()
    &&& forall|j: int| 0 <= j < bs.len() ==> (#[trigger] b.columns@[j]).view() == arr_of(ab_view(bs[j].1))
    &&& forall|j: int| 0 <= j < bs.len() ==> field_decl(#[trigger] b.schema.fields@[j], tys[j].0@, tys[j].1, dims[j].1@)
}
/// [C14.a6] finalising succeeds and yields both tables
pub open spec fn fin_post(s: ArrowChainStorage, r: Result<ArrowTrace>) -> bool {
    &&& r is Ok
    &&& batch_is(r->Ok_0.posterior, s.draw_builders@, s.draw_types@, s.draw_dims@, s.draw_count as int)
    &&& batch_is(r->Ok_0.sample_stats, s.stats_builders@, s.stat_types@, s.stats_dims@, s.draw_count as int)
}

// ---- which builders exist, in which order (ArrowChainStorage::new / initialize_trace_for_chain / new_trace) ----

/// the list shape handed to ArrowBuilder::new for a variable: the sizes of its dimensions, in order
pub open spec fn shape_of(dims: Seq<String>, sizes: Map<Seq<char>, u64>) -> Seq<usize> {
    Seq::new(dims.len(), |d: int| sizes[dims[d]@] as usize)
}
/// per declared variable, what `ArrowChainStorage::new` needs in order not to panic
pub open spec fn build_pre(ty: (String, ItemType), dims: (String, Vec<String>), sizes: Map<Seq<char>, u64>) -> bool {
    &&& ty.0@ == dims.0@                                            // assert_eq!(name, name2, ..)
    &&& it_supported(ty.1)                                          // A-arrow-values (panic! in ArrowBuilder::new)
    &&& usize_product(shape_of(dims.1@, sizes)) <= usize::MAX       // A-nooverflow (Iterator::product)
}
/// per declared variable, what it builds: an EMPTY builder of the declared type / list-ness under the variable's name;
/// success implies that every dimension has a size
pub open spec fn built_ok(b: Named, ty: (String, ItemType), dims: (String, Vec<String>), sizes: Map<Seq<char>, u64>) -> bool {
    &&& decl_ok(b, ty, dims)
    &&& ab_wf(b.1)
    &&& ab_view(b.1).rows.len() == 0
    &&& forall|d: int| 0 <= d < dims.1@.len() ==> sizes.contains_key(#[trigger] dims.1@[d]@)
}
pub open spec fn decls_pre(tys: Seq<(String, ItemType)>, dims: Seq<(String, Vec<String>)>, sizes: Map<Seq<char>, u64>) -> bool {
    &&& tys.len() == dims.len()          // `zip` would silently truncate: fewer builders than declared variables
    &&& forall|j: int| 0 <= j < tys.len() ==> build_pre(#[trigger] tys[j], dims[j], sizes)
}
pub open spec fn new_pre(stat_types: Seq<(String, ItemType)>, draw_types: Seq<(String, ItemType)>, stat_dims: Seq<(String, Vec<String>)>,
        draw_dims: Seq<(String, Vec<String>)>, stat_sizes: Map<Seq<char>, u64>, draw_sizes: Map<Seq<char>, u64>, stat_event_dims: Seq<Option<String>>) -> bool {
    &&& decls_pre(draw_types, draw_dims, draw_sizes)
    &&& decls_pre(stat_types, stat_dims, stat_sizes)
    &&& stat_event_dims.len() == stat_types.len()
}
/// [C14.a8] a fresh chain storage: one empty builder per declared variable, in declaration order, with the declared
/// type and list-ness (cs_inv with draw_count = 0); the declarations are copied unchanged
pub open spec fn new_post(s: ArrowChainStorage, stat_types: Seq<(String, ItemType)>, draw_types: Seq<(String, ItemType)>, stat_dims: Seq<(String, Vec<String>)>,
        draw_dims: Seq<(String, Vec<String>)>, stat_sizes: Map<Seq<char>, u64>, draw_sizes: Map<Seq<char>, u64>, stat_event_dims: Seq<Option<String>>, store_warmup: bool) -> bool {
    &&& cs_inv(s)
    &&& s.draw_count == 0
    &&& s.store_warmup == store_warmup
    &&& s.stat_types@ == stat_types && s.draw_types@ == draw_types
    &&& s.stats_dims@ == stat_dims && s.draw_dims@ == draw_dims
    &&& s.stat_dim_sizes@ == stat_sizes && s.draw_dim_sizes@ == draw_sizes
    &&& s.stat_event_dims@ == stat_event_dims
}
/// precondition of initialize_trace_for_chain = new_pre on the stored declarations
pub open spec fn ts_wf(t: ArrowTraceStorage) -> bool {
    new_pre(t.stat_types@, t.draw_types@, t.stat_dims@, t.draw_dims@, t.stat_dim_sizes@, t.draw_dim_sizes@, t.stat_event_dims@)
}
pub open spec fn init_post_of(t: ArrowTraceStorage, r: Result<ArrowChainStorage>) -> bool {
    r is Ok ==> new_post(r->Ok_0, t.stat_types@, t.draw_types@, t.stat_dims@, t.draw_dims@, t.stat_dim_sizes@, t.draw_dim_sizes@, t.stat_event_dims@, t.store_warmup)
}
/// A-nooverflow: `hint_num_tune() + hint_num_draws()`
pub open spec fn nt_pre<M: Math, S: Settings>(settings: &S, math: &M) -> bool {
    settings.num_tune_spec() + settings.num_draws_spec() <= usize::MAX
}
/// [C14.a9] the trace-level storage holds the statistics schema and the draw schema, each in schema order, with
/// one event-dimension entry per statistic; the capacity hint counts the warmup draws iff they are stored
pub open spec fn nt_post<M: Math, S: Settings>(c: ArrowConfig, settings: &S, math: &M, r: Result<ArrowTraceStorage>) -> bool {
    &&& r is Ok
    &&& types_are(r->Ok_0.stat_types@, settings.stat_schema(math))
    &&& dims_are(r->Ok_0.stat_dims@, settings.stat_schema(math))
    &&& types_are(r->Ok_0.draw_types@, settings.data_schema(math))
    &&& dims_are(r->Ok_0.draw_dims@, settings.data_schema(math))
    &&& r->Ok_0.stat_event_dims@.len() == settings.stat_schema(math).len()
    &&& r->Ok_0.stat_dim_sizes@ == settings.stat_sizes_spec(math)
    &&& r->Ok_0.draw_dim_sizes@ == math.dim_sizes_spec()
    &&& r->Ok_0.store_warmup == c.store_warmup
    &&& r->Ok_0.expected_draws as int == (if c.store_warmup { settings.num_tune_spec() + settings.num_draws_spec() } else { settings.num_draws_spec() as int })
}
/// glue new_trace -> initialize_trace_for_chain: the structural part of ts_wf follows from nt_post; what remains are
/// the call-site assumptions A-arrow-values and A-nooverflow on the schema
// [C14.a9]
pub proof fn lemma_nt_gives_wf(t: ArrowTraceStorage, stat_schema: Seq<VarDecl>, data_schema: Seq<VarDecl>)
    requires
        types_are(t.stat_types@, stat_schema), dims_are(t.stat_dims@, stat_schema),
        types_are(t.draw_types@, data_schema), dims_are(t.draw_dims@, data_schema),
        t.stat_event_dims@.len() == stat_schema.len(),
        forall|j: int| 0 <= j < t.stat_types@.len() ==> it_supported((#[trigger] t.stat_types@[j]).1) && usize_product(shape_of(t.stat_dims@[j].1@, t.stat_dim_sizes@)) <= usize::MAX,
        forall|j: int| 0 <= j < t.draw_types@.len() ==> it_supported((#[trigger] t.draw_types@[j]).1) && usize_product(shape_of(t.draw_dims@[j].1@, t.draw_dim_sizes@)) <= usize::MAX,
    ensures ts_wf(t)
{
}

// ---- all chains (TraceStorage::finalize / inspect) -----------------------------------------

/// the finalised chains, in chain order
pub open spec fn oks<T>(ts: Seq<Result<T>>) -> Seq<T>
    decreases ts.len()
{
    if ts.len() == 0 { Seq::empty() } else {
        match ts.last() { Ok(v) => oks(ts.drop_last()).push(v), Err(_) => oks(ts.drop_last()) }
    }
}
pub open spec fn oks_opt<T>(ts: Seq<Result<Option<T>>>) -> Seq<T>
    decreases ts.len()
{
    if ts.len() == 0 { Seq::empty() } else {
        match ts.last() { Ok(Some(v)) => oks_opt(ts.drop_last()).push(v), _ => oks_opt(ts.drop_last()) }
    }
}
pub open spec fn first_err<T>(ts: Seq<Result<T>>) -> Option<anyhow::Error>
    decreases ts.len()
{
    if ts.len() == 0 { None } else {
        match first_err(ts.drop_last()) { Some(e) => Some(e), None => match ts.last() { Err(e) => Some(e), Ok(_) => None } }
    }
}
/// [C14.a10] "for every chain": the result holds the trace of every chain that finalised, in chain order, untouched;
/// the reported error is the first chain error, if any
pub open spec fn chains_post(traces: Seq<Result<ArrowTrace>>, r: Result<(Option<anyhow::Error>, Vec<ArrowTrace>)>) -> bool {
    r is Ok && r->Ok_0.1@ == oks(traces) && r->Ok_0.0 == first_err(traces)
}
pub open spec fn chains_post_opt(traces: Seq<Result<Option<ArrowTrace>>>, r: Result<(Option<anyhow::Error>, Vec<ArrowTrace>)>) -> bool {
    r is Ok && r->Ok_0.1@ == oks_opt(traces) && r->Ok_0.0 == first_err(traces)
}

// ---- the property over a whole run of one chain (induction over the calls of record_sample) ----

/// rows of column j after the kept samples `h` (h[i] = the entry list of the i-th KEPT call), in recording order:
/// row i is the value recorded at call i, null exactly when that value was absent
pub open spec fn hist_rows(h: Seq<Seq<Entry>>, bn: Seq<Seq<char>>, j: int) -> Seq<Row> {
    Seq::new(h.len(), |i: int| entry_row(mvalue(h[i], bn, j)))
}
pub open spec fn holds(bs: Seq<Named>, h: Seq<Seq<Entry>>) -> bool {
    forall|j: int| 0 <= j < bs.len() ==> ab_view((#[trigger] bs[j]).1).rows == hist_rows(h, bnames(bs), j)
}
/// store_warmup = false omits exactly the warmup draws
pub open spec fn kept(store_warmup: bool, tuning: bool) -> bool { store_warmup || !tuning }

// [C14.a8]
pub proof fn lemma_history_init(bs: Seq<Named>)
    requires forall|j: int| 0 <= j < bs.len() ==> ab_view((#[trigger] bs[j]).1).rows.len() == 0
    ensures holds(bs, Seq::empty())
{
    assert forall|j: int| 0 <= j < bs.len() implies ab_view((#[trigger] bs[j]).1).rows == hist_rows(Seq::empty(), bnames(bs), j) by {
        assert(ab_view(bs[j].1).rows =~= hist_rows(Seq::empty(), bnames(bs), j));
    }
}
// [C14.a4]
pub proof fn lemma_history_step(b0: Seq<Named>, b1: Seq<Named>, h: Seq<Seq<Entry>>, es: Seq<Entry>)
    requires holds(b0, h), recorded(b0, b1, es)
    ensures holds(b1, h.push(es))
{
    assert(bnames(b1) =~= bnames(b0));
    assert forall|j: int| 0 <= j < b1.len() implies ab_view((#[trigger] b1[j]).1).rows == hist_rows(h.push(es), bnames(b1), j) by {
        assert(ab_view(b0[j].1).rows == hist_rows(h, bnames(b0), j));
        assert(ab_view(b1[j].1) == push_row(ab_view(b0[j].1), entry_row(mvalue(es, bnames(b0), j))));
        assert(hist_rows(h.push(es), bnames(b0), j) =~= hist_rows(h, bnames(b0), j).push(entry_row(mvalue(es, bnames(b0), j))));
    }
}
/// [C14.a4 C14.a5] one call of record_sample that returned Ok extends the history by this call iff it is kept
// [C14.a4 C14.a5]
pub proof fn lemma_rs_history(s0: ArrowChainStorage, s1: ArrowChainStorage, stats: Seq<Entry>, draws: Seq<Entry>, info: Progress,
        hs: Seq<Seq<Entry>>, hd: Seq<Seq<Entry>>)
    requires
        rs_post(s0, s1, stats, draws, info, Ok(())),
        holds(s0.stats_builders@, hs), holds(s0.draw_builders@, hd),
    ensures
        kept(s0.store_warmup, info.tuning) ==> holds(s1.stats_builders@, hs.push(stats)) && holds(s1.draw_builders@, hd.push(draws)),
        !kept(s0.store_warmup, info.tuning) ==> holds(s1.stats_builders@, hs) && holds(s1.draw_builders@, hd),
{
    if kept(s0.store_warmup, info.tuning) {
        lemma_history_step(s0.stats_builders@, s1.stats_builders@, hs, stats);
        lemma_history_step(s0.draw_builders@, s1.draw_builders@, hd, draws);
    }
}
/// [C14.a6] finalising (or inspecting) a storage whose builders hold the history yields tables whose column j is
/// exactly that history, one row per kept call, in recording order
// [C14.a6]
pub proof fn lemma_trace_is_history(s: ArrowChainStorage, t: ArrowTrace, hs: Seq<Seq<Entry>>, hd: Seq<Seq<Entry>>)
    requires
        cs_inv(s), fin_post(s, Ok(t)),
        holds(s.stats_builders@, hs), holds(s.draw_builders@, hd),
    ensures
        forall|j: int| 0 <= j < s.draw_builders@.len() ==> (#[trigger] t.posterior.columns@[j]).view().rows == hist_rows(hd, bnames(s.draw_builders@), j),
        forall|j: int| 0 <= j < s.stats_builders@.len() ==> (#[trigger] t.sample_stats.columns@[j]).view().rows == hist_rows(hs, bnames(s.stats_builders@), j),
        s.draw_builders@.len() > 0 ==> hd.len() == s.draw_count,
        s.stats_builders@.len() > 0 ==> hs.len() == s.draw_count,
{
    assert forall|j: int| 0 <= j < s.draw_builders@.len() implies (#[trigger] t.posterior.columns@[j]).view().rows == hist_rows(hd, bnames(s.draw_builders@), j) by {
        assert(ab_view(s.draw_builders@[j].1).rows == hist_rows(hd, bnames(s.draw_builders@), j));
    }
    assert forall|j: int| 0 <= j < s.stats_builders@.len() implies (#[trigger] t.sample_stats.columns@[j]).view().rows == hist_rows(hs, bnames(s.stats_builders@), j) by {
        assert(ab_view(s.stats_builders@[j].1).rows == hist_rows(hs, bnames(s.stats_builders@), j));
    }
    if s.draw_builders@.len() > 0 {
        assert(ab_view(s.draw_builders@[0].1).rows == hist_rows(hd, bnames(s.draw_builders@), 0));
    }
    if s.stats_builders@.len() > 0 {
        assert(ab_view(s.stats_builders@[0].1).rows == hist_rows(hs, bnames(s.stats_builders@), 0));
    }
}

// ---- (patched record_sample) one step of the ordered merge ----
/// column k is done: same name, well-formed, exactly one new row = the matched value (null if none), of the column's type
pub open spec fn step_done(b0: Named, b1: Named, o: Option<Value>) -> bool {
    &&& b1.0 == b0.0
    &&& ab_wf(b1.1)
    &&& ab_view(b1.1) == push_row(ab_view(b0.1), entry_row(o))
    &&& o is Some ==> value_kind(o->Some_0) == ab_view(b0.1).kind
}
