#!/usr/bin/env python3
"""mkunit.py   writes unit.json of unit arrowstore (the three models share the sources and differ only in the
contract of record_sample; `rules` of a model replaces whole keys of the unit-level rules, so the closure contracts are
generated here instead of being copied by hand).

  model I      PATCHED text of record_sample (finding_positional_zip.patch: ordered merge, two `for` loops, R10.foriter
               + rules.foriter_snapshot of extractor_foriter_snapshot.patch), A-storable-order in its WEAK form
  model Ipos   PINNED text (positional zip, two try_for_each closures), A-storable-order in its STRONG form: green on /repo
  model Iposw  PINNED text, WEAK form: record_sample FAILS (the finding)
"""
import json, os
here = os.path.dirname(os.path.abspath(__file__))

def fld(idx, who, sizes, stats):
    if stats:
        ty = "((&(String, ItemType), &(String, Vec<String>)), &Option<String>)"
        a, b = "vx_cp0.0.0", "vx_cp0.0.1"
    else:
        ty = "(&(String, ItemType), &(String, Vec<String>))"
        a, b = "vx_cp0.0", "vx_cp0.1"
    return {"index": idx, "types": [ty], "ret": "(q: Result<Field>)",
            "spec": "                requires cf_pre((*%s).1, (*%s).1@, %s.%s@)\n                ensures cf_post((*%s).0@, (*%s).1, (*%s).1@, q)" % (a, b, who, sizes, a, a, b)}
fin_mut = {"types": ["&mut (String, ArrowBuilder)"], "ret": "(q: ArrayRef)", "spec": "                ensures q.view() == arr_of(ab_view((*old(vx_cp0)).1))"}
fin_ref = {"types": ["&(String, ArrowBuilder)"], "ret": "(q: ArrayRef)", "spec": "                ensures q.view() == arr_of(ab_view((*vx_cp0).1))"}
def outer(idx, sizes):
    return {"index": idx, "types": ["(&(String, ItemType), &(String, Vec<String>))"], "ret": "(q: Result<(String, ArrowBuilder)>)",
            "spec": "                requires build_pre(*vx_cp0.0, *vx_cp0.1, %s@)\n                ensures q is Ok ==> built_ok(q->Ok_0, *vx_cp0.0, *vx_cp0.1, %s@)" % (sizes, sizes)}
def inner(idx, sizes):
    return {"index": idx, "types": ["&String"], "ret": "(q: Result<usize>)",
            "spec": "                        ensures q is Ok ==> %s@.contains_key(dim@) && q->Ok_0 == %s@[dim@] as usize" % (sizes, sizes)}
def cast(idx):
    return {"index": idx, "types": ["u64"], "ret": "(q: usize)", "spec": "                                ensures q == x as usize"}

common_closures = {
    "ArrowChainStorage::finalize_builders": [fld(0, "this", "draw_dim_sizes", False), dict(fin_mut, index=1), fld(2, "this", "stat_dim_sizes", True), dict(fin_mut, index=3)],
    "ArrowChainStorage::inspect": [fld(0, "self", "draw_dim_sizes", False), dict(fin_ref, index=1), fld(2, "self", "stat_dim_sizes", True), dict(fin_ref, index=3)],
    "create_field_with_shape": [
        {"index": 0, "types": ["&String"], "ret": "(q: String)", "spec": "                        requires dim_sizes@.contains_key(dim@)"},
        {"index": 1, "types": ["u64"], "ret": "(q: String)", "spec": ""},
    ],
    "ArrowChainStorage::new": [outer(0, "draw_dim_sizes"), inner(1, "draw_dim_sizes"), cast(2), outer(4, "stat_dim_sizes"), inner(5, "stat_dim_sizes"), cast(6)],
    "ArrowConfig::new_trace": [{"index": 0, "types": ["(String, Option<String>)"], "ret": "(q: Option<String>)", "spec": "                ensures q == vx_cp0.1"}],
}
# pinned text: the two closures handed to try_for_each
zipc = {"types": ["((&str, Option<Value>), &mut (String, ArrowBuilder))"], "ret": "(q: Result<()>)",
        "spec": "                requires entry_pre(vx_cp0.0, *vx_cp0.1)\n                ensures entry_recorded(*old(vx_cp0.1), *final(vx_cp0.1), vx_cp0.0.1, q)"}
pos_closures = dict(common_closures)
pos_closures["ArrowChainStorage::record_sample"] = [dict(zipc, index=0), dict(zipc, index=1)]
# patched text: per loop `next_if(|(name, _)| name == expected_name)` and `.and_then(|(_, value)| value)`
def nif(idx):
    return {"index": idx, "types": ["&(&str, Option<Value>)"], "ret": "(q: bool)",
            "spec": "                    ensures q == ((*vx_cp0).0@ == expected_name@)"}
def andt(idx):
    return {"index": idx, "types": ["(&str, Option<Value>)"], "ret": "(q: Option<Value>)",
            "spec": "                    ensures q == vx_cp0.1"}
merge_closures = dict(common_closures)
merge_closures["ArrowChainStorage::record_sample"] = [nif(0), andt(1), nif(2), andt(3)]

unit = {
    "unit": "arrowstore",
    "about": "C14, Arrow backend (src/storage/arrow.rs, feature `arrow`), everything IN PLACE on the real text (no lift): ArrowBuilder::{new, append_value, append_null, finish, finish_cloned}, item_type_to_arrow_type, create_field_with_shape, ArrowChainStorage::{new, finalize_builders}, impl ChainStorage for ArrowChainStorage {record_sample, finalize, flush, inspect}, impl StorageConfig for ArrowConfig {new_trace}, impl TraceStorage for ArrowTraceStorage {initialize_trace_for_chain, finalize, inspect}, against ghost-sequence facades of the arrow-rs builders / arrays / RecordBatch and of the std iterator protocol. Models: see mkunit.py (this file is generated by it).",
    "models": {
        "I": {"prelude": ["prelude.rs"], "vspec": ["contracts.vspec", "contracts_rs_merge.vspec"], "lemmas": ["lemmas.rs", "order_weak.rs"],
              "rules": {"closure_specs": merge_closures, "foriter": ["ArrowChainStorage::record_sample"], "foriter_snapshot": True}},
        "Ipos": {"prelude": ["prelude.rs"], "vspec": ["contracts.vspec", "contracts_rs_pos.vspec"], "lemmas": ["lemmas.rs", "order_strong.rs"],
                 "rules": {"closure_specs": pos_closures}},
        "Iposw": {"prelude": ["prelude.rs"], "vspec": ["contracts.vspec", "contracts_rs_pos.vspec"], "lemmas": ["lemmas.rs", "order_weak.rs"],
                  "rules": {"closure_specs": pos_closures}},
    },
    "rules": {
        "float": False,
        "type_map": {"Box<dyn ArrayBuilder>": "DynBuilder"},
        "macro_map": {"panic": "@noargs"},
        "method_map": {"iter": "vx_iter", "iter_mut": "vx_iter_mut", "into_iter": "vx_into", "zip": "vx_zip", "map": "vx_map",
                       "collect": "vx_collect", "try_for_each": "vx_try_for_each", "product": "vx_product", "to_string": "vx_to_string",
                       "join": "vx_join", "cloned": "vx_cloned", "try_into": "vx_try_into"},
        "boolops": ["ArrowChainStorage::record_sample"],
        "closure_param_patterns": True,
        "mutself": ["ArrowChainStorage::finalize_builders"],
        "impl_trait_args": ["ArrowConfig::new_trace"],
    },
    "sources": [
        {"file": "nuts-storable/src/lib.rs", "items": [{"kind": "enum", "name": "DateTimeUnit"}, {"kind": "enum", "name": "ItemType"}, {"kind": "enum", "name": "Value"}]},
        {"file": "src/sampler.rs", "items": [{"kind": "struct", "name": "Progress"}]},
        {"file": "src/storage/arrow.rs", "items": [
            {"kind": "enum", "name": "ArrowBuilder"},
            {"kind": "impl", "type": "ArrowBuilder", "fns": ["new", "append_value", "append_null", "finish", "finish_cloned"],
             "fn_attrs": {"append_value": "#[verifier::loop_isolation(false)]"}},
            {"kind": "fn", "name": "item_type_to_arrow_type"},
            {"kind": "fn", "name": "create_field_with_shape"},
            {"kind": "struct", "name": "ArrowTraceStorage"},
            {"kind": "struct", "name": "ArrowChainStorage"},
            {"kind": "struct", "name": "ArrowTrace"},
            {"kind": "impl", "type": "ArrowChainStorage", "fns": ["new", "finalize_builders"]},
            {"kind": "impl", "trait": "ChainStorage", "type": "ArrowChainStorage", "fns": ["record_sample", "finalize", "flush", "inspect"],
             "extra_file": "impl_extra.rs", "fn_attrs": {"record_sample": "#[verifier::loop_isolation(false)]"}},
            {"kind": "struct", "name": "ArrowConfig"},
            {"kind": "impl", "trait": "StorageConfig", "type": "ArrowConfig", "fns": ["new_trace"], "extra_file": "impl_extra_config.rs"},
            {"kind": "impl", "trait": "TraceStorage", "type": "ArrowTraceStorage", "fns": ["initialize_trace_for_chain", "finalize", "inspect"],
             "extra_file": "impl_extra_trace.rs"},
        ]},
    ],
    "trait_impl_fns": ["ArrowChainStorage::record_sample", "ArrowChainStorage::flush", "ArrowChainStorage::finalize", "ArrowChainStorage::inspect",
                       "ArrowConfig::new_trace", "ArrowTraceStorage::initialize_trace_for_chain", "ArrowTraceStorage::finalize", "ArrowTraceStorage::inspect"],
}
json.dump(unit, open(os.path.join(here, "unit.json"), "w"), indent=1)
print("unit.json written")
