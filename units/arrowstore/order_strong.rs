/// A-storable-order, STRONG form: `Storable::get_all` enumerates exactly `Storable::names`, in the same order
/// (true for every statistics struct of the crate and for the `Vec<f64>` / `()` impls of nuts-storable; NOT
/// guaranteed by nuts-derive for a `#[storable(flatten)] Option<T>` group, nor for a hand-written Storable impl)
pub open spec fn names_ok(es: Seq<Entry>, bs: Seq<Named>) -> bool { names_match(es, bs) }
