/// A-storable-order, WEAK form (what the call site guarantees for every derive(Storable) type): the incoming list is
/// an order-preserving sub-list of the builder names
pub open spec fn names_ok(es: Seq<Entry>, bs: Seq<Named>) -> bool { names_embed(es, bs) }
