#!/usr/bin/env python3
"""pin.py <model> [repo]   write units/arrowstore/baseline_<model>.json exactly as `./check C14 --pin` would (vx/judge.py):
obligations discharged, relative line of every text anchor, closure / loop signatures, loop/closure shape.
Used until the unit is registered in props.json (then `./check C14 --pin` does the same).  Model I is pinned on the tree
that carries finding_positional_zip.patch (repo = the patched scratch worktree), models Ipos / Iposw on /repo.
$VX_EXTRACT selects the extractor binary (model I needs extractor_foriter_snapshot.patch)."""
import json, os, sys
VERIF = os.path.dirname(os.path.dirname(os.path.dirname(os.path.abspath(__file__))))
sys.path.insert(0, VERIF)
unit = "arrowstore"
model = sys.argv[1]
repo = sys.argv[2] if len(sys.argv) > 2 else "/repo"
from vx import core
if os.environ.get("VX_EXTRACT"):
    core.EXTRACT = os.environ["VX_EXTRACT"]
out = os.path.join(VERIF, "units", unit, "baseline_%s.json" % model)
if os.path.exists(out):
    os.remove(out)   # a stale baseline would steer the re-alignment of this very run
g = core.build(unit, model, repo=repo, tag="_pin")
r = core.run_verus(g.path)
os.remove(g.path)
assert not r.fatal, r.fatal
obs = core.match_rows(g, r)
names = sorted({ob["name"] for ob in obs if ob["kind"] in ("fn", "lemma") and ob["success"]})
shape = {fn["key"]: [fn.get("closures_without_contract", 0), fn.get("loops", 0)] for fn in g.fns}
json.dump({"obligations": names, "anchor_lines": g.anchor_lines, "closure_sigs": g.closure_sigs, "loop_sigs": g.loop_sigs, "shape": shape}, open(out, "w"), indent=1)
print("pinned", len(names), "obligations ->", out, "| failed:", sorted({ob["name"] for ob in obs if not ob["success"]}))
