// Prelude of unit `arrowstore` (C14, Arrow backend src/storage/arrow.rs; model I: no float reasoning, f64/f32 are
// opaque element values).  Everything the extracted code calls but that is not extracted.
// EVERY contract below is an ASSUMPTION of this unit; none is proved by another unit.  Ids (DESIGN 6 / 11.7):
//   A-arrow-builder  arrow-array 59.3 builders as facades with a ghost sequence view: a primitive / string builder is
//                    `cells(): Seq<Option<Elem>>` (one entry per appended slot, None = null): `append_value(v)` pushes
//                    Some(v), `append_null()` pushes None, `append_slice(s)` pushes Some(s[i]) in order;
//                    `LargeListBuilder` is `rows(): Seq<Option<Seq<Option<Elem>>>>` plus `pending()` (the child slots
//                    appended since the last row boundary): `values()` hands out the child, `append(true)` closes a row
//                    made of the pending slots, `append(false)` closes a null row; `finish()` / `finish_cloned()` yield
//                    an array whose view is the builder's view (`finish` resets the builder).
//   A-arrow-dyn      `Box<dyn ArrayBuilder>` (R12.typemap -> `DynBuilder`): `as_any_mut().downcast_mut::<T>()` is Some
//                    exactly for the builder type the box was created from (`Box::new(T::with_capacity(..))`), and
//                    writes through to it.  (`impl ArrayBuilder for Box<dyn ArrayBuilder>` delegates to the boxed value.)
//   A-arrow-batch    `RecordBatch::try_new_with_options(schema, columns, opts)` is Ok exactly when the number of fields
//                    equals the number of columns, every column has `opts.row_count` rows, no non-nullable field has a
//                    null, and every column's data type equals its field's (arrow-array record_batch.rs try_new_impl);
//                    the batch then holds exactly `schema` and `columns`.  `Arc::new` is the identity (facade).
//   A-arrow-field    `Field::new / new_large_list / with_metadata`, `Schema::new`: plain records (name, element type,
//                    list or not, nullable); metadata content is not modelled.
//   A-schema         facade of crate::Settings / crate::Math: the statistics / draw schemas are spec sequences of
//                    (name, dims, type, event dim); `stat_types`, `stat_dims_all`, `stat_event_dims` enumerate the
//                    former, `data_types`, `data_dims_all` the latter, each in schema order (src/sampler.rs: all are
//                    `*_names(math).into_iter().map(..)`).
//   A-iter           facade of the std iterator protocol (R9.method renames, R10.foriter): `iter / iter_mut / into_iter`
//                    yield the elements in order (iter_mut: mutable borrows whose final values are the final elements of
//                    the vector), `zip` pairs the i-th elements up to the shorter length, `map(f).collect()` applies f to
//                    every element in order (into a Vec, or into `Result<Vec>` stopping at the first Err),
//                    `try_for_each(f)` applies f in order and stops at the first Err, `peekable().next_if(f)` / `next()`
//                    consume the next item (iff f accepts it), `rev / skip / take` (offered for edits only); a `&mut`
//                    element that is never handed out keeps its value (`vx_untouched`).
//   A-hashmap        std HashMap<String, V>: `get(k)` finds the entry stored under k; `clone` is an equal map
//   A-anyhow         `?` / `.context(..)` keep Ok as Ok and Err as Err; message text not modelled
//   A-str-eq         `&str != &mut String`, `&&str == &mut String`, `&String == &String`: comparison of the character
//                    sequences (axioms on vstd's PartialEqSpec, which leaves the reference impls unspecified)
//   A-std-misc       `<[T]>::to_vec`, `Vec::clone`, `Option::copied`, `usize::checked_mul`, `Iterator::product`
//                    (panics on overflow when overflow checks are on: stated precondition), `u64 as usize`
//   A-nooverflow     draw_count + 1, num_tune + num_draws, shape products fit in usize (stated preconditions)
// Call-site assumptions (stated as preconditions, see lemmas.rs): A-arrow-values (no DateTime64 / TimeDelta64 variable
// or value reaches the Arrow backend: `panic!("... not supported in arrow storage")`), A-storable-order (the list
// handed to record_sample follows the order of the schema names: Storable::get_all vs Storable::names; STRONG form =
// the same list of names, WEAK form = an order-preserving sub-list: order_strong.rs / order_weak.rs), the declared
// shape of scalar variables (scalar_shape_ok: `assert!(items.len() == 1)`).
// Rewrites used (unit.json): R0, R1 (contracts, closure contracts, loop contracts, ghost code at anchors, fn attributes
// `loop_isolation(false)`), R3.boolop (record_sample), R4.mutself (finalize_builders), R5 `panic: @noargs`, R7.impltrait
// (new_trace), R9.method (iterator / string methods, see above), R10.foriter (+ snapshot; patched record_sample only),
// R12.typemap `Box<dyn ArrayBuilder>` -> `DynBuilder`, R13.closurepat.  Nothing is lifted, nothing is dropped.
// Macros that are NOT rewritten but shadowed by items of this file: `anyhow::anyhow!`, `anyhow::bail!`, `assert_eq!`;
// the function-local `macro_rules! downcast_builder` of append_value is verified as it stands.
use core::marker::PhantomData;
use vstd::std_specs::cmp::PartialEqSpec;

// ------------------------------------------------------------------------------------------
// anyhow facade (A-anyhow)
// ------------------------------------------------------------------------------------------
pub mod anyhow {
    use vstd::prelude::*;
    /// opaque error value
    pub struct Error { pub id: Ghost<int> }
    #[verifier::external]
    impl core::fmt::Debug for Error {
        fn fmt(&self, f: &mut core::fmt::Formatter<'_>) -> core::fmt::Result { Ok(()) }
    }
    /// `anyhow::anyhow!(..)`: an opaque error (the message arguments are not evaluated: R5, message text not verified).
    /// A macro (not an extractor rewrite) because one use sits inside the function-local `macro_rules! downcast_builder`.
    macro_rules! anyhow_ { ($($t:tt)*) => { crate::opaque_error() } }
    pub(crate) use anyhow_ as anyhow;
    /// `anyhow::bail!(..)` = `return Err(anyhow!(..))`
    macro_rules! bail_ { ($($t:tt)*) => { return Err(crate::opaque_error()) } }
    pub(crate) use bail_ as bail;
}
pub type Result<T, E = anyhow::Error> = core::result::Result<T, E>;
#[verifier::external_body]
pub fn opaque_error() -> anyhow::Error { unimplemented!() }

/// arrow_schema::ArrowError (opaque)
pub struct ArrowError { pub id: Ghost<int> }
#[verifier::external]
impl core::fmt::Debug for ArrowError {
    fn fmt(&self, f: &mut core::fmt::Formatter<'_>) -> core::fmt::Result { Ok(()) }
}
/// anyhow::Context for Result: Ok stays Ok (same value), Err stays Err
pub trait Context<T, E>: Sized {
    fn context(self, msg: &'static str) -> (r: Result<T, anyhow::Error>);
}
impl<T, E> Context<T, E> for core::result::Result<T, E> {
    #[verifier::external_body]
    fn context(self, msg: &'static str) -> (r: Result<T, anyhow::Error>)
        ensures
            (self is Ok) == (r is Ok),
            self is Ok ==> r->Ok_0 == self->Ok_0,
    { unimplemented!() }
}

// ------------------------------------------------------------------------------------------
// A-arrow-builder: element values and builders
// ------------------------------------------------------------------------------------------
/// one stored element (the six value types of the property; strings by their character sequence)
pub enum Elem { F64(f64), F32(f32), Bool(bool), I64(i64), U64(u64), Str(Seq<char>) }
/// element type of a builder / array
#[derive(PartialEq, Eq, Clone, Copy)]
pub enum BKind { F64, F32, Bool, I64, U64, Str }

pub open spec fn elem_kind(e: Elem) -> BKind {
    match e {
        Elem::F64(_) => BKind::F64, Elem::F32(_) => BKind::F32, Elem::Bool(_) => BKind::Bool,
        Elem::I64(_) => BKind::I64, Elem::U64(_) => BKind::U64, Elem::Str(_) => BKind::Str,
    }
}

/// the concrete builder types a `Box<dyn ArrayBuilder>` can hold in this file
pub trait VxTyped: Sized {
    spec fn tkind() -> BKind;
    spec fn tcells(&self) -> Seq<Option<Elem>>;
}

pub open spec fn some_f64(s: Seq<f64>) -> Seq<Option<Elem>> { Seq::new(s.len(), |i: int| Some(Elem::F64(s[i]))) }
pub open spec fn some_f32(s: Seq<f32>) -> Seq<Option<Elem>> { Seq::new(s.len(), |i: int| Some(Elem::F32(s[i]))) }
pub open spec fn some_bool(s: Seq<bool>) -> Seq<Option<Elem>> { Seq::new(s.len(), |i: int| Some(Elem::Bool(s[i]))) }
pub open spec fn some_i64(s: Seq<i64>) -> Seq<Option<Elem>> { Seq::new(s.len(), |i: int| Some(Elem::I64(s[i]))) }
pub open spec fn some_u64(s: Seq<u64>) -> Seq<Option<Elem>> { Seq::new(s.len(), |i: int| Some(Elem::U64(s[i]))) }
pub open spec fn some_str(s: Seq<String>) -> Seq<Option<Elem>> { Seq::new(s.len(), |i: int| Some(Elem::Str(s[i]@))) }

#[verifier::external_body]
pub struct Float64Builder { _p: () }
impl Float64Builder {
    pub uninterp spec fn cells(&self) -> Seq<Option<Elem>>;
    #[verifier::external_body]
    pub fn with_capacity(capacity: usize) -> (r: Self) ensures r.cells() == Seq::<Option<Elem>>::empty() { unimplemented!() }
    #[verifier::external_body]
    pub fn append_value(&mut self, v: f64) ensures final(self).cells() == old(self).cells().push(Some(Elem::F64(v))) { unimplemented!() }
    #[verifier::external_body]
    pub fn append_null(&mut self) ensures final(self).cells() == old(self).cells().push(None) { unimplemented!() }
    #[verifier::external_body]
    pub fn append_slice(&mut self, v: &[f64]) ensures final(self).cells() == old(self).cells() + some_f64(v@) { unimplemented!() }
}
impl VxTyped for Float64Builder {
    open spec fn tkind() -> BKind { BKind::F64 }
    open spec fn tcells(&self) -> Seq<Option<Elem>> { self.cells() }
}

#[verifier::external_body]
pub struct Float32Builder { _p: () }
impl Float32Builder {
    pub uninterp spec fn cells(&self) -> Seq<Option<Elem>>;
    #[verifier::external_body]
    pub fn with_capacity(capacity: usize) -> (r: Self) ensures r.cells() == Seq::<Option<Elem>>::empty() { unimplemented!() }
    #[verifier::external_body]
    pub fn append_value(&mut self, v: f32) ensures final(self).cells() == old(self).cells().push(Some(Elem::F32(v))) { unimplemented!() }
    #[verifier::external_body]
    pub fn append_null(&mut self) ensures final(self).cells() == old(self).cells().push(None) { unimplemented!() }
    #[verifier::external_body]
    pub fn append_slice(&mut self, v: &[f32]) ensures final(self).cells() == old(self).cells() + some_f32(v@) { unimplemented!() }
}
impl VxTyped for Float32Builder {
    open spec fn tkind() -> BKind { BKind::F32 }
    open spec fn tcells(&self) -> Seq<Option<Elem>> { self.cells() }
}

#[verifier::external_body]
pub struct BooleanBuilder { _p: () }
impl BooleanBuilder {
    pub uninterp spec fn cells(&self) -> Seq<Option<Elem>>;
    #[verifier::external_body]
    pub fn with_capacity(capacity: usize) -> (r: Self) ensures r.cells() == Seq::<Option<Elem>>::empty() { unimplemented!() }
    #[verifier::external_body]
    pub fn append_value(&mut self, v: bool) ensures final(self).cells() == old(self).cells().push(Some(Elem::Bool(v))) { unimplemented!() }
    #[verifier::external_body]
    pub fn append_null(&mut self) ensures final(self).cells() == old(self).cells().push(None) { unimplemented!() }
    #[verifier::external_body]
    pub fn append_slice(&mut self, v: &[bool]) ensures final(self).cells() == old(self).cells() + some_bool(v@) { unimplemented!() }
}
impl VxTyped for BooleanBuilder {
    open spec fn tkind() -> BKind { BKind::Bool }
    open spec fn tcells(&self) -> Seq<Option<Elem>> { self.cells() }
}

#[verifier::external_body]
pub struct Int64Builder { _p: () }
impl Int64Builder {
    pub uninterp spec fn cells(&self) -> Seq<Option<Elem>>;
    #[verifier::external_body]
    pub fn with_capacity(capacity: usize) -> (r: Self) ensures r.cells() == Seq::<Option<Elem>>::empty() { unimplemented!() }
    #[verifier::external_body]
    pub fn append_value(&mut self, v: i64) ensures final(self).cells() == old(self).cells().push(Some(Elem::I64(v))) { unimplemented!() }
    #[verifier::external_body]
    pub fn append_null(&mut self) ensures final(self).cells() == old(self).cells().push(None) { unimplemented!() }
    #[verifier::external_body]
    pub fn append_slice(&mut self, v: &[i64]) ensures final(self).cells() == old(self).cells() + some_i64(v@) { unimplemented!() }
}
impl VxTyped for Int64Builder {
    open spec fn tkind() -> BKind { BKind::I64 }
    open spec fn tcells(&self) -> Seq<Option<Elem>> { self.cells() }
}

#[verifier::external_body]
pub struct UInt64Builder { _p: () }
impl UInt64Builder {
    pub uninterp spec fn cells(&self) -> Seq<Option<Elem>>;
    #[verifier::external_body]
    pub fn with_capacity(capacity: usize) -> (r: Self) ensures r.cells() == Seq::<Option<Elem>>::empty() { unimplemented!() }
    #[verifier::external_body]
    pub fn append_value(&mut self, v: u64) ensures final(self).cells() == old(self).cells().push(Some(Elem::U64(v))) { unimplemented!() }
    #[verifier::external_body]
    pub fn append_null(&mut self) ensures final(self).cells() == old(self).cells().push(None) { unimplemented!() }
    #[verifier::external_body]
    pub fn append_slice(&mut self, v: &[u64]) ensures final(self).cells() == old(self).cells() + some_u64(v@) { unimplemented!() }
}
impl VxTyped for UInt64Builder {
    open spec fn tkind() -> BKind { BKind::U64 }
    open spec fn tcells(&self) -> Seq<Option<Elem>> { self.cells() }
}

/// `impl AsRef<str>` arguments of `StringBuilder::append_value` (called with `&String` and with `String`)
pub trait VxAsStr {
    spec fn chars(&self) -> Seq<char>;
}
impl VxAsStr for String { open spec fn chars(&self) -> Seq<char> { self@ } }
impl VxAsStr for &String { open spec fn chars(&self) -> Seq<char> { (**self)@ } }
impl VxAsStr for &str { open spec fn chars(&self) -> Seq<char> { (**self)@ } }

#[verifier::external_body]
pub struct StringBuilder { _p: () }
impl StringBuilder {
    pub uninterp spec fn cells(&self) -> Seq<Option<Elem>>;
    #[verifier::external_body]
    pub fn with_capacity(item_capacity: usize, data_capacity: usize) -> (r: Self) ensures r.cells() == Seq::<Option<Elem>>::empty() { unimplemented!() }
    #[verifier::external_body]
    pub fn append_value<S: VxAsStr>(&mut self, v: S) ensures final(self).cells() == old(self).cells().push(Some(Elem::Str(v.chars()))) { unimplemented!() }
    #[verifier::external_body]
    pub fn append_null(&mut self) ensures final(self).cells() == old(self).cells().push(None) { unimplemented!() }
}
impl VxTyped for StringBuilder {
    open spec fn tkind() -> BKind { BKind::Str }
    open spec fn tcells(&self) -> Seq<Option<Elem>> { self.cells() }
}

// ------------------------------------------------------------------------------------------
// A-arrow-dyn: `Box<dyn ArrayBuilder>` (R12.typemap -> DynBuilder)
// ------------------------------------------------------------------------------------------
#[verifier::external_body]
pub struct DynBuilder { _p: () }
impl DynBuilder {
    /// which concrete builder is in the box
    pub uninterp spec fn kind(&self) -> BKind;
    pub uninterp spec fn cells(&self) -> Seq<Option<Elem>>;

    /// `ArrayBuilder::as_any_mut` (through `impl ArrayBuilder for Box<dyn ArrayBuilder>`): the same builder, as `Any`
    #[verifier::external_body]
    pub fn as_any_mut(&mut self) -> (r: &mut DynBuilder)
        ensures *r == *old(self), *final(r) == *final(self),
    { unimplemented!() }

    /// `<dyn Any>::downcast_mut::<T>()`: Some exactly for the concrete type in the box; writes go through
    #[verifier::external_body]
    pub fn downcast_mut<T: VxTyped>(&mut self) -> (r: Option<&mut T>)
        ensures
            (r is Some) == (old(self).kind() == T::tkind()),
            r is Some ==> r->Some_0.tcells() == old(self).cells()
                && final(self).cells() == final(r->Some_0).tcells()
                && final(self).kind() == old(self).kind(),
            r is None ==> *final(self) == *old(self),
    { unimplemented!() }

    /// `ArrayBuilder::finish`: the array of everything appended so far; the builder is reset
    #[verifier::external_body]
    pub fn finish(&mut self) -> (r: ArrayRef)
        ensures
            r.view() == (ArrView { kind: old(self).kind(), list: false, rows: prim_rows(old(self).cells()) }),
            final(self).kind() == old(self).kind(),
            final(self).cells() == Seq::<Option<Elem>>::empty(),
    { unimplemented!() }

    /// `ArrayBuilder::finish_cloned`: the same array, the builder is untouched
    #[verifier::external_body]
    pub fn finish_cloned(&self) -> (r: ArrayRef)
        ensures r.view() == (ArrView { kind: self.kind(), list: false, rows: prim_rows(self.cells()) }),
    { unimplemented!() }
}

/// `Box::new(<concrete builder>)` coerced to `Box<dyn ArrayBuilder>` (this item shadows std's `Box` in the generated file;
/// nothing else in arrow.rs uses `Box`)
pub struct Box {}
impl Box {
    #[verifier::external_body]
    pub fn new<T: VxTyped>(b: T) -> (r: DynBuilder)
        ensures r.kind() == T::tkind(), r.cells() == b.tcells(),
    { unimplemented!() }
}
/// `Arc::new(x)`: the identity in this facade (`ArrayRef = Arc<dyn Array>`, `SchemaRef = Arc<Schema>`; sharing is
/// not modelled).  Shadows std's `Arc` in the generated file.
pub struct Arc {}
impl Arc {
    pub fn new<T>(t: T) -> (r: T) ensures r == t { t }
}

/// one row of a column: the slots of the row (a scalar column has exactly one slot per non-null row)
pub type Row = Option<Seq<Option<Elem>>>;
/// rows of a primitive / string array: slot i is row i
pub open spec fn prim_rows(cells: Seq<Option<Elem>>) -> Seq<Row> {
    Seq::new(cells.len(), |i: int| match cells[i] { Some(e) => Some(seq![Some(e)]), None => None })
}

#[verifier::external_body]
#[verifier::reject_recursive_types(T)]
pub struct LargeListBuilder<T> { _p: PhantomData<T> }
impl LargeListBuilder<DynBuilder> {
    pub uninterp spec fn kind(&self) -> BKind;
    /// the closed rows
    pub uninterp spec fn rows(&self) -> Seq<Row>;
    /// child slots appended since the last row boundary
    pub uninterp spec fn pending(&self) -> Seq<Option<Elem>>;

    #[verifier::external_body]
    pub fn new(values_builder: DynBuilder) -> (r: Self)
        ensures r.kind() == values_builder.kind(), r.rows() == Seq::<Row>::empty(), r.pending() == values_builder.cells(),
    { unimplemented!() }
    /// names the item field; the content is untouched
    #[verifier::external_body]
    pub fn with_field(self, f: Field) -> (r: Self)
        ensures r.kind() == self.kind(), r.rows() == self.rows(), r.pending() == self.pending(),
    { unimplemented!() }
    /// the child builder (facade: only the slots of the open row are visible through it)
    #[verifier::external_body]
    pub fn values(&mut self) -> (r: &mut DynBuilder)
        ensures
            r.kind() == old(self).kind(), r.cells() == old(self).pending(),
            final(self).kind() == final(r).kind(), final(self).pending() == final(r).cells(),
            final(self).rows() == old(self).rows(),
    { unimplemented!() }
    /// close the open row (`is_valid = false`: a null row)
    #[verifier::external_body]
    pub fn append(&mut self, is_valid: bool)
        ensures
            final(self).kind() == old(self).kind(),
            final(self).pending() == Seq::<Option<Elem>>::empty(),
            final(self).rows() == old(self).rows().push(if is_valid { Some(old(self).pending()) } else { None }),
    { unimplemented!() }
    #[verifier::external_body]
    pub fn finish(&mut self) -> (r: ArrayRef)
        ensures
            r.view() == (ArrView { kind: old(self).kind(), list: true, rows: old(self).rows() }),
            final(self).kind() == old(self).kind(),
            final(self).rows() == Seq::<Row>::empty(),
            final(self).pending() == Seq::<Option<Elem>>::empty(),
    { unimplemented!() }
    #[verifier::external_body]
    pub fn finish_cloned(&self) -> (r: ArrayRef)
        ensures r.view() == (ArrView { kind: self.kind(), list: true, rows: self.rows() }),
    { unimplemented!() }
}

// ------------------------------------------------------------------------------------------
// arrays, fields, schema, record batch (A-arrow-field, A-arrow-batch)
// ------------------------------------------------------------------------------------------
/// content of an arrow array: element type, LargeList or not, one entry per row
pub struct ArrView { pub kind: BKind, pub list: bool, pub rows: Seq<Row> }

#[verifier::external_body]
pub struct ArrayRef { _p: () }
impl ArrayRef {
    pub uninterp spec fn view(&self) -> ArrView;
}
impl Clone for ArrayRef {
    #[verifier::external_body]
    fn clone(&self) -> (r: Self) ensures r.view() == self.view() { unimplemented!() }
}

/// arrow_schema::DataType, as far as arrow.rs names it
#[derive(PartialEq, Eq, Clone, Copy)]
pub enum DataType { Float64, Float32, UInt64, Int64, Boolean, Utf8 }
pub open spec fn dt_kind(d: DataType) -> BKind {
    match d {
        DataType::Float64 => BKind::F64, DataType::Float32 => BKind::F32, DataType::UInt64 => BKind::U64,
        DataType::Int64 => BKind::I64, DataType::Boolean => BKind::Bool, DataType::Utf8 => BKind::Str,
    }
}

/// arrow_schema::Field: name, element type, LargeList<item> or plain, nullability (metadata not modelled)
pub struct Field { pub name: String, pub data_type: DataType, pub list: bool, pub nullable: bool }
impl Field {
    #[verifier::external_body]
    pub fn new(name: &str, data_type: DataType, nullable: bool) -> (r: Field)
        ensures r.name@ == name@, r.data_type == data_type, !r.list, r.nullable == nullable,
    { unimplemented!() }
    #[verifier::external_body]
    pub fn new_large_list(name: &str, item: Field, nullable: bool) -> (r: Field)
        ensures r.name@ == name@, r.data_type == item.data_type, r.list, r.nullable == nullable,
    { unimplemented!() }
    #[verifier::external_body]
    pub fn with_metadata(self, metadata: HashMap<String, String>) -> (r: Field)
        ensures r == self,
    { unimplemented!() }
}
pub struct Schema { pub fields: Vec<Field> }
impl Schema {
    pub fn new(fields: Vec<Field>) -> (r: Schema) ensures r.fields == fields { Schema { fields } }
}
pub struct RecordBatchOptions { pub row_count: Option<usize> }
impl RecordBatchOptions {
    pub fn new() -> (r: Self) ensures r.row_count is None { RecordBatchOptions { row_count: None } }
    pub fn with_row_count(self, row_count: Option<usize>) -> (r: Self) ensures r.row_count == row_count { RecordBatchOptions { row_count } }
}
pub struct RecordBatch { pub schema: Schema, pub columns: Vec<ArrayRef>, pub row_count: usize }
impl Clone for RecordBatch {
    #[verifier::external_body]
    fn clone(&self) -> (r: Self) { unimplemented!() }
}
/// the checks of arrow-array 59.3 `RecordBatch::try_new_impl` (with an explicit row count)
pub open spec fn batch_ok(schema: Schema, columns: Seq<ArrayRef>, row_count: int) -> bool {
    &&& schema.fields@.len() == columns.len()
    &&& forall|i: int| 0 <= i < columns.len() ==> (#[trigger] columns[i]).view().rows.len() == row_count
    &&& forall|i: int| 0 <= i < columns.len() ==> column_fits(schema.fields@[i], #[trigger] columns[i])
}
pub open spec fn column_fits(f: Field, c: ArrayRef) -> bool {
    &&& c.view().kind == dt_kind(f.data_type)
    &&& c.view().list == f.list
    &&& (f.nullable || forall|j: int| 0 <= j < c.view().rows.len() ==> c.view().rows[j] is Some)
}
impl RecordBatch {
    #[verifier::external_body]
    pub fn try_new_with_options(schema: Schema, columns: Vec<ArrayRef>, options: &RecordBatchOptions) -> (r: core::result::Result<RecordBatch, ArrowError>)
        requires options.row_count is Some,
        ensures
            (r is Ok) == batch_ok(schema, columns@, options.row_count->Some_0 as int),
            r is Ok ==> r->Ok_0.schema == schema && r->Ok_0.columns == columns && r->Ok_0.row_count == options.row_count->Some_0,
    { unimplemented!() }
}

// ------------------------------------------------------------------------------------------
// A-hashmap
// ------------------------------------------------------------------------------------------
pub struct HashMap<K, V> {
    pub m: Ghost<Map<Seq<char>, V>>,
    pub _k: PhantomData<K>,
}
impl<V> HashMap<String, V> {
    pub open spec fn view(&self) -> Map<Seq<char>, V> { self.m@ }
    #[verifier::external_body]
    pub fn get(&self, k: &String) -> (r: Option<&V>)
        ensures
            self@.contains_key(k@) ==> r is Some && *r->Some_0 == self@[k@],
            !self@.contains_key(k@) ==> r is None,
    { unimplemented!() }
}
impl<K, V> Clone for HashMap<K, V> {
    #[verifier::external_body]
    fn clone(&self) -> (r: Self) ensures r == *self { unimplemented!() }
}

// ------------------------------------------------------------------------------------------
// A-iter: the std iterator protocol (R9.method: iter -> vx_iter, iter_mut -> vx_iter_mut, into_iter -> vx_into,
// zip -> vx_zip, map -> vx_map (iterators only: Option::map is not renamed, see unit.json), collect -> vx_collect,
// try_for_each -> vx_try_for_each, product -> vx_product; R10.foriter: vx_iter(..) / vx_more / vx_next).
// A facade iterator is the sequence of ALL its items plus the number already consumed.
// ------------------------------------------------------------------------------------------
#[verifier::external_body]
#[verifier::accept_recursive_types(T)]
pub struct VxIt<T> { _p: PhantomData<T> }

/// "this item was never handed out": for a `&mut` item the referent keeps its value (a dropped, unused mutable
/// borrow), for a pair both components; nothing is known (or needed) for other types.
#[verifier::prophetic]
pub uninterp spec fn vx_untouched<T>(x: T) -> bool;
#[verifier::prophetic]
pub open spec fn mut_unchanged<T>(x: &mut T) -> bool { *final(x) == *x }
pub broadcast axiom fn ax_untouched_mut<T>(x: (&mut T,))
    ensures #[trigger] vx_untouched::<&mut T>(x.0) ==> mut_unchanged(x.0);
pub broadcast axiom fn ax_untouched_pair<A, B>(x: (A, B))
    ensures #[trigger] vx_untouched::<(A, B)>(x) ==> vx_untouched(x.0) && vx_untouched(x.1);

pub open spec fn zip_seq<A, B>(a: Seq<A>, b: Seq<B>) -> Seq<(A, B)> {
    Seq::new(if a.len() <= b.len() { a.len() } else { b.len() }, |i: int| (a[i], b[i]))
}
/// `items` are mutable borrows of the elements of a vector: `before` at the time of the borrow, `after` when all
/// of them have expired
#[verifier::prophetic]
pub open spec fn muts_of<T>(items: Seq<&mut T>, before: Seq<T>, after: Seq<T>) -> bool {
    &&& items.len() == before.len()
    &&& after.len() == before.len()
    &&& forall|i: int| #![trigger items[i]] #![trigger after[i]] #![trigger before[i]] 0 <= i < before.len() ==> *items[i] == before[i] && *final(items[i]) == after[i]
}
pub open spec fn refs_of<T>(items: Seq<&T>, of: Seq<T>) -> bool {
    &&& items.len() == of.len()
    &&& forall|i: int| #![trigger items[i]] #![trigger of[i]] 0 <= i < of.len() ==> *items[i] == of[i]
}

impl<T> VxIt<T> {
    pub uninterp spec fn all(&self) -> Seq<T>;
    pub uninterp spec fn pos(&self) -> int;

    /// `Iterator::next` would return Some
    #[verifier::external_body]
    pub fn vx_more(&self) -> (r: bool)
        ensures r == (self.pos() < self.all().len()),
    { unimplemented!() }
    /// `Iterator::next().unwrap()`
    #[verifier::external_body]
    pub fn vx_next(&mut self) -> (r: T)
        requires 0 <= old(self).pos() < old(self).all().len(),
        ensures
            final(self).all() == old(self).all(),
            final(self).pos() == old(self).pos() + 1,
            r == old(self).all()[old(self).pos()],
    { unimplemented!() }
    /// `Iterator::zip` of two fresh iterators: pairs up to the shorter length; the surplus items are dropped unused
    #[verifier::external_body]
    pub fn vx_zip<B>(self, o: VxIt<B>) -> (r: VxIt<(T, B)>)
        requires self.pos() == 0, o.pos() == 0,
        ensures
            r.pos() == 0, r.all() == zip_seq(self.all(), o.all()),
            // (the same, pointwise, so that a term about an item of either side leads to the zipped item)
            forall|i: int| #![trigger r.all()[i]] #![trigger self.all()[i]] #![trigger o.all()[i]]
                0 <= i < r.all().len() ==> r.all()[i] == (self.all()[i], o.all()[i]),
            forall|i: int| r.all().len() <= i < self.all().len() ==> vx_untouched(#[trigger] self.all()[i]),
            forall|i: int| r.all().len() <= i < o.all().len() ==> vx_untouched(#[trigger] o.all()[i]),
    { unimplemented!() }
    /// `Iterator::rev` / `Iterator::skip` / `Iterator::take` of a fresh iterator (not used by the pinned code; offered so
    /// that an edit which re-orders or truncates the iteration is DECIDED instead of being a front-end error)
    #[verifier::external_body]
    pub fn rev(self) -> (r: VxIt<T>)
        requires self.pos() == 0,
        ensures r.pos() == 0, r.all() == self.all().reverse(),
    { unimplemented!() }
    #[verifier::external_body]
    pub fn skip(self, n: usize) -> (r: VxIt<T>)
        requires self.pos() == 0,
        ensures r.pos() == 0, r.all() == (if n <= self.all().len() { self.all().skip(n as int) } else { Seq::empty() }),
            forall|i: int| 0 <= i < n && i < self.all().len() ==> vx_untouched(#[trigger] self.all()[i]),
    { unimplemented!() }
    #[verifier::external_body]
    pub fn take(self, n: usize) -> (r: VxIt<T>)
        requires self.pos() == 0,
        ensures r.pos() == 0, r.all() == (if n <= self.all().len() { self.all().take(n as int) } else { self.all() }),
            forall|i: int| n <= i < self.all().len() ==> vx_untouched(#[trigger] self.all()[i]),
    { unimplemented!() }
    /// `Iterator::peekable` (facade: a VxIt can always be peeked)
    #[verifier::external_body]
    pub fn peekable(self) -> (r: VxIt<T>)
        ensures r.pos() == self.pos(), r.all() == self.all(),
    { unimplemented!() }
    /// `Peekable::next_if(f)`: consume and return the next item iff f accepts it
    #[verifier::external_body]
    pub fn next_if<F: FnOnce(&T) -> bool>(&mut self, f: F) -> (r: Option<T>)
        requires 0 <= old(self).pos() < old(self).all().len() ==> f.requires((&old(self).all()[old(self).pos()],)),
        ensures
            final(self).all() == old(self).all(),
            r is Some ==> 0 <= old(self).pos() < old(self).all().len() && r->Some_0 == old(self).all()[old(self).pos()]
                && f.ensures((&old(self).all()[old(self).pos()],), true) && final(self).pos() == old(self).pos() + 1,
            r is None ==> final(self).pos() == old(self).pos()
                && (0 <= old(self).pos() < old(self).all().len() ==> f.ensures((&old(self).all()[old(self).pos()],), false)),
    { unimplemented!() }
    /// `Iterator::next`
    #[verifier::external_body]
    pub fn next(&mut self) -> (r: Option<T>)
        ensures
            final(self).all() == old(self).all(),
            (r is Some) == (0 <= old(self).pos() < old(self).all().len()),
            r is Some ==> r->Some_0 == old(self).all()[old(self).pos()] && final(self).pos() == old(self).pos() + 1,
            r is None ==> final(self).pos() == old(self).pos(),
    { unimplemented!() }
    /// `Iterator::map` (lazy: nothing happens until the result is collected)
    #[verifier::external_body]
    pub fn vx_map<U, F: FnMut(T) -> U>(self, f: F) -> (r: VxMap<T, U, F>)
        requires self.pos() == 0,
        ensures r.src() == self.all(), r.fun() == f,
    { unimplemented!() }
    /// `Iterator::try_for_each`: f on every item in order, stopping at the first Err
    #[verifier::external_body]
    pub fn vx_try_for_each<E, F: FnMut(T) -> core::result::Result<(), E>>(self, f: F) -> (r: core::result::Result<(), E>)
        requires
            self.pos() == 0,
            forall|i: int| 0 <= i < self.all().len() ==> f.requires((#[trigger] self.all()[i],)),
        ensures
            r is Ok ==> forall|i: int| 0 <= i < self.all().len() ==> f.ensures((#[trigger] self.all()[i],), Ok(())),
            r is Err ==> exists|n: int| tfe_stopped(self.all(), f, n, r->Err_0),
    { unimplemented!() }
}
/// try_for_each stopped at item n with error e
#[verifier::prophetic]
pub open spec fn tfe_stopped<T, E, F: FnMut(T) -> core::result::Result<(), E>>(items: Seq<T>, f: F, n: int, e: E) -> bool {
    &&& 0 <= n < items.len()
    &&& f.ensures((items[n],), Err(e))
    &&& forall|i: int| 0 <= i < n ==> f.ensures((#[trigger] items[i],), Ok(()))
    &&& forall|i: int| n < i < items.len() ==> vx_untouched(#[trigger] items[i])
}
impl<'a> VxIt<&'a usize> {
    /// `Iterator::product::<usize>()`: std panics on overflow when overflow checks are enabled
    #[verifier::external_body]
    pub fn vx_product<P>(self) -> (r: usize)
        requires self.pos() == 0, forall|s: Seq<usize>| refs_of(self.all(), s) ==> usize_product(s) <= usize::MAX,
        ensures forall|s: Seq<usize>| refs_of(self.all(), s) ==> r as int == usize_product(s),
    { unimplemented!() }
}
pub open spec fn usize_product(s: Seq<usize>) -> int
    decreases s.len()
{
    if s.len() == 0 { 1 } else { usize_product(s.drop_last()) * (s.last() as int) }
}

#[verifier::external_body]
#[verifier::accept_recursive_types(T)]
#[verifier::accept_recursive_types(U)]
#[verifier::reject_recursive_types(F)]
pub struct VxMap<T, U, F> { _p: PhantomData<(T, U, F)> }
impl<T, U, F> VxMap<T, U, F> {
    pub uninterp spec fn src(&self) -> Seq<T>;
    pub uninterp spec fn fun(&self) -> F;
    /// `Iterator::collect`
    #[verifier::external_body]
    pub fn vx_collect<C: VxFromIter<U>>(self) -> (r: C)
        where F: FnMut(T) -> U
        requires forall|i: int| 0 <= i < self.src().len() ==> self.fun().requires((#[trigger] self.src()[i],)),
        ensures collected(self.src(), self.fun(), r),
    { unimplemented!() }
}
/// what a collection says about the results it was built from (no closure appears in the trait: Verus does not
/// unfold a trait spec function that mentions `f.ensures` inside functions reachable from a trait impl)
pub trait VxFromIter<U>: Sized {
    /// Some(n): all n results were consumed; None: collecting stopped at an Err
    spec fn vx_len(&self) -> Option<nat>;
    /// result i (complete case) / the result collecting stopped at (i is ignored)
    spec fn vx_item(&self, i: int) -> U;
}
/// into a Vec: f applied to every item, results in order
impl<U> VxFromIter<U> for Vec<U> {
    open spec fn vx_len(&self) -> Option<nat> { Some(self@.len()) }
    open spec fn vx_item(&self, i: int) -> U { self@[i] }
}
/// into `Result<Vec<X>, E>`: Ok(all results) if every call returned Ok, else the first Err (later items unused)
impl<X, E> VxFromIter<core::result::Result<X, E>> for core::result::Result<Vec<X>, E> {
    open spec fn vx_len(&self) -> Option<nat> { match *self { Ok(v) => Some(v@.len()), Err(_) => None } }
    open spec fn vx_item(&self, i: int) -> core::result::Result<X, E> { match *self { Ok(v) => Ok(v@[i]), Err(e) => Err(e) } }
}
#[verifier::prophetic]
pub open spec fn collected<T, U, F: FnMut(T) -> U, C: VxFromIter<U>>(src: Seq<T>, f: F, r: C) -> bool {
    match r.vx_len() {
        Some(n) => n == src.len() && forall|i: int| #![trigger src[i]] #![trigger r.vx_item(i)] 0 <= i < src.len() ==> f.ensures((src[i],), r.vx_item(i)),
        None => exists|n: int| #[trigger] collect_stopped(src, f, n, r.vx_item(0)),
    }
}
#[verifier::prophetic]
pub open spec fn collect_stopped<T, U, F: FnMut(T) -> U>(items: Seq<T>, f: F, n: int, u: U) -> bool {
    &&& 0 <= n < items.len()
    &&& f.ensures((items[n],), u)
    &&& forall|i: int| n < i < items.len() ==> vx_untouched(#[trigger] items[i])
}

/// `.iter()` on a Vec / slice
pub trait VxIterRef<T> {
    spec fn vx_elems(&self) -> Seq<T>;
    fn vx_iter<'a>(&'a self) -> (r: VxIt<&'a T>)
        ensures r.pos() == 0, refs_of(r.all(), self.vx_elems());
}
impl<T> VxIterRef<T> for Vec<T> {
    open spec fn vx_elems(&self) -> Seq<T> { self@ }
    #[verifier::external_body]
    fn vx_iter<'a>(&'a self) -> (r: VxIt<&'a T>) { unimplemented!() }
}
impl<T> VxIterRef<T> for [T] {
    open spec fn vx_elems(&self) -> Seq<T> { self@ }
    #[verifier::external_body]
    fn vx_iter<'a>(&'a self) -> (r: VxIt<&'a T>) { unimplemented!() }
}
/// `.iter_mut()` on a Vec
pub trait VxIterMut<T> {
    spec fn vx_melems(&self) -> Seq<T>;
    fn vx_iter_mut<'a>(&'a mut self) -> (r: VxIt<&'a mut T>)
        ensures r.pos() == 0, muts_of(r.all(), old(self).vx_melems(), final(self).vx_melems());
}
impl<T> VxIterMut<T> for Vec<T> {
    open spec fn vx_melems(&self) -> Seq<T> { self@ }
    #[verifier::external_body]
    fn vx_iter_mut<'a>(&'a mut self) -> (r: VxIt<&'a mut T>) { unimplemented!() }
}
/// `.into_iter()` on a Vec (R10.foriter also wraps the iterated expression in `vx_iter(..)` = IntoIterator::into_iter)
pub trait VxIntoIter<T>: Sized {
    spec fn vx_seq(&self) -> Seq<T>;
    fn vx_into(self) -> (r: VxIt<T>)
        ensures r.pos() == 0, r.all() == self.vx_seq();
}
impl<T> VxIntoIter<T> for Vec<T> {
    open spec fn vx_seq(&self) -> Seq<T> { self@ }
    #[verifier::external_body]
    fn vx_into(self) -> (r: VxIt<T>) { unimplemented!() }
}
impl<T> VxIntoIter<T> for VxIt<T> {
    open spec fn vx_seq(&self) -> Seq<T> { if self.pos() == 0 { self.all() } else { self.all().skip(self.pos()) } }
    #[verifier::external_body]
    fn vx_into(self) -> (r: VxIt<T>) { unimplemented!() }
}
pub fn vx_iter<T, I: VxIntoIter<T>>(i: I) -> (r: VxIt<T>)
    ensures r.pos() == 0, r.all() == i.vx_seq(),
{ i.vx_into() }

// ------------------------------------------------------------------------------------------
// nuts-rs facade: the storage traits of src/storage/core.rs.  Verus rejects requires/ensures on trait-impl
// methods: the per-impl contract is supplied by the ghost items spliced into the extracted impls
// (impl_extra*.rs), which delegate to the spec functions of lemmas.rs.
// ------------------------------------------------------------------------------------------
pub trait ChainStorage: Sized {
    type Finalized;

    spec fn record_sample_pre(&self, stats: Seq<(&str, Option<Value>)>, draws: Seq<(&str, Option<Value>)>, info: &Progress) -> bool;
    spec fn record_sample_post(&self, post: &Self, stats: Seq<(&str, Option<Value>)>, draws: Seq<(&str, Option<Value>)>, info: &Progress, r: Result<()>) -> bool;
    fn record_sample(
        &mut self,
        settings: &impl Settings,
        stats: Vec<(&str, Option<Value>)>,
        draws: Vec<(&str, Option<Value>)>,
        info: &Progress,
    ) -> (r: Result<()>)
        requires old(self).record_sample_pre(stats@, draws@, info)
        ensures old(self).record_sample_post(final(self), stats@, draws@, info, r);

    spec fn finalize_pre(&self) -> bool;
    spec fn finalize_post(&self, r: Result<Self::Finalized>) -> bool;
    fn finalize(self) -> (r: Result<Self::Finalized>)
        requires self.finalize_pre()
        ensures self.finalize_post(r);

    spec fn inspect_pre(&self) -> bool;
    spec fn inspect_post(&self, r: Result<Option<Self::Finalized>>) -> bool;
    fn inspect(&self) -> (r: Result<Option<Self::Finalized>>)
        requires self.inspect_pre()
        ensures self.inspect_post(r);

    spec fn flush_post(&self, r: Result<()>) -> bool;
    fn flush(&self) -> (r: Result<()>)
        ensures self.flush_post(r);
}

// ------------------------------------------------------------------------------------------
// A-str-eq: std's `impl PartialEq<&mut B> for &A` / `impl PartialEq<&B> for &A` compare the referents, and
// str / String equality is equality of the character sequences (vstd leaves the reference impls unspecified)
// ------------------------------------------------------------------------------------------
pub open spec fn mut_cur<T>(x: &mut T) -> T { *x }
pub broadcast axiom fn ax_str_eq_mut_string_obeys()
    ensures #[trigger] <&str as PartialEqSpec<&mut String>>::obeys_eq_spec();
pub broadcast axiom fn ax_str_eq_mut_string(a: &&str, b: &&mut String)
    ensures #[trigger] <&str as PartialEqSpec<&mut String>>::eq_spec(a, b) == (a@ == mut_cur(*b)@);
pub broadcast axiom fn ax_string_ref_eq_obeys()
    ensures #[trigger] <&String as PartialEqSpec<&String>>::obeys_eq_spec();
pub broadcast axiom fn ax_string_ref_eq(a: &&String, b: &&String)
    ensures #[trigger] <&String as PartialEqSpec<&String>>::eq_spec(a, b) == (a@ == b@);
/// `&&str == &mut String` (`next_if(|(name, _)| name == expected_name)` of the patched record_sample)
pub broadcast axiom fn ax_strref_eq_mut_string_obeys()
    ensures #[trigger] <&&str as PartialEqSpec<&mut String>>::obeys_eq_spec();
pub broadcast axiom fn ax_strref_eq_mut_string(a: &&&str, b: &&mut String)
    ensures #[trigger] <&&str as PartialEqSpec<&mut String>>::eq_spec(a, b) == (a@ == mut_cur(*b)@);
pub broadcast group group_str_eq {
    ax_str_eq_mut_string_obeys, ax_str_eq_mut_string, ax_string_ref_eq_obeys, ax_string_ref_eq,
    ax_strref_eq_mut_string_obeys, ax_strref_eq_mut_string,
}

// ------------------------------------------------------------------------------------------
// string / metadata scaffolding of create_field_with_shape (A-fmt: the metadata TEXT is not modelled; what is
// kept is that these calls neither fail nor panic).  R9.method: to_string -> vx_to_string, join -> vx_join,
// cloned -> vx_cloned.
// ------------------------------------------------------------------------------------------
pub trait VxToString {
    fn vx_to_string(&self) -> (r: String);
}
impl VxToString for str {
    #[verifier::external_body]
    fn vx_to_string(&self) -> (r: String) { unimplemented!() }
}
impl VxToString for u64 {
    #[verifier::external_body]
    fn vx_to_string(&self) -> (r: String) { unimplemented!() }
}
pub trait VxJoin {
    fn vx_join(&self, sep: &str) -> (r: String);
}
impl VxJoin for Vec<String> {
    #[verifier::external_body]
    fn vx_join(&self, sep: &str) -> (r: String) { unimplemented!() }
}
impl<'a, T: Clone> VxIt<&'a T> {
    /// `Iterator::cloned` (content not modelled: only used to build metadata text)
    #[verifier::external_body]
    pub fn vx_cloned(self) -> (r: VxIt<T>)
        ensures r.pos() == 0, r.all().len() == self.all().len(),
    { unimplemented!() }
}
/// `Iterator::collect` directly on an iterator
pub trait VxFromSeq<T>: Sized {
    spec fn collected_seq(src: Seq<T>, r: Self) -> bool;
}
impl<T> VxFromSeq<T> for Vec<T> {
    open spec fn collected_seq(src: Seq<T>, r: Self) -> bool { r@ == src }
}
impl<T> VxIt<T> {
    #[verifier::external_body]
    pub fn vx_collect<C: VxFromSeq<T>>(self) -> (r: C)
        requires self.pos() == 0,
        ensures C::collected_seq(self.all(), r),
    { unimplemented!() }
}
/// `Option::map` (R9.method renames every `.map(..)`): the std function, with vstd's specification
pub trait VxOptionMap<T>: Sized {
    fn vx_map<U, F: FnOnce(T) -> U>(self, f: F) -> (r: Option<U>)
        requires self.vx_opt() is Some ==> f.requires((self.vx_opt()->Some_0,)),
        ensures
            self.vx_opt() is None ==> r is None,
            self.vx_opt() is Some ==> r is Some && f.ensures((self.vx_opt()->Some_0,), r->Some_0);
    spec fn vx_opt(&self) -> Option<T>;
}
impl<T> VxOptionMap<T> for Option<T> {
    open spec fn vx_opt(&self) -> Option<T> { *self }
    fn vx_map<U, F: FnOnce(T) -> U>(self, f: F) -> (r: Option<U>) { self.map(f) }
}
impl HashMap<String, String> {
    /// `HashMap::from([(k, v); N])` (content not modelled)
    #[verifier::external_body]
    pub fn from<const N: usize>(a: [(String, String); N]) -> (r: Self) { unimplemented!() }
    #[verifier::external_body]
    pub fn insert(&mut self, k: String, v: String) -> (r: Option<String>) { unimplemented!() }
}

// ------------------------------------------------------------------------------------------
// A-std-misc: std functions without a vstd specification (text follows the documented behaviour)
// ------------------------------------------------------------------------------------------
pub assume_specification<'a, T: Copy>[Option::<&'a T>::copied](o: Option<&'a T>) -> (r: Option<T>)
    ensures
        o is None ==> r is None,
        o is Some ==> r == Some(*o->Some_0);
/// `Option<T>::as_deref()` (used as `Option<String> -> Option<&str>` for the event dimension: metadata only)
pub assume_specification<T: core::ops::Deref>[Option::<T>::as_deref](o: &Option<T>) -> (r: Option<&<T as core::ops::Deref>::Target>)
    ensures (*o is None) == (r is None);

/// nuts_rs::storage::TraceStorage (src/storage/core.rs)
pub trait TraceStorage: Sized {
    type ChainStorage: ChainStorage;
    type Finalized;

    spec fn init_pre(&self, chain_id: u64) -> bool;
    spec fn init_post(&self, chain_id: u64, r: Result<Self::ChainStorage>) -> bool;
    fn initialize_trace_for_chain(&self, chain_id: u64) -> (r: Result<Self::ChainStorage>)
        requires self.init_pre(chain_id)
        ensures self.init_post(chain_id, r);

    spec fn finalize_post(&self, traces: Seq<Result<<Self::ChainStorage as ChainStorage>::Finalized>>, r: Result<(Option<anyhow::Error>, Self::Finalized)>) -> bool;
    fn finalize(
        self,
        traces: Vec<Result<<Self::ChainStorage as ChainStorage>::Finalized>>,
    ) -> (r: Result<(Option<anyhow::Error>, Self::Finalized)>)
        ensures self.finalize_post(traces@, r);

    spec fn inspect_post(&self, traces: Seq<Result<Option<<Self::ChainStorage as ChainStorage>::Finalized>>>, r: Result<(Option<anyhow::Error>, Self::Finalized)>) -> bool;
    fn inspect(
        &self,
        traces: Vec<Result<Option<<Self::ChainStorage as ChainStorage>::Finalized>>>,
    ) -> (r: Result<(Option<anyhow::Error>, Self::Finalized)>)
        ensures self.inspect_post(traces@, r);
}
/// nuts_rs::storage::StorageConfig (`settings: &impl Settings` in the source; R7.impltrait names the type parameter)
pub trait StorageConfig: Sized {
    type Storage;
    spec fn new_trace_pre<M: Math, S: Settings>(&self, settings: &S, math: &M) -> bool;
    spec fn new_trace_post<M: Math, S: Settings>(&self, settings: &S, math: &M, r: Result<Self::Storage>) -> bool;
    fn new_trace<M: Math, VxImpl0: Settings>(self, settings: &VxImpl0, math: &M) -> (r: Result<Self::Storage>)
        requires self.new_trace_pre(settings, math)
        ensures self.new_trace_post(settings, math, r);
}

// ------------------------------------------------------------------------------------------
// A-schema: crate::Math / crate::Settings as far as new_trace uses them
// ------------------------------------------------------------------------------------------
/// one declared variable: name, element type, dimension names, event dimension
pub struct VarDecl { pub name: Seq<char>, pub ty: ItemType, pub dims: Seq<Seq<char>>, pub event: Option<Seq<char>> }
pub open spec fn types_are(v: Seq<(String, ItemType)>, schema: Seq<VarDecl>) -> bool {
    &&& v.len() == schema.len()
    &&& forall|i: int| 0 <= i < v.len() ==> (#[trigger] v[i]).0@ == schema[i].name && v[i].1 == schema[i].ty
}
pub open spec fn str_seq(v: Seq<String>) -> Seq<Seq<char>> { Seq::new(v.len(), |i: int| v[i]@) }
pub open spec fn dims_are(v: Seq<(String, Vec<String>)>, schema: Seq<VarDecl>) -> bool {
    &&& v.len() == schema.len()
    &&& forall|i: int| 0 <= i < v.len() ==> (#[trigger] v[i]).0@ == schema[i].name && str_seq(v[i].1@) == schema[i].dims
}
pub trait Math: Sized {
    /// the model's dimension table (`HasDims::dim_sizes`)
    spec fn dim_sizes_spec(&self) -> Map<Seq<char>, u64>;
    fn dim_sizes(&self) -> (r: HashMap<String, u64>)
        ensures r@ == self.dim_sizes_spec();
}
pub trait Settings: Sized {
    spec fn num_tune_spec(&self) -> usize;
    spec fn num_draws_spec(&self) -> usize;
    /// the statistics schema / the draw-variable schema in declaration order (`Storable::names` order)
    spec fn stat_schema<M: Math>(&self, math: &M) -> Seq<VarDecl>;
    spec fn data_schema<M: Math>(&self, math: &M) -> Seq<VarDecl>;
    spec fn stat_sizes_spec<M: Math>(&self, math: &M) -> Map<Seq<char>, u64>;

    fn hint_num_tune(&self) -> (r: usize) ensures r == self.num_tune_spec();
    fn hint_num_draws(&self) -> (r: usize) ensures r == self.num_draws_spec();
    fn stat_types<M: Math>(&self, math: &M) -> (r: Vec<(String, ItemType)>)
        ensures types_are(r@, self.stat_schema(math));
    fn data_types<M: Math>(&self, math: &M) -> (r: Vec<(String, ItemType)>)
        ensures types_are(r@, self.data_schema(math));
    fn stat_dims_all<M: Math>(&self, math: &M) -> (r: Vec<(String, Vec<String>)>)
        ensures dims_are(r@, self.stat_schema(math));
    fn data_dims_all<M: Math>(&self, math: &M) -> (r: Vec<(String, Vec<String>)>)
        ensures dims_are(r@, self.data_schema(math));
    fn stat_dim_sizes<M: Math>(&self, math: &M) -> (r: HashMap<String, u64>)
        ensures r@ == self.stat_sizes_spec(math);
    fn stat_event_dims<M: Math>(&self, math: &M) -> (r: Vec<(String, Option<String>)>)
        ensures r@.len() == self.stat_schema(math).len();
}
/// `usize::try_into::<usize>()` (R9.method try_into -> vx_try_into): the infallible identity conversion
pub trait VxTryInto: Sized {
    fn vx_try_into(self) -> (r: core::result::Result<usize, core::convert::Infallible>)
        ensures r is Ok, r->Ok_0 == self.vx_usize();
    spec fn vx_usize(&self) -> usize;
}
impl VxTryInto for usize {
    open spec fn vx_usize(&self) -> usize { *self }
    #[verifier::external_body]
    fn vx_try_into(self) -> (r: core::result::Result<usize, core::convert::Infallible>) { unimplemented!() }
}
/// `assert_eq!(a, b, "msg")` of ArrowChainStorage::new: `assert!(a == b)` (shadows std's macro; the message is dropped)
macro_rules! assert_eq {
    ($a:expr, $b:expr $(, $($rest:tt)*)?) => { assert!($a == $b) };
}
/// `<[T]>::to_vec`: a vector with equal elements (the element types here are String / ItemType / Vec<String> /
/// Option<String> records whose clones are equal values)
pub assume_specification<T: Clone>[<[T]>::to_vec](s: &[T]) -> (r: Vec<T>)
    ensures r@ == s@;
