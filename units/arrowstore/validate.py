#!/usr/bin/env python3
"""validate.py <model> <edits.json> [worktree] [patch-file|-]     (dev validation of unit arrowstore; same scheme as units
ndstore / csvstore)

  1. scratch worktree of /repo HEAD (default /tmp/ar1; created if missing and then removed at the end; an existing
     worktree is used as it is and left in place), optionally `git apply <patch>` (candidate fix of a finding; it is
     reverted at the end)
  2. baseline run (must verify), one `ensures false` / `assert(false)` vacuity mutant per contract
  3. every edit of <edits.json> {name, file, old, new, expect: "fail"|"pass", count?, nth?, in?} is applied ALONE, the
     unit is run with VERIF_REPO=<worktree> (exactly what `VERIF_REPO=/tmp/ar1 ./vxrun arrowstore <model>` does), the
     outcome is compared and, for `expect: fail`, a DEFINITE failure must be reported in the function named by `in`.
$VX_EXTRACT selects the extractor binary (model I needs extractor_foriter_snapshot.patch).
Nothing is written outside /tmp and /verif/build; results go to stdout (kept in validation_result*.txt).
    model I     : python3 validate.py I validation_edits.json /tmp/ar1 finding_positional_zip.patch
    model Ipos  : python3 validate.py Ipos validation_edits_pos.json /tmp/ar1 -
"""
import json, os, subprocess, sys
VERIF = os.path.dirname(os.path.dirname(os.path.dirname(os.path.abspath(__file__))))
sys.path.insert(0, VERIF)
unit = "arrowstore"
model = sys.argv[1]
edits_file = sys.argv[2]
wt = sys.argv[3] if len(sys.argv) > 3 else "/tmp/ar1"
patch = sys.argv[4] if len(sys.argv) > 4 else "-"
here = os.path.dirname(os.path.abspath(__file__))
created = False
if not os.path.isdir(wt):
    subprocess.run(["git", "-C", "/repo", "worktree", "add", "-q", wt, "HEAD"], check=True)
    created = True
rows = []
try:
    if patch != "-":
        subprocess.run(["git", "-C", wt, "apply", os.path.abspath(patch)], check=True)
    os.environ["VERIF_REPO"] = wt
    from vx import core
    core.REPO = wt
    if os.environ.get("VX_EXTRACT"):
        core.EXTRACT = os.environ["VX_EXTRACT"]

    def run(tag, mutate_false=None):
        try:
            g = core.build(unit, model, repo=wt, mutate_false=mutate_false, tag="_val%d%s" % (os.getpid(), tag))
        except core.UnitError as e:
            return "undecided", ["UNIT ERROR: " + str(e)[:300]], set()
        r = core.run_verus(g.path)
        os.remove(g.path)
        if r.fatal:
            return "undecided", ["verus fatal: " + r.fatal[:600]], set()
        fails = core.attribute(g, r)
        if fails:
            # as in vx/judge.py only a DEFINITE verifier message counts as a failure (rlimit / timeout = undecided)
            definite = [f for f in fails if f["kind"] == "definite"]
            msgs = sorted({"%s: %s %s" % (f["name"], f["message"], f.get("clause_tags") or "") for f in fails})
            return ("fail" if definite else "undecided"), msgs, {f["name"] for f in definite}
        return "pass", ["verified %s" % r.summary.get("verified")], set()

    st, info, _ = run("b")
    rows.append(("baseline", "pass", st, info))
    cfg = core.load_unit(unit)
    contracts = {}
    for vs in cfg["models"][model]["vspec"]:
        contracts.update(core.parse_vspec(os.path.join(cfg["_dir"], vs)))
    for k in contracts:
        st, info, _ = run("v", mutate_false=k)
        rows.append(("vacuity: `ensures false` / `assert(false)` on " + k, "fail", st, info))
    for e in json.load(open(os.path.join(here, edits_file))):
        p = os.path.join(wt, e["file"])
        s = open(p).read()
        n = s.count(e["old"])
        if n != e.get("count", 1):
            rows.append((e["name"], e["expect"], "undecided", ["old text occurs %d times" % n]))
            continue
        if "nth" in e:  # replace only the nth (0-based) occurrence
            parts = s.split(e["old"])
            k = e["nth"] + 1
            t = e["old"].join(parts[:k]) + e["new"] + e["old"].join(parts[k:])
        else:
            t = s.replace(e["old"], e["new"])
        open(p, "w").write(t)
        try:
            st, info, where = run("e")
        finally:
            open(p, "w").write(s)
        if st == "fail" and e.get("in") and e["in"] not in where:
            st = "fail-elsewhere"
        rows.append((e["name"], e["expect"], st, info))
finally:
    if patch != "-":
        subprocess.run(["git", "-C", wt, "apply", "-R", os.path.abspath(patch)])
    if created:
        subprocess.run(["git", "-C", "/repo", "worktree", "remove", "--force", wt])
bad = 0
for name, exp, got, info in rows:
    ok = "OK " if exp == got else "BAD"
    bad += exp != got
    print("%s %-86s expect=%-4s got=%-9s %s" % (ok, name, exp, got, "; ".join(info)[:330]))
sys.exit(1 if bad else 0)
