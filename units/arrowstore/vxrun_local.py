#!/usr/bin/env python3
"""vxrun_local.py [model] [--fn Type::name] [--expand]   = /verif/vxrun arrowstore <model>, with the extractor binary
taken from $VX_EXTRACT when set (model I needs rules.foriter_snapshot of extractor_foriter_snapshot.patch; until that
patch is applied to tools/vx-extract, build a private copy and point VX_EXTRACT at it).  VERIF_REPO as usual."""
import os, sys
VERIF = os.path.dirname(os.path.dirname(os.path.dirname(os.path.abspath(__file__))))
sys.path.insert(0, VERIF)
from vx import core
if os.environ.get("VX_EXTRACT"):
    core.EXTRACT = os.environ["VX_EXTRACT"]
model = sys.argv[1] if len(sys.argv) > 1 and not sys.argv[1].startswith('-') else 'I'
vf = sys.argv[sys.argv.index('--fn') + 1] if '--fn' in sys.argv else None
try:
    g = core.build("arrowstore", model)
except core.UnitError as e:
    print("UNIT ERROR:", e); sys.exit(2)
r = core.run_verus(g.path, verify_function=vf, extra=(['--expand-errors'] if '--expand' in sys.argv else None))
if r.fatal:
    print(r.fatal[:8000]); sys.exit(2)
print(r.summary, "wall %.1fs" % r.wall_s)
fails = core.attribute(g, r)
for f in fails[:14]:
    print("----", f['owner'], f['name'], f['kind'], f.get('src'), f.get('clause_tags'))
    print(f['rendered'][:(6000 if '--expand' in sys.argv else 1500)])
sys.exit(1 if fails else 0)
