    // ghost items spliced into `impl Chain<M> for NutsChain<M, R, A>` (rule R1: contracts)
    open spec fn set_position_pre(&self, position: &[F]) -> bool { nc_setpos_pre(*self) }
    open spec fn set_position_post(&self, post: &Self, position: &[F], r: Result<()>) -> bool { nc_setpos_post(*self, *post, r) }
    open spec fn draw_pre(&self) -> bool { nc_draw_pre(*self) }
    open spec fn draw_post(&self, post: &Self, r: Result<(Box<[F]>, Progress)>) -> bool { nc_draw_post(*self, *post, r) }
    open spec fn expanded_draw_pre(&self) -> bool { nc_exp_pre(*self) }
    open spec fn expanded_draw_post(&self, post: &Self, r: Result<(Box<[F]>, M::ExpandedVector, Self::Stats, Progress)>) -> bool { nc_exp_post(*self, *post, r) }
