    // ghost items spliced into `impl SamplerStats<M> for NutsChain<M, R, A>`
    open spec fn stats_pre(&self, dim: nat, opt: Self::StatsOptions) -> bool { nc_stats_pre(*self, dim, opt) }
    open spec fn stats_post(&self, dim: nat, opt: Self::StatsOptions, r: Self::Stats) -> bool { nc_stats_post(*self, dim, opt, r) }
