// =====================================================================================
// vocabulary of unit `nuts` that the contract of `nuts::draw` (prelude.rs) refers to -- SAME TEXT as
// units/nuts/lemmas.rs (pow2, has, dir_sample_post, draw_post)
// =====================================================================================
//@include ../_shared/nuts_post.rs

// =====================================================================================
// Chain-level specification, written from the statements of C03 (.5), C05 (.5), C06 (.3), C16 (.1, .2)
// =====================================================================================

/// the part of unit stats' `div_stats_post` that does not look inside DivergenceInfo: the flag and the identifying
/// draw field follow `info`
pub open spec fn chain_div_post(info: Option<&DivergenceInfo>, opts: DivergenceStatsOptions, draw: u64, r: DivergenceStats) -> bool {
    &&& r.diverging == info is Some
    &&& r.divergence_draw == (if info is Some { Some(draw) } else { None::<u64> })
    &&& (r.divergence_message is Some == info is Some)
}

/// helper preconditions of `nuts::draw` (from unit nuts)
pub open spec fn nuts_opts_ok(o: NutsOptions, step: real) -> bool {
    &&& o.maxdepth as int + o.extra_doublings as int <= 60
    &&& (o.target_integration_time is Some ==> o.target_integration_time->Some_0.r() > 0real && step > 0real)
}

// ---- set_position ----------------------------------------------------------------------------------------
pub open spec fn nc_setpos_pre<M: Math, R: rand::Rng, A: AdaptStrategy<M>>(c: NutsChain<M, R, A>) -> bool {
    c.strategy.init_pre()
}
/// [C05.5] `Err` of `strategy.init` / `init_state` propagates: the call returns Ok only if `init` was called once and
/// returned Ok (and `init_state` produced the state that is now the chain's state -- it cannot be made up)
pub open spec fn nc_setpos_post<M: Math, R: rand::Rng, A: AdaptStrategy<M>>(c0: NutsChain<M, R, A>, c1: NutsChain<M, R, A>, r: Result<()>) -> bool {
    &&& c1.chain == c0.chain && c1.draw_count == c0.draw_count && c1.options == c0.options
    &&& c1.last_info == c0.last_info && c1.stats_options == c0.stats_options
    &&& c1.strategy.tuning_view() == c0.strategy.tuning_view() && c1.strategy.num_tune_view() == c0.strategy.num_tune_view()
    // exactly one call of init; its failure is the call's failure
    &&& exists|ok: bool| #[trigger] c1.strategy.calls() == c0.strategy.calls().push(StratEv::Init(ok)) && (r is Ok ==> ok)
    &&& (r is Ok ==> c1.strategy.inv(0))
}

// ---- draw -------------------------------------------------------------------------------------------------
pub open spec fn nc_draw_pre<M: Math, R: rand::Rng, A: AdaptStrategy<M>>(c: NutsChain<M, R, A>) -> bool {
    &&& nuts_opts_ok(c.options, c.hamiltonian.step())
    // precondition of AdaptStrategy::adapt for draw index draw_count (unit adapt: gs_adapt_pre)
    &&& c.strategy.inv(c.draw_count) && c.draw_count < 0xffff_ffff_ffff_fff0
}
/// configuration never touched by a draw
pub open spec fn nd_frame<M: Math, R: rand::Rng, A: AdaptStrategy<M>>(c0: NutsChain<M, R, A>, c1: NutsChain<M, R, A>) -> bool {
    &&& c1.chain == c0.chain                                          // [C16.2] chain id constant
    &&& c1.options == c0.options
    &&& c1.stats_options == c0.stats_options
    &&& c1.strategy.num_tune_view() == c0.strategy.num_tune_view()
}
/// [C03.5] the state returned by nuts::draw (the one handed to `register_draw`) is stored in `self.state` -- the next
/// trajectory starts from it -- and the returned position is written from it; `last_info` is the info of this trajectory
pub open spec fn nd_state<M: Math, R: rand::Rng, A: AdaptStrategy<M>>(c0: NutsChain<M, R, A>, c1: NutsChain<M, R, A>, position: Box<[F]>, dim: nat) -> bool {
    &&& c1.collector.draws() == c0.collector.draws().push(c1.state.view())
    &&& c1.last_info is Some
    &&& draw_post(c1.state.view(), c1.last_info->0, c1.collector.traj()[0], c1.collector.traj(), c1.collector.leapfrogs(), c1.collector.divs(), dim, c0.options)
    &&& position@.len() == dim
    &&& (c1.state.view().x.len() == dim ==> fvals(position@) == c1.state.view().x)
}
/// [C16.2] draw counters increase by one per draw; [C03.5] `adapt` is called exactly once, with the OLD draw_count
pub open spec fn nd_count<M: Math, R: rand::Rng, A: AdaptStrategy<M>>(c0: NutsChain<M, R, A>, c1: NutsChain<M, R, A>, p: Progress) -> bool {
    &&& c1.draw_count == c0.draw_count + 1
    &&& p.draw == c0.draw_count
    &&& p.chain == c0.chain
    &&& c1.strategy.calls() == c0.strategy.calls().push(StratEv::Adapt(c0.draw_count, true))
}
/// [C06.3] the flag handed to the caller is the strategy's flag AFTER adapt(), i.e. draw index < num_tune
pub open spec fn nd_tuning<M: Math, R: rand::Rng, A: AdaptStrategy<M>>(c0: NutsChain<M, R, A>, c1: NutsChain<M, R, A>, p: Progress) -> bool {
    &&& p.tuning == c1.strategy.tuning_view()
    &&& p.tuning == (c0.strategy.tuning_view() && c0.draw_count < c0.strategy.num_tune_view())
}
/// the remaining Progress fields: divergence flag of THIS trajectory, step size / step count after adaptation
pub open spec fn nd_progress<M: Math, R: rand::Rng, A: AdaptStrategy<M>>(c1: NutsChain<M, R, A>, p: Progress) -> bool {
    &&& p.diverging == (c1.last_info->0.divergence_info is Some)
    &&& p.step_size.r() == c1.hamiltonian.step()
    &&& p.num_steps == c1.strategy.last_steps_view()
}
/// [C05.5] an error of `nuts::draw` or of `adapt` is the call's error; nothing is counted for a failed draw
pub open spec fn nd_err<M: Math, R: rand::Rng, A: AdaptStrategy<M>>(c0: NutsChain<M, R, A>, c1: NutsChain<M, R, A>) -> bool {
    &&& c1.draw_count == c0.draw_count
    &&& c1.last_info == c0.last_info
    // either nuts::draw failed (no draw registered, adapt not called) or adapt failed (called once, with the old draw_count)
    &&& ((c1.collector.draws() == c0.collector.draws() && c1.strategy.calls() == c0.strategy.calls())
         || (c1.collector.draws().len() == c0.collector.draws().len() + 1
             && c1.strategy.calls() == c0.strategy.calls().push(StratEv::Adapt(c0.draw_count, false))))
}
pub open spec fn nc_draw_post<M: Math, R: rand::Rng, A: AdaptStrategy<M>>(c0: NutsChain<M, R, A>, c1: NutsChain<M, R, A>, r: Result<(Box<[F]>, Progress)>) -> bool {
    &&& nd_frame(c0, c1)
    &&& (r is Ok ==> {
            let position = r->Ok_0.0; let progress = r->Ok_0.1;
            &&& exists|dim: nat| #[trigger] nd_state(c0, c1, position, dim)
            &&& nd_count(c0, c1, progress)
            &&& nd_tuning(c0, c1, progress)
            &&& nd_progress(c1, progress)
            // the precondition of the next adapt call
            &&& c1.strategy.inv(c1.draw_count)
        })
    &&& (r is Err ==> nd_err(c0, c1))
}
/// with the default options (no target integration time) a successful draw re-establishes the precondition of the
/// next one, as long as the counter stays in range
pub proof fn lemma_draw_pre_reestablished<M: Math, R: rand::Rng, A: AdaptStrategy<M>>(c0: NutsChain<M, R, A>, c1: NutsChain<M, R, A>, r: Result<(Box<[F]>, Progress)>)
    requires nc_draw_pre(c0), nc_draw_post(c0, c1, r), r is Ok, c0.options.target_integration_time is None,
             c1.draw_count < 0xffff_ffff_ffff_fff0,
    ensures nc_draw_pre(c1)
{
}

// ---- extract_stats ------------------------------------------------------------------------------------------
/// the `.expect("Sampler has not started")` is a stated precondition; the components' own preconditions are passed on
pub open spec fn nc_stats_pre<M: Math, R: rand::Rng, A: AdaptStrategy<M>>(c: NutsChain<M, R, A>, dim: nat, o: StatOptions<M, A>) -> bool {
    &&& c.last_info is Some
    &&& c.hamiltonian.stats_pre(dim, o.hamiltonian)
    &&& c.strategy.stats_pre(dim, o.adapt)
    &&& forall|p: <A::Hamiltonian as Hamiltonian<M>>::Point| #[trigger] p.stats_pre(dim, o.point)
}
/// `ps` are the statistics of a point whose view is `v`
pub open spec fn point_stats_of<M: Math, P: Point<M> + SamplerStats<M>>(v: StateView, dim: nat, o: P::StatsOptions, ps: P::Stats) -> bool {
    exists|p: P| p.pview() == v && #[trigger] p.stats_post(dim, o, ps)
}
/// [C03.5 C16.2] depth / maxdepth_reached / divergence from `last_info`, point statistics from `self.state.point()`,
/// `draw` = draw_count, `chain` = chain
pub open spec fn nc_stats_post<M: Math, R: rand::Rng, A: AdaptStrategy<M>>(c: NutsChain<M, R, A>, dim: nat, o: StatOptions<M, A>,
    r: NutsStats<StatsDims, <A::Hamiltonian as SamplerStats<M>>::Stats, A::Stats, <<A::Hamiltonian as Hamiltonian<M>>::Point as SamplerStats<M>>::Stats>) -> bool
{
    let info = c.last_info->0;
    &&& r.depth == info.depth                                   // [C03.5]
    &&& r.maxdepth_reached == info.reached_maxdepth             // [C03.5]
    &&& r.chain == c.chain                                      // [C16.2]
    &&& r.draw == c.draw_count                                  // [C16.2]
    &&& c.hamiltonian.stats_post(dim, o.hamiltonian, r.hamiltonian)
    &&& c.strategy.stats_post(dim, o.adapt, r.adapt)
    // [C03.5] the point statistics are those of a point whose view is the view of the chain's state
    &&& point_stats_of::<M, <A::Hamiltonian as Hamiltonian<M>>::Point>(c.state.view(), dim, o.point, r.point)
    // [C03.5 C16.1] divergence statistics from last_info, stamped with draw_count
    &&& r.divergence.diverging == (info.divergence_info is Some)
    &&& r.divergence.divergence_draw == (if info.divergence_info is Some { Some(c.draw_count) } else { None::<u64> })
    &&& (r.divergence.divergence_message is Some == info.divergence_info is Some)
}

// ---- expanded_draw -------------------------------------------------------------------------------------------
/// extract_stats of the components is total (true for TransformedHamiltonian over DiagMassMatrix and for
/// TransformedPoint, see unit stats; for GlobalStrategy it is `strat_wf(step_size)`, part of gs_inv)
pub open spec fn stats_total<M: Math, R: rand::Rng, A: AdaptStrategy<M>>() -> bool {
    &&& forall|h: A::Hamiltonian, dim: nat, o: <A::Hamiltonian as SamplerStats<M>>::StatsOptions| #[trigger] h.stats_pre(dim, o)
    &&& forall|p: <A::Hamiltonian as Hamiltonian<M>>::Point, dim: nat, o: <<A::Hamiltonian as Hamiltonian<M>>::Point as SamplerStats<M>>::StatsOptions| #[trigger] p.stats_pre(dim, o)
    &&& forall|s: A, d: u64, dim: nat, o: A::StatsOptions| #![trigger s.inv(d), s.stats_pre(dim, o)] s.inv(d) ==> s.stats_pre(dim, o)
}
pub open spec fn nc_exp_pre<M: Math, R: rand::Rng, A: AdaptStrategy<M>>(c: NutsChain<M, R, A>) -> bool {
    nc_draw_pre(c) && stats_total::<M, R, A>()
}
/// what expanded_draw does after the draw: statistics of the chain as the draw left it (so `last_info` is Some: the
/// `.expect` cannot fire), then the Hamiltonian's options for the NEXT extraction
pub open spec fn ne_mid<M: Math, R: rand::Rng, A: AdaptStrategy<M>>(c0: NutsChain<M, R, A>, mid: NutsChain<M, R, A>, c1: NutsChain<M, R, A>,
    position: Box<[F]>, stats: NutsStats<StatsDims, <A::Hamiltonian as SamplerStats<M>>::Stats, A::Stats, <<A::Hamiltonian as Hamiltonian<M>>::Point as SamplerStats<M>>::Stats>,
    progress: Progress, dim: nat) -> bool
{
    &&& nc_draw_post(c0, mid, Ok((position, progress)))
    &&& nc_stats_post(mid, dim, mid.stats_options, stats)
    // [C16.1] the id reported next time is compared with the one the Hamiltonian hands out now
    &&& mid.hamiltonian.uso_post(&c1.hamiltonian, mid.stats_options.hamiltonian, c1.stats_options.hamiltonian)
    &&& c1.stats_options.adapt == mid.stats_options.adapt && c1.stats_options.point == mid.stats_options.point
    &&& c1.stats_options.divergence == mid.stats_options.divergence
    &&& c1.hamiltonian.step() == mid.hamiltonian.step() && c1.hamiltonian.trans() == mid.hamiltonian.trans()
    &&& c1.strategy == mid.strategy && c1.state == mid.state && c1.last_info == mid.last_info
    &&& c1.draw_count == mid.draw_count && c1.chain == mid.chain && c1.options == mid.options && c1.collector == mid.collector
}
pub open spec fn nc_exp_post<M: Math, R: rand::Rng, A: AdaptStrategy<M>>(c0: NutsChain<M, R, A>, c1: NutsChain<M, R, A>,
    r: Result<(Box<[F]>, M::ExpandedVector, NutsStats<StatsDims, <A::Hamiltonian as SamplerStats<M>>::Stats, A::Stats, <<A::Hamiltonian as Hamiltonian<M>>::Point as SamplerStats<M>>::Stats>, Progress)>) -> bool
{
    &&& c1.chain == c0.chain
    &&& (r is Ok ==> exists|mid: NutsChain<M, R, A>, dim: nat| #[trigger] ne_mid(c0, mid, c1, r->Ok_0.0, r->Ok_0.2, r->Ok_0.3, dim))
}
/// [C16.2] the `draw` statistic of the k-th expanded draw is the counter AFTER that draw (k+1) while Progress.draw is k;
/// both increase by one per draw
// [C16.2]
pub proof fn lemma_stats_draw_counter<M: Math, R: rand::Rng, A: AdaptStrategy<M>>(c0: NutsChain<M, R, A>, c1: NutsChain<M, R, A>,
    r: Result<(Box<[F]>, M::ExpandedVector, NutsStats<StatsDims, <A::Hamiltonian as SamplerStats<M>>::Stats, A::Stats, <<A::Hamiltonian as Hamiltonian<M>>::Point as SamplerStats<M>>::Stats>, Progress)>)
    requires nc_exp_post(c0, c1, r), r is Ok
    ensures
        r->Ok_0.3.draw == c0.draw_count, r->Ok_0.2.draw == c0.draw_count + 1, c1.draw_count == c0.draw_count + 1,
        r->Ok_0.3.chain == c0.chain, r->Ok_0.2.chain == c0.chain, c1.chain == c0.chain,
        // [C16.1] a divergence event carries the same counter
        r->Ok_0.2.divergence.divergence_draw is Some ==> r->Ok_0.2.divergence.divergence_draw == Some(r->Ok_0.2.draw),
        r->Ok_0.2.divergence.diverging == r->Ok_0.3.diverging,
{
    let (mid, dim) = choose|mid: NutsChain<M, R, A>, dim: nat| #[trigger] ne_mid(c0, mid, c1, r->Ok_0.0, r->Ok_0.2, r->Ok_0.3, dim);
    assert(ne_mid(c0, mid, c1, r->Ok_0.0, r->Ok_0.2, r->Ok_0.3, dim));
}

// ---- inductive lemmas over draw indices ------------------------------------------------------------------
/// what the lemmas need of a chain between two draws
pub struct ChainView { pub draw_count: int, pub chain: int, pub tuning: bool, pub num_tune: int }
pub open spec fn chain_view<M: Math, R: rand::Rng, A: AdaptStrategy<M>>(c: NutsChain<M, R, A>) -> ChainView {
    ChainView { draw_count: c.draw_count as int, chain: c.chain as int, tuning: c.strategy.tuning_view(), num_tune: c.strategy.num_tune_view() as int }
}
/// one successful draw, as nc_draw_post states it (nd_frame, nd_count, nd_tuning) on views; `p` is the Progress returned
pub open spec fn draw_step(a: ChainView, b: ChainView, p: Progress) -> bool {
    &&& b.draw_count == a.draw_count + 1 && b.chain == a.chain && b.num_tune == a.num_tune
    &&& b.tuning == (a.tuning && a.draw_count < a.num_tune)
    &&& p.tuning == b.tuning
    &&& p.draw == a.draw_count && p.chain == a.chain
}
/// the contract proved for `NutsChain::draw` is the step relation the inductive lemma is about
// [C06.3 C16.2]
pub proof fn lemma_post_is_step<M: Math, R: rand::Rng, A: AdaptStrategy<M>>(c0: NutsChain<M, R, A>, c1: NutsChain<M, R, A>, r: Result<(Box<[F]>, Progress)>)
    requires nc_draw_pre(c0), nc_draw_post(c0, c1, r), r is Ok
    ensures draw_step(chain_view(c0), chain_view(c1), r->Ok_0.1)
{
}
/// a run of n successful draws from a fresh chain (draw_count 0, strategy tuning): tr[i] is the chain before draw i
pub open spec fn is_run(tr: Seq<ChainView>, ps: Seq<Progress>) -> bool {
    &&& tr.len() == ps.len() + 1
    &&& tr[0].draw_count == 0 && tr[0].tuning && tr[0].num_tune >= 0
    &&& forall|i: int| 0 <= i < ps.len() ==> #[trigger] draw_step(tr[i], tr[i + 1], ps[i])
}
pub proof fn lemma_run_step(tr: Seq<ChainView>, ps: Seq<Progress>, j: int)
    requires is_run(tr, ps), 0 <= j < ps.len()
    ensures draw_step(tr[j], tr[j + 1], ps[j])
{ }
/// [C06.3] after the call for draw k, progress.tuning == (k < num_tune): exactly draws 0..num_tune-1 are reported as
/// tuning; [C16.2] the k-th Progress carries draw == k and the chain's id
// [C06.3 C16.2]
pub proof fn lemma_tuning_exactly_first_num_tune(tr: Seq<ChainView>, ps: Seq<Progress>, k: int)
    requires is_run(tr, ps), 0 <= k < ps.len()
    ensures
        tr[k].draw_count == k, tr[k].num_tune == tr[0].num_tune, tr[k].chain == tr[0].chain,
        tr[k].tuning == (k <= tr[0].num_tune),
        ps[k].tuning == (k < tr[0].num_tune),
        ps[k].draw == k, ps[k].chain == tr[0].chain,
    decreases k
{
    if k > 0 {
        lemma_tuning_exactly_first_num_tune(tr, ps, k - 1);
        lemma_run_step(tr, ps, k - 1);
        assert(tr[k - 1 + 1] == tr[k]);
    }
    lemma_run_step(tr, ps, k);
}
