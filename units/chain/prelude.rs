// Prelude of unit `chain` (model R): the shared dynamics façade (Math / Point / State / Rng / Collector /
// Hamiltonian with ghost event logs) plus what `NutsChain` needs on top of it.  Every contract below is an
// ASSUMPTION of this unit (DESIGN §6) unless the comment names the unit that proves the same text.
//@include ../_shared/dyn_facade.rs
use vstd::std_specs::convert::*;

// ------------------------------------------------------------------------------------------
// anyhow façade (message text not modelled, rule R5); `?` converts NutsError and M::Err
// ------------------------------------------------------------------------------------------
pub mod anyhow {
    use vstd::prelude::*;
    /// opaque error value
    pub struct Error { pub id: Ghost<int> }
}
pub type Result<T, E = anyhow::Error> = core::result::Result<T, E>;
impl ErrorLike for NutsError {}
/// `?` from an error type to anyhow::Error: some error value (nothing is claimed about it)
impl<E: ErrorLike> FromSpecImpl<E> for anyhow::Error {
    open spec fn obeys_from_spec() -> bool { false }
    open spec fn from_spec(v: E) -> Self { arbitrary() }
}
impl<E: ErrorLike> From<E> for anyhow::Error {
    #[verifier::external_body]
    fn from(e: E) -> (r: anyhow::Error) { unimplemented!() }
}

// ------------------------------------------------------------------------------------------
// nuts-storable façade (`#[derive(Storable)]` is dropped by rule R0; the derive macro is NOT verified)
// ------------------------------------------------------------------------------------------
pub trait HasDims {}
pub trait Storable<P: HasDims + ?Sized> {}
pub struct StatsDims {}
impl HasDims for StatsDims {}
pub mod nuts_storable { pub use super::{HasDims, Storable}; }
impl Storable<StatsDims> for DivergenceStats {}
impl<P: HasDims, H: Storable<P>, A: Storable<P>, D: Storable<P>> Storable<P> for NutsStats<P, H, A, D> {}
pub mod dynamics { pub use super::DivergenceStatsOptions; }

// ------------------------------------------------------------------------------------------
// the two traits NutsChain implements: declarations of src/sampler_stats.rs:37-42 and src/chain.rs:24-44 with the
// per-impl contract hooks (Verus rejects requires/ensures on trait-impl methods; the extracted impls supply the hooks
// through impl_extra_*.rs).  Kept in the prelude so that a failing impl method is reported under the impl's own
// obligation name.  SamplerStats: same hooks and contract text as in unit `stats`.  Chain: `dim` and `math` omitted.
// ------------------------------------------------------------------------------------------
pub trait SamplerStats<M: Math> {
    type Stats: Storable<StatsDims>;
    type StatsOptions: Copy + Send + Sync;
    spec fn stats_pre(&self, dim: nat, opt: Self::StatsOptions) -> bool;
    spec fn stats_post(&self, dim: nat, opt: Self::StatsOptions, r: Self::Stats) -> bool;
    fn extract_stats(&self, math: &mut M, opt: Self::StatsOptions) -> (r: Self::Stats)
        requires self.stats_pre(old(math).dim_spec(), opt)
        ensures final(math).dim_spec() == old(math).dim_spec(), self.stats_post(old(math).dim_spec(), opt, r);
}
pub trait Chain<M: Math>: SamplerStats<M> + Sized {
    type AdaptStrategy: AdaptStrategy<M>;
    spec fn set_position_pre(&self, position: &[F]) -> bool;
    spec fn set_position_post(&self, post: &Self, position: &[F], r: Result<()>) -> bool;
    fn set_position(&mut self, position: &[F]) -> (r: Result<()>)
        requires old(self).set_position_pre(position)
        ensures old(self).set_position_post(final(self), position, r);
    spec fn draw_pre(&self) -> bool;
    spec fn draw_post(&self, post: &Self, r: Result<(Box<[F]>, Progress)>) -> bool;
    fn draw(&mut self) -> (r: Result<(Box<[F]>, Progress)>)
        requires old(self).draw_pre()
        ensures old(self).draw_post(final(self), r);
    spec fn expanded_draw_pre(&self) -> bool;
    spec fn expanded_draw_post(&self, post: &Self, r: Result<(Box<[F]>, M::ExpandedVector, Self::Stats, Progress)>) -> bool;
    fn expanded_draw(&mut self) -> (r: Result<(Box<[F]>, M::ExpandedVector, Self::Stats, Progress)>)
        requires old(self).expanded_draw_pre()
        ensures old(self).expanded_draw_post(final(self), r);
}

/// the real values of a slice of floats
pub open spec fn fvals(s: Seq<F>) -> Seq<real> { Seq::new(s.len(), |i: int| s[i].r()) }

// ------------------------------------------------------------------------------------------
// nuts::draw -- the contract PROVED for the real function in unit `nuts` (text of `## fn draw` in
// units/nuts/contracts.vspec, requires and ensures; draw_post / pow2 / has are copied into lemmas.rs)
// ------------------------------------------------------------------------------------------
#[verifier::external_body]
pub fn draw<M, H, R, C>(
    math: &mut M,
    init: &mut State<M, H::Point>,
    rng: &mut R,
    hamiltonian: &mut H,
    options: &NutsOptions,
    collector: &mut C,
) -> (r: core::result::Result<(State<M, H::Point>, SampleInfo), NutsError>)
where
    M: Math,
    H: Hamiltonian<M>,
    R: rand::Rng + ?Sized,
    C: Collector<M, H::Point>,
    requires
//@include ../_shared/draw_requires.txt
    ensures
//@include ../_shared/draw_ensures.txt
{ unimplemented!() }

// ------------------------------------------------------------------------------------------
// State::write_position (`math.write_to_slice(point.position(), out)`; CpuMath copies with copy_from_slice,
// which panics on a length mismatch)
// ------------------------------------------------------------------------------------------
impl<M: Math, P: Point<M>> State<M, P> {
    #[verifier::external_body]
    pub fn write_position(&self, math: &mut M, out: &mut [F])
        requires old(out)@.len() == old(math).dim_spec()
        ensures final(out)@.len() == old(out)@.len(), final(math).dim_spec() == old(math).dim_spec(),
                no_eval(old(math), final(math)),
                // A-math: the slice receives the (untransformed) position of the state
                self.view().x.len() == old(math).dim_spec() ==> fvals(final(out)@) == self.view().x,
    { unimplemented!() }
}

// ------------------------------------------------------------------------------------------
// Hamiltonian statistics hook (`Hamiltonian::update_stats_options` of /repo; the shared Hamiltonian façade has no
// SamplerStats supertrait).  The same contract text is PROVED for TransformedHamiltonian in unit `stats`.
// ------------------------------------------------------------------------------------------
pub trait HamStats<M: Math>: Hamiltonian<M> + SamplerStats<M> {
    spec fn uso_post(&self, post: &Self, current: <Self as SamplerStats<M>>::StatsOptions, r: <Self as SamplerStats<M>>::StatsOptions) -> bool;
    fn update_stats_options(&mut self, math: &mut M, current: <Self as SamplerStats<M>>::StatsOptions) -> (r: <Self as SamplerStats<M>>::StatsOptions)
        ensures final(math).dim_spec() == old(math).dim_spec(), old(self).uso_post(final(self), current, r),
                // the options update only reads the Hamiltonian (unit stats: `*post == *self`)
                final(self).step() == old(self).step(), final(self).trans() == old(self).trans();
}

// ------------------------------------------------------------------------------------------
// AdaptStrategy façade.  `adapt` carries the part of unit adapt's contract (gs_adapt_pre / gs_adapt_post, proved
// there for GlobalStrategy) that the chain driver relies on, abstractly:
//   inv(next_draw)  = gs_inv (invariant between calls);  requires draw < 2^64-16
//   tuning_view     = self.tuning, num_tune_view = self.num_tune            (gs_post_common: [C06.2])
// plus two things unit adapt does not state (assumptions of this unit, see the final report):
//   A-chain-options-frame: `adapt` / `init` never write the NutsOptions they are handed (`&mut` only to pass it on)
//   ghost call log `calls()`: which calls were made with which draw index and outcome (as the Collector / Rng logs)
// `StatPoint` is a type-level device: it names `<Self::Hamiltonian as Hamiltonian<M>>::Point` so that the bound
// `SamplerStats<M>` (a supertrait of Point in /repo) can be stated on it.
// ------------------------------------------------------------------------------------------
pub enum StratEv { Init(bool), Adapt(u64, bool) }
pub trait AdaptStrategy<M: Math>: SamplerStats<M> + Sized {
    type StatPoint: Point<M> + SamplerStats<M>;
    type Hamiltonian: Hamiltonian<M, Point = Self::StatPoint> + HamStats<M>;
    type Collector: Collector<M, Self::StatPoint>;

    /// invariant between calls; `next_draw` is the index the next call of `adapt` will get
    spec fn inv(&self, next_draw: u64) -> bool;
    /// a strategy on which `init` may be called (fresh from `new`)
    spec fn init_pre(&self) -> bool;
    spec fn tuning_view(&self) -> bool;
    spec fn num_tune_view(&self) -> u64;
    spec fn last_steps_view(&self) -> u64;
    spec fn calls(&self) -> Seq<StratEv>;

    fn init<R: Rng + ?Sized>(
        &mut self,
        math: &mut M,
        options: &mut NutsOptions,
        hamiltonian: &mut Self::Hamiltonian,
        position: &[F],
        rng: &mut R,
    ) -> (r: core::result::Result<(), NutsError>)
        requires old(self).init_pre()
        ensures
            final(self).calls() == old(self).calls().push(StratEv::Init(r is Ok)),
            r is Ok ==> final(self).inv(0),
            final(self).tuning_view() == old(self).tuning_view(),
            final(self).num_tune_view() == old(self).num_tune_view(),
            *final(options) == *old(options),
            final(math).dim_spec() == old(math).dim_spec();

    fn adapt<R: Rng + ?Sized>(
        &mut self,
        math: &mut M,
        options: &mut NutsOptions,
        hamiltonian: &mut Self::Hamiltonian,
        draw: u64,
        collector: &Self::Collector,
        state: &State<M, <Self::Hamiltonian as Hamiltonian<M>>::Point>,
        rng: &mut R,
    ) -> (r: core::result::Result<(), NutsError>)
        requires old(self).inv(draw), draw < 0xffff_ffff_ffff_fff0
        ensures
            r is Ok ==> final(self).inv((draw + 1) as u64),
            // [C06.2] tuning flag: cleared exactly from draw num_tune on, never set again
            final(self).tuning_view() == (old(self).tuning_view() && draw < old(self).num_tune_view()),
            final(self).num_tune_view() == old(self).num_tune_view(),
            final(self).calls() == old(self).calls().push(StratEv::Adapt(draw, r is Ok)),
            *final(options) == *old(options),
            final(math).dim_spec() == old(math).dim_spec();

    fn is_tuning(&self) -> (r: bool) ensures r == self.tuning_view();
    fn last_num_steps(&self) -> (r: u64) ensures r == self.last_steps_view();
}

// ------------------------------------------------------------------------------------------
// std façade: RefCell (interior mutability), Vec -> Box<[T]>
// ------------------------------------------------------------------------------------------
/// std::cell::RefCell<T>.  `borrow_mut(&self)` hands out the content through a guard; the content seen through a
/// guard is ARBITRARY (nothing is claimed about it), and it cannot panic here: a `Ref`/`RefMut` of `self.math`
/// borrows `&self`, so none can be alive while a `&mut self` method runs, and each method takes one guard (A-refcell).
pub struct RefCell<T> { pub v: T }
#[verifier::external_body]
#[verifier::reject_recursive_types(T)]
pub struct RefMut<'a, T> { _r: &'a mut T }
impl<T> RefCell<T> {
    #[verifier::external_body]
    pub fn borrow_mut(&self) -> (r: RefMut<'_, T>) { unimplemented!() }
}
impl<'a, T> RefMut<'a, T> {
    #[verifier::external_body]
    pub fn deref_mut(&mut self) -> (r: &mut T) { unimplemented!() }
}
/// R9.method: `.into()` is renamed `.vx_into()`; the two conversions the unit uses are listed here
/// (Verus cannot name std's `impl From<Vec<T, A>> for Box<[T], A>`: allocator_api is unstable)
pub trait VxInto<T>: Sized {
    spec fn into_post(self, r: T) -> bool;
    fn vx_into(self) -> (r: T) ensures self.into_post(r);
}
/// `Vec<f64>` -> `Box<[f64]>`: same elements
impl VxInto<Box<[F]>> for Vec<F> {
    open spec fn into_post(self, r: Box<[F]>) -> bool { r@ == self@ }
    #[verifier::external_body]
    fn vx_into(self) -> (r: Box<[F]>) { unimplemented!() }
}
/// `(info, options, draw).into()`: `impl From<(Option<&DivergenceInfo>, DivergenceStatsOptions, u64)> for DivergenceStats`.
/// PROVED in unit `stats` (div_stats_post; `chain_div_post` is its part that does not look inside DivergenceInfo,
/// which is opaque in the shared façade)
impl<'a> VxInto<DivergenceStats> for (Option<&'a DivergenceInfo>, DivergenceStatsOptions, u64) {
    open spec fn into_post(self, r: DivergenceStats) -> bool { chain_div_post(self.0, self.1, self.2, r) }
    #[verifier::external_body]
    fn vx_into(self) -> (r: DivergenceStats) { unimplemented!() }
}
