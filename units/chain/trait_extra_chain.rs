    // ghost items spliced into `trait Chain<M>` (rule R1): per-impl contracts
    spec fn set_position_pre(&self, position: &[F]) -> bool;
    spec fn set_position_post(&self, post: &Self, position: &[F], r: Result<()>) -> bool;
    spec fn draw_pre(&self) -> bool;
    spec fn draw_post(&self, post: &Self, r: Result<(Box<[F]>, Progress)>) -> bool;
    spec fn expanded_draw_pre(&self) -> bool;
    spec fn expanded_draw_post(&self, post: &Self, r: Result<(Box<[F]>, M::ExpandedVector, Self::Stats, Progress)>) -> bool;
