    // ghost items spliced into `trait SamplerStats<M>` (rule R1): per-impl contract of extract_stats
    // (same hooks, same contract text as the SamplerStats façade of unit `stats`)
    spec fn stats_pre(&self, dim: nat, opt: Self::StatsOptions) -> bool;
    spec fn stats_post(&self, dim: nat, opt: Self::StatsOptions, r: Self::Stats) -> bool;
