// =====================================================================================
// Specification vocabulary of C14 for the COLUMN MAPPING of the CSV backend, written from the property statement
// ("... yields, for every ... draw variable, exactly the recorded values ... with the declared type and shape"):
// a variable with dimension sizes d_0..d_{k-1} is recorded as ONE flat vector in row-major order, so column j of
// the variable must read the flat ROW-MAJOR index of the index tuple it is named after.
// =====================================================================================

/// prod_t d_t (empty product = 1)
pub open spec fn prod(d: Seq<usize>) -> nat
    decreases d.len()
{
    if d.len() == 0 { 1 } else { prod(d.drop_last()) * (d.last() as nat) }
}

/// stride of dimension t:  prod_{u > t} d_u
pub open spec fn stride(d: Seq<usize>, t: int) -> nat { prod(d.skip(t + 1)) }

/// sum_{t < n} i_t * prod_{u > t} d_u
pub open spec fn flat_upto(d: Seq<usize>, ix: Seq<usize>, n: int) -> nat
    decreases n
{
    if n <= 0 { 0 } else { flat_upto(d, ix, n - 1) + (ix[n - 1] as nat) * stride(d, n - 1) }
}

/// [C14.c1] the flat ROW-MAJOR index of the index tuple ix in an array of shape d
pub open spec fn flat_index(d: Seq<usize>, ix: Seq<usize>) -> nat { flat_upto(d, ix, ix.len() as int) }

/// ix is an index tuple (possibly partial: a prefix) of an array of shape d
pub open spec fn in_shape(d: Seq<usize>, ix: Seq<usize>) -> bool {
    ix.len() <= d.len() && forall|t: int| 0 <= t < ix.len() ==> (#[trigger] ix[t]) < d[t]
}

/// [C14.c2] the index tuple of column j in row-major enumeration of shape d:  i_t = (j / stride_t) mod d_t
pub open spec fn unravel(d: Seq<usize>, j: int) -> Seq<usize> {
    Seq::new(d.len(), |t: int| ((j / (stride(d, t) as int)) % (d[t] as int)) as usize)
}

/// the label sets fit the shape: one set per dimension, one label per index
pub open spec fn labels_fit(cs: Seq<Vec<String>>, d: Seq<usize>) -> bool {
    cs.len() == d.len() && forall|t: int| 0 <= t < d.len() ==> (#[trigger] cs[t])@.len() == d[t]
}

/// consecutive flat indices base, base+1, .., base+n-1
pub open spec fn iota(base: nat, n: nat) -> Seq<usize> { Seq::new(n, |k: int| (base + k) as usize) }

/// [C14.c1] what one call of the recursion at level `lvl` with index prefix `p` appends: the columns of the
/// sub-array selected by p, i.e. the flat indices  flat(p,0,..,0) .. flat(p,0,..,0) + prod_{u >= lvl} d_u - 1  in order
pub open spec fn rec_indices(d: Seq<usize>, p: Seq<usize>, lvl: int) -> Seq<usize> {
    iota(flat_upto(d, p, lvl), prod(d.skip(lvl)))
}

// ---- arithmetic of prod / flat_upto --------------------------------------------------------------------------

pub proof fn lemma_prod_empty(d: Seq<usize>)
    requires d.len() == 0
    ensures prod(d) == 1
{}

pub proof fn lemma_prod_one(d: Seq<usize>)
    requires d.len() == 1
    ensures prod(d) == d[0] as nat
{
    assert(d.drop_last().len() == 0);
    assert(prod(d.drop_last()) == 1);
    assert(d.last() == d[0]);
    assert(prod(d) == prod(d.drop_last()) * (d.last() as nat));
}

/// prod(d) = d_0 * prod(d[1..])
pub proof fn lemma_prod_head(d: Seq<usize>)
    requires d.len() > 0
    ensures prod(d) == (d[0] as nat) * prod(d.skip(1))
    decreases d.len()
{
    if d.len() == 1 {
        lemma_prod_one(d);
        assert(d.skip(1).len() == 0);
        assert(prod(d.skip(1)) == 1);
    } else {
        lemma_prod_head(d.drop_last());
        assert(d.drop_last().skip(1) == d.skip(1).drop_last());
        assert(d.skip(1).last() == d.last());
        assert(d.drop_last()[0] == d[0]);
        let a = d[0] as nat; let b = prod(d.skip(1).drop_last()); let c = d.last() as nat;
        assert(prod(d) == prod(d.drop_last()) * c);
        assert(prod(d.drop_last()) == a * b);
        assert(prod(d.skip(1)) == b * c);
        assert((a * b) * c == a * (b * c)) by(nonlinear_arith);
    }
}

/// prod(d[t..]) = d_t * prod(d[t+1..])
pub proof fn lemma_prod_skip(d: Seq<usize>, t: int)
    requires 0 <= t < d.len()
    ensures prod(d.skip(t)) == (d[t] as nat) * prod(d.skip(t + 1))
{
    lemma_prod_head(d.skip(t));
    assert(d.skip(t).skip(1) == d.skip(t + 1));
}

/// products of positive sizes are positive
pub proof fn lemma_prod_pos(d: Seq<usize>)
    requires forall|t: int| 0 <= t < d.len() ==> (#[trigger] d[t]) >= 1
    ensures prod(d) >= 1
    decreases d.len()
{
    if d.len() > 0 {
        lemma_prod_pos(d.drop_last());
        let a = prod(d.drop_last()); let b = d.last() as nat;
        assert(a * b >= 1) by(nonlinear_arith) requires a >= 1, b >= 1;
    }
}

/// a prefix product of positive sizes is at most the whole product
pub proof fn lemma_prod_take_le(d: Seq<usize>, k: int)
    requires 0 <= k <= d.len(), forall|t: int| 0 <= t < d.len() ==> (#[trigger] d[t]) >= 1
    ensures prod(d.take(k)) <= prod(d)
    decreases d.len() - k
{
    if k == d.len() {
        assert(d.take(k) == d);
    } else {
        lemma_prod_take_le(d, k + 1);
        assert(d.take(k + 1).drop_last() == d.take(k));
        let a = prod(d.take(k)); let b = d.take(k + 1).last() as nat;
        assert(d.take(k + 1).last() == d[k]);
        assert(a <= a * b) by(nonlinear_arith) requires b >= 1;
    }
}

/// a suffix product of positive sizes is at most the whole product
pub proof fn lemma_prod_skip_le(d: Seq<usize>, k: int)
    requires 0 <= k <= d.len(), forall|t: int| 0 <= t < d.len() ==> (#[trigger] d[t]) >= 1
    ensures prod(d.skip(k)) <= prod(d)
    decreases k
{
    if k == 0 {
        assert(d.skip(0) == d);
    } else {
        lemma_prod_skip_le(d, k - 1);
        lemma_prod_skip(d, k - 1);
        let a = prod(d.skip(k)); let b = d[k - 1] as nat;
        assert(a <= b * a) by(nonlinear_arith) requires b >= 1;
    }
}

/// [C14.c1] a partial index tuple leaves room for its whole sub-array:  flat(p) + prod_{u >= n} d_u <= prod d
pub proof fn lemma_flat_room(d: Seq<usize>, ix: Seq<usize>, n: int)
    requires in_shape(d, ix), 0 <= n <= ix.len()
    ensures flat_upto(d, ix, n) + prod(d.skip(n)) <= prod(d)
    decreases n
{
    if n == 0 {
        assert(d.skip(0) == d);
    } else {
        lemma_flat_room(d, ix, n - 1);
        lemma_prod_skip(d, n - 1);
        let s = prod(d.skip(n)); let i = ix[n - 1] as nat; let dd = d[n - 1] as nat;
        assert(i < dd);
        assert(i * s + s <= dd * s) by(nonlinear_arith) requires i < dd;
    }
}

/// flat_upto only looks at the first n entries
pub proof fn lemma_flat_upto_ext(d: Seq<usize>, a: Seq<usize>, b: Seq<usize>, n: int)
    requires 0 <= n <= a.len(), n <= b.len(), forall|t: int| 0 <= t < n ==> a[t] == b[t]
    ensures flat_upto(d, a, n) == flat_upto(d, b, n)
    decreases n
{
    if n > 0 { lemma_flat_upto_ext(d, a, b, n - 1); }
}

/// every size is positive
pub open spec fn all_pos(d: Seq<usize>) -> bool { forall|t: int| 0 <= t < d.len() ==> (#[trigger] d[t]) >= 1 }

/// a COMPLETE index tuple exists only in a shape without empty dimensions
pub proof fn lemma_full_tuple_pos(d: Seq<usize>, ix: Seq<usize>)
    requires in_shape(d, ix), ix.len() == d.len()
    ensures all_pos(d)
{
    assert forall|t: int| 0 <= t < d.len() implies (#[trigger] d[t]) >= 1 by { assert(ix[t] < d[t]); }
}

/// iota(b, m) ++ iota(b + m, n) = iota(b, m + n)
pub proof fn lemma_iota_concat(b: nat, m: nat, n: nat)
    ensures iota(b, m) + iota(b + m, n) == iota(b, m + n)
{
    assert(iota(b, m) + iota(b + m, n) =~= iota(b, m + n));
}

/// one stride-loop step: the product of the first k+1 sizes of the suffix stays below the whole product
pub proof fn lemma_stride_step(d: Seq<usize>, i: int, k: int)
    requires all_pos(d), 0 <= i < d.len(), 0 <= k < d.skip(i + 1).len()
    ensures
        prod(d.skip(i + 1).take(k + 1)) == prod(d.skip(i + 1).take(k)) * (d.skip(i + 1)[k] as nat),
        prod(d.skip(i + 1).take(k + 1)) <= prod(d),
{
    let s = d.skip(i + 1);
    assert(s.take(k + 1).drop_last() == s.take(k));
    assert(s.take(k + 1).last() == s[k]);
    assert(all_pos(s)) by { assert forall|t: int| 0 <= t < s.len() implies (#[trigger] s[t]) >= 1 by { assert(s[t] == d[i + 1 + t]); } }
    lemma_prod_take_le(s, k + 1);
    lemma_prod_skip_le(d, i + 1);
}

/// [C14.c1] one step of the recursion: choosing index c at level lvl selects the c-th block of size prod_{u>lvl} d_u
pub proof fn lemma_rec_step(d: Seq<usize>, p: Seq<usize>, c: usize, lvl: int)
    requires in_shape(d, p), p.len() == lvl, 0 <= lvl < d.len(), c < d[lvl]
    ensures
        in_shape(d, p.push(c)),
        flat_upto(d, p.push(c), lvl + 1) == flat_upto(d, p, lvl) + (c as nat) * prod(d.skip(lvl + 1)),
        iota(flat_upto(d, p, lvl), (c as nat) * prod(d.skip(lvl + 1))) + rec_indices(d, p.push(c), lvl + 1)
            == iota(flat_upto(d, p, lvl), ((c + 1) as nat) * prod(d.skip(lvl + 1))),
        p.push(c).drop_last() == p,
{
    let q = p.push(c);
    assert forall|t: int| 0 <= t < q.len() implies (#[trigger] q[t]) < d[t] by { if t < lvl { assert(q[t] == p[t]); } }
    lemma_flat_upto_ext(d, q, p, lvl);
    assert(q[lvl] == c);
    let s = prod(d.skip(lvl + 1));
    let cn = c as nat;
    assert(flat_upto(d, q, lvl + 1) == flat_upto(d, q, lvl) + (q[lvl] as nat) * stride(d, lvl));
    lemma_iota_concat(flat_upto(d, p, lvl), cn * s, s);
    assert(cn * s + s == ((c + 1) as nat) * s) by(nonlinear_arith) requires cn == c as nat;
    assert(q.drop_last() =~= p);
}

// ---- the column mapping of the whole draw schema ------------------------------------------------------------

/// size of a named dimension as the code reads it (`*dim_sizes.get(dim).unwrap_or(&1) as usize`)
pub open spec fn dim_size(sizes: Map<Seq<char>, u64>, dim: Seq<char>) -> usize {
    if sizes.contains_key(dim) { sizes[dim] as usize } else { 1 }
}
/// declared shape of a variable
pub open spec fn shape_of(sizes: Map<Seq<char>, u64>, dims: Seq<Seq<char>>) -> Seq<usize> {
    Seq::new(dims.len(), |t: int| dim_size(sizes, dims[t]))
}
/// the types the CSV backend prints as parameter columns
pub open spec fn numeric(t: ItemType) -> bool { t is F64 || t is F32 || t is I64 || t is U64 }

/// [C14.c4] the columns of one variable: column j of the variable reads flat row-major index j of THAT variable
pub open spec fn var_cols(name: Seq<char>, shape: Seq<usize>) -> Seq<(Seq<char>, usize)> {
    Seq::new(prod(shape), |j: int| (name, j as usize))
}
/// [C14.c4] the columns of the first n variables of the schema, in schema order
pub open spec fn cols_upto<M: Math, S: Settings>(settings: &S, math: &M, n: int) -> Seq<(Seq<char>, usize)>
    decreases n
{
    if n <= 0 { Seq::empty() } else {
        let v = settings.data_schema(math)[n - 1];
        cols_upto(settings, math, n - 1)
            + (if numeric(settings.type_of(math, v.name)) { var_cols(v.name, shape_of(math.dim_sizes_spec(), v.dims)) } else { Seq::empty() })
    }
}
pub open spec fn map_view(m: Seq<(String, usize)>) -> Seq<(Seq<char>, usize)> { Seq::new(m.len(), |j: int| (m[j].0@, m[j].1)) }

/// what generate_column_names_and_indices_for_variable needs: the flattened variable is addressable and its
/// coordinate labels (if any) have one label per index  (see REPORT: nothing in /repo checks the latter)
pub open spec fn var_ok(sizes: Map<Seq<char>, u64>, coords: Map<Seq<char>, Value>, dims: Seq<Seq<char>>) -> bool {
    prod(shape_of(sizes, dims)) <= usize::MAX
    && forall|t: int| 0 <= t < dims.len() ==> (coords.contains_key(#[trigger] dims[t]) && coords[dims[t]] is Strings
            ==> coords[dims[t]]->Strings_0@.len() == dim_size(sizes, dims[t]))
}
pub open spec fn schema_ok<M: Math, S: Settings>(settings: &S, math: &M) -> bool {
    forall|j: int| 0 <= j < settings.data_schema(math).len() ==>
        var_ok(math.dim_sizes_spec(), math.coords_spec(), (#[trigger] settings.data_schema(math)[j]).dims)
}
