// Prelude of unit `csvcols` (model I: no float reasoning).  Everything the extracted code calls but that is not
// extracted.  EVERY contract below is an ASSUMPTION of this unit; none is proved by another unit.
// Ids (for DESIGN section 6 / 11.7):
//   A-iter         R10.foriter / R9.method facade of the std iterator protocol (same text as unit ndstore): a facade
//                  iterator is the sequence of ALL its items plus the number consumed; `Vec::into_iter` / `&[T]` /
//                  `&Vec<T>` / `lo..hi` yield the elements in order, `iter()` yields references in order,
//                  `enumerate()` pairs the j-th item with j, `zip` pairs the j-th items up to the shorter length,
//                  `map(f)` yields values satisfying f's postcondition on the j-th item, `collect()` into a Vec
//                  keeps the order, `all(f)` returns some bool (its VALUE is not specified: it only selects which
//                  label set is printed)
//   A-string       `String::push(c)` / `push_str(s)` append to the view; `str::to_string` / `usize::to_string` /
//                  `String::as_str`: equal view / the uninterpreted decimal text `dec_str(i)`
//   A-fmt          R5.macro: `format!("{}.{}", a, b)` is a ++ "." ++ b; `format!("param_{}", i)` is opaque
//   A-hashmap      std HashMap<String, V>: `get(k)` finds the entry of the key (view: Map<Seq<char>, V>)
//   A-schema       facade of crate::Settings / crate::Math (same vocabulary as unit ndstore): `data_schema(math)` is
//                  the spec sequence of (name, dims, type); `data_dims_all` enumerates it in order, `data_type(name)`
//                  is the type of the entry carrying that name, `math.dim_sizes()` is the dimension table,
//                  `math.coords()` the coordinate table
//   A-anyhow       `anyhow::Result`
//   A-slice-range  `&s[a..]` is `s@.skip(a)` (requires a <= len: the real indexing panics otherwise)
use vstd::std_specs::core::IndexSpecImpl;
use core::ops::{Range, RangeFrom, RangeInclusive, Index};

// ---- anyhow facade: `use anyhow::{Context, Result};`
#[derive(Debug)]
pub struct AnyhowError { pub code: u64 }
pub type Result<T> = core::result::Result<T, AnyhowError>;

// ---- A-string
// (vstd specifies String::push / push_str / clone / new)

/// decimal text of an index (`usize::to_string`); uninterpreted
pub uninterp spec fn dec_str(i: int) -> Seq<char>;

/// R9.method `to_string` -> `vx_to_string`
pub trait VxToString {
    spec fn vx_str(&self) -> Seq<char>;
    fn vx_to_string(&self) -> (r: String) ensures r@ == self.vx_str();
}
impl VxToString for str {
    open spec fn vx_str(&self) -> Seq<char> { self@ }
    #[verifier::external_body]
    fn vx_to_string(&self) -> (r: String) { unimplemented!() }
}
impl VxToString for String {
    open spec fn vx_str(&self) -> Seq<char> { self@ }
    #[verifier::external_body]
    fn vx_to_string(&self) -> (r: String) { unimplemented!() }
}
impl VxToString for usize {
    open spec fn vx_str(&self) -> Seq<char> { dec_str(*self as int) }
    #[verifier::external_body]
    fn vx_to_string(&self) -> (r: String) { unimplemented!() }
}

// ---- A-fmt
#[verifier::external_body]
pub fn opaque_string() -> String { unimplemented!() }
/// `format!("{}.{}", a, b)`
#[verifier::external_body]
pub fn vx_format_dot(a: &str, b: &str) -> (r: String)
    ensures r@ == a@ + seq!['.'] + b@,
{ unimplemented!() }
pub trait VxAsStr { spec fn s(&self) -> Seq<char>; fn vx_as_str(&self) -> (r: &str) ensures r@ == self.s(); }
impl VxAsStr for String {
    open spec fn s(&self) -> Seq<char> { self@ }
    #[verifier::external_body]
    fn vx_as_str(&self) -> (r: &str) { unimplemented!() }
}
impl VxAsStr for &str {
    open spec fn s(&self) -> Seq<char> { (*self)@ }
    #[verifier::external_body]
    fn vx_as_str(&self) -> (r: &str) { unimplemented!() }
}

// ---- A-iter
#[verifier::external_body]
#[verifier::accept_recursive_types(T)]
pub struct VxIt<T> { _p: core::marker::PhantomData<T> }
impl<T> VxIt<T> {
    pub uninterp spec fn all(&self) -> Seq<T>;
    pub uninterp spec fn pos(&self) -> int;

    /// `Iterator::next` would return Some
    #[verifier::external_body]
    pub fn vx_more(&self) -> (r: bool)
        ensures r == (self.pos() < self.all().len()),
    { unimplemented!() }

    /// `Iterator::next().unwrap()`
    #[verifier::external_body]
    pub fn vx_next(&mut self) -> (r: T)
        requires 0 <= old(self).pos() < old(self).all().len(),
        ensures
            final(self).all() == old(self).all(),
            final(self).pos() == old(self).pos() + 1,
            r == old(self).all()[old(self).pos()],
    { unimplemented!() }

    /// `Iterator::zip` of a fresh iterator with anything iterable
    #[verifier::external_body]
    pub fn vx_zip<B, I: VxIntoIter<B>>(self, o: I) -> (r: VxIt<(T, B)>)
        requires self.pos() == 0,
        ensures r.pos() == 0, r.all() == zip_seq(self.all(), o.vx_seq()),
    { unimplemented!() }

    /// `Iterator::enumerate` of a fresh iterator
    #[verifier::external_body]
    pub fn vx_enumerate(self) -> (r: VxIt<(usize, T)>)
        requires self.pos() == 0,
        ensures
            r.pos() == 0,
            r.all().len() == self.all().len(),
            forall|j: int| 0 <= j < r.all().len() ==> (#[trigger] r.all()[j]) == (j as usize, self.all()[j]),
    { unimplemented!() }

    /// `Iterator::map(f)` of a fresh iterator (f is called once per item, in order)
    #[verifier::external_body]
    pub fn vx_map<B, F: Fn(T) -> B>(self, f: F) -> (r: VxIt<B>)
        requires self.pos() == 0, forall|j: int| 0 <= j < self.all().len() ==> f.requires((#[trigger] self.all()[j],)),
        ensures
            r.pos() == 0,
            r.all().len() == self.all().len(),
            forall|j: int| 0 <= j < r.all().len() ==> f.ensures((self.all()[j],), #[trigger] r.all()[j]),
    { unimplemented!() }

    /// `Iterator::collect::<Vec<_>>()` of a fresh iterator
    #[verifier::external_body]
    pub fn vx_collect(self) -> (r: Vec<T>)
        requires self.pos() == 0,
        ensures r@ == self.all(),
    { unimplemented!() }

    /// `Iterator::all(f)`: the VALUE is not specified (see A-iter)
    #[verifier::external_body]
    pub fn vx_all<F: Fn(T) -> bool>(self, f: F) -> (r: bool)
        requires forall|j: int| 0 <= j < self.all().len() ==> f.requires((#[trigger] self.all()[j],)),
    { unimplemented!() }
}
pub open spec fn zip_seq<A, B>(a: Seq<A>, b: Seq<B>) -> Seq<(A, B)> {
    Seq::new(if a.len() <= b.len() { a.len() } else { b.len() }, |i: int| (a[i], b[i]))
}
/// `IntoIterator::into_iter`
pub trait VxIntoIter<T>: Sized {
    spec fn vx_seq(&self) -> Seq<T>;
    fn vx_into(self) -> (r: VxIt<T>)
        ensures r.pos() == 0, r.all() == self.vx_seq();
}
impl<T> VxIntoIter<T> for Vec<T> {
    open spec fn vx_seq(&self) -> Seq<T> { self@ }
    #[verifier::external_body]
    fn vx_into(self) -> (r: VxIt<T>) { unimplemented!() }
}
impl<T> VxIntoIter<T> for VxIt<T> {
    open spec fn vx_seq(&self) -> Seq<T> { self.all().skip(self.pos()) }
    #[verifier::external_body]
    fn vx_into(self) -> (r: VxIt<T>) { unimplemented!() }
}
/// `for x in &slice` / `for x in &vec`: references to the elements, in order
pub open spec fn refs_of<'a, T>(r: Seq<&'a T>, s: Seq<T>) -> bool {
    r.len() == s.len() && forall|j: int| 0 <= j < r.len() ==> *(#[trigger] r[j]) == s[j]
}
pub uninterp spec fn ref_seq<'a, T>(s: Seq<T>) -> Seq<&'a T>;
pub broadcast axiom fn ax_ref_seq<'a, T>(s: Seq<T>)
    ensures refs_of(#[trigger] ref_seq::<'a, T>(s), s);
impl<'a, T> VxIntoIter<&'a T> for &'a [T] {
    open spec fn vx_seq(&self) -> Seq<&'a T> { ref_seq((*self)@) }
    #[verifier::external_body]
    fn vx_into(self) -> (r: VxIt<&'a T>) { unimplemented!() }
}
impl<'a, T> VxIntoIter<&'a T> for &'a Vec<T> {
    open spec fn vx_seq(&self) -> Seq<&'a T> { ref_seq((*self)@) }
    #[verifier::external_body]
    fn vx_into(self) -> (r: VxIt<&'a T>) { unimplemented!() }
}
/// R10.foriter: `for PAT in EXPR {B}` -> `{ let mut it = vx_iter(EXPR); while it.vx_more() { let PAT = it.vx_next(); B } }`
pub fn vx_iter<T, I: VxIntoIter<T>>(i: I) -> (r: VxIt<T>)
    ensures r.pos() == 0, r.all() == i.vx_seq(),
{ i.vx_into() }

/// R9.method `iter` -> `vx_refs`: `<[T]>::iter`
pub trait VxRefs<T> {
    spec fn vx_elems(&self) -> Seq<T>;
    fn vx_refs(&self) -> (r: VxIt<&T>)
        ensures r.pos() == 0, refs_of(r.all(), self.vx_elems());
}
impl<T> VxRefs<T> for Vec<T> {
    open spec fn vx_elems(&self) -> Seq<T> { self@ }
    #[verifier::external_body]
    fn vx_refs(&self) -> (r: VxIt<&T>) { unimplemented!() }
}
impl<T> VxRefs<T> for [T] {
    open spec fn vx_elems(&self) -> Seq<T> { self@ }
    #[verifier::external_body]
    fn vx_refs(&self) -> (r: VxIt<&T>) { unimplemented!() }
}

/// `(lo..hi).collect::<Vec<usize>>()`, `(lo..=hi).map(f)`
pub trait VxRange: Sized {
    spec fn lo(&self) -> int;
    spec fn n(&self) -> int;
    fn vx_collect(self) -> (r: Vec<usize>)
        ensures r@ == Seq::new(self.n() as nat, |j: int| (self.lo() + j) as usize);
    fn vx_map<B, F: Fn(usize) -> B>(self, f: F) -> (r: VxIt<B>)
        requires forall|i: usize| self.lo() <= i < self.lo() + self.n() ==> f.requires((i,)),
        ensures
            r.pos() == 0,
            r.all().len() == self.n(),
            forall|j: int| 0 <= j < r.all().len() ==> f.ensures(((self.lo() + j) as usize,), #[trigger] r.all()[j]);
}
impl VxRange for Range<usize> {
    open spec fn lo(&self) -> int { self.start as int }
    open spec fn n(&self) -> int { if self.end >= self.start { self.end - self.start } else { 0 } }
    #[verifier::external_body]
    fn vx_collect(self) -> (r: Vec<usize>) { unimplemented!() }
    #[verifier::external_body]
    fn vx_map<B, F: Fn(usize) -> B>(self, f: F) -> (r: VxIt<B>) { unimplemented!() }
}
impl VxRange for RangeInclusive<usize> {
    open spec fn lo(&self) -> int { self@.start as int }
    open spec fn n(&self) -> int { if self@.end >= self@.start && !self@.exhausted { self@.end - self@.start + 1 } else { 0 } }
    #[verifier::external_body]
    fn vx_collect(self) -> (r: Vec<usize>) { unimplemented!() }
    #[verifier::external_body]
    fn vx_map<B, F: Fn(usize) -> B>(self, f: F) -> (r: VxIt<B>) { unimplemented!() }
}

impl VxIntoIter<u64> for Range<u64> {
    open spec fn vx_seq(&self) -> Seq<u64> { Seq::new((if self.end >= self.start { self.end - self.start } else { 0 }) as nat, |j: int| (self.start + j) as u64) }
    #[verifier::external_body]
    fn vx_into(self) -> (r: VxIt<u64>) { unimplemented!() }
}

// ---- A-hashmap: facade for std::collections::HashMap<String, V>
pub struct HashMap<K, V> {
    pub m: Ghost<Map<Seq<char>, V>>,
    pub _k: core::marker::PhantomData<K>,
}
pub trait VxKey { spec fn key(&self) -> Seq<char>; }
impl VxKey for String { open spec fn key(&self) -> Seq<char> { self@ } }
impl VxKey for str { open spec fn key(&self) -> Seq<char> { self@ } }
impl<V> HashMap<String, V> {
    pub open spec fn view(&self) -> Map<Seq<char>, V> { self.m@ }
    #[verifier::external_body]
    pub fn get<Q: VxKey + ?Sized>(&self, k: &Q) -> (r: Option<&V>)
        ensures
            self@.contains_key(k.key()) ==> r is Some && *r->Some_0 == self@[k.key()],
            !self@.contains_key(k.key()) ==> r is None,
    { unimplemented!() }
}

// ---- A-schema: crate::Math / crate::Settings as far as the column mapping uses them
/// one declared draw variable: name, names of its dimensions, item type
pub struct VarDecl { pub name: Seq<char>, pub dims: Seq<Seq<char>>, pub ty: ItemType }
pub open spec fn dims_are(r: Seq<(String, Vec<String>)>, sch: Seq<VarDecl>) -> bool {
    r.len() == sch.len() && forall|j: int| 0 <= j < r.len() ==> (#[trigger] r[j]).0@ == sch[j].name && str_views(r[j].1@) == sch[j].dims
}
pub open spec fn str_views(s: Seq<String>) -> Seq<Seq<char>> { Seq::new(s.len(), |j: int| s[j]@) }
pub trait Math: Sized {
    /// the model's dimension table (`HasDims::dim_sizes`) and coordinate table (`HasDims::coords`)
    spec fn dim_sizes_spec(&self) -> Map<Seq<char>, u64>;
    spec fn coords_spec(&self) -> Map<Seq<char>, Value>;
    fn dim_sizes(&self) -> (r: HashMap<String, u64>) ensures r@ == self.dim_sizes_spec();
    fn coords(&self) -> (r: HashMap<String, Value>) ensures r@ == self.coords_spec();
}
pub trait Settings: Sized {
    /// the draw-variable schema: (name, dims, type) in declaration order
    spec fn data_schema<M: Math>(&self, math: &M) -> Seq<VarDecl>;
    /// type reported for a name (`Storable::item_type(math, name)`): a function of the NAME
    spec fn type_of<M: Math>(&self, math: &M, name: Seq<char>) -> ItemType;
    fn data_dims_all<M: Math>(&self, math: &M) -> (r: Vec<(String, Vec<String>)>)
        ensures dims_are(r@, self.data_schema(math));
    fn data_type<M: Math>(&self, math: &M, name: &str) -> (r: ItemType)
        ensures r == self.type_of(math, name@);
    fn data_names<M: Math>(&self, math: &M) -> (r: Vec<String>)
        ensures r@.len() == self.data_schema(math).len();
}

// ---- A-colnames: NOT EXTRACTED (time box): `generate_column_names_and_indices_for_variable` of src/storage/csv.rs.
// Its index half is exactly what `cartesian_product_with_indices_column_major` is PROVED to return for the sizes
// `shape_of(..)`; the glue in between (building dim_sizes_vec / the label sets from the tables, the scalar case
// `([name], [0])`, the name texts) is ASSUMED here.
#[verifier::external_body]
pub fn generate_column_names_and_indices_for_variable<M: Math>(
    var_name: &str,
    var_dims: &[String],
    coords: &HashMap<String, Value>,
    math: &M,
) -> (r: Result<(Vec<String>, Vec<usize>)>)
    requires var_ok(math.dim_sizes_spec(), coords@, str_views(var_dims@)),
    ensures r is Ok ==> r->Ok_0.1@ == iota(0, prod(shape_of(math.dim_sizes_spec(), str_views(var_dims@))))
        && r->Ok_0.0@.len() == r->Ok_0.1@.len(),
{ unimplemented!() }
