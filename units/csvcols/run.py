#!/usr/bin/env python3
"""dev helper of unit csvcols: `./vxrun csvcols I` with the PRIVATE extractor build that carries rule R16.refpat
(units/csvcols/extractor_refpat.patch, built under /tmp/vx-extract-cc).  usage: units/csvcols/run.py [vxrun args]
Once the patch is applied to tools/vx-extract and rebuilt, plain `./vxrun csvcols I` does the same."""
import os, sys, runpy
V = os.path.dirname(os.path.dirname(os.path.dirname(os.path.abspath(__file__))))
sys.path.insert(0, V)
from vx import core
PRIV = os.environ.get("VX_EXTRACT", "/tmp/vx-extract-cc/target/release/vx-extract")
if os.path.exists(PRIV):
    core.EXTRACT = PRIV
sys.argv = ["vxrun", "csvcols", "I"] + sys.argv[1:]
runpy.run_path(os.path.join(V, "vxrun"), run_name="__main__")
