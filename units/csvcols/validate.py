#!/usr/bin/env python3
"""validation of unit csvcols (UNITS.md "Validation"): apply one edit at a time to the scratch worktree /tmp/cc1 of
/repo and run the unit against it (what `VERIF_REPO=/tmp/cc1 ./vxrun csvcols I` does, with the PRIVATE extractor build
that carries R16.refpat: see extractor_refpat.patch / run.py).  usage: units/csvcols/validate.py [edit names..]
Expected: B* -> FAIL in the named function; H* -> GREEN; V:* (ensures false) -> REJECTED.  B5b edits
generate_column_names_and_indices_for_variable, which is NOT extracted (facade A-colnames): GREEN = known blind spot."""
import os, sys, subprocess
sys.path.insert(0, os.path.dirname(os.path.dirname(os.path.dirname(os.path.abspath(__file__)))))
WT = "/tmp/cc1"
if not os.path.isdir(WT):
    subprocess.run(["git", "-C", "/repo", "worktree", "add", "-q", WT, "HEAD"], check=True)
os.environ["VERIF_REPO"] = WT
from vx import core
core.REPO = WT
PRIV = os.environ.get("VX_EXTRACT", "/tmp/vx-extract-cc/target/release/vx-extract")
if os.path.exists(PRIV):
    core.EXTRACT = PRIV
F = "src/storage/csv.rs"
REC_CALL = """        cartesian_product_recursive_with_indices(
            coord_sets,
            dim_sizes,
            dim_idx + 1,
            &mut new_name,"""
EDITS = {
 "base": [],
 # (1) the stride is the product of the wrong suffix
 "B1_stride_wrong_suffix": [("for &size in &dim_sizes[i + 1..] {", "for &size in &dim_sizes[i..dim_sizes.len() - 1] {")],
 "B1b_stride_includes_own_dim": [("for &size in &dim_sizes[i + 1..] {", "for &size in &dim_sizes[i..] {")],
 # (2) column-major instead of row-major: stride_i = prod_{u<i} d_u
 "B2_column_major": [("for &size in &dim_sizes[i + 1..] {", "for &size in &dim_sizes[..i] {")],
 # (3) flat index off by one
 "B3_off_by_one": [("        result_indices.push(linear_index);", "        result_indices.push(linear_index + 1);")],
 "B3b_off_by_one_idx": [("            linear_index += idx * stride;", "            linear_index += (idx + 1) * stride;")],
 # (4) the mapping pairs the index with the previous variable's name
 "B4_prev_variable_name": [("    for (var_name, var_dims) in data_dims {\n", "    let mut prev_name = String::new();\n    for (var_name, var_dims) in data_dims {\n"),
                           ("                column_mapping.push((var_name.clone(), index));\n            }\n        }\n",
                            "                column_mapping.push((prev_name.clone(), index));\n            }\n        }\n        prev_name = var_name;\n")],
 # (5) a dimension of size 1 is skipped (its index 0 is not pushed, so later indices meet the wrong strides)
 "B5_size1_dim_skipped": [("    let is_first_dim = dim_idx == 0;\n", """    if coord_sets[dim_idx].len() == 1 {
        cartesian_product_recursive_with_indices(
            coord_sets,
            dim_sizes,
            dim_idx + 1,
            current_name,
            current_indices,
            result_names,
            result_indices,
        );
        return;
    }
    let is_first_dim = dim_idx == 0;
""")],
 "B5b_size1_dim_not_in_sizes": [("        dim_sizes_vec.push(size);\n", "        if size != 1 {\n            dim_sizes_vec.push(size);\n        }\n")],
 # harmless
 "H1_rename_local": [("new_name", "nm")],
 "H2_reorder_independent": [("        current_indices.push(coord_idx);\n" + REC_CALL, "@@PUSH@@" + REC_CALL),
                            ("        let mut new_name = current_name.clone();\n", "        current_indices.push(coord_idx);\n        let mut new_name = current_name.clone();\n"),
                            ("@@PUSH@@", "")],
 "H3_rename_names_local": [("let mut names = vec![];", "let mut out_names = vec![];"), ("&mut names,", "&mut out_names,"), ("(names, indices)\n}", "(out_names, indices)\n}")],
}
def run(name, g):
    r = core.run_verus(g.path)
    if r.fatal:
        print("%-28s UNDECIDED (verus fatal) %s" % (name, r.fatal[:1200])); return
    fails = core.attribute(g, r)
    res = sorted({(f["name"], f["kind"], f["message"][:70], str(f.get("src")), str(f.get("clause_tags"))) for f in fails})
    print("%-28s %s verified=%s errors=%s" % (name, "GREEN" if not res else "FAIL", r.summary.get("verified"), r.summary.get("errors")))
    for x in res:
        print("      ", x)
which = sys.argv[1:] or (list(EDITS) + ["VAC"])
for name in which:
    subprocess.run(["git", "-C", WT, "checkout", "-q", "--", F], check=True)
    if name == "VAC":
        cfg = core.load_unit("csvcols")
        keys = list(core.build("csvcols", "I", repo=WT, tag="_val").contracts) if hasattr(core.Gen, "contracts") else None
        import re
        keys = [m.group(1) for vs in cfg["models"]["I"]["vspec"] for m in re.finditer(r"^## fn (\S+)", open(os.path.join(cfg["_dir"], vs)).read(), re.M)]
        for k in keys:
            try:
                g = core.build("csvcols", "I", repo=WT, mutate_false=k, tag="_val")
            except core.UnitError as e:
                print("V:%-26s UNDECIDED %s" % (k, str(e)[:200])); continue
            r = core.run_verus(g.path)
            if r.fatal:
                print("V:%-26s UNDECIDED %s" % (k, r.fatal[:600])); continue
            fails = core.attribute(g, r)
            print("V:%-26s %s" % (k, "REJECTED in " + ",".join(sorted({f["name"] for f in fails})) if fails else "ACCEPTED ensures false (!!)"))
        continue
    p = os.path.join(WT, F)
    s = open(p).read()
    ok = True
    for old, new in EDITS[name]:
        if s.count(old) < 1:
            print(name, "EDIT DOES NOT APPLY:", old[:50]); ok = False; break
        s = s.replace(old, new)
    if not ok:
        continue
    open(p, "w").write(s)
    try:
        g = core.build("csvcols", "I", repo=WT, tag="_val")
    except core.UnitError as e:
        print("%-28s UNDECIDED (unit error) %s" % (name, str(e)[:300])); continue
    run(name, g)
subprocess.run(["git", "-C", WT, "checkout", "-q", "--", F], check=True)
try:
    os.remove(os.path.join(core.BUILD, "csvcols_I_val.rs"))
except OSError:
    pass
