    // ghost items spliced into `impl ChainStorage for CsvChainStorage` (rule R1: contracts)
    open spec fn record_sample_pre(&self, stats: Seq<(&str, Option<Value>)>, draws: Seq<(&str, Option<Value>)>, info: &Progress) -> bool {
        rs_pre(*self, stats, draws, *info)
    }
    open spec fn record_sample_post(&self, post: &Self, info: &Progress, r: Result<()>) -> bool {
        rs_post(*self, *post, *info, r)
    }
    open spec fn finalize_post(&self, r: Result<()>) -> bool {
        fin_post(*self, r)
    }
    open spec fn inspect_post(&self, r: Result<Option<()>>) -> bool {
        insp_post(*self, r)
    }
    open spec fn flush_post(&self, r: Result<()>) -> bool {
        fl_post(*self, r)
    }
