    // FALLBACK (unit_nopatch.json only): `write_sample_row` is not extracted (Verus rejects its two closure
    // parameter patterns `|(k, v)|`; the official extractor has no rule for them).  Its contract is then an
    // ASSUMPTION (A-csv-rowstub) instead of a proved obligation.
    #[verifier::external_body]
    pub fn write_sample_row(
        &mut self,
        stats: &Vec<(&str, Option<Value>)>,
        draws: &Vec<(&str, Option<Value>)>,
        _info: &Progress,
    ) -> (r: Result<()>)
        requires
            entries_ok(stats@) && entries_ok(draws@),
            prec_ok(*old(self)),
        ensures
            io_surfaces(old(self).writer, final(self).writer, r),
    { unimplemented!() }
