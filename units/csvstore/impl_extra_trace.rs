    // ghost items spliced into `impl TraceStorage for CsvTraceStorage` (rule R1: contracts)
    open spec fn finalize_post(&self, traces: Seq<Result<()>>, r: Result<(Option<anyhow::Error>, ())>) -> bool {
        collect_post(traces, r)
    }
    open spec fn inspect_post(&self, traces: Seq<Result<Option<()>>>, r: Result<(Option<anyhow::Error>, ())>) -> bool {
        collect_post(traces, r)
    }
    open spec fn init_post(&self, chain_id: u64, r: Result<CsvChainStorage>) -> bool {
        new_post(self.output_dir.p, self.precision, r)
    }
