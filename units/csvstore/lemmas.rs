// Spec functions of unit `csvstore`, written from the text of C13 ("... the storage backend fails ...
// the parallel sampler reports that error ... as an Err value.  It does not panic the calling thread,
// hang, or report success ...") as it applies to ONE chain's CSV storage object.  Unit sampler_chain
// proves that an Err of record_sample / finalize reaches wait_timeout; this unit proves that an I/O
// failure of the underlying writer becomes such an Err.  No proof lemmas are needed.

/// [C13.s1] "no swallowed error": if a write or flush of the underlying writer failed during the
/// call, the call returns Err.  `w0` / `w1` = the writer before / after the call; `faults()` is the
/// ghost failure log of the facade (prelude.rs).
pub open spec fn io_surfaces<T, W>(w0: BufWriter<W>, w1: BufWriter<W>, r: Result<T>) -> bool {
    w1.faults() > w0.faults() ==> r is Err
}

/// [C13.s3] panic-freedom of `format_value`: the two `panic!` arms (csv.rs:219-220) are excluded
pub open spec fn fv_ok(v: Value) -> bool {
    !(v is DateTime64) && !(v is TimeDelta64)
}

/// [C13.s3] call-site precondition of record_sample / write_sample_row (see contracts.vspec)
pub open spec fn entries_ok(es: Seq<(&str, Option<Value>)>) -> bool {
    forall|i: int| 0 <= i < es.len() && (#[trigger] es[i]).1 is Some ==> fv_ok(es[i].1->Some_0)
}

/// A-csv-lookup vocabulary: `o` is the value of one of the collected pairs stored under key `k`
pub open spec fn pair_in(ps: Seq<(&str, &Option<Value>)>, k: Seq<char>, o: Option<Value>) -> bool {
    exists|i: int| 0 <= i < ps.len() && (#[trigger] ps[i]).0@ == k && *ps[i].1 == o
}
/// every pair of the lookup carries the value of the entry of `src` at the same position
pub open spec fn lookup_from(ps: Seq<(&str, &Option<Value>)>, src: Seq<(&str, Option<Value>)>) -> bool {
    ps.len() == src.len() && forall|i: int| 0 <= i < ps.len() ==> *(#[trigger] ps[i]).1 == src[i].1
}

pub open spec fn rs_pre(s: CsvChainStorage, stats: Seq<(&str, Option<Value>)>, draws: Seq<(&str, Option<Value>)>, info: Progress) -> bool {
    entries_ok(stats) && entries_ok(draws) && prec_ok(s)
}

/// [C13.s1] record_sample: an I/O failure while writing the header or the row is returned as Err
pub open spec fn rs_post(s0: CsvChainStorage, s1: CsvChainStorage, info: Progress, r: Result<()>) -> bool {
    io_surfaces(s0.writer, s1.writer, r)
}

/// [C13.s2] finalize(self): success is reported only if the buffered writer was flushed
/// successfully.  `s` is the storage as it was handed to finalize; `next_flush_ok` is the outcome
/// oracle of the facade: Ok may be returned only on a path on which a flush of the writer, started
/// in the state it had at entry, has returned Ok.  A writer that is merely dropped (implicitly at
/// the end of the body, or by `drop(self.writer)`) flushes too, but discards the I/O error: no
/// such path establishes the oracle.
pub open spec fn fin_post(s: CsvChainStorage, r: Result<()>) -> bool {
    r is Ok ==> s.writer.next_flush_ok()
}

/// A-io-drop for the whole storage object: `drop(storage)` drops its writer
impl Droppable for CsvChainStorage {
    open spec fn droppable(&self) -> bool { self.writer.droppable() }
}

/// [C13.s4] flush(&self) / inspect(&self): the receiver is `&self` and the facade writer offers no
/// operation through `&` (std: BufWriter cannot be flushed without `&mut`, the comment in csv.rs says
/// so), hence no I/O can happen and there is no failure that could be swallowed.  C13 demands nothing
/// else of them; what is proved is panic-freedom for EVERY outcome of the inner call (inspect
/// propagates the result of flush with `?`; an `unwrap()` there would be a failing obligation).
pub open spec fn fl_post(s: CsvChainStorage, r: Result<()>) -> bool {
    true
}
pub open spec fn insp_post(s: CsvChainStorage, r: Result<Option<()>>) -> bool {
    true
}

/// [C13.s5] CsvTraceStorage::{finalize, inspect}: "in any chain" -- if the finalisation (inspection) of
/// ANY chain returned Err, the combined result carries an error (`Ok((Some(err), ()))` is what
/// `Sampler::wait_timeout` maps to `SamplerWaitResult::Err(err, Some(trace))`, unit sampler_chain);
/// and a reported error is one of the chains' errors.
pub open spec fn any_err<T>(ts: Seq<Result<T>>) -> bool {
    exists|i: int| 0 <= i < ts.len() && (#[trigger] ts[i]) is Err
}
pub open spec fn collect_post<T>(ts: Seq<Result<T>>, r: Result<(Option<anyhow::Error>, ())>) -> bool {
    // success without an error value is reported only if no chain failed
    &&& any_err(ts) ==> (r is Err || r->Ok_0.0 is Some)
    // an error reported next to the trace is the error of one of the chains
    &&& (r is Ok && r->Ok_0.0 is Some) ==> exists|i: int| 0 <= i < ts.len() && (#[trigger] ts[i]) is Err && ts[i]->Err_0 == r->Ok_0.0->Some_0
}

/// [C13.s6] CsvChainStorage::new / initialize_trace_for_chain: "the storage backend fails" at creation --
/// success is reported only if the output directory could be created (oracle of the facade; the file
/// path is built inside `new`, so File::create's oracle cannot be named here: its Err is propagated by
/// `?`, an `unwrap()` instead would be a failing panic-freedom obligation); a fresh storage has an
/// empty, unfailed writer and the configured precision (only ever copied: see prec_ok).
pub open spec fn new_post(output_dir: Path, precision: usize, r: Result<CsvChainStorage>) -> bool {
    r is Ok ==> {
        &&& output_dir.create_dir_ok()
        &&& r->Ok_0.writer.faults() == 0
        &&& r->Ok_0.writer.flushed()
        &&& r->Ok_0.precision == precision
        &&& r->Ok_0.is_first_sample
        &&& !r->Ok_0.headers_written
    }
}
