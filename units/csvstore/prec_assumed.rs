// model I: A-csv-precision -- the configured number of decimals fits core::fmt's 16-bit precision.
// NOT established by the call site on the pinned tree: `CsvConfig::with_precision` accepts any usize
// and the value is only copied (csv.rs new_trace -> initialize_trace_for_chain -> CsvChainStorage::new).
// See finding_precision_panic.patch; model Istrict drops this assumption.
pub open spec fn prec_ok(s: CsvChainStorage) -> bool { s.precision <= 0xFFFF }
