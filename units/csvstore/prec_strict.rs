// model Istrict: no assumption on the configured precision (panic-freedom of `format!("{:.prec$}", ..)`
// must follow from the code of format_value itself)
pub open spec fn prec_ok(s: CsvChainStorage) -> bool { true }
