// Prelude of unit `csvstore` (C13, storage side of the CSV backend; no float reasoning).
// Everything the extracted code of src/storage/csv.rs calls but that is not extracted.
// EVERY contract below is an ASSUMPTION of this unit; none is proved by another unit.
// Ids for DESIGN section 6 / 11.7:
//   A-io-outcome   std::io::BufWriter<File>: `write_fmt` (through `writeln!`) and `flush`, `fs::create_dir_all`,
//                  `File::create` have an ARBITRARY outcome (Ok or Err) -- a stub never promises success.  The
//                  facade only keeps a ghost record of what happened:
//                    faults()        = number of write/flush calls on this writer that returned Err,
//                    flushed()       = the buffer is empty because the last operation was a successful flush,
//                    next_flush_ok() = outcome oracle: "a flush started in THIS state returns Ok"
//                  (likewise Path::create_dir_ok, File::create_ok).
//   A-io-drop      dropping a BufWriter flushes but discards the I/O error (std docs): an explicit
//                  `drop(w)` therefore demands `w.flushed()`; implicit drops are invisible to Verus and are
//                  covered by the postcondition of `finalize` (lemmas.rs `fin_post`).
//   A-anyhow       `?` / `.context(..)` / `.with_context(..)` keep Ok as Ok and Err as Err (message text not
//                  modelled)
//   A-fmt          string formatting (`format!`, `to_string`, `join`) neither fails nor panics EXCEPT for a
//                  run-time precision above u16::MAX (`vx_format_prec`); the text is not modelled; the
//                  arguments of `writeln!` after the writer are dropped by R5 `@first`
//   A-float-class  f64/f32 `is_nan` / `is_infinite` are total (no contract)
//   A-csv-lookup   the lookup scaffolding `xs.iter().map(f).collect::<HashMap<..>>()` / `.get(k)` of
//                  write_sample_row (facade at the end of this file)
// Call-site assumptions (stated as preconditions of record_sample, lemmas.rs `rs_pre`):
//   A-csv-values   no DateTime64 / TimeDelta64 value is handed to the CSV backend
//   A-csv-precision (model I only) the configured precision is at most u16::MAX
// Rewrites used (unit.json): R4.mutself (finalize), R5 `writeln: @first`, `panic: @noargs`, R9.method
// `iter -> vx_iter`, R12.typemap `HashMap<&str, &Option<Value>> -> VxLookup`, R13.closurepat
// (`|(k, v)| e` -> `|vx_cp0| { let (k, v) = vx_cp0; e }`), R1.closure contracts on 4 closures.
use core::marker::PhantomData;
use vstd::std_specs::convert::*;

// ------------------------------------------------------------------------------------------
// anyhow facade (A-anyhow)
// ------------------------------------------------------------------------------------------
pub mod anyhow {
    use vstd::prelude::*;
    /// opaque error value
    pub struct Error { pub id: Ghost<int> }
    #[verifier::external]
    impl core::fmt::Debug for Error {
        fn fmt(&self, f: &mut core::fmt::Formatter<'_>) -> core::fmt::Result { Ok(()) }
    }
}
pub type Result<T, E = anyhow::Error> = core::result::Result<T, E>;

/// anyhow::Context for Result: Ok stays Ok (same value), Err stays Err
pub trait Context<T, E>: Sized {
    fn context(self, msg: &'static str) -> (r: Result<T, anyhow::Error>);
    fn with_context<C, F: FnOnce() -> C>(self, f: F) -> (r: Result<T, anyhow::Error>);
}
impl<T, E> Context<T, E> for core::result::Result<T, E> {
    #[verifier::external_body]
    fn context(self, msg: &'static str) -> (r: Result<T, anyhow::Error>)
        ensures
            (self is Ok) == (r is Ok),
            self is Ok ==> r->Ok_0 == self->Ok_0,
    { unimplemented!() }
    /// the message closure is called only on the Err path; its result is not modelled
    #[verifier::external_body]
    fn with_context<C, F: FnOnce() -> C>(self, f: F) -> (r: Result<T, anyhow::Error>)
        ensures
            (self is Ok) == (r is Ok),
            self is Ok ==> r->Ok_0 == self->Ok_0,
    { unimplemented!() }
}

// ------------------------------------------------------------------------------------------
// std::io facade (A-io-outcome, A-io-drop)
// ------------------------------------------------------------------------------------------
/// std::io::Error (opaque)
pub struct IoError { pub id: Ghost<int> }
#[verifier::external]
impl core::fmt::Debug for IoError {
    fn fmt(&self, f: &mut core::fmt::Formatter<'_>) -> core::fmt::Result { Ok(()) }
}
/// `?` on an io::Result inside a function returning anyhow::Result: `impl From<io::Error> for anyhow::Error`
impl FromSpecImpl<IoError> for anyhow::Error {
    open spec fn obeys_from_spec() -> bool { false }
    open spec fn from_spec(v: IoError) -> Self { anyhow::Error { id: v.id } }
}
impl From<IoError> for anyhow::Error {
    fn from(e: IoError) -> (r: anyhow::Error) { anyhow::Error { id: e.id } }
}

/// std::path::{Path, PathBuf} (opaque).  `&PathBuf` coerces to `&Path` as in std.
pub struct Path {}
pub struct PathBuf { pub p: Path }
impl core::ops::Deref for PathBuf {
    type Target = Path;
    fn deref(&self) -> &Path { &self.p }
}
impl Path {
    /// ghost outcome oracle of `std::fs::create_dir_all(self)`
    pub uninterp spec fn create_dir_ok(&self) -> bool;
    #[verifier::external_body]
    pub fn join<P>(&self, name: P) -> (r: PathBuf) { unimplemented!() }
}
/// `std::fs::create_dir_all` of the source resolves to this module (a module `std` of the crate root
/// shadows the extern crate for paths written `std::..`; the prelude itself uses `core::` / `vstd::`)
pub mod std {
    pub mod fs {
        use vstd::prelude::*;
        /// ARBITRARY outcome, decided by the oracle of the path
        #[verifier::external_body]
        pub fn create_dir_all(path: &crate::Path) -> (r: core::result::Result<(), crate::IoError>)
            ensures (r is Ok) == path.create_dir_ok(),
        { unimplemented!() }
    }
}
/// std::fs::File (opaque)
pub struct File { pub id: Ghost<int> }
impl File {
    /// ghost outcome oracle of `File::create(path)`
    pub uninterp spec fn create_ok(path: PathBuf) -> bool;
    /// `File::create(&file_path)`: ARBITRARY outcome
    #[verifier::external_body]
    pub fn create(path: &PathBuf) -> (r: core::result::Result<File, IoError>)
        ensures (r is Ok) == File::create_ok(*path),
    { unimplemented!() }
}

/// std::io::BufWriter<W>.  The type is opaque (external_body): two writers are never equal by
/// structure, the ghost observers below are the only thing known about a value.
#[verifier::external_body]
#[verifier::reject_recursive_types(W)]
pub struct BufWriter<W> { _w: PhantomData<W> }

impl<W> BufWriter<W> {
    /// ghost failure log: number of `write_fmt` / `flush` calls on this writer that have returned Err
    pub uninterp spec fn faults(&self) -> nat;
    /// ghost: the internal buffer is empty because the most recent operation was a successful flush
    /// (nothing is promised after a write: it may or may not leave bytes in the buffer)
    pub uninterp spec fn flushed(&self) -> bool;
    /// ghost outcome oracle: a `flush` started in this state returns Ok.  (The state of the facade
    /// includes the future behaviour of the file system; this makes "the flush succeeded" a fact
    /// about the value the writer had BEFORE the call, which a by-value `finalize(self)` can state.)
    pub uninterp spec fn next_flush_ok(&self) -> bool;

    /// `BufWriter::new(file)`: empty buffer, nothing has failed yet
    #[verifier::external_body]
    pub fn new(inner: W) -> (r: BufWriter<W>)
        ensures r.faults() == 0, r.flushed(),
    { unimplemented!() }

    /// `writeln!(w, ..)` = `w.write_fmt(format_args!(..))`: ARBITRARY outcome; a failure is recorded
    #[verifier::external_body]
    pub fn vx_writeln(&mut self) -> (r: core::result::Result<(), IoError>)
        ensures
            final(self).faults() == old(self).faults() + (if r is Err { 1nat } else { 0nat }),
    { unimplemented!() }

    /// `Write::flush`: ARBITRARY outcome (decided by the oracle of the pre-state); a failure is recorded;
    /// on success the buffer is empty
    #[verifier::external_body]
    pub fn flush(&mut self) -> (r: core::result::Result<(), IoError>)
        ensures
            (r is Ok) == old(self).next_flush_ok(),
            final(self).faults() == old(self).faults() + (if r is Err { 1nat } else { 0nat }),
            r is Ok ==> final(self).flushed(),
    { unimplemented!() }
}

/// R5 `writeln: @first` keeps only the writer argument: `writeln!(self.writer, "{}", x)` is extracted
/// as `writeln!(self.writer)`; this macro (it shadows std's) turns that into the facade call.
/// Dropped: evaluation of the format arguments (`headers.join(",")`, `row_values.join(",")`: A-fmt).
macro_rules! writeln {
    ($w:expr) => { $w.vx_writeln() };
}

/// values whose destruction can lose information.  (A-io-drop)
pub trait Droppable {
    spec fn droppable(&self) -> bool;
}
impl<W> Droppable for BufWriter<W> {
    /// `impl Drop for BufWriter`: "the buffer is written out, errors are ignored" -- harmless only
    /// if there is nothing left to write
    open spec fn droppable(&self) -> bool { self.flushed() }
}
/// `drop(x)` of the source resolves to this function (an item of the crate root shadows the std
/// prelude): an explicit drop of an unflushed writer is a contract violation.
pub fn drop<T: Droppable>(x: T)
    requires x.droppable(),
{
}

// ------------------------------------------------------------------------------------------
// string / float scaffolding (A-fmt, A-float-class)
// ------------------------------------------------------------------------------------------
/// result of a `format!(..)` without run-time width / precision: some string
#[verifier::external_body]
pub fn opaque_string() -> (r: String) { unimplemented!() }
/// `format!("{:.prec$}", v, prec = p)`: core::fmt PANICS ("Formatting argument out of range") when a
/// run-time precision exceeds u16::MAX (Rust >= 1.87; reproduced with the installed rustc 1.95).
/// The precondition is that panic condition; the formatted text itself is not modelled.
#[verifier::external_body]
pub fn vx_format_prec(p: usize) -> (r: String)
    requires p <= 0xFFFF,   // [C13.s3]
{ unimplemented!() }
/// `format!` is NOT rewritten by the extractor in this unit: the real argument tokens reach this macro
/// (it shadows std's).  A call with a named run-time precision keeps that argument, so the obligation is
/// about the precision actually passed; every other call is an opaque string.  contracts.vspec repeats
/// the definition at the head of `format_value` (an inner definition shadows this one) ONLY so that a
/// failing precision obligation is reported inside the extracted function and not "in the prelude".
macro_rules! format {
    ($fmt:literal, $v:expr, prec = $p:expr) => { vx_format_prec($p) };
    ($($t:tt)*) => { opaque_string() };
}

pub assume_specification[ f64::is_nan ](x: f64) -> bool;
pub assume_specification[ f64::is_infinite ](x: f64) -> bool;
pub assume_specification[ f32::is_nan ](x: f32) -> bool;
pub assume_specification[ f32::is_infinite ](x: f32) -> bool;

// ------------------------------------------------------------------------------------------
// nuts-rs facade
// ------------------------------------------------------------------------------------------
/// crate::Settings: `record_sample` never touches its `_settings` argument
pub trait Settings {}

/// nuts_rs::storage::ChainStorage (src/storage/core.rs).  Verus rejects requires/ensures on
/// trait-impl methods: the per-impl contract is supplied by the ghost items spliced into the
/// extracted impl (impl_extra.rs), which delegate to the spec functions of lemmas.rs.
/// (`inspect` has a default body `Ok(None)` in the real trait; the CSV backend overrides it.)
pub trait ChainStorage: Sized {
    type Finalized;

    spec fn record_sample_pre(&self, stats: Seq<(&str, Option<Value>)>, draws: Seq<(&str, Option<Value>)>, info: &Progress) -> bool;
    spec fn record_sample_post(&self, post: &Self, info: &Progress, r: Result<()>) -> bool;
    fn record_sample(
        &mut self,
        settings: &impl Settings,
        stats: Vec<(&str, Option<Value>)>,
        draws: Vec<(&str, Option<Value>)>,
        info: &Progress,
    ) -> (r: Result<()>)
        requires old(self).record_sample_pre(stats@, draws@, info)
        ensures old(self).record_sample_post(final(self), info, r);

    spec fn finalize_post(&self, r: Result<Self::Finalized>) -> bool;
    fn finalize(self) -> (r: Result<Self::Finalized>)
        ensures self.finalize_post(r);

    spec fn inspect_post(&self, r: Result<Option<Self::Finalized>>) -> bool;
    fn inspect(&self) -> (r: Result<Option<Self::Finalized>>)
        ensures self.inspect_post(r);

    spec fn flush_post(&self, r: Result<()>) -> bool;
    fn flush(&self) -> (r: Result<()>)
        ensures self.flush_post(r);
}

/// nuts_rs::storage::TraceStorage (src/storage/core.rs)
pub trait TraceStorage: Sized {
    type ChainStorage: ChainStorage;
    type Finalized;

    spec fn init_post(&self, chain_id: u64, r: Result<Self::ChainStorage>) -> bool;
    fn initialize_trace_for_chain(&self, chain_id: u64) -> (r: Result<Self::ChainStorage>)
        ensures self.init_post(chain_id, r);

    spec fn finalize_post(&self, traces: Seq<Result<<Self::ChainStorage as ChainStorage>::Finalized>>, r: Result<(Option<anyhow::Error>, Self::Finalized)>) -> bool;
    fn finalize(
        self,
        traces: Vec<Result<<Self::ChainStorage as ChainStorage>::Finalized>>,
    ) -> (r: Result<(Option<anyhow::Error>, Self::Finalized)>)
        ensures self.finalize_post(traces@, r);

    spec fn inspect_post(&self, traces: Seq<Result<Option<<Self::ChainStorage as ChainStorage>::Finalized>>>, r: Result<(Option<anyhow::Error>, Self::Finalized)>) -> bool;
    fn inspect(
        &self,
        traces: Vec<Result<Option<<Self::ChainStorage as ChainStorage>::Finalized>>>,
    ) -> (r: Result<(Option<anyhow::Error>, Self::Finalized)>)
        ensures self.inspect_post(traces@, r);
}

// ------------------------------------------------------------------------------------------
// A-csv-lookup: facade for the lookup scaffolding of `write_sample_row`
//     let m: HashMap<&str, &Option<Value>> = xs.iter().map(|(k, v)| (*k, v)).collect();   ...   m.get(name)
// std's iterator adapters / HashMap carry no specification that links `m.get(name)` back to `xs`.
// Rewrites: R9.method `iter` -> `vx_iter`; R12.typemap `HashMap<&str, &Option<Value>>` -> `VxLookup`;
// `map`, `collect`, `get` are then inherent methods of the facade types (no rewrite needed).
// What is assumed (true of std for ANY closure f, duplicates included):
//   * `xs.iter().map(f)` applies f to each element of xs, in order;
//   * `collect()` into a HashMap keeps, for every key, one of the collected pairs with that key;
//   * `get(k)` returns (a reference to) the value of a kept pair whose key equals k.
// Not modelled: which of several equal keys wins; that a present key IS found.
// ------------------------------------------------------------------------------------------
pub trait VxIter: Sized {
    type It;
    spec fn vx_iter_post(self, r: Self::It) -> bool;
    fn vx_iter(self) -> (r: Self::It)
        ensures self.vx_iter_post(r);
}
/// `stats.iter()` / `draws.iter()`
impl<'b, 'c> VxIter for &'b Vec<(&'c str, Option<Value>)> {
    type It = VxEntries<'b, 'c>;
    open spec fn vx_iter_post(self, r: VxEntries<'b, 'c>) -> bool { r.src() == self@ }
    #[verifier::external_body]
    fn vx_iter(self) -> (r: VxEntries<'b, 'c>) { unimplemented!() }
}
/// `self.parameter_names.iter()`: the real slice iterator (the renaming is by method name only)
impl<'a> VxIter for &'a Vec<String> {
    type It = core::slice::Iter<'a, String>;
    open spec fn vx_iter_post(self, r: core::slice::Iter<'a, String>) -> bool { true }
    fn vx_iter(self) -> (r: core::slice::Iter<'a, String>) { self.iter() }
}
#[verifier::external_body]
pub struct VxEntries<'b, 'c> { _p: PhantomData<&'b (&'c str, Option<Value>)> }
#[verifier::external_body]
pub struct VxPairs<'b, 'c> { _p: PhantomData<&'b (&'c str, Option<Value>)> }
#[verifier::external_body]
pub struct VxLookup<'b, 'c> { _p: PhantomData<&'b (&'c str, Option<Value>)> }

impl<'b, 'c> VxEntries<'b, 'c> {
    /// the vector being iterated
    pub uninterp spec fn src(&self) -> Seq<(&'c str, Option<Value>)>;
    /// Iterator::map
    #[verifier::external_body]
    pub fn map<F: Fn(&'b (&'c str, Option<Value>)) -> (&'c str, &'b Option<Value>)>(self, f: F) -> (r: VxPairs<'b, 'c>)
        requires
            forall|e: &'b (&'c str, Option<Value>)| f.requires((e,)),
        ensures
            r.pairs().len() == self.src().len(),
            forall|i: int| 0 <= i < self.src().len() ==> f.ensures((&#[trigger] self.src()[i],), r.pairs()[i]),
    { unimplemented!() }
}
impl<'b, 'c> VxPairs<'b, 'c> {
    pub uninterp spec fn pairs(&self) -> Seq<(&'c str, &'b Option<Value>)>;
    /// Iterator::collect::<HashMap<_, _>>
    #[verifier::external_body]
    pub fn collect(self) -> (r: VxLookup<'b, 'c>)
        ensures r.pairs() == self.pairs(),
    { unimplemented!() }
}
impl<'b, 'c> VxLookup<'b, 'c> {
    /// the pairs the map was collected from (a superset of its content)
    pub uninterp spec fn pairs(&self) -> Seq<(&'c str, &'b Option<Value>)>;
    /// HashMap::get
    #[verifier::external_body]
    pub fn get(&self, k: &str) -> (r: Option<&&'b Option<Value>>)
        ensures r is Some ==> pair_in(self.pairs(), k@, **r->Some_0),
    { unimplemented!() }
}
