#!/usr/bin/env python3
"""validation of unit csvstore (UNITS.md "Validation"): apply one edit at a time to a scratch worktree of /repo
and run the unit against it.  usage: units/csvstore/validate.py [edit names..]   (MODEL=Istrict for the strict model)
Expected: M*/T1/P*/N*/I1 -> FAIL in the named function; H* -> GREEN; M9 (write after the flush inside finalize) is a
known blind spot (GREEN); T2 (loop deleted) is ANCHOR-LOST = undecided by the rules of the framework."""
import os, sys, subprocess
sys.path.insert(0, os.path.dirname(os.path.dirname(os.path.dirname(os.path.abspath(__file__)))))
WT = "/tmp/csvstore_validate_%d" % os.getpid()
subprocess.run(["git", "-C", "/repo", "worktree", "add", "-q", WT, "HEAD"], check=True)
os.environ["VERIF_REPO"] = WT
from vx import core
core.REPO = WT
F = "src/storage/csv.rs"
FLUSH = '        self.writer.flush().context("Failed to flush CSV file")?;\n'
EDITS = {
 "base": [],
 "M1_drop_writer": [("    fn finalize(mut self) -> Result<Self::Finalized> {\n" + FLUSH,
                      "    fn finalize(self) -> Result<Self::Finalized> {\n        drop(self.writer);\n")],
 "M2_no_flush": [(FLUSH, "")],
 "M3a_header_let_": [('        writeln!(self.writer, "{}", headers.join(","))?;', '        let _ = writeln!(self.writer, "{}", headers.join(","));')],
 "M3b_header_ok": [('        writeln!(self.writer, "{}", headers.join(","))?;', '        writeln!(self.writer, "{}", headers.join(",")).ok();')],
 "M3c_row_let_": [('        writeln!(self.writer, "{}", row_values.join(","))?;', '        let _ = writeln!(self.writer, "{}", row_values.join(","));')],
 "M3d_row_ok": [('        writeln!(self.writer, "{}", row_values.join(","))?;', '        writeln!(self.writer, "{}", row_values.join(",")).ok();')],
 "M4_ignore_row": [('        self.write_sample_row(&stats, &draws, info)?;', '        let _ = self.write_sample_row(&stats, &draws, info);')],
 "M5_ignore_header": [('            self.write_header()?;', '            let _ = self.write_header();')],
 "M8_drop_self": [("    fn finalize(mut self) -> Result<Self::Finalized> {\n" + FLUSH,
                      "    fn finalize(self) -> Result<Self::Finalized> {\n        drop(self);\n")],
 "M9_write_after_flush": [(FLUSH, FLUSH + '        writeln!(self.writer, "# end")?;\n')],
 "M6_flush_ignored": [(FLUSH, '        let _ = self.writer.flush();\n')],
 "M7_flush_ok": [(FLUSH, '        self.writer.flush().ok();\n')],
 "T1_trace_err_dropped": [("""        for trace_result in traces {
            if let Err(err) = trace_result {
                return Ok((Some(err), ()));
            }
        }
        Ok((None, ()))
    }

    fn inspect(""", """        for trace_result in traces {
            if let Err(_err) = trace_result {
                return Ok((None, ()));
            }
        }
        Ok((None, ()))
    }

    fn inspect(""")],
 "T2_inspect_no_loop": [("""        // Check for any errors in the chain inspections
        for trace_result in traces {
            if let Err(err) = trace_result {
                return Ok((Some(err), ()));
            }
        }
""", "")],
 "P1_index_unguarded": [("""            Value::U64(vec) => {
                if vec.is_empty() {""", """            Value::U64(vec) => {
                if false {""")],
 "P2_index_off_by_one": [("""                    Value::I64(vec) => {
                        if *index < vec.len() {""", """                    Value::I64(vec) => {
                        if *index <= vec.len() {""")],
 "P3_recursion": [("self.format_value(&Value::ScalarF32(vec[0]))", "self.format_value(value)")],
 "P4_unwrap_lookup": [("""        let divergent_val = stats_map
            .get("diverging")
            .and_then(|opt| opt.as_ref())""", """        let divergent_val = stats_map
            .get("diverging")
            .and_then(|opt| Some(opt.as_ref().unwrap()))""")],
 "N1_mkdir_swallowed": [("""        std::fs::create_dir_all(output_dir)
            .with_context(|| format!("Failed to create output directory: {:?}", output_dir))?;""", """        std::fs::create_dir_all(output_dir).ok();""")],
 "N2_create_unwrap": [("""            .with_context(|| format!("Failed to create CSV file: {:?}", file_path))?;""", """            .with_context(|| format!("Failed to create CSV file: {:?}", file_path)).unwrap();""")],
 "N3_precision_lost": [("""            writer,
            precision,""", """            writer,
            precision: 6,""")],
 "I1_inspect_unwrap": [("        self.flush()?;\n        Ok(None)", "        self.flush().unwrap();\n        Ok(None)")],
 "H1_rename_local": [('let mut headers = vec![', 'let mut cols = vec!['), ('            headers.push(param_name.clone());', '            cols.push(param_name.clone());'),
                     ('headers.join(",")', 'cols.join(",")')],
 "H2_split_flush": [(FLUSH, '        let r = self.writer.flush();\n        r.context("Failed to flush CSV file")?;\n')],
 "H3_rename_row_local": [('row_values', 'rv')],
}
which = sys.argv[1:] or list(EDITS)
for name in which:
    subprocess.run(["git", "-C", WT, "checkout", "-q", "--", F], check=True)
    p = os.path.join(WT, F)
    s = open(p).read()
    ok = True
    for old, new in EDITS[name]:
        n = s.count(old)
        if n < 1:
            print(name, "EDIT DOES NOT APPLY:", old[:50]); ok = False; break
        s = s.replace(old, new)
    if not ok:
        continue
    open(p, "w").write(s)
    try:
        g = core.build("csvstore", os.environ.get("MODEL", "I"), repo=WT, tag="_val")
    except core.UnitError as e:
        print("%-20s UNDECIDED (unit error) %s" % (name, str(e)[:300])); continue
    r = core.run_verus(g.path)
    if r.fatal:
        print("%-20s UNDECIDED (verus fatal) %s" % (name, r.fatal[:1500])); continue
    fails = core.attribute(g, r)
    res = sorted({(f["name"], f["kind"], f["message"][:60], str(f.get("src"))) for f in fails})
    print("%-20s %s %s" % (name, "GREEN" if not res else "FAIL", r.summary.get("verified")))
    for x in res:
        print("      ", x)
subprocess.run(["git", "-C", "/repo", "worktree", "remove", "--force", WT])
for m in ("I", "Istrict"):
    try:
        os.remove(os.path.join(core.BUILD, "csvstore_%s_val.rs" % m))
    except OSError:
        pass
