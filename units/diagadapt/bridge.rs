// bridge.rs (unit `diagadapt`) -- machine-checked BRIDGE for assumption A-estimator-abstraction (DESIGN 11.7)
// =====================================================================================================
// Unit `adapt` proves the warm-up schedule (C06 / C09) against the ABSTRACT estimator trait of
// units/adapt/prelude.rs (FUNCTIONAL contracts over the sample histories `fg()` / `bg()`; verbatim copy in
// bridge_trait.rs).  This unit proves the REAL diagonal estimator `Strategy<M>`
// (src/transform/adapt/diagonal.rs) against the RELATIONAL trait of facade.rs (`repr(self, fg, bg)`).
// The real struct stores no history and the history is not a function of its state, so `Strategy<M>` cannot
// implement the functional trait.  The bridge is the classical introduction of a HISTORY VARIABLE:
//
//     Ghosted<M> = the real estimator + two ghost fields (the two histories),
//     inv(g)     = g.real.repr(g.gfg@, g.gbg@)              ("the running estimators represent the ghost histories")
//
// and for EVERY method `m` of the abstract trait an exec function `Ghosted::g_m` whose body consists of
//   (a) ONE call of the real, extracted, already verified method `m` on `self.real` (same arguments), and
//   (b) assignments to the ghost fields inside `proof { }`,
// and whose `ensures` are, clause for clause, the text of the abstract trait (`self.fg()` reads `self.gfg@`,
// `self.bg()` reads `self.gbg@`; `coll_good / coll_sample / estimated_from` are those of the real impl),
// under `requires old(self).inv()` / `ensures final(self).inv()`.
// Verus therefore checks:   relational contract of the real code  ==>  functional contract of the abstraction,
// for the ghost-extended object.  `check_bridge_text.py` checks that the clause texts equal those of unit adapt.
//
// Why free-standing (inherent) functions and not `impl adapt_abstract::MassMatrixAdaptStrategy<M> for Ghosted<M>`:
// Verus forbids `requires` on trait-impl methods (UNITS.md "Trait impls"), and the abstract trait states NO
// preconditions, whereas the bridge needs `inv()` and the machine-range preconditions listed under P below.
//
// Extra preconditions (they are NOT in the abstract trait; each one is needed by the real code):
//   P1  g_update_estimators, g_init:  fg().len() < u64::MAX && bg().len() < u64::MAX   (`count += 1` in
//       RunningVariance::add_sample would overflow)                                   -- instance of A-nooverflow
//   P2  g_init, g_adapt:              mass_matrix.view().id < i64::MAX  (`self.id += 1` in DiagMassMatrix::update_*)
//                                                                                      -- instance of A-nooverflow
// GAP (reported, not forced):
//   G1  abstract `init` promises `*final(options) == *old(options)`; the relational trait of facade.rs has no
//       such clause, so it does not follow for the wrapper (the real code satisfies it trivially: the parameter
//       is `_options` and is never used).  The clause is therefore ABSENT from `g_init` below.  Remedy: add that
//       one clause to `init` of facade.rs (it verifies for both real impls), then add it here.
//
// WHAT REMAINS ASSUMED AFTER THIS BRIDGE (erasure step, not checked by Verus here):
//   the fields `gfg`, `gbg` have type `Ghost<_>` and are assigned only inside `proof { }`; Verus' mode checker
//   guarantees that ghost state never flows into exec state, hence after erasure each `g_m` IS the single call
//   `self.real.m(..)`, and `Ghosted<M>` IS `Strategy<M>` (plus two zero-sized fields).  So every exec-observable
//   behaviour of the real estimator driven by GlobalStrategy is a behaviour of some `Ghosted<M>` satisfying the
//   functional contract.  What is not machine-checked: (1) this erasure argument itself; (2) that the generic
//   parameter `S: MassMatrixAdaptStrategy<M>` of GlobalStrategy in unit `adapt` may be read as `Ghosted<M>`
//   (unit adapt is verified for an arbitrary implementor of the abstract trait; the instantiation happens across
//   two generated files); (3) P1 / P2 at the call sites of unit adapt (A-nooverflow); (4) G1.

pub mod adapt_abstract {
    use super::*;
    //@include bridge_trait.rs
}

/// the real estimator extended by its two history variables
pub struct Ghosted<M: Math> {
    pub real: Strategy<M>,
    pub gfg: Ghost<Seq<Sample>>,
    pub gbg: Ghost<Seq<Sample>>,
}

/// every history pair represented by a real estimator state has the lengths of its counters: the
/// quantified machine-range preconditions of the relational trait follow from P1 on the ghost histories
// [C09 C06]
pub proof fn lemma_bridge_lens<M: Math>(s: Strategy<M>, gfg: Seq<Sample>, gbg: Seq<Sample>)
    requires s.repr(gfg, gbg), gfg.len() < u64::MAX, gbg.len() < u64::MAX
    ensures forall|fg: Seq<Sample>, bg: Seq<Sample>| #[trigger] s.repr(fg, bg) ==> fg.len() < u64::MAX && bg.len() < u64::MAX
{
    lemma_repr_counts(s, gfg, gbg);
    assert forall|fg: Seq<Sample>, bg: Seq<Sample>| #[trigger] s.repr(fg, bg) implies fg.len() < u64::MAX && bg.len() < u64::MAX by {
        lemma_repr_counts(s, fg, bg);
    }
}

impl<M: Math> Ghosted<M> {
    // ---- the spec side of the abstract trait, instantiated
    /// invariant: the concrete running estimators represent the ghost histories
    pub open spec fn inv(&self) -> bool { self.real.repr(self.gfg@, self.gbg@) }
    pub open spec fn fg(&self) -> Seq<Sample> { self.gfg@ }
    pub open spec fn bg(&self) -> Seq<Sample> { self.gbg@ }
    /// defined from the real collector type `DrawGradCollector<M>`: the spec functions of the real impl
    /// (impl_extra.rs): `c.is_good`, resp. `Sample { draw: M::vv(&c.draw), grad: M::vv(&c.grad) }`.
    /// `Sample` is the struct of facade.rs, textually the `Sample` of units/adapt/prelude.rs (checked by
    /// check_bridge_text.py): a draw and its gradient as `Seq<real>`, here the mathematical content `M::vv`
    /// of the two vectors the collector copied from the accepted point (dgc_reg_post).
    pub open spec fn coll_good(c: &DrawGradCollector<M>) -> bool { <Strategy<M> as MassMatrixAdaptStrategy<M>>::coll_good(c) }
    pub open spec fn coll_sample(c: &DrawGradCollector<M>) -> Sample { <Strategy<M> as MassMatrixAdaptStrategy<M>>::coll_sample(c) }
    /// the statement this unit proves for `adapt`: `diag_estimated_from(t, fg, dim)` (lemmas.rs) -- per coordinate
    /// the variance / mean formula over the fold `est_of(fg)` of the FOREGROUND window, and logdet = sum ln(inv_std)
    pub open spec fn estimated_from(t: TransView, fg: Seq<Sample>) -> bool { <Strategy<M> as MassMatrixAdaptStrategy<M>>::estimated_from(t, fg) }

    // ---- abstract `new`
    // [C09 C06]
    pub fn g_new(math: &mut M, options: DiagAdaptExpSettings, num_tune: u64, chain: u64) -> (r: Self)
        ensures
            r.fg().len() == 0, r.bg().len() == 0,
            r.inv(),
    {
        let inner = <Strategy<M> as MassMatrixAdaptStrategy<M>>::new(math, options, num_tune, chain);
        Ghosted { real: inner, gfg: Ghost(Seq::<Sample>::empty()), gbg: Ghost(Seq::<Sample>::empty()) }
    }

    // ---- abstract `update_estimators`
    // [C09 C06]
    pub fn g_update_estimators(&mut self, math: &mut M, collector: &DrawGradCollector<M>)
        requires
            old(self).inv(),
            old(self).fg().len() < u64::MAX && old(self).bg().len() < u64::MAX,      // P1
        ensures
            Self::coll_good(collector) ==> final(self).fg() == old(self).fg().push(Self::coll_sample(collector))
                && final(self).bg() == old(self).bg().push(Self::coll_sample(collector)),
            !Self::coll_good(collector) ==> final(self).fg() == old(self).fg() && final(self).bg() == old(self).bg(),
            final(self).inv(),
    {
        proof { lemma_bridge_lens(self.real, self.gfg@, self.gbg@); }
        self.real.update_estimators(math, collector);
        proof {
            if Self::coll_good(collector) {
                self.gfg@ = self.gfg@.push(Self::coll_sample(collector));
                self.gbg@ = self.gbg@.push(Self::coll_sample(collector));
            }
        }
    }

    // ---- abstract `switch`
    // [C09 C06]
    pub fn g_switch(&mut self, math: &mut M)
        requires
            old(self).inv(),
        ensures
            final(self).fg() == old(self).bg(), final(self).bg() == Seq::<Sample>::empty(),
            final(self).inv(),
    {
        self.real.switch(math);
        proof {
            self.gfg@ = self.gbg@;
            self.gbg@ = Seq::<Sample>::empty();
        }
    }

    // ---- abstract `current_count`
    // [C09 C06]
    pub fn g_current_count(&self) -> (r: u64)
        requires
            self.inv(),
        ensures
            r as int == self.fg().len(),
    {
        self.real.current_count()
    }

    // ---- abstract `background_count`
    // [C09 C06]
    pub fn g_background_count(&self) -> (r: u64)
        requires
            self.inv(),
        ensures
            r as int == self.bg().len(),
    {
        self.real.background_count()
    }

    // ---- abstract `init`
    // [C09 C06]
    pub fn g_init<R: Rng + ?Sized, VxP: Point<M>>(&mut self, math: &mut M, options: &mut NutsOptions, mass_matrix: &mut DiagMassMatrix<M>,
                                 point: &VxP, rng: &mut R) -> (r: Result<(), NutsError>)
        requires
            old(self).inv(),
            old(self).fg().len() < u64::MAX && old(self).bg().len() < u64::MAX,      // P1
            old(mass_matrix).view().id < i64::MAX,                                    // P2
        ensures
            r is Ok,
            *final(options) == *old(options),
            final(self).fg().len() == old(self).fg().len() + 1, final(self).bg().len() == old(self).bg().len() + 1,
            final(mass_matrix).view().id == old(mass_matrix).view().id + 1,
            final(self).inv(),
            // EXTRA (stronger than the abstract text): WHICH sample is appended -- the start point
            final(self).fg() == old(self).fg().push(Sample { draw: point.pos_v(), grad: point.grad_v() }),
            final(self).bg() == old(self).bg().push(Sample { draw: point.pos_v(), grad: point.grad_v() }),
    {
        proof { lemma_bridge_lens(self.real, self.gfg@, self.gbg@); }
        let r = self.real.init(math, options, mass_matrix, point, rng);
        proof {
            self.gfg@ = self.gfg@.push(Sample { draw: point.pos_v(), grad: point.grad_v() });
            self.gbg@ = self.gbg@.push(Sample { draw: point.pos_v(), grad: point.grad_v() });
        }
        r
    }

    // ---- abstract `adapt`
    // [C09 C06]
    pub fn g_adapt(&self, math: &mut M, mass_matrix: &mut DiagMassMatrix<M>) -> (r: bool)
        requires
            self.inv(),
            old(mass_matrix).view().id < i64::MAX,                                    // P2
        ensures
            !r ==> *final(mass_matrix) == *old(mass_matrix),
            r ==> final(mass_matrix).view().id == old(mass_matrix).view().id + 1
                      && Self::estimated_from(final(mass_matrix).view(), self.fg()),
            // EXTRA (relational trait, clause [C08.1]): never re-estimates from fewer than three samples
            self.fg().len() < 3 ==> !r,
    {
        self.real.adapt(math, mass_matrix)
    }
}
