// bridge_trait.rs -- VERBATIM COPY of the abstract mass-matrix estimator trait that unit `adapt` ASSUMES.
// Source: units/adapt/prelude.rs, the item `pub trait MassMatrixAdaptStrategy<M: Math>` (section
// "mass-matrix estimator facade").  Everything between the two marker lines below must stay TEXTUALLY
// EQUAL to that item; `python3 units/diagadapt/check_bridge_text.py` diffs the two and exits 1 on drift.
// Do not edit here: edit units/adapt/prelude.rs and re-copy.
// The copy is compiled (inside `mod adapt_abstract` of bridge.rs) only so that the text is type-checked
// against the vocabulary of this unit (Math / Point / Collector / Transformation / Sample / TransView /
// NutsOptions / NutsError of facade.rs); nothing implements it -- see bridge.rs for why and for what
// is proved instead.
// >>> BEGIN VERBATIM units/adapt/prelude.rs :: trait MassMatrixAdaptStrategy
pub trait MassMatrixAdaptStrategy<M: Math>: Sized {
    type Transformation: Transformation<M>;
    type Collector: Collector<M, TransformedPoint<M>>;
    type Options: Copy + Debug + Default;
    /// samples accumulated in the foreground / background estimator, oldest first
    spec fn fg(&self) -> Seq<Sample>;
    spec fn bg(&self) -> Seq<Sample>;
    spec fn coll_good(c: &Self::Collector) -> bool;
    spec fn coll_sample(c: &Self::Collector) -> Sample;
    /// `t` carries the estimate computed from the foreground estimator `fg`
    spec fn estimated_from(t: TransView, fg: Seq<Sample>) -> bool;

    fn new(math: &mut M, options: Self::Options, num_tune: u64, chain: u64) -> (r: Self)
        ensures r.fg().len() == 0, r.bg().len() == 0;
    fn update_estimators(&mut self, math: &mut M, collector: &Self::Collector)
        ensures
            Self::coll_good(collector) ==> final(self).fg() == old(self).fg().push(Self::coll_sample(collector))
                && final(self).bg() == old(self).bg().push(Self::coll_sample(collector)),
            !Self::coll_good(collector) ==> final(self).fg() == old(self).fg() && final(self).bg() == old(self).bg();
    fn switch(&mut self, math: &mut M)
        ensures final(self).fg() == old(self).bg(), final(self).bg() == Seq::<Sample>::empty();
    fn current_count(&self) -> (r: u64) ensures r as int == self.fg().len();
    fn background_count(&self) -> (r: u64) ensures r as int == self.bg().len();
    /// the start point seeds both windows and the transformation is initialised from its gradient
    /// (relational form proved in units diagadapt / lowrankadapt)
    fn init<R: Rng + ?Sized, VxP: Point<M>>(&mut self, math: &mut M, options: &mut NutsOptions, mass_matrix: &mut Self::Transformation,
                                 point: &VxP, rng: &mut R) -> (r: Result<(), NutsError>)
        ensures
            r is Ok,
            *final(options) == *old(options),
            final(self).fg().len() == old(self).fg().len() + 1, final(self).bg().len() == old(self).bg().len() + 1,
            final(mass_matrix).view().id == old(mass_matrix).view().id + 1;
    fn adapt(&self, math: &mut M, mass_matrix: &mut Self::Transformation) -> (r: bool)
        ensures !r ==> *final(mass_matrix) == *old(mass_matrix),
                r ==> final(mass_matrix).view().id == old(mass_matrix).view().id + 1
                      && Self::estimated_from(final(mass_matrix).view(), self.fg());
}
// <<< END VERBATIM
