#!/usr/bin/env python3
"""check_bridge_text.py -- textual side of the A-estimator-abstraction bridge (units/{diagadapt,lowrankadapt}/bridge.rs).

Verus checks that the wrapper functions `Ghosted::g_<m>` satisfy the contracts WRITTEN in bridge.rs.  This script
checks that what is written there is the contract unit `adapt` ASSUMES (units/adapt/prelude.rs), so that the two
formulations cannot drift apart silently (same idea as tools/facade_sync.py for the Hamiltonian facade):

 A. the verbatim block of units/diagadapt/bridge_trait.rs equals the item `pub trait MassMatrixAdaptStrategy<M: Math>`
    of units/adapt/prelude.rs, line by line;
 B. `pub struct Sample` and `pub struct TransView` of units/adapt/prelude.rs equal those of units/diagadapt/facade.rs
    (the vocabulary the bridge is stated in);
 C. for every method m of the abstract trait, bridge.rs has `fn g_m`, and EVERY `ensures` clause of m occurs,
    whitespace-normalised but otherwise verbatim, among the `ensures` clauses of g_m -- except clauses announced
    as a gap by a line `// GAP <m>: <clause>` (listed, not an error; a GAP line naming a clause the trait does not
    have is an error).  Every further `ensures` clause of g_m must be `final(self).inv()` / `r.inv()` or stand below
    a `// EXTRA` comment; every `requires` clause must be `old(self).inv()` / `self.inv()` or carry a `// P<n>` tag.
    The abstract trait itself must state no `requires` (otherwise the bridge would have to prove them at call sites);
 D. shape of the bodies (the syntactic half of the erasure argument): with all `proof { .. }` blocks removed, the
    body of g_m is exactly ONE call of method m on `self.real` (`let r = ..; r` and the struct literal of g_new
    allowed), i.e. no other exec code.

Exit 0: no drift (known gaps are printed).  Exit 1: drift, with the list."""
import os, re, sys

U = os.path.dirname(os.path.dirname(os.path.abspath(__file__)))      # /verif/units
ADAPT = os.path.join(U, "adapt", "prelude.rs")
COPY = os.path.join(U, "diagadapt", "bridge_trait.rs")
FACADE = os.path.join(U, "diagadapt", "facade.rs")
BRIDGES = [os.path.join(U, "diagadapt", "bridge.rs"), os.path.join(U, "lowrankadapt", "bridge.rs")]
drift, notes = [], []


def norm(s):
    return re.sub(r"\s+", " ", s).strip()


def strip_comments(t):
    return re.sub(r"//.*", "", t)


def trait_item(text):
    """lines of `pub trait MassMatrixAdaptStrategy<M: Math>: Sized {` .. the closing `}` in column 0"""
    ls = text.split("\n")
    for i, l in enumerate(ls):
        if l.startswith("pub trait MassMatrixAdaptStrategy<M: Math>"):
            for j in range(i, len(ls)):
                if ls[j].startswith("}"):
                    return [x.rstrip() for x in ls[i:j + 1]]
    return None


def split_clauses(s):
    out, depth, cur = [], 0, ""
    for c in s:
        if c in "([{":
            depth += 1
        if c in ")]}":
            depth -= 1
        if c == "," and depth == 0:
            out.append(cur)
            cur = ""
        else:
            cur += c
    out.append(cur)
    return [norm(c) for c in out if c.strip()]


def trait_methods(item_lines):
    """{name: (requires clauses, ensures clauses)} of the body-less method declarations of the trait"""
    body = strip_comments("\n".join(item_lines[1:-1]))
    out = {}
    for fm in re.finditer(r"(?<!spec )\bfn\s+(\w+)", body):
        rest = body[fm.end():]
        depth = 0
        k = 0
        while k < len(rest):
            c = rest[k]
            if c in "([{":
                depth += 1
            elif c in ")]}":
                depth -= 1
            elif c == ";" and depth == 0:
                break
            k += 1
        decl = rest[:k]
        rq = re.search(r"\brequires\b(.*?)(?=\bensures\b|$)", decl, re.S)
        en = re.search(r"\bensures\b(.*)$", decl, re.S)
        out[fm.group(1)] = (split_clauses(rq.group(1)) if rq else [], split_clauses(en.group(1)) if en else [])
    return out


# ---------------------------------------------------------------- A
adapt_text = open(ADAPT).read()
src_item = trait_item(adapt_text)
if src_item is None:
    print("check_bridge_text: trait MassMatrixAdaptStrategy not found in", ADAPT)
    sys.exit(1)
copy_lines = open(COPY).read().split("\n")
try:
    b = next(i for i, l in enumerate(copy_lines) if l.startswith("// >>> BEGIN VERBATIM"))
    e = next(i for i, l in enumerate(copy_lines) if l.startswith("// <<< END VERBATIM"))
    copy_item = [x.rstrip() for x in copy_lines[b + 1:e]]
except StopIteration:
    copy_item = []
    drift.append("A: marker lines missing in bridge_trait.rs")
if copy_item != src_item:
    import difflib
    for d in difflib.unified_diff(src_item, copy_item, "units/adapt/prelude.rs", "units/diagadapt/bridge_trait.rs", lineterm="", n=0):
        drift.append("A: " + d)

# ---------------------------------------------------------------- B
facade_text = open(FACADE).read()
for st in ("Sample", "TransView"):
    a = re.search(r"pub struct %s \{[^}]*\}" % st, adapt_text)
    f = re.search(r"pub struct %s \{[^}]*\}" % st, facade_text)
    if not a or not f or norm(a.group(0)) != norm(f.group(0)):
        drift.append(f"B: `pub struct {st}` differs between units/adapt/prelude.rs and units/diagadapt/facade.rs")

# ---------------------------------------------------------------- C, D
methods = trait_methods(src_item)
n_clauses = 0
for m, (rq, en) in methods.items():
    if rq:
        drift.append(f"C: abstract {m} now has `requires` ({rq}): the bridge must be told (call-site obligations of unit adapt)")


def remove_proof_blocks(body):
    out, i = "", 0
    while i < len(body):
        mm = re.compile(r"\bproof\s*\{").search(body, i)
        if not mm:
            out += body[i:]
            break
        out += body[i:mm.start()]
        depth, j = 1, mm.end()
        while depth and j < len(body):
            depth += {"{": 1, "}": -1}.get(body[j], 0)
            j += 1
        i = j
    return out


for path in BRIDGES:
    rel = os.path.relpath(path, os.path.dirname(U))
    lines = open(path).read().split("\n")
    gaps = {}
    for l in lines:
        gm = re.match(r"\s*// GAP (\w+): (.*)$", l)
        if gm:
            gaps.setdefault(gm.group(1), []).append(norm(gm.group(2)))
    fns = {}
    i = 0
    while i < len(lines):
        fm = re.match(r"^    pub fn g_(\w+)", lines[i])
        if not fm:
            i += 1
            continue
        h = i
        while lines[i] != "    {":
            i += 1
        bstart = i
        while lines[i] != "    }":
            i += 1
        fns[fm.group(1)] = (lines[h:bstart], lines[bstart + 1:i])
        i += 1
    for m, (rq_abs, en_abs) in methods.items():
        if m not in fns:
            drift.append(f"C: {rel}: no wrapper g_{m} for abstract method {m}")
            continue
        header, body = fns[m]
        # split header lines into requires / ensures sections, remembering tags
        sect, req_lines, ens_lines, extra_from = None, [], [], None
        for l in header:
            s = l.strip()
            if s == "requires":
                sect = "r"
                continue
            if s == "ensures":
                sect = "e"
                continue
            if sect == "r":
                req_lines.append(l)
            elif sect == "e":
                if "// EXTRA" in l and extra_from is None:
                    extra_from = len(ens_lines)
                ens_lines.append(l)
        ens_main = split_clauses(strip_comments("\n".join(ens_lines[:extra_from] if extra_from is not None else ens_lines)))
        ens_extra = split_clauses(strip_comments("\n".join(ens_lines[extra_from:]))) if extra_from is not None else []
        for c in en_abs:
            n_clauses += 1
            if c in ens_main:
                if c in gaps.get(m, []):
                    drift.append(f"C: {rel}: g_{m}: clause is announced as GAP but is stated: {c}")
                continue
            if c in gaps.get(m, []):
                notes.append(f"GAP  {rel}: g_{m}: abstract clause NOT provided by the bridge: {c}")
                continue
            drift.append(f"C: {rel}: g_{m}: abstract clause missing (or reworded): {c}")
        for c in gaps.get(m, []):
            if c not in en_abs:
                drift.append(f"C: {rel}: g_{m}: GAP line names a clause the abstract trait does not state: {c}")
        for c in ens_main:
            if c not in en_abs and c not in ("final(self).inv()", "r.inv()"):
                drift.append(f"C: {rel}: g_{m}: clause is neither abstract text nor the invariant nor marked EXTRA: {c}")
        for c in ens_extra:
            notes.append(f"EXTRA {rel}: g_{m}: {c}")
        for l in req_lines:
            c = norm(strip_comments(l)).rstrip(",")
            if not c:
                continue
            if c in ("old(self).inv()", "self.inv()"):
                continue
            tag = re.search(r"//\s*(P\d+)\b", l)
            if tag:
                notes.append(f"PRE  {rel}: g_{m}: {tag.group(1)}: {c}")
            else:
                drift.append(f"C: {rel}: g_{m}: untagged extra precondition: {c}")
        if not any(norm(strip_comments(l)).rstrip(",") in ("old(self).inv()", "self.inv()") for l in req_lines) and m != "new":
            drift.append(f"C: {rel}: g_{m}: does not require the invariant")
        # ---- D: body shape
        ex = norm(remove_proof_blocks(strip_comments("\n".join(body))))
        call = r"(?:self\.real\.%s\(|<\w+(?:<M>)? as MassMatrixAdaptStrategy<M>>::%s\((?:&mut self\.real, |&self\.real, )?)[^;{}]*\)" % (m, m)
        shapes = [r"^%s;?$" % call, r"^let r = %s; r$" % call,
                  r"^let inner = %s; Ghosted \{ real: inner, gfg: Ghost\(Seq::<Sample>::empty\(\)\), gbg: Ghost\(Seq::<Sample>::empty\(\)\)(?:, _m: PhantomData)? \}$" % call]
        if not any(re.match(s, ex) for s in shapes):
            drift.append(f"D: {rel}: g_{m}: exec part of the body is not a single call of the real `{m}`: {ex[:200]}")
    for m in fns:
        if m not in methods:
            drift.append(f"C: {rel}: wrapper g_{m} has no counterpart in the abstract trait")

print(f"check_bridge_text: {len(methods)} abstract methods, {n_clauses} ensures clauses compared against {len(BRIDGES)} bridge files; {len(drift)} drifting")
for n in notes:
    print("  " + n)
for d in drift:
    print("  DRIFT " + d)
sys.exit(1 if drift else 0)
