// Estimator façade shared by units `diagadapt` and `lowrankadapt` (model R): everything the extracted
// estimator code calls but that is not extracted. The spec functions it mentions are in math_spec.rs. Every contract below is an ASSUMPTION of this unit (ids in the comments);
// the element kernels behind the A-math contracts are checked bit-precisely by the Kani engine (K-var).
use core::marker::PhantomData;
use core::fmt::Debug;

#[derive(Debug)]
pub struct NutsError { pub code: u64 }
pub struct DivergenceInfo { pub code: u64 }
pub mod nuts { pub use super::SampleInfo; pub use super::NutsOptions; }
pub mod rand { pub trait Rng {} }
pub use rand::Rng;

// ---- std façade (A-std): the two std functions the extracted code calls that vstd does not specify
/// A-std-replace: `core::mem::replace` moves `src` into `*dest` and returns the old value
pub assume_specification<T> [core::mem::replace::<T>] (dest: &mut T, src: T) -> (r: T)
    ensures r == *old(dest), *final(dest) == src;
/// A-std-abs: `i64::abs` (overflow panic for i64::MIN is a precondition)
pub assume_specification [i64::abs] (x: i64) -> (r: i64)
    requires x > i64::MIN
    ensures r as int == (if x < 0 { -(x as int) } else { x as int });

// ---- Math façade with vector semantics (A-math). `vv` is the mathematical content of a vector.
// Each `ensures` mirrors, element by element, what CpuMath does (src/math/cpu_math.rs, lines cited),
// read in model R: all values finite, no rounding. The whole-vector spec functions (welford_mean,
// upd_std_dg, ...) are defined element-wise in lemmas.rs.
pub trait Math: Sized {
    type Vector;
    spec fn vv(v: &Self::Vector) -> Seq<real>;
    /// A-math-dim: every vector handled by one Math instance has the length `dim` of that instance
    /// (all vectors are created by `new_array` = `Col::zeros(self.dim())`, cpu_math.rs:94-96, and
    /// `copy_into`/`clone_from` between such vectors)
    spec fn dim_s() -> nat;
    proof fn ax_vv_len(v: &Self::Vector)
        ensures Self::vv(v).len() == Self::dim_s();

    /// cpu_math.rs:147-149  `self.logp_func.dim()`
    fn dim(&self) -> (r: usize)
        ensures r as nat == Self::dim_s();
    /// cpu_math.rs:252-254  `dest.copy_from_slice(source.as_slice())` (panics unless the lengths agree: precondition)
    fn write_to_slice(&mut self, source: &Self::Vector, dest: &mut [F])
        requires old(dest)@.len() == Self::vv(source).len()
        ensures final(dest)@.len() == old(dest)@.len(), reals_of(final(dest)@) == Self::vv(source);
    /// cpu_math.rs:94-96  `Col::zeros(self.dim())`
    fn new_array(&mut self) -> (r: Self::Vector)
        ensures Self::vv(&r) == zeros(Self::dim_s());
    /// cpu_math.rs:256-258  `dest.clone_from(array)`
    fn copy_into(&mut self, array: &Self::Vector, dest: &mut Self::Vector)
        ensures Self::vv(final(dest)) == Self::vv(array);
    /// cpu_math.rs:306-318 / math/util.rs `multiply`: out[i] = x[i] * y[i]
    fn array_mult(&mut self, array1: &Self::Vector, array2: &Self::Vector, dest: &mut Self::Vector)
        ensures Self::vv(final(dest)) == vmul(Self::vv(array1), Self::vv(array2));
    /// cpu_math.rs:270-277 / math/util.rs `axpy`: y[i] = a.mul_add(x[i], y[i]) = a*x[i] + y[i]
    fn axpy(&mut self, x: &Self::Vector, y: &mut Self::Vector, a: F)
        ensures Self::vv(final(y)) == vaxpy(Self::vv(x), Self::vv(old(y)), a.r());
    /// cpu_math.rs:328-330  dest[i] = array[i].recip()  (stated only where array[i] != 0: 1/0 is not a real)
    fn array_recip(&mut self, array: &Self::Vector, dest: &mut Self::Vector)
        ensures Self::vv(final(dest)).len() == Self::vv(array).len(),
                forall|i: int| 0 <= i < Self::vv(array).len() && Self::vv(array)[i] != 0real
                    ==> #[trigger] Self::vv(final(dest))[i] == 1real / Self::vv(array)[i];
    /// cpu_math.rs:300-304  sum += val.ln()
    fn array_sum_ln(&mut self, array: &Self::Vector) -> (r: F)
        ensures r.r() == sum_ln(Self::vv(array));
    /// cpu_math.rs:605-631  diff = x - mean; mean += diff * diff_scale; var += diff * diff
    fn array_update_variance(&mut self, mean: &mut Self::Vector, variance: &mut Self::Vector, value: &Self::Vector, diff_scale: F)
        ensures Self::vv(final(mean)) == welford_mean(Self::vv(old(mean)), Self::vv(value), diff_scale.r()),
                Self::vv(final(variance)) == welford_var(Self::vv(old(variance)), Self::vv(old(mean)), Self::vv(value));
    /// cpu_math.rs:633-669  v = draw_var*scale; invalid (v == 0; non-finite cannot occur in model R):
    /// fill or keep; else val = clamp(v); std = sqrt(val); inv_std = sqrt(1/val).
    /// `f64::clamp` panics unless lo <= hi: precondition.
    fn array_update_var_inv_std_draw(&mut self, inv_std: &mut Self::Vector, std: &mut Self::Vector, draw_var: &Self::Vector,
                                     scale: F, fill_invalid: Option<F>, clamp: (F, F))
        requires clamp.0.r() <= clamp.1.r()
        ensures Self::vv(final(std)) == upd_std_d(Self::vv(old(std)), Self::vv(draw_var), scale.r(), optr(fill_invalid), clamp.0.r(), clamp.1.r()),
                Self::vv(final(inv_std)) == upd_inv_d(Self::vv(old(inv_std)), Self::vv(draw_var), scale.r(), optr(fill_invalid), clamp.0.r(), clamp.1.r());
    /// cpu_math.rs:671-708  val = sqrt(draw_var/grad_var); invalid (NaN, inf, 0  <=>  grad_var == 0 or
    /// draw_var/grad_var <= 0 on finite inputs): fill or keep; else val = clamp(val); std = sqrt(val);
    /// inv_std = sqrt(1/val)
    fn array_update_var_inv_std_draw_grad(&mut self, inv_std: &mut Self::Vector, std: &mut Self::Vector, draw_var: &Self::Vector,
                                          grad_var: &Self::Vector, fill_invalid: Option<F>, clamp: (F, F))
        requires clamp.0.r() <= clamp.1.r()
        ensures Self::vv(final(std)) == upd_std_dg(Self::vv(old(std)), Self::vv(draw_var), Self::vv(grad_var), optr(fill_invalid), clamp.0.r(), clamp.1.r()),
                Self::vv(final(inv_std)) == upd_inv_dg(Self::vv(old(inv_std)), Self::vv(draw_var), Self::vv(grad_var), optr(fill_invalid), clamp.0.r(), clamp.1.r());
    /// cpu_math.rs:710-738  val = 1/clamp(|g|); non-finite (clamp(|g|) == 0 in model R): fill;
    /// std = sqrt(val); inv_std = sqrt(1/val)
    fn array_update_var_inv_std_grad(&mut self, inv_std: &mut Self::Vector, std: &mut Self::Vector, gradient: &Self::Vector,
                                     fill_invalid: F, clamp: (F, F))
        requires clamp.0.r() <= clamp.1.r()
        ensures Self::vv(final(std)) == upd_std_g(Self::vv(old(std)), Self::vv(gradient), fill_invalid.r(), clamp.0.r(), clamp.1.r()),
                Self::vv(final(inv_std)) == upd_inv_g(Self::vv(old(inv_std)), Self::vv(gradient), fill_invalid.r(), clamp.0.r(), clamp.1.r());
}

// ---- Point / State façade (what register_draw and init read)
pub trait Point<M: Math>: Sized {
    spec fn pos_v(&self) -> Seq<real>;
    spec fn grad_v(&self) -> Seq<real>;
    // (the length facts are instances of A-math-dim)
    fn position(&self) -> (r: &M::Vector) ensures M::vv(r) == self.pos_v(), self.pos_v().len() == M::dim_s();
    fn gradient(&self) -> (r: &M::Vector) ensures M::vv(r) == self.grad_v(), self.grad_v().len() == M::dim_s();
}
pub struct TransformedPoint<M: Math> { pub untransformed_position: M::Vector, pub untransformed_gradient: M::Vector }
impl<M: Math> Point<M> for TransformedPoint<M> {
    open spec fn pos_v(&self) -> Seq<real> { M::vv(&self.untransformed_position) }
    open spec fn grad_v(&self) -> Seq<real> { M::vv(&self.untransformed_gradient) }
    fn position(&self) -> (r: &M::Vector) { proof { M::ax_vv_len(&self.untransformed_position); } &self.untransformed_position }
    fn gradient(&self) -> (r: &M::Vector) { proof { M::ax_vv_len(&self.untransformed_gradient); } &self.untransformed_gradient }
}
pub struct State<M: Math, P: Point<M>> { pub p: P, pub idx: i64, pub _m: PhantomData<M> }
impl<M: Math, P: Point<M>> State<M, P> {
    pub fn point(&self) -> (r: &P) ensures *r == self.p { &self.p }
    pub fn index_in_trajectory(&self) -> (r: i64) ensures r == self.idx { self.idx }
}

// ---- Collector: per-impl contract supplied through reg_post (impl_extra_collector.rs)
pub trait Collector<M: Math, P: Point<M>>: Sized {
    spec fn reg_post(&self, post: &Self, state: &State<M, P>, info: &SampleInfo) -> bool;
    fn register_draw(&mut self, math: &mut M, state: &State<M, P>, info: &SampleInfo)
        requires state.idx > i64::MIN      // |idx| < 2^maxdepth in the tree builder (unit nuts)
        ensures old(self).reg_post(final(self), state, info);
}

// ---- transformation façade: same ghost view as unit `adapt`
pub struct TransView { pub id: int, pub params: Seq<real> }
pub trait Transformation<M: Math>: Sized { spec fn view(&self) -> TransView; }

// ---- the estimator trait. This is the contract unit `adapt` ASSUMES (units/adapt/prelude.rs),
// in the relational form that is provable for a struct which does not store its sample history:
// `self.fg() == h` of unit adapt reads here `self.repr(h, _)` ("self represents the histories").
// Differences to the text of unit adapt are listed in the report (D1-D4).
pub struct Sample { pub draw: Seq<real>, pub grad: Seq<real> }
pub open spec fn push_if(c: bool, h: Seq<Sample>, x: Sample) -> Seq<Sample> { if c { h.push(x) } else { h } }
pub trait MassMatrixAdaptStrategy<M: Math>: Sized {
    type Transformation: Transformation<M>;
    type Collector: Collector<M, TransformedPoint<M>>;
    type Options: Copy + Default;
    /// `self` is the estimator state reached from the samples `fg` (foreground) / `bg` (background), oldest first
    spec fn repr(&self, fg: Seq<Sample>, bg: Seq<Sample>) -> bool;
    spec fn coll_good(c: &Self::Collector) -> bool;
    spec fn coll_sample(c: &Self::Collector) -> Sample;
    /// `t` carries the estimate computed from the foreground samples `fg`
    spec fn estimated_from(t: TransView, fg: Seq<Sample>) -> bool;
    /// implementation-specific strengthening of `adapt` (what exactly is written, "invalid keeps old")
    spec fn adapt_extra(&self, m0: &Self::Transformation, m1: &Self::Transformation, r: bool) -> bool;
    /// implementation-specific effect of `init` on the transformation
    spec fn init_extra(m0: &Self::Transformation, m1: &Self::Transformation, pos: Seq<real>, grad: Seq<real>) -> bool;

    fn new(math: &mut M, options: Self::Options, num_tune: u64, chain: u64) -> (r: Self)
        ensures r.repr(Seq::<Sample>::empty(), Seq::<Sample>::empty());
    fn update_estimators(&mut self, math: &mut M, collector: &Self::Collector)
        requires
            exists|fg: Seq<Sample>, bg: Seq<Sample>| old(self).repr(fg, bg),
            forall|fg: Seq<Sample>, bg: Seq<Sample>| #[trigger] old(self).repr(fg, bg) ==> fg.len() < u64::MAX && bg.len() < u64::MAX,
        ensures
            // a good draw is appended to both windows, a bad one to none
            forall|fg: Seq<Sample>, bg: Seq<Sample>| #[trigger] old(self).repr(fg, bg) ==>     // [C09.1]
                final(self).repr(push_if(Self::coll_good(collector), fg, Self::coll_sample(collector)),
                                 push_if(Self::coll_good(collector), bg, Self::coll_sample(collector)));
    fn switch(&mut self, math: &mut M)
        requires exists|fg: Seq<Sample>, bg: Seq<Sample>| old(self).repr(fg, bg)
        ensures
            // the background window becomes the foreground, the background starts afresh
            forall|fg: Seq<Sample>, bg: Seq<Sample>| #[trigger] old(self).repr(fg, bg) ==> final(self).repr(bg, Seq::<Sample>::empty());     // [C09.1]
    fn current_count(&self) -> (r: u64)
        requires exists|fg: Seq<Sample>, bg: Seq<Sample>| self.repr(fg, bg)
        ensures forall|fg: Seq<Sample>, bg: Seq<Sample>| #[trigger] self.repr(fg, bg) ==> r as int == fg.len();     // [C09.1]
    fn background_count(&self) -> (r: u64)
        requires exists|fg: Seq<Sample>, bg: Seq<Sample>| self.repr(fg, bg)
        ensures forall|fg: Seq<Sample>, bg: Seq<Sample>| #[trigger] self.repr(fg, bg) ==> r as int == bg.len();     // [C09.1]
    fn adapt(&self, math: &mut M, mass_matrix: &mut Self::Transformation) -> (r: bool)
        requires
            exists|fg: Seq<Sample>, bg: Seq<Sample>| self.repr(fg, bg),
            old(mass_matrix).view().id < i64::MAX,
        ensures
            !r ==> *final(mass_matrix) == *old(mass_matrix),
            // `true` means: the transformation was replaced (version counter bumped by exactly one)
            r ==> final(mass_matrix).view().id == old(mass_matrix).view().id + 1,     // [C09.1 C08.3]
            // only the FOREGROUND window feeds the transformation
            r ==> forall|fg: Seq<Sample>, bg: Seq<Sample>| #[trigger] self.repr(fg, bg) ==> Self::estimated_from(final(mass_matrix).view(), fg),     // [C09.1]
            // no estimate below three samples
            // never re-estimates from fewer than three samples (an estimator may also decline later, e.g. a degenerate low-rank estimate)
            forall|fg: Seq<Sample>, bg: Seq<Sample>| #[trigger] self.repr(fg, bg) ==> (fg.len() < 3 ==> !r),     // [C08.1]
            self.adapt_extra(old(mass_matrix), final(mass_matrix), r);
    fn init<R: Rng + ?Sized, VxImpl0: Point<M>>(&mut self, math: &mut M, options: &mut NutsOptions, mass_matrix: &mut Self::Transformation,
                                 point: &VxImpl0, rng: &mut R) -> (r: Result<(), NutsError>)
        requires
            exists|fg: Seq<Sample>, bg: Seq<Sample>| old(self).repr(fg, bg),
            forall|fg: Seq<Sample>, bg: Seq<Sample>| #[trigger] old(self).repr(fg, bg) ==> fg.len() < u64::MAX && bg.len() < u64::MAX,
            old(mass_matrix).view().id < i64::MAX,
        ensures
            r is Ok,
            *final(options) == *old(options),     // the estimator's `init` never touches the sampler options (unit adapt relies on it)
            // the initial point seeds both windows
            ({ let p = Sample { draw: point.pos_v(), grad: point.grad_v() };
               forall|fg: Seq<Sample>, bg: Seq<Sample>| #[trigger] old(self).repr(fg, bg) ==> final(self).repr(fg.push(p), bg.push(p)) }),
            final(mass_matrix).view().id == old(mass_matrix).view().id + 1,      // [C08.3]
            Self::init_extra(old(mass_matrix), final(mass_matrix), point.pos_v(), point.grad_v());
    fn new_collector(&self, math: &mut M) -> (r: Self::Collector)
        ensures Self::coll_good(&r);
}
