    // ghost items spliced into `impl MassMatrixAdaptStrategy<M> for Strategy<M>` (rule R1: contracts)
    open spec fn repr(&self, fg: Seq<Sample>, bg: Seq<Sample>) -> bool { diag_repr::<M>(*self, fg, bg) }
    open spec fn coll_good(c: &Self::Collector) -> bool { c.is_good }
    open spec fn coll_sample(c: &Self::Collector) -> Sample { Sample { draw: M::vv(&c.draw), grad: M::vv(&c.grad) } }
    open spec fn estimated_from(t: TransView, fg: Seq<Sample>) -> bool { diag_estimated_from(t, fg, M::dim_s()) }
    open spec fn adapt_extra(&self, m0: &Self::Transformation, m1: &Self::Transformation, r: bool) -> bool { diag_adapt_extra::<M>(*self, *m0, *m1, r) }
    open spec fn init_extra(m0: &Self::Transformation, m1: &Self::Transformation, pos: Seq<real>, grad: Seq<real>) -> bool { diag_init_extra::<M>(*m0, *m1, pos, grad) }
