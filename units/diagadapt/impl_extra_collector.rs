    // ghost item spliced into `impl Collector<M, P> for DrawGradCollector<M>` (rule R1: contracts)
    open spec fn reg_post(&self, post: &Self, state: &State<M, P>, info: &SampleInfo) -> bool { dgc_reg_post::<M, P>(*post, *state, *info) }
