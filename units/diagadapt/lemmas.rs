// Specification vocabulary and lemmas of unit `diagadapt` (model R); the vector-level functions used
// by the A-math contracts are in math_spec.rs.
//@include math_spec.rs

// =====================================================================================
// the running estimator as a fold over the window (C08.1 / C09.1)
// =====================================================================================
pub struct RvView { pub mean: Seq<real>, pub var: Seq<real>, pub count: nat }
pub open spec fn rv_init(d: nat) -> RvView { RvView { mean: zeros(d), var: zeros(d), count: 0 } }
/// one `RunningVariance::add_sample`: the first sample is copied into the mean, later ones do
/// the update step of cpu_math.rs:605-631 with diff_scale = 1/count
pub open spec fn rv_step(s: RvView, x: Seq<real>) -> RvView {
    if s.count == 0 {
        RvView { mean: x, var: s.var, count: 1 }
    } else {
        RvView { mean: welford_mean(s.mean, x, 1real / i2r(s.count as int + 1)), var: welford_var(s.var, s.mean, x), count: s.count + 1 }
    }
}
pub open spec fn rv_of(xs: Seq<Seq<real>>, d: nat) -> RvView
    decreases xs.len()
{
    if xs.len() == 0 { rv_init(d) } else { rv_step(rv_of(xs.drop_last(), d), xs.last()) }
}
pub open spec fn rv_view<M: Math>(rv: RunningVariance<M>) -> RvView {
    RvView { mean: M::vv(&rv.mean), var: M::vv(&rv.variance), count: rv.count as nat }
}

pub open spec fn draws_of(h: Seq<Sample>) -> Seq<Seq<real>> { Seq::new(h.len(), |i: int| h[i].draw) }
pub open spec fn grads_of(h: Seq<Sample>) -> Seq<Seq<real>> { Seq::new(h.len(), |i: int| h[i].grad) }

/// what the four running variances hold for a window `h` of samples
pub struct EstView { pub mean_draw: Seq<real>, pub var_draw: Seq<real>, pub mean_grad: Seq<real>, pub var_grad: Seq<real>, pub count: nat }
pub open spec fn est_of(h: Seq<Sample>, d: nat) -> EstView {
    let a = rv_of(draws_of(h), d);
    let b = rv_of(grads_of(h), d);
    EstView { mean_draw: a.mean, var_draw: a.var, mean_grad: b.mean, var_grad: b.var, count: a.count }
}

/// representation relation of `Strategy<M>` ([C09.1]): the foreground pair of running variances is
/// the fold of the foreground window, the `_bg` pair the fold of the background window
pub open spec fn diag_repr<M: Math>(s: Strategy<M>, fg: Seq<Sample>, bg: Seq<Sample>) -> bool {
    let d = M::dim_s();
    &&& rv_view(s.exp_variance_draw) == rv_of(draws_of(fg), d)
    &&& rv_view(s.exp_variance_grad) == rv_of(grads_of(fg), d)
    &&& rv_view(s.exp_variance_draw_bg) == rv_of(draws_of(bg), d)
    &&& rv_view(s.exp_variance_grad_bg) == rv_of(grads_of(bg), d)
}

pub proof fn lemma_rv_push(xs: Seq<Seq<real>>, x: Seq<real>, d: nat)
    ensures rv_of(xs.push(x), d) == rv_step(rv_of(xs, d), x)
{
    assert(xs.push(x).drop_last() =~= xs);
    assert(xs.push(x).last() == x);
}
pub proof fn lemma_rv_count(xs: Seq<Seq<real>>, d: nat)
    ensures rv_of(xs, d).count == xs.len()
    decreases xs.len()
{
    if xs.len() > 0 { lemma_rv_count(xs.drop_last(), d); }
}
pub proof fn lemma_hist_push(h: Seq<Sample>, s: Sample)
    ensures draws_of(h.push(s)) == draws_of(h).push(s.draw), grads_of(h.push(s)) == grads_of(h).push(s.grad)
{
    assert(draws_of(h.push(s)) =~= draws_of(h).push(s.draw));
    assert(grads_of(h.push(s)) =~= grads_of(h).push(s.grad));
}
pub proof fn lemma_hist_empty(d: nat)
    ensures rv_of(draws_of(Seq::<Sample>::empty()), d) == rv_init(d), rv_of(grads_of(Seq::<Sample>::empty()), d) == rv_init(d)
{
}
/// one sample appended to a represented pair of windows
pub proof fn lemma_est_push(h: Seq<Sample>, s: Sample, d: nat)
    ensures rv_of(draws_of(h.push(s)), d) == rv_step(rv_of(draws_of(h), d), s.draw),
            rv_of(grads_of(h.push(s)), d) == rv_step(rv_of(grads_of(h), d), s.grad),
{
    lemma_hist_push(h, s);
    lemma_rv_push(draws_of(h), s.draw, d);
    lemma_rv_push(grads_of(h), s.grad, d);
}
pub proof fn lemma_repr_counts<M: Math>(s: Strategy<M>, fg: Seq<Sample>, bg: Seq<Sample>)
    requires diag_repr(s, fg, bg)
    ensures s.exp_variance_draw.count == fg.len(), s.exp_variance_grad.count == fg.len(),
            s.exp_variance_draw_bg.count == bg.len(), s.exp_variance_grad_bg.count == bg.len(),
{
    let d = M::dim_s();
    lemma_rv_count(draws_of(fg), d); lemma_rv_count(grads_of(fg), d);
    lemma_rv_count(draws_of(bg), d); lemma_rv_count(grads_of(bg), d);
}

// =====================================================================================
// the transformation: ghost view and "estimated from the window"  (C08.3 / C09.1)
// =====================================================================================
pub spec const LIM_LO: real = 0.00000000000000000001real;     // LOWER_LIMIT = 1e-20
pub spec const LIM_HI: real = 100000000000000000000real;      // UPPER_LIMIT = 1e20

/// params = stds ++ inv_stds ++ mean ++ [logdet]
pub open spec fn dm_view<M: Math>(m: DiagMassMatrix<M>) -> TransView {
    TransView { id: m.id as int, params: M::vv(&m.stds) + M::vv(&m.inv_stds) + M::vv(&m.mean) + seq![m.logdet.r()] }
}
pub open spec fn tv_stds(t: TransView, d: nat) -> Seq<real> { t.params.subrange(0, d as int) }
pub open spec fn tv_inv(t: TransView, d: nat) -> Seq<real> { t.params.subrange(d as int, 2 * (d as int)) }
pub open spec fn tv_mean(t: TransView, d: nat) -> Seq<real> { t.params.subrange(2 * (d as int), 3 * (d as int)) }
pub open spec fn tv_logdet(t: TransView, d: nat) -> real { t.params[3 * (d as int)] }

/// coordinate i of a gradient-based estimate (default path, transform/diagonal.rs:107-131):
/// sigma_i^2 = clamp(sqrt(V_x/V_g)) when that is usable, mu_i = mean_x + sigma_i^2 * mean_g
pub open spec fn gb_at(stds: Seq<real>, inv: Seq<real>, mean: Seq<real>, e: EstView, i: int) -> bool {
    &&& dg_valid(e.var_draw[i], e.var_grad[i]) ==> stds[i] == sqrt_r(dg_val(e.var_draw[i], e.var_grad[i], LIM_LO, LIM_HI))
            && inv[i] == sqrt_r(1real / dg_val(e.var_draw[i], e.var_grad[i], LIM_LO, LIM_HI))
    &&& mean[i] == 1real * e.mean_draw[i] + (stds[i] * stds[i]) * e.mean_grad[i]
}
/// coordinate i of a draw-based estimate (`use_grad_based_estimate = false`, transform/diagonal.rs:85-105):
/// sigma_i^2 = clamp(V_x / n) -- specified as coded, not claimed exact
pub open spec fn db_at(stds: Seq<real>, inv: Seq<real>, mean: Seq<real>, e: EstView, i: int) -> bool {
    let sc = 1real / i2r(e.count as int);
    &&& e.var_draw[i] * sc != 0real ==> stds[i] == sqrt_r(clamp_r(e.var_draw[i] * sc, LIM_LO, LIM_HI))
            && inv[i] == sqrt_r(1real / clamp_r(e.var_draw[i] * sc, LIM_LO, LIM_HI))
    &&& mean[i] == e.mean_draw[i]
}
pub open spec fn diag_estimated_from(t: TransView, fg: Seq<Sample>, d: nat) -> bool {
    let e = est_of(fg, d);
    let stds = tv_stds(t, d); let inv = tv_inv(t, d); let mean = tv_mean(t, d);
    &&& t.params.len() == 3 * d + 1
    &&& tv_logdet(t, d) == sum_ln(inv)      // [C08.3]
    &&& ((forall|i: int| 0 <= i < d ==> #[trigger] gb_at(stds, inv, mean, e, i))
         || (forall|i: int| 0 <= i < d ==> #[trigger] db_at(stds, inv, mean, e, i)))
}

/// `Strategy::adapt` as coded: which update ran, with which inputs (this carries "invalid keeps old")
pub open spec fn diag_adapt_extra<M: Math>(s: Strategy<M>, m0: DiagMassMatrix<M>, m1: DiagMassMatrix<M>, r: bool) -> bool {
    let vd = M::vv(&s.exp_variance_draw.variance); let vg = M::vv(&s.exp_variance_grad.variance);
    let md = M::vv(&s.exp_variance_draw.mean); let mg = M::vv(&s.exp_variance_grad.mean);
    // [C08.1] the diagonal estimator always re-estimates once three samples are available
    &&& (s.exp_variance_draw.count >= 3 ==> r)
    &&& r ==> {
        &&& m1.store_mass_matrix == m0.store_mass_matrix
        &&& m1.logdet.r() == sum_ln(M::vv(&m1.inv_stds))
        &&& s._settings.use_grad_based_estimate ==> {
                &&& M::vv(&m1.stds) == upd_std_dg(M::vv(&m0.stds), vd, vg, None, LIM_LO, LIM_HI)
                &&& M::vv(&m1.inv_stds) == upd_inv_dg(M::vv(&m0.inv_stds), vd, vg, None, LIM_LO, LIM_HI)
                &&& M::vv(&m1.mean) == vaxpy(md, vmul(vmul(M::vv(&m1.stds), M::vv(&m1.stds)), mg), 1real)
            }
        &&& !s._settings.use_grad_based_estimate ==> {
                let sc = 1real / i2r(s.exp_variance_draw.count as int);
                &&& M::vv(&m1.stds) == upd_std_d(M::vv(&m0.stds), vd, sc, None, LIM_LO, LIM_HI)
                &&& M::vv(&m1.inv_stds) == upd_inv_d(M::vv(&m0.inv_stds), vd, sc, None, LIM_LO, LIM_HI)
                &&& M::vv(&m1.mean) == md
            }
    }
}
/// `Strategy::init` as coded: sigma_i^2 = 1/clamp(|g_i|) (fill 1), mu = x + sigma^2 * g
pub open spec fn diag_init_extra<M: Math>(m0: DiagMassMatrix<M>, m1: DiagMassMatrix<M>, pos: Seq<real>, grad: Seq<real>) -> bool {
    &&& m1.store_mass_matrix == m0.store_mass_matrix
    &&& m1.logdet.r() == sum_ln(M::vv(&m1.inv_stds))
    &&& M::vv(&m1.stds) == upd_std_g(M::vv(&m0.stds), grad, 1real, LIM_LO, LIM_HI)
    &&& M::vv(&m1.inv_stds) == upd_inv_g(M::vv(&m0.inv_stds), grad, 1real, LIM_LO, LIM_HI)
    &&& M::vv(&m1.mean) == vaxpy(pos, vmul(vmul(M::vv(&m1.stds), M::vv(&m1.stds)), grad), 1real)
}

/// decoding the packed view
pub proof fn lemma_dm_view<M: Math>(m: DiagMassMatrix<M>)
    ensures
        dm_view(m).params.len() == 3 * M::dim_s() + 1,
        tv_stds(dm_view(m), M::dim_s()) == M::vv(&m.stds),
        tv_inv(dm_view(m), M::dim_s()) == M::vv(&m.inv_stds),
        tv_mean(dm_view(m), M::dim_s()) == M::vv(&m.mean),
        tv_logdet(dm_view(m), M::dim_s()) == m.logdet.r(),
{
    let d = M::dim_s();
    M::ax_vv_len(&m.stds); M::ax_vv_len(&m.inv_stds); M::ax_vv_len(&m.mean);
    let t = dm_view(m);
    assert(tv_stds(t, d) =~= M::vv(&m.stds));
    assert(tv_inv(t, d) =~= M::vv(&m.inv_stds));
    assert(tv_mean(t, d) =~= M::vv(&m.mean));
}

/// the update written by `adapt` is an estimate from the foreground window  [C09.1]
pub proof fn lemma_adapt_estimated<M: Math>(s: Strategy<M>, m0: DiagMassMatrix<M>, m1: DiagMassMatrix<M>, fg: Seq<Sample>, bg: Seq<Sample>)
    requires diag_repr(s, fg, bg), diag_adapt_extra(s, m0, m1, true)
    ensures diag_estimated_from(dm_view(m1), fg, M::dim_s())
{
    let d = M::dim_s();
    let t = dm_view(m1);
    lemma_dm_view(m1);
    let e = est_of(fg, d);
    let stds = tv_stds(t, d); let inv = tv_inv(t, d); let mean = tv_mean(t, d);
    M::ax_vv_len(&m0.stds); M::ax_vv_len(&m0.inv_stds); M::ax_vv_len(&m1.stds); M::ax_vv_len(&m1.mean);
    M::ax_vv_len(&s.exp_variance_draw.mean); M::ax_vv_len(&s.exp_variance_grad.mean);
    lemma_rv_count(draws_of(fg), d);
    if s._settings.use_grad_based_estimate {
        assert forall|i: int| 0 <= i < d implies #[trigger] gb_at(stds, inv, mean, e, i) by {}
    } else {
        assert forall|i: int| 0 <= i < d implies #[trigger] db_at(stds, inv, mean, e, i) by {}
    }
}

// =====================================================================================
// [C08.1] Gaussian exactness, one coordinate
// =====================================================================================
/// the scalar image of rv_step / rv_of (one coordinate of the vector fold)
pub struct SW { pub mean: real, pub var: real, pub count: nat }
pub open spec fn sw_step(s: SW, x: real) -> SW {
    if s.count == 0 { SW { mean: x, var: s.var, count: 1 } }
    else { SW { mean: s.mean + (x - s.mean) * (1real / i2r(s.count as int + 1)), var: s.var + (x - s.mean) * (x - s.mean), count: s.count + 1 } }
}
pub open spec fn sw_of(xs: Seq<real>) -> SW
    decreases xs.len()
{
    if xs.len() == 0 { SW { mean: 0real, var: 0real, count: 0 } } else { sw_step(sw_of(xs.drop_last()), xs.last()) }
}
pub open spec fn col(xs: Seq<Seq<real>>, i: int) -> Seq<real> { Seq::new(xs.len(), |k: int| xs[k][i]) }
pub open spec fn all_len(xs: Seq<Seq<real>>, d: nat) -> bool { forall|k: int| 0 <= k < xs.len() ==> (#[trigger] xs[k]).len() == d }

/// coordinate i of the vector fold is the scalar fold of column i
// [C08.1]
pub proof fn lemma_rv_coord(xs: Seq<Seq<real>>, d: nat, i: int)
    requires all_len(xs, d), 0 <= i < d
    ensures
        rv_of(xs, d).mean.len() == d, rv_of(xs, d).var.len() == d,
        rv_of(xs, d).mean[i] == sw_of(col(xs, i)).mean,
        rv_of(xs, d).var[i] == sw_of(col(xs, i)).var,
        rv_of(xs, d).count == sw_of(col(xs, i)).count,
    decreases xs.len()
{
    if xs.len() > 0 {
        let p = xs.drop_last();
        assert(all_len(p, d)) by { assert forall|k: int| 0 <= k < p.len() implies (#[trigger] p[k]).len() == d by { assert(p[k] == xs[k]); } }
        lemma_rv_coord(p, d, i);
        assert(col(xs, i).drop_last() =~= col(p, i));
        assert(col(xs, i).last() == xs.last()[i]);
        assert(xs.last() == xs[xs.len() - 1]);
    }
}

/// gradients of a Gaussian with mean m and variance s2 (one coordinate):  g = -(x - m)/s2,
/// written without division
pub open spec fn gauss_grads(xs: Seq<real>, gs: Seq<real>, m: real, s2: real) -> bool {
    &&& gs.len() == xs.len()
    &&& forall|k: int| 0 <= k < xs.len() ==> #[trigger] gs[k] * s2 == -(xs[k] - m)
}
/// induction over the window: the gradient estimator is the affine image of the draw estimator
// [C08.1]
pub proof fn lemma_gauss_window(xs: Seq<real>, gs: Seq<real>, m: real, s2: real)
    requires gauss_grads(xs, gs, m, s2), xs.len() >= 1
    ensures
        sw_of(gs).count == sw_of(xs).count,
        sw_of(gs).mean * s2 == -(sw_of(xs).mean - m),
        sw_of(gs).var * (s2 * s2) == sw_of(xs).var,
    decreases xs.len()
{
    let xp = xs.drop_last(); let gp = gs.drop_last();
    let x = xs.last(); let g = gs.last();
    assert(g * s2 == -(x - m)) by { assert(gs[xs.len() - 1] * s2 == -(xs[xs.len() - 1] - m)); }
    if xs.len() == 1 {
        assert(xp.len() == 0 && gp.len() == 0);
        assert(sw_of(xp).count == 0 && sw_of(gp).count == 0);
        assert(sw_of(xs).var == 0real && sw_of(gs).var == 0real);
        assert(0real * (s2 * s2) == 0real) by(nonlinear_arith);
    } else {
        assert(gauss_grads(xp, gp, m, s2)) by {
            assert forall|k: int| 0 <= k < xp.len() implies #[trigger] gp[k] * s2 == -(xp[k] - m) by {
                assert(gp[k] == gs[k] && xp[k] == xs[k]);
                assert(gs[k] * s2 == -(xs[k] - m));
            }
        }
        lemma_gauss_window(xp, gp, m, s2);
        let a = sw_of(xp); let b = sw_of(gp);
        lemma_sw_count(xp); lemma_sw_count(gp);
        let r = 1real / i2r(a.count as int + 1);
        let dx = x - a.mean; let dg = g - b.mean;
        assert(dg * s2 == -dx) by(nonlinear_arith)
            requires g * s2 == -(x - m), b.mean * s2 == -(a.mean - m), dx == x - a.mean, dg == g - b.mean;
        assert((b.mean + dg * r) * s2 == -((a.mean + dx * r) - m)) by(nonlinear_arith)
            requires dg * s2 == -dx, b.mean * s2 == -(a.mean - m);
        assert((b.var + dg * dg) * (s2 * s2) == a.var + dx * dx) by(nonlinear_arith)
            requires dg * s2 == -dx, b.var * (s2 * s2) == a.var;
    }
}
pub proof fn lemma_sw_count(xs: Seq<real>)
    ensures sw_of(xs).count == xs.len()
    decreases xs.len()
{
    if xs.len() > 0 { lemma_sw_count(xs.drop_last()); }
}

pub proof fn lemma_sqrt_unique(a: real, x: real)
    requires a >= 0real, x >= 0real, a * a == x
    ensures sqrt_r(x) == a
{
    ax_sqrt(x);
    let b = sqrt_r(x);
    assert(a == b) by(nonlinear_arith) requires a >= 0real, b >= 0real, a * a == b * b;
}

/// The update formula of cpu_math.rs:671-708 (`val = sqrt(draw_var/grad_var)`, clamp, `std = sqrt(val)`)
/// together with transform/diagonal.rs:125-128 (`mean = draw_mean + std*std*grad_mean`), applied to
/// the estimators of a Gaussian window, returns the true scale and location:
/// `std == s` (so sigma^2 = s^2) and `mean == m`, whatever the previous value `old_std` was.
// [C08.1]
pub proof fn lemma_gauss_exact(vx: real, vg: real, mx: real, mg: real, m: real, s: real, old_std: real, lo: real, hi: real)
    requires
        s > 0real,
        vx > 0real,                          // the draws are not all equal in this coordinate
        vg * ((s * s) * (s * s)) == vx,      // from lemma_gauss_window with s2 = s*s
        mg * (s * s) == -(mx - m),
        lo <= s * s, s * s <= hi,            // the true variance lies inside the clamp [1e-20, 1e20]
    ensures
        dg_valid(vx, vg),
        dg_val(vx, vg, lo, hi) == s * s,
        dg_std(old_std, vx, vg, None, lo, hi) == s,
        dg_inv(old_std, vx, vg, None, lo, hi) == sqrt_r(1real / (s * s)),
        1real * mx + (s * s) * mg == m,
{
    let s2 = s * s;
    assert(s2 > 0real) by(nonlinear_arith) requires s > 0real, s2 == s * s;
    let s4 = s2 * s2;
    assert(s4 > 0real) by(nonlinear_arith) requires s2 > 0real, s4 == s2 * s2;
    assert(vg > 0real) by(nonlinear_arith) requires vg * s4 == vx, vx > 0real, s4 > 0real;
    assert(vx / vg == s4) by(nonlinear_arith) requires vg * s4 == vx, vg > 0real;
    lemma_sqrt_unique(s2, s4);
    lemma_sqrt_unique(s, s2);
    assert(1real * mx + s2 * mg == m) by(nonlinear_arith) requires mg * s2 == -(mx - m);
}

/// C08.1 for coordinate i of the real estimator state: a window of n >= 2 Gaussian samples whose
/// draws are not all equal in coordinate i makes the gradient-based update exact in that coordinate
// [C08.1]
pub proof fn lemma_gauss_exact_coord(h: Seq<Sample>, d: nat, i: int, m: real, s: real, stds: Seq<real>, inv: Seq<real>, mean: Seq<real>)
    requires
        0 <= i < d, h.len() >= 1, s > 0real,
        all_len(draws_of(h), d), all_len(grads_of(h), d),
        gauss_grads(col(draws_of(h), i), col(grads_of(h), i), m, s * s),
        est_of(h, d).var_draw[i] > 0real,
        LIM_LO <= s * s, s * s <= LIM_HI,
        gb_at(stds, inv, mean, est_of(h, d), i),
    ensures
        stds[i] == s, mean[i] == m,
{
    let e = est_of(h, d);
    lemma_rv_coord(draws_of(h), d, i);
    lemma_rv_coord(grads_of(h), d, i);
    lemma_gauss_window(col(draws_of(h), i), col(grads_of(h), i), m, s * s);
    lemma_gauss_exact(e.var_draw[i], e.var_grad[i], e.mean_draw[i], e.mean_grad[i], m, s, 0real, LIM_LO, LIM_HI);
    ax_sqrt(s * s);
    lemma_sqrt_unique(s, s * s);
}

/// "distinct draws": the accumulated squared residuals are positive as soon as two draws differ
pub open spec fn all_eq(xs: Seq<real>, c: real) -> bool { forall|k: int| 0 <= k < xs.len() ==> #[trigger] xs[k] == c }
pub proof fn lemma_sw_const(xs: Seq<real>, c: real)
    requires all_eq(xs, c), xs.len() >= 1
    ensures sw_of(xs).mean == c, sw_of(xs).var == 0real
    decreases xs.len()
{
    let p = xs.drop_last();
    assert(xs.last() == c) by { assert(xs[xs.len() - 1] == c); }
    lemma_sw_count(p);
    if xs.len() > 1 {
        assert(all_eq(p, c)) by { assert forall|k: int| 0 <= k < p.len() implies #[trigger] p[k] == c by { assert(p[k] == xs[k]); } }
        lemma_sw_const(p, c);
        let r = 1real / i2r(sw_of(p).count as int + 1);
        assert(c + (c - c) * r == c) by(nonlinear_arith);
        assert((c - c) * (c - c) == 0real) by(nonlinear_arith);
    }
}
pub proof fn lemma_sw_var_nonneg(xs: Seq<real>)
    ensures sw_of(xs).var >= 0real
    decreases xs.len()
{
    if xs.len() > 0 {
        let p = xs.drop_last();
        lemma_sw_var_nonneg(p);
        let d = xs.last() - sw_of(p).mean;
        assert(d * d >= 0real) by(nonlinear_arith);
    }
}
// [C08.1]
pub proof fn lemma_sw_var_pos(xs: Seq<real>)
    requires xs.len() >= 1, !all_eq(xs, xs[0])
    ensures sw_of(xs).var > 0real
    decreases xs.len()
{
    let p = xs.drop_last();
    let c = xs[0];
    assert(xs.last() == xs[xs.len() - 1]);
    if xs.len() == 1 {
        assert(all_eq(xs, c));
    } else {
        assert(p[0] == c);
        assert forall|k: int| 0 <= k < p.len() implies p[k] == xs[k] by {}
        lemma_sw_count(p);
        lemma_sw_var_nonneg(p);
        let d = xs.last() - sw_of(p).mean;
        assert(d * d >= 0real) by(nonlinear_arith);
        if all_eq(p, c) {
            lemma_sw_const(p, c);
            if xs.last() == c {
                assert(all_eq(xs, c)) by { assert forall|k: int| 0 <= k < xs.len() implies #[trigger] xs[k] == c by { if k < p.len() { assert(p[k] == c); } } }
            }
            assert(d * d > 0real) by(nonlinear_arith) requires d != 0real;
        } else {
            lemma_sw_var_pos(p);
        }
    }
}

/// End-to-end form of C08.1 on the real estimator state: the estimator represents a foreground
/// window `fg` of samples of dimension d whose gradients are those of a Gaussian with mean m and
/// standard deviation s in coordinate i (s^2 inside the clamp), at least two draws differ in that
/// coordinate, and `Strategy::adapt` ran its (default) gradient-based update: then the new
/// transformation has stds[i] == s and mean[i] == m exactly.
// [C08.1]
pub proof fn lemma_adapt_exact<M: Math>(st: Strategy<M>, m0: DiagMassMatrix<M>, m1: DiagMassMatrix<M>, fg: Seq<Sample>, bg: Seq<Sample>, i: int, m: real, s: real)
    requires
        diag_repr(st, fg, bg), diag_adapt_extra(st, m0, m1, true), st._settings.use_grad_based_estimate,
        0 <= i < M::dim_s(), fg.len() >= 1, s > 0real, LIM_LO <= s * s, s * s <= LIM_HI,
        all_len(draws_of(fg), M::dim_s()), all_len(grads_of(fg), M::dim_s()),
        gauss_grads(col(draws_of(fg), i), col(grads_of(fg), i), m, s * s),
        !all_eq(col(draws_of(fg), i), fg[0].draw[i]),
    ensures
        M::vv(&m1.stds)[i] == s, M::vv(&m1.mean)[i] == m,
{
    let d = M::dim_s();
    let e = est_of(fg, d);
    lemma_rv_coord(draws_of(fg), d, i);
    assert(col(draws_of(fg), i)[0] == fg[0].draw[i]);
    lemma_sw_var_pos(col(draws_of(fg), i));
    M::ax_vv_len(&m0.stds); M::ax_vv_len(&m0.inv_stds); M::ax_vv_len(&m1.stds); M::ax_vv_len(&m1.mean);
    M::ax_vv_len(&st.exp_variance_draw.mean); M::ax_vv_len(&st.exp_variance_grad.mean);
    assert(gb_at(M::vv(&m1.stds), M::vv(&m1.inv_stds), M::vv(&m1.mean), e, i));
    lemma_gauss_exact_coord(fg, d, i, m, s, M::vv(&m1.stds), M::vv(&m1.inv_stds), M::vv(&m1.mean));
}

//@include window_spec.rs
