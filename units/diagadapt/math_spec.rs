// Vector-level specification vocabulary shared by units `diagadapt` and `lowrankadapt` (model R).
// The spec functions are written from the statements of C08 / C09 / C05.7 and from the element
// formulas of src/math/cpu_math.rs (lines cited); the extracted code has to refine them.

// =====================================================================================
// vectors as Seq<real>; the whole-vector functions used by the A-math contracts
// =====================================================================================
/// mathematical content of a slice of floats
pub open spec fn reals_of(s: Seq<F>) -> Seq<real> { Seq::new(s.len(), |i: int| s[i].r()) }
pub open spec fn zeros(d: nat) -> Seq<real> { Seq::new(d, |i: int| 0real) }
pub open spec fn vmul(a: Seq<real>, b: Seq<real>) -> Seq<real> { Seq::new(a.len(), |i: int| a[i] * b[i]) }
/// y <- a*x + y
pub open spec fn vaxpy(x: Seq<real>, y: Seq<real>, a: real) -> Seq<real> { Seq::new(y.len(), |i: int| a * x[i] + y[i]) }
pub open spec fn sum_ln(s: Seq<real>) -> real
    decreases s.len()
{
    if s.len() == 0 { 0real } else { sum_ln(s.drop_last()) + ln_r(s.last()) }
}
pub open spec fn optr(o: Option<F>) -> Option<real> { match o { Some(f) => Some(f.r()), None => None } }
pub open spec fn clamp_r(x: real, lo: real, hi: real) -> real { min_r(max_r(x, lo), hi) }

// ---- cpu_math.rs:605-631 (array_update_variance), per element:
//      diff = x - mean;  mean += diff * diff_scale;  var += diff * diff
// NB: the accumulated `var` is  sum_k diff_k^2  (the squared *prediction* residuals), not the
// textbook Welford M2 = sum_k diff_k*(x_k - mean_k); C08.1 is proved about THIS formula.
pub open spec fn welford_mean(mean: Seq<real>, x: Seq<real>, r: real) -> Seq<real> {
    Seq::new(mean.len(), |i: int| mean[i] + (x[i] - mean[i]) * r)
}
pub open spec fn welford_var(var: Seq<real>, mean: Seq<real>, x: Seq<real>) -> Seq<real> {
    Seq::new(var.len(), |i: int| var[i] + (x[i] - mean[i]) * (x[i] - mean[i]))
}

// ---- cpu_math.rs:671-708 (array_update_var_inv_std_draw_grad), per element
/// the estimate sqrt(draw_var/grad_var) is usable: finite and non-zero. On finite inputs the IEEE
/// value is NaN / +-inf / 0 exactly when grad_var == 0 or draw_var/grad_var <= 0.
pub open spec fn dg_valid(dv: real, gv: real) -> bool { gv != 0real && dv / gv > 0real }
/// sigma^2 = clamp(sqrt(draw_var / grad_var))
pub open spec fn dg_val(dv: real, gv: real, lo: real, hi: real) -> real { clamp_r(sqrt_r(dv / gv), lo, hi) }
pub open spec fn dg_std(old_std: real, dv: real, gv: real, fill: Option<real>, lo: real, hi: real) -> real {
    if dg_valid(dv, gv) { sqrt_r(dg_val(dv, gv, lo, hi)) } else { match fill { Some(f) => sqrt_r(f), None => old_std } }
}
pub open spec fn dg_inv(old_inv: real, dv: real, gv: real, fill: Option<real>, lo: real, hi: real) -> real {
    if dg_valid(dv, gv) { sqrt_r(1real / dg_val(dv, gv, lo, hi)) } else { match fill { Some(f) => sqrt_r(1real / f), None => old_inv } }
}
pub open spec fn upd_std_dg(old: Seq<real>, dv: Seq<real>, gv: Seq<real>, fill: Option<real>, lo: real, hi: real) -> Seq<real> {
    Seq::new(old.len(), |i: int| dg_std(old[i], dv[i], gv[i], fill, lo, hi))
}
pub open spec fn upd_inv_dg(old: Seq<real>, dv: Seq<real>, gv: Seq<real>, fill: Option<real>, lo: real, hi: real) -> Seq<real> {
    Seq::new(old.len(), |i: int| dg_inv(old[i], dv[i], gv[i], fill, lo, hi))
}

// ---- cpu_math.rs:633-669 (array_update_var_inv_std_draw), per element
pub open spec fn d_std(old_std: real, dv: real, scale: real, fill: Option<real>, lo: real, hi: real) -> real {
    if dv * scale != 0real { sqrt_r(clamp_r(dv * scale, lo, hi)) } else { match fill { Some(f) => sqrt_r(f), None => old_std } }
}
pub open spec fn d_inv(old_inv: real, dv: real, scale: real, fill: Option<real>, lo: real, hi: real) -> real {
    if dv * scale != 0real { sqrt_r(1real / clamp_r(dv * scale, lo, hi)) } else { match fill { Some(f) => sqrt_r(1real / f), None => old_inv } }
}
pub open spec fn upd_std_d(old: Seq<real>, dv: Seq<real>, scale: real, fill: Option<real>, lo: real, hi: real) -> Seq<real> {
    Seq::new(old.len(), |i: int| d_std(old[i], dv[i], scale, fill, lo, hi))
}
pub open spec fn upd_inv_d(old: Seq<real>, dv: Seq<real>, scale: real, fill: Option<real>, lo: real, hi: real) -> Seq<real> {
    Seq::new(old.len(), |i: int| d_inv(old[i], dv[i], scale, fill, lo, hi))
}

// ---- cpu_math.rs:710-738 (array_update_var_inv_std_grad), per element
pub open spec fn g_val(g: real, fill: real, lo: real, hi: real) -> real {
    let c = clamp_r(abs_r(g), lo, hi);
    if c != 0real { 1real / c } else { fill }
}
pub open spec fn upd_std_g(old: Seq<real>, g: Seq<real>, fill: real, lo: real, hi: real) -> Seq<real> {
    Seq::new(old.len(), |i: int| sqrt_r(g_val(g[i], fill, lo, hi)))
}
pub open spec fn upd_inv_g(old: Seq<real>, g: Seq<real>, fill: real, lo: real, hi: real) -> Seq<real> {
    Seq::new(old.len(), |i: int| sqrt_r(1real / g_val(g[i], fill, lo, hi)))
}

/// [C05.7] `DrawGradCollector::register_draw`
pub open spec fn dgc_reg_post<M: Math, P: Point<M>>(c1: DrawGradCollector<M>, state: State<M, P>, info: SampleInfo) -> bool {
    &&& M::vv(&c1.draw) == state.p.pos_v()
    &&& M::vv(&c1.grad) == state.p.grad_v()
    &&& c1.is_good == (if info.divergence_info is Some { state.idx > 4 || state.idx < -4 } else { state.idx != 0 })
}

