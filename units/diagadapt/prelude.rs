// Prelude of unit `diagadapt` (model R): the shared estimator façade plus the ghost view of the
// (extracted) DiagMassMatrix.
//@include facade.rs

impl<M: Math> Transformation<M> for DiagMassMatrix<M> {
    open spec fn view(&self) -> TransView { dm_view::<M>(*self) }
}
