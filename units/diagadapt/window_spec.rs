// [C09.3] (i): window histories over the operation language Push | Switch (shared by `diagadapt` and `lowrankadapt`)
// =====================================================================================
// [C09.3] (i): the foreground window never reaches back further than the switch before last
// =====================================================================================
pub enum Op { Push(Sample), Switch }
pub struct Win { pub fg: Seq<Sample>, pub bg: Seq<Sample> }
/// the estimator semantics proved above ([C09.1]): Push appends to both windows, Switch moves bg to fg
pub open spec fn op_step(w: Win, o: Op) -> Win {
    match o { Op::Push(x) => Win { fg: w.fg.push(x), bg: w.bg.push(x) }, Op::Switch => Win { fg: w.bg, bg: Seq::empty() } }
}
pub open spec fn run(ops: Seq<Op>) -> Win
    decreases ops.len()
{
    if ops.len() == 0 { Win { fg: Seq::empty(), bg: Seq::empty() } } else { op_step(run(ops.drop_last()), ops.last()) }
}
/// the samples pushed at positions >= k, oldest first
pub open spec fn pushed_since(ops: Seq<Op>, k: int) -> Seq<Sample>
    decreases ops.len()
{
    if ops.len() == 0 || ops.len() <= k { Seq::empty() }
    else { match ops.last() { Op::Push(x) => pushed_since(ops.drop_last(), k).push(x), Op::Switch => pushed_since(ops.drop_last(), k) } }
}
pub open spec fn is_switch(ops: Seq<Op>, i: int) -> bool { ops[i] is Switch }
/// position just after the last switch (0 if there is none)
pub open spec fn last_switch(ops: Seq<Op>) -> int
    decreases ops.len()
{
    if ops.len() == 0 { 0 } else if ops.last() is Switch { ops.len() as int } else { last_switch(ops.drop_last()) }
}
/// position just after the switch BEFORE the last one (0 if there are fewer than two)
pub open spec fn prev_switch(ops: Seq<Op>) -> int
    decreases ops.len()
{
    if ops.len() == 0 { 0 } else if ops.last() is Switch { last_switch(ops.drop_last()) } else { prev_switch(ops.drop_last()) }
}
/// characterisation of the two positions: they are where the last two switches happened
// [C09.3]
pub proof fn lemma_switch_positions(ops: Seq<Op>)
    ensures
        0 <= prev_switch(ops) <= last_switch(ops) <= ops.len(),
        last_switch(ops) > 0 ==> is_switch(ops, last_switch(ops) - 1),
        forall|i: int| last_switch(ops) <= i < ops.len() ==> !#[trigger] is_switch(ops, i),
        prev_switch(ops) > 0 ==> is_switch(ops, prev_switch(ops) - 1) && prev_switch(ops) < last_switch(ops),
        forall|i: int| prev_switch(ops) <= i < last_switch(ops) - 1 ==> !#[trigger] is_switch(ops, i),
    decreases ops.len()
{
    if ops.len() > 0 {
        let p = ops.drop_last();
        lemma_switch_positions(p);
        assert forall|i: int| 0 <= i < p.len() implies is_switch(p, i) == is_switch(ops, i) by { assert(p[i] == ops[i]); }
        if ops.last() is Switch {
            assert(is_switch(ops, ops.len() - 1));
            assert forall|i: int| prev_switch(ops) <= i < last_switch(ops) - 1 implies !#[trigger] is_switch(ops, i) by {
                assert(!is_switch(p, i));
            }
            if prev_switch(ops) > 0 { assert(is_switch(p, last_switch(p) - 1)); }
        } else {
            assert forall|i: int| last_switch(ops) <= i < ops.len() implies !#[trigger] is_switch(ops, i) by {
                if i < p.len() { assert(!is_switch(p, i)); }
            }
            assert forall|i: int| prev_switch(ops) <= i < last_switch(ops) - 1 implies !#[trigger] is_switch(ops, i) by {
                assert(!is_switch(p, i));
            }
            if last_switch(ops) > 0 { assert(is_switch(p, last_switch(p) - 1)); }
            if prev_switch(ops) > 0 { assert(is_switch(p, prev_switch(p) - 1)); }
        }
    }
}
pub proof fn lemma_pushed_since_end(ops: Seq<Op>, k: int)
    requires k >= ops.len()
    ensures pushed_since(ops, k) == Seq::<Sample>::empty()
{
}
/// After any history of pushes and switches the foreground window consists exactly of the samples
/// pushed since the switch before the last one, and the background window of those pushed since the
/// last switch: no draw older than two windows can influence the transformation.
// [C09.3]
pub proof fn lemma_fg_two_windows(ops: Seq<Op>)
    ensures
        run(ops).fg == pushed_since(ops, prev_switch(ops)),
        run(ops).bg == pushed_since(ops, last_switch(ops)),
    decreases ops.len()
{
    if ops.len() > 0 {
        let p = ops.drop_last();
        lemma_fg_two_windows(p);
        lemma_switch_positions(p);
        match ops.last() {
            Op::Push(x) => {
                // both windows grow by x; both start positions are <= p.len() < ops.len()
            }
            Op::Switch => {
                // fg' = bg = pushed_since(p, last_switch(p)); the new switch itself pushes nothing
                lemma_pushed_since_end(ops, ops.len() as int);
            }
        }
    }
}
