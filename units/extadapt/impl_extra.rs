    // ghost items spliced into `impl AdaptStrategy<M> for ExternalTransformAdaptation` (rule R1: contracts)
    open spec fn new_pre(options: Self::Options, num_tune: u64) -> bool { et_new_pre(options, num_tune) }
    open spec fn new_post(options: Self::Options, num_tune: u64, r: Self) -> bool { et_new_post(options, num_tune, r) }
    open spec fn adapt_pre(&self, h: &Self::Hamiltonian, draw: u64) -> bool { et_adapt_pre(*self, draw) }
    open spec fn adapt_post(&self, post: &Self, h0: &Self::Hamiltonian, h1: &Self::Hamiltonian, draw: u64,
                       collector: &Self::Collector, r: Result<(), NutsError>) -> bool {
        et_adapt_post::<M>(*self, *post, *h0, *h1, draw, *collector, r)
    }
    open spec fn init_pre(&self) -> bool { strat_wf(self.step_size) }
    open spec fn init_post(&self, post: &Self, h0: &Self::Hamiltonian, h1: &Self::Hamiltonian, r: Result<(), NutsError>) -> bool {
        et_init_post::<M>(*self, *post, *h0, *h1, r)
    }
    open spec fn tuning_view(&self) -> bool { self.tuning }
    open spec fn last_steps_view(&self) -> u64 { self.step_size.last_n_steps }
