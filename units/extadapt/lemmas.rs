//@include ../_shared/stepsize_spec.rs

// =====================================================================================
// Warm-up schedule of the flow strategy, written from the statement of C06
// =====================================================================================
pub spec const BIG: u64 = 0x4000_0000;   // 2^30: machine-range bound on num_tune (Adam casts its counter to i32), as in unit adapt

pub open spec fn floor_of(x: real, o: int) -> bool { i2r(o) <= x && x < i2r(o) + 1real }
pub open spec fn acc_of(c: AcceptanceRateCollector) -> real { c.mean.sum.r() / i2r(c.mean.count as int) }
pub open spec fn acc_sym_of(c: AcceptanceRateCollector) -> real { c.mean_sym.sum.r() / i2r(c.mean_sym.count as int) }

pub open spec fn et_cfg_ok(s: ExternalTransformAdaptation) -> bool {
    &&& s.final_window_size <= s.num_tune
    &&& s.num_tune <= BIG
    &&& s.step_size.options == s.options.step_size_settings
}
/// [C06.1] *every* num_tune >= 0 (up to the machine-range bound) and a window fraction in [0,1] constructs
pub open spec fn et_new_pre(options: FlowSettings, num_tune: u64) -> bool {
    &&& num_tune <= BIG
    &&& 0real <= options.step_size_window.r() <= 1real
    &&& strat_opts_ok(options.step_size_settings)
}
pub open spec fn et_new_post(options: FlowSettings, num_tune: u64, r: ExternalTransformAdaptation) -> bool {
    &&& r.num_tune == num_tune
    &&& r.options == options
    &&& r.tuning
    // the final step-size window starts at floor(num_tune * (1 - step_size_window))
    &&& floor_of(i2r(num_tune as int) * (1real - options.step_size_window.r()), r.final_window_size as int)
    &&& r.final_window_size <= num_tune
    &&& strat_wf(r.step_size) && strat_budget(r.step_size) == 1
    &&& et_inv(r, 0)
}
/// invariant between calls of adapt; `draw` is the index the next call will get
pub open spec fn et_inv(s: ExternalTransformAdaptation, draw: u64) -> bool {
    &&& et_cfg_ok(s)
    &&& strat_wf(s.step_size)
    &&& strat_budget(s.step_size) <= draw + 1
}
pub open spec fn et_adapt_pre(s: ExternalTransformAdaptation, draw: u64) -> bool {
    et_inv(s, draw) && draw < 0xffff_ffff_ffff_fff0
}

pub open spec fn is_mult(d: u64, k: u64) -> bool { if k == 0 { d == 0 } else { d % k == 0 } }
/// the update schedule of the flow parameters as coded (external_adapt_strategy.rs:211-229): every 10th draw
/// during the first 100 draws, afterwards every `transform_update_freq`-th draw; never at draw 0
pub open spec fn flow_update_due(s: ExternalTransformAdaptation, draw: u64) -> bool {
    draw > 0 && (if draw < 100 { draw % 10 == 0 } else { is_mult(draw, s.options.transform_update_freq) })
}

pub type FlowHam<M> = TransformedHamiltonian<M, ExternalTransformation<M>>;
pub type FlowColl<M> = CombinedCollector<M, TransformedPoint<M>, AcceptanceRateCollector, DrawCollector<M>>;

/// configuration never touched; per-draw statistics taken from this draw's collector; tuning flag
pub open spec fn et_post_common<M: Math>(s0: ExternalTransformAdaptation, s1: ExternalTransformAdaptation, draw: u64, c: FlowColl<M>) -> bool {
    &&& s1.num_tune == s0.num_tune && s1.final_window_size == s0.final_window_size
    &&& s1.options == s0.options && s1.chain == s0.chain
    &&& s1.step_size.options == s0.step_size.options
    &&& s1.step_size.last_mean_tree_accept.r() == acc_of(c.collector1)
    &&& s1.step_size.last_sym_mean_tree_accept.r() == acc_sym_of(c.collector1)
    &&& s1.step_size.last_n_steps == c.collector1.mean.count
    // [C06.2] tuning flag: cleared exactly from draw num_tune on, never set again
    &&& s1.tuning == (s0.tuning && draw < s0.num_tune)
}
/// [C06.5] after warm-up: adaptation state untouched, flow parameters frozen, only jitter around the averaged step
pub open spec fn et_post_after<M: Math>(s0: ExternalTransformAdaptation, s1: ExternalTransformAdaptation, h0: FlowHam<M>, h1: FlowHam<M>) -> bool {
    &&& s1.step_size.adaptation == s0.step_size.adaptation
    &&& h1.updates() == h0.updates()
    &&& h1.trans() == h0.trans()
    &&& in_jitter_band(h1.step(), strat_base(s0.step_size, true), s0.options.step_size_settings.jitter)
}
/// [C06.4] final step-size window: the user's update callback is not run (transformation frozen);
/// the step-size estimator is fed the symmetric statistic; the last warm-up draw already uses the averaged step
pub open spec fn et_post_final<M: Math>(s0: ExternalTransformAdaptation, s1: ExternalTransformAdaptation, h0: FlowHam<M>, h1: FlowHam<M>,
    draw: u64, c: FlowColl<M>) -> bool
{
    &&& h1.updates() == h0.updates()
    &&& h1.trans() == h0.trans()
    &&& strat_advanced(s0.step_size.adaptation, s1.step_size.adaptation, acc_sym_of(c.collector1), s0.options.step_size_settings.target_accept.r())
    &&& in_jitter_band(h1.step(), strat_base(s1.step_size, draw == s0.num_tune - 1), s0.options.step_size_settings.jitter)
}
/// before the final window: at most one run of the update callback, exactly when the schedule says so
pub open spec fn et_post_window<M: Math>(s0: ExternalTransformAdaptation, s1: ExternalTransformAdaptation, h0: FlowHam<M>, h1: FlowHam<M>,
    draw: u64, c: FlowColl<M>, ok: bool) -> bool
{
    let due = flow_update_due(s0, draw);
    &&& h1.updates() == h0.updates() + (if due { 1nat } else { 0nat })
    &&& (!due ==> ok && h1.trans() == h0.trans())
    &&& (ok ==> {
            &&& strat_advanced(s0.step_size.adaptation, s1.step_size.adaptation, acc_of(c.collector1), s0.options.step_size_settings.target_accept.r())
            &&& in_jitter_band(h1.step(), strat_base(s1.step_size, false), s0.options.step_size_settings.jitter) })
    // a failing update callback aborts the draw before the step-size machinery runs
    &&& (!ok ==> s1.step_size.adaptation == s0.step_size.adaptation && h1.step() == h0.step())
}
pub open spec fn et_adapt_post<M: Math>(s0: ExternalTransformAdaptation, s1: ExternalTransformAdaptation, h0: FlowHam<M>, h1: FlowHam<M>,
    draw: u64, c: FlowColl<M>, r: Result<(), NutsError>) -> bool
{
    &&& et_post_common(s0, s1, draw, c)
    // invariant for the next call
    &&& (r is Ok ==> et_inv(s1, (draw + 1) as u64))
    &&& (draw >= s0.num_tune ==> r is Ok && et_post_after(s0, s1, h0, h1))
    &&& (s0.final_window_size <= draw < s0.num_tune ==> r is Ok && et_post_final(s0, s1, h0, h1, draw, c))
    &&& (draw < s0.final_window_size && draw < s0.num_tune ==> et_post_window(s0, s1, h0, h1, draw, c, r is Ok))
}

/// `floor(x) as u64` (Rust's saturating cast) for 0 <= x <= nt <= 2^30 is the mathematical floor of x
pub proof fn lemma_floor_cast(x: real, nt: int, o: u64)
    requires 0real <= x, x <= i2r(nt), 0 <= nt <= BIG, f_to_u64_ok(floor_r(x), o)
    ensures floor_of(x, o as int), o <= nt
{
    ax_floor(x);
    let fl = floor_r(x);
    let i = choose|i: int| floor_r(x) == i2r(i);
    assert(fl == i2r(i));
    assert(i2r(i) <= x && x < i2r(i) + 1real);
    assert(-1 < i && i <= nt);
    if fl <= 0real {
        assert(i == 0);
        assert(o == 0);
    } else {
        assert(fl < 18446744073709551615real);
        assert(i2r(o as int) <= i2r(i) && i2r(i) < i2r(o as int) + 1real);
        assert(o as int == i);
    }
}

// ---- consequences
/// the tuning flag after the calls for draws 0..n-1 (flag starts `true` in `new`, each call applies C06.2)
pub open spec fn tuning_after(n: nat, num_tune: u64) -> bool
    decreases n
{
    if n == 0 { true } else { tuning_after((n - 1) as nat, num_tune) && (n - 1) < num_tune }
}
/// [C06.2] after the call for draw k, is_tuning() <=> k < num_tune: exactly the first num_tune draws are tuning draws
// [C06.2]
pub proof fn lemma_tuning_exact(k: nat, num_tune: u64)
    ensures tuning_after(k + 1, num_tune) == (k < num_tune)
    decreases k
{
    assert(tuning_after(k + 1, num_tune) == (tuning_after(((k + 1) - 1) as nat, num_tune) && ((k + 1) - 1) < num_tune));
    assert(((k + 1) - 1) as nat == k);
    if k > 0 {
        lemma_tuning_exact((k - 1) as nat, num_tune);
        assert(((k - 1) as nat) + 1 == k);
    }
}
/// [C06.4] from the start of the final step-size window on, NO call of adapt runs the update callback:
/// a direct reading of et_adapt_post (final window and after warm-up) -- `updates()` never moves again
// [C06.4]
pub proof fn lemma_frozen_from_final_window<M: Math>(s0: ExternalTransformAdaptation, s1: ExternalTransformAdaptation, h0: FlowHam<M>, h1: FlowHam<M>,
    draw: u64, c: FlowColl<M>, r: Result<(), NutsError>)
    requires et_adapt_post(s0, s1, h0, h1, draw, c, r), et_cfg_ok(s0), draw >= s0.final_window_size
    ensures r is Ok, h1.updates() == h0.updates(), h1.trans() == h0.trans()
{
}

/// `AdaptStrategy::init` of the flow strategy [C05.4 / C13.2 / C06]: the flow is initialised at the start point, then the
/// step-size strategy is initialised (contract of `Strategy::init`, proved in unit stepsize_init).  Ok is answered only
/// if the initialisation of the transformation did not fail (its error is not swallowed); the schedule fields of
/// the strategy are not touched; the step size the chain starts with is the one `Strategy::init` chose.
pub open spec fn et_init_post<M: Math>(s0: ExternalTransformAdaptation, s1: ExternalTransformAdaptation, h0: FlowHam<M>, h1: FlowHam<M>,
                                     r: Result<(), NutsError>) -> bool {
    &&& r is Ok ==> exists|m: FlowHam<M>| #[trigger] FlowHam::<M>::init_done(h0, m) && m.step() == h0.step()   // [C05.4] [C13.2]
    &&& s1.num_tune == s0.num_tune && s1.final_window_size == s0.final_window_size && s1.tuning == s0.tuning
        && s1.options == s0.options && s1.chain == s0.chain                                // [C06.1]
    &&& r is Ok ==> ss_init_post(s0.step_size, s1.step_size, h0.step(), h1.step(), true)  // [C06.4]
    &&& strat_wf(s1.step_size)
}
