// Prelude of unit `extadapt` (model R): everything the extracted flow-adaptation code calls but that is
// not extracted here. Same façade text as units/adapt/prelude.rs (rand, Math/Point/State, Collector,
// TransView, Hamiltonian, AdaptStrategy) with three additions for the flow strategy:
//   * `Math::FlowParameters` + ghost view of the user's flow parameters (ExternalTransformation is extracted),
//   * a ghost counter `updates()` on the Hamiltonian façade (number of `update_params` calls), preserved by
//     `step_size_mut`,
//   * the façade of `TransformedHamiltonian::update_params` (A-flow).
// Each contract below is an ASSUMPTION of this unit (ids in the comments).
use core::marker::PhantomData;
use core::fmt::Debug;
pub type StepSizeStrategy = Strategy;

#[derive(Debug)]
pub struct NutsError { pub code: u64 }
pub enum Either<L, R> { Left(L), Right(R) }

// ---- rand façade (A-rng-uniform), same text as unit adapt
#[derive(Debug)]
pub struct UniformErr {}
pub struct Uniform { pub lo: F, pub hi: F }
impl Uniform {
    #[verifier::external_body]
    pub fn new(lo: F, hi: F) -> (r: Result<Uniform, UniformErr>)
        ensures lo.r() < hi.r() ==> (r is Ok && r->Ok_0.lo == lo && r->Ok_0.hi == hi),
                !(lo.r() < hi.r()) ==> r is Err,
    { unimplemented!() }
}
pub trait Rng {
    /// A-rng-uniform: a sample of Uniform::new(lo, hi) lies in [lo, hi)
    fn sample(&mut self, u: Uniform) -> (r: F)
        ensures u.lo.r() <= r.r() && r.r() < u.hi.r();
}
pub mod rand { pub use super::Rng; }

// ---- Math / Point / State façade
pub trait Math: Sized {
    type Vector;
    /// the user's flow parameters (math.rs: `type FlowParameters`)
    type FlowParameters;
    /// ghost view of the flow parameters: version id and content
    spec fn flow_view(p: &Self::FlowParameters) -> TransView;
}
pub trait Point<M: Math>: Sized {
    fn position(&self) -> &M::Vector;
}
pub struct TransformedPoint<M: Math> { pub pos: M::Vector }
impl<M: Math> Point<M> for TransformedPoint<M> { fn position(&self) -> &M::Vector { &self.pos } }
pub struct State<M: Math, P: Point<M>> { pub p: P, pub _m: PhantomData<M> }
impl<M: Math, P: Point<M>> State<M, P> { pub fn point(&self) -> &P { &self.p } }
pub trait Collector<M: Math, P: Point<M>> {}
impl<M: Math, P: Point<M>> Collector<M, P> for AcceptanceRateCollector {}
impl<M: Math, P: Point<M>> Collector<M, P> for DrawCollector<M> {}
impl<M: Math, P: Point<M>, C1: Collector<M, P>, C2: Collector<M, P>> Collector<M, P> for CombinedCollector<M, P, C1, C2> {}

// ---- transformation / hamiltonian façade
/// ghost view of a transformation: version counter and the parameters it applies
pub struct TransView { pub id: int, pub params: Seq<real> }
pub trait Transformation<M: Math>: Sized { spec fn view(&self) -> TransView; }
/// the flow transformation is its parameters (transform/external.rs: every method forwards `&self.params` to Math)
impl<M: Math> Transformation<M> for ExternalTransformation<M> {
    open spec fn view(&self) -> TransView { M::flow_view(&self.params) }
}

pub trait Hamiltonian<M: Math>: Sized {
    type Point: Point<M>;
    spec fn step(&self) -> real;
    spec fn trans(&self) -> TransView;
    /// ghost: how often the user's `update_transformation` callback has been run on this Hamiltonian
    spec fn updates(&self) -> nat;
    fn step_size(&self) -> (r: F) ensures r.r() == self.step();
    fn step_size_mut(&mut self) -> (r: &mut F)
        ensures r.r() == old(self).step(), final(self).step() == final(r).r(),
                final(self).trans() == old(self).trans(), final(self).updates() == old(self).updates();
}
pub struct TransformedHamiltonian<M: Math, T: Transformation<M>> { pub step_size: F, pub transformation: T, pub upd: Ghost<nat>, pub _p: PhantomData<M> }
impl<M: Math, T: Transformation<M>> Hamiltonian<M> for TransformedHamiltonian<M, T> {
    type Point = TransformedPoint<M>;
    open spec fn step(&self) -> real { self.step_size.r() }
    open spec fn trans(&self) -> TransView { self.transformation.view() }
    open spec fn updates(&self) -> nat { self.upd@ }
    fn step_size(&self) -> (r: F) { self.step_size }
    fn step_size_mut(&mut self) -> (r: &mut F) { &mut self.step_size }
}
impl<M: Math> TransformedHamiltonian<M, ExternalTransformation<M>> {
    /// A-flow: façade of transformed_hamiltonian.rs:483-496 -- runs the user's `Math::update_transformation`
    /// on `self.transformation.params` with the collected draws / gradients / logps (iterators: not modelled).
    /// The call is COUNTED (also when it fails); what it does to the flow parameters is unspecified; the step
    /// size is not touched. By A-flow this is the ONLY operation that may change the flow parameters, so
    /// "updates() unchanged" is the statement "the transformation is frozen".
    /// ghost HISTORY relation: a call of `init_transformation` took the Hamiltonian from `before` to `after` and
    /// returned Ok.  Introduced only by the postcondition of the façade below.
    pub uninterp spec fn init_done(before: Self, after: Self) -> bool;
    /// façade of transformed_hamiltonian.rs:463-481 (`init_transformation`: one density evaluation at the start
    /// point, then the user's `Math::init_transformation` callback).  ARBITRARY outcome; the step size is not
    /// touched.  What it does to the flow parameters is unspecified.
    #[verifier::external_body]
    pub fn init_transformation<R: Rng + ?Sized>(&mut self, rng: &mut R, math: &mut M, position: &[F], chain: u64) -> (r: Result<(), NutsError>)
        ensures
            final(self).step_size == old(self).step_size,
            r is Ok ==> Self::init_done(*old(self), *final(self)),
    { unimplemented!() }
    #[verifier::external_body]
    pub fn update_params<R: Rng + ?Sized, I1, I2, I3>(&mut self, math: &mut M, rng: &mut R, draws: I1, grads: I2, logps: I3) -> (r: Result<(), NutsError>)
        ensures final(self).upd@ == old(self).upd@ + 1, final(self).step_size == old(self).step_size,
    { unimplemented!() }
}

// ---- the trait implemented by ExternalTransformAdaptation (same text as unit adapt); the per-impl contract
// is supplied by the ghost items spliced into the extracted impl (impl_extra.rs)
pub trait AdaptStrategy<M: Math>: Sized {
    type Hamiltonian: Hamiltonian<M>;
    type Collector: Collector<M, <Self::Hamiltonian as Hamiltonian<M>>::Point>;
    type Options: Copy;

    spec fn new_pre(options: Self::Options, num_tune: u64) -> bool;
    spec fn new_post(options: Self::Options, num_tune: u64, r: Self) -> bool;
    fn new(math: &mut M, options: Self::Options, num_tune: u64, chain: u64) -> (r: Self)
        requires Self::new_pre(options, num_tune)
        ensures Self::new_post(options, num_tune, r);

    spec fn adapt_pre(&self, h: &Self::Hamiltonian, draw: u64) -> bool;
    spec fn adapt_post(&self, post: &Self, h0: &Self::Hamiltonian, h1: &Self::Hamiltonian, draw: u64,
                       collector: &Self::Collector, r: Result<(), NutsError>) -> bool;
    fn adapt<R: Rng + ?Sized>(
        &mut self,
        math: &mut M,
        options: &mut NutsOptions,
        hamiltonian: &mut Self::Hamiltonian,
        draw: u64,
        collector: &Self::Collector,
        state: &State<M, <Self::Hamiltonian as Hamiltonian<M>>::Point>,
        rng: &mut R,
    ) -> (r: Result<(), NutsError>)
        requires old(self).adapt_pre(old(hamiltonian), draw)
        ensures old(self).adapt_post(final(self), old(hamiltonian), final(hamiltonian), draw, collector, r);

    spec fn init_pre(&self) -> bool;
    spec fn init_post(&self, post: &Self, h0: &Self::Hamiltonian, h1: &Self::Hamiltonian, r: Result<(), NutsError>) -> bool;
    fn init<R: Rng + ?Sized>(&mut self, math: &mut M, options: &mut NutsOptions, hamiltonian: &mut Self::Hamiltonian, position: &[F], rng: &mut R)
        -> (r: Result<(), NutsError>)
        requires old(self).init_pre()
        ensures *final(options) == *old(options), old(self).init_post(final(self), old(hamiltonian), final(hamiltonian), r);

    spec fn tuning_view(&self) -> bool;
    fn is_tuning(&self) -> (r: bool) ensures r == self.tuning_view();
    spec fn last_steps_view(&self) -> u64;
    fn last_num_steps(&self) -> (r: u64) ensures r == self.last_steps_view();
}

// ---- Strategy::init is proved in unit `stepsize_init` against this same contract text (see units/adapt/prelude.rs)
impl Strategy {
    #[verifier::external_body]
    pub fn init<M: Math, R: Rng + ?Sized, P: Point<M>, H: Hamiltonian<M, Point = P>>(
        &mut self,
        math: &mut M,
        options: &mut NutsOptions,
        hamiltonian: &mut H,
        position: &[F],
        start: Option<&State<M, P>>,
        rng: &mut R,
    ) -> (r: Result<(), NutsError>)
        requires
            strat_wf(*old(self)),
        ensures
            final(hamiltonian).trans() == old(hamiltonian).trans(),
            *final(options) == *old(options),
            ss_init_post(*old(self), *final(self), old(hamiltonian).step(), final(hamiltonian).step(), r is Ok),
    { unimplemented!() }
}
