    // ghost items spliced into `impl ChainStorage for HashMapChainStorage` (rule R1: contracts)
    open spec fn record_sample_pre(&self, stats: Seq<(&str, Option<Value>)>, draws: Seq<(&str, Option<Value>)>, info: &Progress) -> bool {
        rs_pre(*self, stats, draws, *info)
    }
    open spec fn record_sample_post(&self, post: &Self, stats: Seq<(&str, Option<Value>)>, draws: Seq<(&str, Option<Value>)>, info: &Progress, r: Result<()>) -> bool {
        rs_post(*self, *post, stats, draws, *info, r)
    }
