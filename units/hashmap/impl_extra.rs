    // ghost items spliced into `impl ChainStorage for HashMapChainStorage` (rule R1: contracts)
    open spec fn record_sample_pre(&self, stats: Seq<(&str, Option<Value>)>, draws: Seq<(&str, Option<Value>)>, info: &Progress) -> bool {
        rs_pre(*self, stats, draws, *info)
    }
    open spec fn record_sample_post(&self, post: &Self, stats: Seq<(&str, Option<Value>)>, draws: Seq<(&str, Option<Value>)>, info: &Progress, r: Result<()>) -> bool {
        rs_post(*self, *post, stats, draws, *info, r)
    }

    // ---- finalize / inspect / flush
    type Finalized = HashMapResult;
    uninterp spec fn fin_rel(&self, r: Result<HashMapResult>) -> bool;
    /// façade for the real `finalize` (its two loop bodies are lifted and proved; the iteration scaffold is dropped)
    #[verifier::external_body]
    fn finalize(self) -> (r: Result<HashMapResult>) { unimplemented!() }
    open spec fn inspect_post(&self, r: Result<Option<HashMapResult>>) -> bool {
        match r {                                                            // [C14.4]
            Ok(Some(v)) => self.fin_rel(Ok(v)),
            Ok(None) => false,
            Err(e) => self.fin_rel(Err(e)),
        }
    }
    open spec fn flush_post(&self, r: Result<()>) -> bool { r is Ok }
