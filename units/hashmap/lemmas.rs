// =====================================================================================
// Specification vocabulary of C14 (HashMap backend), written from the property statement:
// "every statistic and draw variable [holds] exactly the recorded values in recording order with
//  the declared type ..., warmup before sampling draws", value types f64, f32, i64, u64, bool, string.
// =====================================================================================

/// Abstract content of one per-variable buffer: the declared element type and the flat sequence of
/// recorded elements, oldest first.  One variant per value type named by the property.
pub enum Col {
    F64(Seq<f64>),
    F32(Seq<f32>),
    Bool(Seq<bool>),
    I64(Seq<i64>),
    U64(Seq<u64>),
    Str(Seq<String>),
}

/// view of a buffer of the backend
pub open spec fn hv_view(h: HashMapValue) -> Col {
    match h {
        HashMapValue::F64(v) => Col::F64(v@),
        HashMapValue::F32(v) => Col::F32(v@),
        HashMapValue::Bool(v) => Col::Bool(v@),
        HashMapValue::I64(v) => Col::I64(v@),
        HashMapValue::U64(v) => Col::U64(v@),
        HashMapValue::String(v) => Col::Str(v@),
    }
}

/// ItemType -> storage column type (nuts-storable: DateTime64 / TimeDelta64 carry i64 ticks)
pub open spec fn col_empty(t: ItemType) -> Col {
    match t {
        ItemType::U64 => Col::U64(Seq::empty()),
        ItemType::I64 => Col::I64(Seq::empty()),
        ItemType::F64 => Col::F64(Seq::empty()),
        ItemType::F32 => Col::F32(Seq::empty()),
        ItemType::Bool => Col::Bool(Seq::empty()),
        ItemType::String => Col::Str(Seq::empty()),
        ItemType::DateTime64(_) => Col::I64(Seq::empty()),
        ItemType::TimeDelta64(_) => Col::I64(Seq::empty()),
    }
}

/// The column fragment one recorded `Value` denotes (nuts-storable `Value`: a scalar is a
/// one-element fragment, a vector its elements in order, date/time values their i64 ticks).
pub open spec fn value_col(v: Value) -> Col {
    match v {
        Value::U64(x) => Col::U64(x@),
        Value::I64(x) => Col::I64(x@),
        Value::F64(x) => Col::F64(x@),
        Value::F32(x) => Col::F32(x@),
        Value::Bool(x) => Col::Bool(x@),
        Value::ScalarString(x) => Col::Str(seq![x]),
        Value::DateTime64(_, x) => Col::I64(x@),
        Value::TimeDelta64(_, x) => Col::I64(x@),
        Value::ScalarU64(x) => Col::U64(seq![x]),
        Value::ScalarI64(x) => Col::I64(seq![x]),
        Value::ScalarF64(x) => Col::F64(seq![x]),
        Value::ScalarF32(x) => Col::F32(seq![x]),
        Value::ScalarBool(x) => Col::Bool(seq![x]),
        Value::Strings(x) => Col::Str(x@),
    }
}

pub open spec fn same_type(a: Col, b: Col) -> bool {
    ||| (a is F64 && b is F64)
    ||| (a is F32 && b is F32)
    ||| (a is Bool && b is Bool)
    ||| (a is I64 && b is I64)
    ||| (a is U64 && b is U64)
    ||| (a is Str && b is Str)
}

/// `a ++ b` for two columns of the same element type (for EVERY type: V(w) ++ V(s) = V(w ++ s))
pub open spec fn col_concat(a: Col, b: Col) -> Col {
    match (a, b) {
        (Col::F64(x), Col::F64(y)) => Col::F64(x + y),
        (Col::F32(x), Col::F32(y)) => Col::F32(x + y),
        (Col::Bool(x), Col::Bool(y)) => Col::Bool(x + y),
        (Col::I64(x), Col::I64(y)) => Col::I64(x + y),
        (Col::U64(x), Col::U64(y)) => Col::U64(x + y),
        (Col::Str(x), Col::Str(y)) => Col::Str(x + y),
        _ => a,
    }
}

/// [C14.1] the (variant, value) pairs the type schema allows
pub open spec fn value_matches(h: HashMapValue, v: Value) -> bool {
    same_type(hv_view(h), value_col(v))
}

// ---- per-chain storage ------------------------------------------------------------------

pub type Cols = Map<Seq<char>, Col>;

pub open spec fn cols_m(m: Map<Seq<char>, HashMapValue>) -> Cols {
    m.map_values(|h: HashMapValue| hv_view(h))
}

pub open spec fn cols(m: HashMap<String, HashMapValue>) -> Cols {
    cols_m(m@)
}

/// the two bookkeeping names that the HashMap backend does not store
pub open spec fn skipped(name: Seq<char>) -> bool {
    name == "draw"@ || name == "chain"@
}

/// recording one (name, optional value) entry into a set of columns
pub open spec fn rec_one(m: Cols, e: (&str, Option<Value>)) -> Cols {
    if e.1 is Some && !skipped(e.0@) {
        m.insert(e.0@, col_concat(m[e.0@], value_col(e.1->Some_0)))
    } else {
        m
    }
}

/// recording a list of entries, in list order
pub open spec fn rec_all(m: Cols, es: Seq<(&str, Option<Value>)>) -> Cols
    decreases es.len()
{
    if es.len() == 0 { m } else { rec_one(rec_all(m, es.drop_last()), es.last()) }
}

/// an entry can be recorded into `m`: its name is a declared variable and the value has its type
pub open spec fn entry_ok(m: Cols, e: (&str, Option<Value>)) -> bool {
    e.1 is Some && !skipped(e.0@) ==> m.contains_key(e.0@) && same_type(m[e.0@], value_col(e.1->Some_0))
}

pub open spec fn entries_ok(m: Cols, es: Seq<(&str, Option<Value>)>) -> bool {
    forall|i: int| 0 <= i < es.len() ==> entry_ok(m, #[trigger] es[i])
}

/// same declared variables with the same types
pub open spec fn same_schema(a: Cols, b: Cols) -> bool {
    &&& a.dom() == b.dom()
    &&& forall|k: Seq<char>| a.contains_key(k) ==> same_type(#[trigger] a[k], b[k])
}

pub open spec fn push_param_pre(s: HashMapChainStorage, name: &str, value: Value, is_warmup: bool) -> bool {
    entry_ok(cols(if is_warmup { s.warmup_stats } else { s.sample_stats }), (name, Some(value)))
}

pub open spec fn push_draw_pre(s: HashMapChainStorage, name: &str, value: Value, is_warmup: bool) -> bool {
    entry_ok(cols(if is_warmup { s.warmup_draws } else { s.sample_draws }), (name, Some(value)))
}

/// [C14.2] preconditions of record_sample: every present statistic and every draw value belongs to
/// a declared variable of matching type in the map selected by `info.tuning`; draw values are never absent.
pub open spec fn rs_pre(s: HashMapChainStorage, stats: Seq<(&str, Option<Value>)>, draws: Seq<(&str, Option<Value>)>, info: Progress) -> bool {
    &&& entries_ok(cols(if info.tuning { s.warmup_stats } else { s.sample_stats }), stats)
    &&& entries_ok(cols(if info.tuning { s.warmup_draws } else { s.sample_draws }), draws)
    &&& forall|i: int| 0 <= i < draws.len() ==> (#[trigger] draws[i]).1 is Some
}

/// [C14.2] a present value goes to the warmup map iff `info.tuning`; the other maps are untouched
pub open spec fn rs_post(s0: HashMapChainStorage, s1: HashMapChainStorage, stats: Seq<(&str, Option<Value>)>, draws: Seq<(&str, Option<Value>)>, info: Progress, r: Result<()>) -> bool {
    &&& r is Ok
    // bookkeeping flag: cleared by the first non-tuning sample
    &&& s1.last_sample_was_warmup == (s0.last_sample_was_warmup && info.tuning)
    &&& info.tuning ==> {
        &&& cols(s1.warmup_stats) == rec_all(cols(s0.warmup_stats), stats)
        &&& cols(s1.warmup_draws) == rec_all(cols(s0.warmup_draws), draws)
        &&& cols(s1.sample_stats) == cols(s0.sample_stats)
        &&& cols(s1.sample_draws) == cols(s0.sample_draws)
    }
    &&& !info.tuning ==> {
        &&& cols(s1.sample_stats) == rec_all(cols(s0.sample_stats), stats)
        &&& cols(s1.sample_draws) == rec_all(cols(s0.sample_draws), draws)
        &&& cols(s1.warmup_stats) == cols(s0.warmup_stats)
        &&& cols(s1.warmup_draws) == cols(s0.warmup_draws)
    }
}

// ---- lemmas -----------------------------------------------------------------------------

// [C14.2]
pub proof fn lemma_rec_one_schema(m: Cols, e: (&str, Option<Value>))
    requires entry_ok(m, e)
    ensures same_schema(rec_one(m, e), m)
{
    let m1 = rec_one(m, e);
    if e.1 is Some && !skipped(e.0@) {
        assert(m1.dom() =~= m.dom());
    }
}

// [C14.2]
pub proof fn lemma_entry_ok_schema(a: Cols, b: Cols, e: (&str, Option<Value>))
    requires same_schema(a, b), entry_ok(b, e)
    ensures entry_ok(a, e)
{
    if e.1 is Some && !skipped(e.0@) {
        assert(b.dom().contains(e.0@));
        assert(a.contains_key(e.0@));
    }
}

// [C14.2]
pub proof fn lemma_schema_trans(a: Cols, b: Cols, c: Cols)
    requires same_schema(a, b), same_schema(b, c)
    ensures same_schema(a, c)
{
    assert forall|k: Seq<char>| a.contains_key(k) implies same_type(#[trigger] a[k], c[k]) by {
        assert(b.dom().contains(k));
        assert(same_type(a[k], b[k]));
        assert(same_type(b[k], c[k]));
    }
}

// [C14.2]
pub proof fn lemma_rec_all_step(m: Cols, es: Seq<(&str, Option<Value>)>, i: int)
    requires 0 <= i < es.len()
    ensures rec_all(m, es.take(i + 1)) == rec_one(rec_all(m, es.take(i)), es[i])
{
    assert(es.take(i + 1).drop_last() =~= es.take(i));
    assert(es.take(i + 1).last() == es[i]);
}

// [C14.1]
pub broadcast proof fn lemma_push_is_concat<T>(s: Seq<T>, x: T)
    ensures #[trigger] s.push(x) == s + seq![x]
{
    assert(s.push(x) =~= s + seq![x]);
}

// [C14.2 C14.3]
pub broadcast proof fn lemma_cols_insert(m: Map<Seq<char>, HashMapValue>, k: Seq<char>, v: HashMapValue)
    ensures #[trigger] cols_m(m.insert(k, v)) == cols_m(m).insert(k, hv_view(v))
{
    assert(cols_m(m.insert(k, v)) =~= cols_m(m).insert(k, hv_view(v)));
}

/// Glue between C14.2 and the preconditions of the combine bodies (C14.3): recording never changes
/// the set of declared variables nor their element types, so two maps that `new` built from the
/// same type list still have the same keys and variants when `finalize` combines them.
// [C14.2 C14.3]
pub proof fn lemma_rec_all_schema(m: Cols, es: Seq<(&str, Option<Value>)>)
    requires entries_ok(m, es)
    ensures same_schema(rec_all(m, es), m)
    decreases es.len()
{
    if es.len() > 0 {
        let dl = es.drop_last();
        assert forall|i: int| 0 <= i < dl.len() implies entry_ok(m, #[trigger] dl[i]) by {
            assert(dl[i] == es[i]);
        }
        lemma_rec_all_schema(m, dl);
        let mid = rec_all(m, dl);
        assert(entry_ok(m, es[es.len() - 1]));
        lemma_entry_ok_schema(mid, m, es.last());
        lemma_rec_one_schema(mid, es.last());
        lemma_schema_trans(rec_one(mid, es.last()), mid, m);
    } else {
        assert(rec_all(m, es).dom() =~= m.dom());
    }
}

/// `HashMapValue::new(t)` twice gives the same variant: the precondition `same_type(warmup, sample)`
/// of the combine bodies holds initially.
// [C14.1 C14.3]
pub proof fn lemma_new_same_type(t: ItemType)
    ensures same_type(col_empty(t), col_empty(t))
{
}
