// Prelude of unit `hashmap` (model I: no float reasoning, f64/f32 are opaque element values).
// Everything the extracted code calls but that is not extracted.  Each contract below is an
// ASSUMPTION of this unit; none of them is proved by another unit.  Ids for DESIGN §6:
//   A-hashmap       std HashMap<String, V>: get_mut / index / insert act on the entry stored under the key
//                   (+ iteration visits every key once: scaffold dropped by R8 around the finalize bodies;
//                    + HashMapChainStorage::new gives all four maps the keys/types of the type lists: not extracted)
//   A-vec-extend    Vec::extend(Vec<T>) appends the elements in order (R9.method extend -> vx_extend)
//   A-derive-clone  #[derive(Clone)] on HashMapValue yields an equal value
//   A-slice-contains  <[T]>::contains is `exists i. s[i] == x` (PartialEq of T; vstd: content equality for &str)
//   anyhow::Result / crate::Settings are inert placeholders (no contract)
use vstd::std_specs::cmp::PartialEqSpec;
use vstd::std_specs::core::IndexSpecImpl;
//@include ../_shared/std_extra.rs

// ---- anyhow façade: `use anyhow::Result;` of the source file.  Only `Ok(())` is ever built here.
pub struct AnyhowError { pub code: u64 }
pub type Result<T> = core::result::Result<T, AnyhowError>;

// ---- crate::Settings: `record_sample` never touches its `_settings` argument
pub trait Settings {}

// ---- A-hashmap: façade for std::collections::HashMap<String, V>.
// The abstract state is a finite map from the key's character sequence to the stored value.
// get_mut(name) returns the entry stored under `name` (and writes through it), index panics on an
// absent key, insert overwrites.  "Iteration visits every key exactly once" (the scaffold dropped
// around the two lifted `finalize` loop bodies) belongs to the same assumption.
pub struct HashMap<K, V> {
    pub m: Ghost<Map<Seq<char>, V>>,
    pub _k: core::marker::PhantomData<K>,
}

impl<V> HashMap<String, V> {
    pub open spec fn view(&self) -> Map<Seq<char>, V> { self.m@ }

    #[verifier::external_body]
    pub fn get_mut(&mut self, k: &str) -> (r: Option<&mut V>)
        ensures
            old(self)@.contains_key(k@) ==> r is Some && *r->Some_0 == old(self)@[k@]
                && final(self)@ == old(self)@.insert(k@, *final(r->Some_0)),
            !old(self)@.contains_key(k@) ==> r is None && final(self)@ == old(self)@,
    { unimplemented!() }

    #[verifier::external_body]
    pub fn insert(&mut self, k: String, v: V) -> (r: Option<V>)
        ensures
            final(self)@ == old(self)@.insert(k@, v),
    { unimplemented!() }
}

// needed by `#[derive(Clone)] struct HashMapChainStorage` (its `clone` is never called in this unit)
impl<K, V: Clone> Clone for HashMap<K, V> {
    #[verifier::external_body]
    fn clone(&self) -> (r: Self) { unimplemented!() }
}

// `&map[&key]`
impl<V> core::ops::Index<&String> for HashMap<String, V> {
    type Output = V;
    #[verifier::external_body]
    fn index(&self, k: &String) -> (r: &V)
        ensures *r == self@[k@]
    { unimplemented!() }
}
impl<V> IndexSpecImpl<&String> for HashMap<String, V> {
    /// std: `Index::index` panics when the key is absent
    open spec fn index_req(&self, k: &&String) -> bool { self@.contains_key(k@) }
}

// ---- A-derive-clone: `#[derive(Clone)] enum HashMapValue` (Verus gives derived non-Copy clones no
// specification): the clone has the same variant and the same element sequence.
pub assume_specification [<HashMapValue as Clone>::clone](h: &HashMapValue) -> (r: HashMapValue)
    ensures hv_view(r) == hv_view(*h);

// ---- A-vec-extend (R9.method `extend` -> `vx_extend`): `Vec::<T>::extend(v: Vec<T>)` appends the
// elements of `v` in order.  (vstd has no specification for `Extend::extend`.)
pub trait VxExtend<T>: Sized {
    spec fn vx_seq(&self) -> Seq<T>;
    fn vx_extend(&mut self, other: Vec<T>)
        ensures final(self).vx_seq() == old(self).vx_seq() + other@;
}
impl<T> VxExtend<T> for Vec<T> {
    open spec fn vx_seq(&self) -> Seq<T> { self@ }
    #[verifier::external_body]
    fn vx_extend(&mut self, other: Vec<T>) { self.extend(other) }
}

// ---- A-str-eq: `<[T]>::contains(&x)` is `exists i. s[i] == x` with `==` the PartialEq of T
// (vstd: for &str this is equality of the character sequences).
pub assume_specification<T: PartialEq> [<[T]>::contains](s: &[T], x: &T) -> (r: bool)
    ensures T::obeys_eq_spec() ==> r == exists|i: int| 0 <= i < s@.len() && (#[trigger] s@[i]).eq_spec(x);

// ---- the trait implemented by HashMapChainStorage (src/storage/core.rs); the per-impl contract is
// supplied by the ghost items spliced into the extracted impl (impl_extra.rs)
pub trait ChainStorage: Sized {
    spec fn record_sample_pre(&self, stats: Seq<(&str, Option<Value>)>, draws: Seq<(&str, Option<Value>)>, info: &Progress) -> bool;
    spec fn record_sample_post(&self, post: &Self, stats: Seq<(&str, Option<Value>)>, draws: Seq<(&str, Option<Value>)>, info: &Progress, r: Result<()>) -> bool;
    fn record_sample(
        &mut self,
        settings: &impl Settings,
        stats: Vec<(&str, Option<Value>)>,
        draws: Vec<(&str, Option<Value>)>,
        info: &Progress,
    ) -> (r: Result<()>)
        requires old(self).record_sample_pre(stats@, draws@, info)
        ensures old(self).record_sample_post(final(self), stats@, draws@, info, r);
    // ---- finalize / inspect / flush (src/storage/core.rs).  `fin_rel(r)`: "r is what finalising THIS storage value
    // yields" - an uninterpreted relation here (the combine loop bodies of the real `finalize` are proved separately,
    // its iteration scaffold is dropped), which is all `inspect` needs: C14 "inspecting a trace succeeds and yields
    // exactly the recorded values" = inspect returns Some(what finalize of an equal storage yields), never None.
    type Finalized;
    spec fn fin_rel(&self, r: Result<Self::Finalized>) -> bool;
    fn finalize(self) -> (r: Result<Self::Finalized>)
        ensures self.fin_rel(r);
    spec fn inspect_post(&self, r: Result<Option<Self::Finalized>>) -> bool;
    fn inspect(&self) -> (r: Result<Option<Self::Finalized>>)
        ensures self.inspect_post(r);
    spec fn flush_post(&self, r: Result<()>) -> bool;
    fn flush(&self) -> (r: Result<()>)
        ensures self.flush_post(r);
}
// ---- A-derive-clone for the storage itself (`self.clone()` in `inspect`): the clone is an equal value
pub assume_specification [<HashMapChainStorage as Clone>::clone](h: &HashMapChainStorage) -> (r: HashMapChainStorage)
    ensures r == *h;
/// result type of the HashMap backend (the real struct holds the two combined maps; opaque here)
pub struct HashMapResult { pub stats: HashMap<String, HashMapValue>, pub draws: HashMap<String, HashMapValue> }

