    // ghost items spliced into `impl Hamiltonian<M> for TransformedHamiltonian<M, T>`
    open spec fn step(&self) -> real { self.step_size.r() }
    open spec fn trans(&self) -> TransView { self.transformation.view() }
    open spec fn turn_spec(&self, lo: StateView, hi: StateView) -> bool { turn_of(M::vv(&self.zeros), lo, hi) }
    open spec fn leapfrog_post(&self, post: &Self, m0: &M, start: &State<M, Self::Point>, dir: Direction, factor: real, baseline: real, max_err: real, r: LeapfrogResult<M, Self::Point>) -> bool {
        th_leapfrog_post(*self, *post, m0.model(), m0.dim_spec(), start.p, dir, factor, baseline, max_err, r)
    }
    open spec fn init_post(&self, m0: &M, init: &[F], r: Result<State<M, Self::Point>, NutsError>) -> bool {
        th_init_post(*self, m0.model(), slice_s(init), r)
    }
    open spec fn init_untr_post(&self, m0: &M, init: &[F], r: Result<State<M, Self::Point>, NutsError>) -> bool {
        th_init_untr_post(*self, m0.model(), slice_s(init), r)
    }
    open spec fn traj_init_post(&self, m0: &M, s0: &State<M, Self::Point>, s1: &State<M, Self::Point>, resample: bool, log0: Seq<RngEv>, r: Result<(), NutsError>) -> bool {
        th_traj_init_post(*self, s0.p, s1.p, resample, log0, r)
    }
    open spec fn same_kernel(&self, o: &Self) -> bool {
        o.step_size == self.step_size && o.transformation == self.transformation && o.kinetic_energy_kind == self.kinetic_energy_kind
        && o.momentum_decoherence_length == self.momentum_decoherence_length && M::vv(&o.ones) == M::vv(&self.ones) && M::vv(&o.zeros) == M::vv(&self.zeros)
    }
    open spec fn refresh_post(&self, post: &Self, p0: &State<M, Self::Point>, p1: &State<M, Self::Point>, r: core::result::Result<(), NutsError>) -> bool {
        &&& self.same_kernel(post)
        // [C18.4] after a refresh of the microcanonical sampler the momentum has unit norm
        &&& (r is Ok && self.momentum_decoherence_length is Some && self.kinetic_energy_kind is Microcanonical
                ==> dot_s(pv(p1.p).v, pv(p1.p).v) == 1real)
        &&& (self.momentum_decoherence_length is None ==> r is Ok && p1.p == p0.p)
    }
