    // ghost items spliced into `impl Point<M> for TransformedPoint<M>`
    open spec fn pview(&self) -> StateView { pview_of(*self) }
    open spec fn new_post(r: Self, dim: nat) -> bool { r.index_in_trajectory == 0 && r.transform_id == -1 }
    open spec fn copy_post(&self, other: Self) -> bool { pv(other) == pv(*self) && pview_of(other) == pview_of(*self) }
