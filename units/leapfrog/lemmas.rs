// =====================================================================================
// Specification vocabulary of the integrator (C02, C05.1, C01.5), written from the property text
// =====================================================================================

/// the numeric content of a phase-space point
pub struct PV {
    pub x: Seq<real>, pub g: Seq<real>, pub q: Seq<real>, pub gq: Seq<real>, pub v: Seq<real>,
    pub logp: real, pub logdet: real, pub kin: real, pub e0: real, pub idx: int, pub tid: int, pub factor: real,
}
pub open spec fn pv<M: Math>(p: TransformedPoint<M>) -> PV {
    PV { x: M::vv(&p.untransformed_position), g: M::vv(&p.untransformed_gradient), q: M::vv(&p.transformed_position),
         gq: M::vv(&p.transformed_gradient), v: M::vv(&p.velocity), logp: p.logp.r(), logdet: p.logdet.r(),
         kin: p.kinetic_energy.r(), e0: p.initial_energy.r(), idx: p.index_in_trajectory as int, tid: p.transform_id as int,
         factor: p.step_size_factor.r() }
}
/// H = K - (logp + logdet)
pub open spec fn energy_of(p: PV) -> real { p.kin - (p.logp + p.logdet) }
pub open spec fn pview_of<M: Math>(p: TransformedPoint<M>) -> StateView {
    let s = pv(p);
    StateView { idx: s.idx, energy: energy_of(s), e0: s.e0, x: s.x, g: s.g, q: s.q, gq: s.gq, v: s.v, logp: s.logp }
}

/// [C01.5] U-turn criterion in the whitened space between an earlier (lo) and a later (hi) state:
/// (q_hi - q_lo) . v_lo < 0  or  (q_hi - q_lo) . v_hi < 0     (`zeros` is the all-zero vector of the Hamiltonian)
pub open spec fn turn_of(zeros: Seq<real>, lo: StateView, hi: StateView) -> bool {
    dot_s(add_s(sub_s(hi.q, lo.q), zeros), lo.v) < 0real || dot_s(add_s(sub_s(hi.q, lo.q), zeros), hi.v) < 0real
}

/// density evaluated through the transformation at whitened position q1
pub open spec fn eval_at<M: Math, T: Transformation<M>>(t: T, model: int, q1: Seq<real>, o: PV) -> bool {
    let x1 = t.inv(q1);
    &&& o.q == q1 && o.x == x1
    &&& o.g == grad_of(model, x1)
    &&& o.gq == t.pull(x1, grad_of(model, x1))
    &&& o.logp == logp_of(model, x1)
    &&& o.logdet == t.logdet_at(x1)
}

/// [C02.1] one step of the integrator in the whitened space, per kinetic-energy kind.
/// eps = sign * step_size * factor.  Euclidean: textbook leapfrog (half kick, drift, half kick).
pub open spec fn lf_step<M: Math, T: Transformation<M>>(t: T, kind: KineticEnergyKind, model: int, dim: nat, s: PV, eps: real, o: PV) -> bool {
    match kind {
        KineticEnergyKind::Euclidean => {
            let vh = axpy_s(s.gq, s.v, eps / 2real);          // v + (eps/2) grad
            let q1 = axpy_s(vh, s.q, eps);                    // q + eps v_half
            &&& eval_at(t, model, q1, o)
            &&& o.v == axpy_s(o.gq, vh, eps / 2real)          // v_half + (eps/2) grad'
            &&& o.kin == 0.5real * dot_s(o.v, o.v)
        },
        KineticEnergyKind::ExactNormal => {
            let vh = kick_s(s.q, s.gq, s.v, eps / 2real);     // residual-gradient kick
            let q1 = rot_q(s.q, vh, eps);                     // exact harmonic flow of the standard normal
            let vr = rot_v(s.q, vh, eps);
            &&& eval_at(t, model, q1, o)
            &&& o.v == kick_s(o.q, o.gq, vr, eps / 2real)
            &&& o.kin == 0.5real * dot_s(o.v, o.v)
        },
        KineticEnergyKind::Microcanonical => {
            let sn = sqrt_r(i2r(dim as int));
            let vh = esh_v(s.gq, s.v, sn * eps / 2real);
            let k1 = s.kin + esh_dk(s.gq, s.v, sn * eps / 2real);
            let q1 = axpy_s(vh, s.q, eps * sn);
            &&& eval_at(t, model, q1, o)
            &&& o.v == esh_v(o.gq, vh, sn * eps / 2real)
            // [C18] reported kinetic-energy change = sum of the two closed-form ESH changes
            &&& o.kin == k1 + esh_dk(o.gq, vh, sn * eps / 2real)
        },
    }
}

pub open spec fn th_leapfrog_post<M: Math, T: Transformation<M>>(h0: TransformedHamiltonian<M, T>, h1: TransformedHamiltonian<M, T>,
    model: int, dim: nat, start: TransformedPoint<M>, dir: Direction, factor: real, baseline: real, max_err: real,
    r: LeapfrogResult<M, TransformedPoint<M>>) -> bool
{
    let s = pv(start);
    let eps = i2r(dir_sign(dir)) * h0.step_size.r() * factor;
    &&& h1.kinetic_energy_kind == h0.kinetic_energy_kind
    &&& h1.transformation == h0.transformation
    &&& h1.momentum_decoherence_length == h0.momentum_decoherence_length
    &&& match r {
        LeapfrogResult::Ok(out) => {
            let o = pv(out.p);
            &&& lf_step(h0.transformation, h0.kinetic_energy_kind, model, dim, s, eps, o)       // [C02.1]
            &&& o.idx == s.idx + dir_sign(dir) && o.e0 == s.e0 && o.tid == h0.transformation.view().id && o.factor == factor
            // [C05.1] an accepted state has an energy error within the limit (measured against the baseline)
            &&& (h0.kinetic_energy_kind is Microcanonical ==> abs_r(energy_of(o) - baseline) < max_err)
            &&& (!(h0.kinetic_energy_kind is Microcanonical) ==> energy_of(o) - baseline <= max_err)
            &&& out.unique@
        },
        // [C03.4 C05.1] a divergence is reported only for a (recoverable) density failure or for an energy error beyond
        // the limit of the trajectory kind: one-sided for the Euclidean / exact-normal kinds, two-sided for microcanonical
        LeapfrogResult::Divergence(info) => {
            ||| info.logp_function_error is Some
            ||| (info.energy_error is Some && ({
                    let e = info.energy_error->0.r();
                    if h0.kinetic_energy_kind is Microcanonical { abs_r(e) >= max_err } else { e > max_err }
                }))
        },
        // [C05.1] only unrecoverable density errors surface as Err
        LeapfrogResult::Err(e) => !e.recoverable(),
    }
}

pub open spec fn th_init_post<M: Math, T: Transformation<M>>(h: TransformedHamiltonian<M, T>, model: int, init: Seq<real>,
    r: Result<State<M, TransformedPoint<M>>, NutsError>) -> bool
{
    match r {
        Ok(st) => {
            let o = pv(st.p);
            // [C05.3] an accepted start point: everything finite, whitened gradient non-zero
            &&& o.x == init && o.g == grad_of(model, init) && o.logp == logp_of(model, init)
            &&& o.q == h.transformation.fwd(init) && o.gq == h.transformation.pull(init, o.g)
            &&& o.logdet == h.transformation.logdet_at(init) && o.tid == h.transformation.view().id
            &&& finite_s(o.q) && finite_nz_s(o.gq) && finite_s(o.g) && finite_s(o.x)
            &&& st.unique@
        },
        Err(_) => true,
    }
}
pub open spec fn th_init_untr_post<M: Math, T: Transformation<M>>(h: TransformedHamiltonian<M, T>, model: int, init: Seq<real>,
    r: Result<State<M, TransformedPoint<M>>, NutsError>) -> bool
{
    match r {
        Ok(st) => {
            let o = pv(st.p);
            &&& o.x == init && o.g == grad_of(model, init)
            &&& o.tid == -1            // forces re-derivation of the whitened coordinates
            &&& finite_s(o.g) && finite_s(o.x)
            &&& st.unique@
        },
        Err(_) => true,
    }
}

/// [C02.7 / C01.6] start of a trajectory
pub open spec fn th_traj_init_post<M: Math, T: Transformation<M>>(h: TransformedHamiltonian<M, T>, p0: TransformedPoint<M>, p1: TransformedPoint<M>,
    resample: bool, log0: Seq<RngEv>, r: Result<(), NutsError>) -> bool
{
    let a = pv(p0); let b = pv(p1);
    r is Ok ==> {
        &&& b.x == a.x && b.g == a.g && b.logp == a.logp
        // fresh momentum: the whole velocity is overwritten from the rng (N(0, I); on the unit sphere for Microcanonical)
        &&& (resample ==> b.v == (if h.kinetic_energy_kind is Microcanonical { normalize_s(gaussian_s(log0, M::vv(&h.ones))) } else { gaussian_s(log0, M::vv(&h.ones)) }))
        &&& (!resample ==> b.v == a.v)
        // whitened coordinates are re-derived exactly when the transformation changed since they were computed
        &&& b.tid == h.transformation.view().id
        &&& (a.tid != h.transformation.view().id ==> b.q == h.transformation.fwd(a.x) && b.gq == h.transformation.pull(a.x, a.g) && b.logdet == h.transformation.logdet_at(a.x))
        &&& (a.tid == h.transformation.view().id ==> b.q == a.q && b.gq == a.gq && b.logdet == a.logdet)
        &&& (h.kinetic_energy_kind is Microcanonical ==> b.kin == 0real)
        &&& (!(h.kinetic_energy_kind is Microcanonical) ==> b.kin == 0.5real * dot_s(b.v, b.v))
        &&& b.idx == 0 && b.e0 == energy_of(b)
    }
}

// =====================================================================================
// Lemmas over the integrator contract (C02.2 reversibility, C02.3 volume, C02.4 exact energy, C01.5)
// =====================================================================================

/// the whitened gradient as a function of the whitened position (density pulled back through T)
pub open spec fn gq_at<M: Math, T: Transformation<M>>(t: T, model: int, q: Seq<real>) -> Seq<real> {
    t.pull(t.inv(q), grad_of(model, t.inv(q)))
}

// [C02.2]
/// Time reversibility of the Euclidean leapfrog: a step with eps followed by a step with -eps returns
/// the start (position and velocity), for any density and any transformation.
pub proof fn lemma_leapfrog_reversible<M: Math, T: Transformation<M>>(t: T, model: int, dim: nat, s: PV, eps: real, o: PV, b: PV)
    requires
        lf_step(t, KineticEnergyKind::Euclidean, model, dim, s, eps, o),
        lf_step(t, KineticEnergyKind::Euclidean, model, dim, o, -eps, b),
        s.gq == gq_at(t, model, s.q),                  // the start is a consistently evaluated point
        s.v.len() == s.q.len(), s.gq.len() == s.q.len(), o.gq.len() == s.q.len(),
    ensures
        b.q == s.q, b.v == s.v, b.gq == s.gq, b.x == t.inv(s.q),
{
    let h = eps / 2real;
    let vh = axpy_s(s.gq, s.v, h);
    // backward first half kick undoes the forward second half kick
    let vh_b = axpy_s(o.gq, o.v, (-eps) / 2real);
    assert(vh_b =~= vh) by {
        assert forall|i: int| 0 <= i < vh.len() implies vh_b[i] == vh[i] by {
            assert(o.v[i] == vh[i] + h * o.gq[i]);
            assert(vh_b[i] == o.v[i] + ((-eps) / 2real) * o.gq[i]);
            assert(((-eps) / 2real) * o.gq[i] == -(h * o.gq[i])) by(nonlinear_arith) requires h == eps / 2real;
        }
    }
    // backward drift undoes the forward drift
    let q_b = axpy_s(vh_b, o.q, -eps);
    assert(q_b =~= s.q) by {
        assert forall|i: int| 0 <= i < s.q.len() implies q_b[i] == s.q[i] by {
            assert(o.q[i] == s.q[i] + eps * vh[i]);
            assert((-eps) * vh[i] == -(eps * vh[i])) by(nonlinear_arith);
        }
    }
    assert(b.q == s.q);
    assert(b.gq == gq_at(t, model, s.q));
    // backward second half kick undoes the forward first half kick
    assert(b.v =~= s.v) by {
        assert forall|i: int| 0 <= i < s.v.len() implies b.v[i] == s.v[i] by {
            assert(b.v[i] == vh_b[i] + ((-eps) / 2real) * b.gq[i]);
            assert(vh[i] == s.v[i] + h * s.gq[i]);
            assert(((-eps) / 2real) * s.gq[i] == -(h * s.gq[i])) by(nonlinear_arith) requires h == eps / 2real;
        }
    }
}

// [C02.3]
/// Volume preservation: the harmonic flow of the ExactNormal integrator is a rotation in every (q_i, v_i) plane
/// (determinant cos^2 + sin^2 = 1); the kicks and the Euclidean drift are shears (they add to one block a
/// function of the other block only -- that frame is part of the contracts of the three half-step functions).
pub proof fn lemma_rotation_det(e: real)
    ensures cos_r(e) * cos_r(e) - (-sin_r(e)) * sin_r(e) == 1real
{
    ax_sincos(e);
    let c = cos_r(e); let s = sin_r(e);
    assert((-s) * s == -(s * s)) by(nonlinear_arith);
}

// [C02.4]
/// The harmonic flow conserves q_i^2 + v_i^2 in every coordinate ...
pub proof fn lemma_rotation_norm(q: real, v: real, e: real)
    ensures (q * cos_r(e) + v * sin_r(e)) * (q * cos_r(e) + v * sin_r(e)) + (q * (-sin_r(e)) + v * cos_r(e)) * (q * (-sin_r(e)) + v * cos_r(e)) == q * q + v * v
{
    ax_sincos(e);
    let c = cos_r(e); let s = sin_r(e);
    let a = q * c; let b = v * s; let d = q * s; let f = v * c;
    assert(q * (-s) == -d) by(nonlinear_arith) requires d == q * s;
    assert((a + b) * (a + b) == a * a + 2real * (a * b) + b * b) by(nonlinear_arith);
    assert((-d + f) * (-d + f) == d * d - 2real * (d * f) + f * f) by(nonlinear_arith);
    assert(a * b == d * f) by(nonlinear_arith) requires a == q * c, b == v * s, d == q * s, f == v * c;
    assert(a * a + d * d == (q * q) * (c * c + s * s)) by(nonlinear_arith) requires a == q * c, d == q * s;
    assert(b * b + f * f == (v * v) * (s * s + c * c)) by(nonlinear_arith) requires b == v * s, f == v * c;
    assert((q * q) * (c * c + s * s) == q * q) by(nonlinear_arith) requires s * s + c * c == 1real;
    assert((v * v) * (s * s + c * c) == v * v) by(nonlinear_arith) requires s * s + c * c == 1real;
}
// [C02.4]
/// ... and on a standard-normal target in the whitened space (gradient = -position) the residual kicks
/// are the identity, so the ExactNormal step conserves q_i^2 + v_i^2 -- hence the energy -- exactly.
pub proof fn lemma_exactnormal_conserves(q: Seq<real>, v: Seq<real>, e: real, i: int)
    requires 0 <= i < q.len(), v.len() == q.len()
    ensures ({
        let g = scale_s(q, -1real);                       // standard normal: grad = -q
        let vh = kick_s(q, g, v, e / 2real);
        let q1 = rot_q(q, vh, e);
        let vr = rot_v(q, vh, e);
        let g1 = scale_s(q1, -1real);
        let v1 = kick_s(q1, g1, vr, e / 2real);
        q1[i] * q1[i] + v1[i] * v1[i] == q[i] * q[i] + v[i] * v[i]
    })
{
    let g = scale_s(q, -1real);
    let vh = kick_s(q, g, v, e / 2real);
    assert(q[i] + g[i] == 0real) by { assert(g[i] == -1real * q[i]); }
    assert(vh[i] == v[i]) by { assert((e / 2real) * (q[i] + g[i]) == 0real) by(nonlinear_arith) requires q[i] + g[i] == 0real; }
    let q1 = rot_q(q, vh, e);
    let vr = rot_v(q, vh, e);
    let g1 = scale_s(q1, -1real);
    let v1 = kick_s(q1, g1, vr, e / 2real);
    assert(q1[i] + g1[i] == 0real) by { assert(g1[i] == -1real * q1[i]); }
    assert(v1[i] == vr[i]) by { assert((e / 2real) * (q1[i] + g1[i]) == 0real) by(nonlinear_arith) requires q1[i] + g1[i] == 0real; }
    lemma_rotation_norm(q[i], v[i], e);
}

// [C01.5]
/// the U-turn criterion is the position-difference criterion (q_hi - q_lo).v < 0 at either end
/// once the Hamiltonian's `zeros` vector is all zero
pub proof fn lemma_turn_formula(zeros: Seq<real>, lo: StateView, hi: StateView)
    requires zeros.len() == lo.q.len(), hi.q.len() == lo.q.len(), forall|i: int| 0 <= i < zeros.len() ==> zeros[i] == 0real
    ensures turn_of(zeros, lo, hi) == (dot_s(sub_s(hi.q, lo.q), lo.v) < 0real || dot_s(sub_s(hi.q, lo.q), hi.v) < 0real)
{
    assert(add_s(sub_s(hi.q, lo.q), zeros) =~= sub_s(hi.q, lo.q));
}
