// Prelude of unit `leapfrog` (model R).
// * `Math`: vector kernels with element-wise contracts over Seq<real>  -> assumption A-math
//   (bit-level agreement of the CPU kernels with these formulas is the job of the Kani engine, C17)
// * `Transformation`: contract proved for DiagMassMatrix in unit `transform`
// * `Collector`, `Hamiltonian`: the SAME contract text as units/_shared/dyn_facade.rs (what unit `nuts`
//   assumes); here it is what the extracted impl is checked against.
// * `State`/`StatePool`: façade of the Rc-based pool (A-rc: a fresh state is uniquely referenced)
use core::marker::PhantomData;
use core::fmt::Debug;

#[derive(Debug)]
pub struct BoxedErr { pub code: u64 }
#[derive(Debug)]
pub enum NutsError { LogpFailure(BoxedErr), SerializeFailure(), BadInitGrad(BoxedErr) }
#[derive(Debug)]
pub struct ErrHandle { pub code: u64 }
#[derive(Debug)]
pub struct AnyhowErr { pub code: u64 }
#[verifier::external_body]
pub fn opaque_anyhow() -> AnyhowErr { unimplemented!() }
impl AnyhowErr { #[verifier::external_body] pub fn into(self) -> BoxedErr { unimplemented!() } }
/// façade of `Box::new(e)` / `Arc::new(b)` used only to box error values (dyn Error is outside Verus)
pub struct Box {}
impl Box { #[verifier::external_body] pub fn new<T>(t: T) -> BoxedErr { unimplemented!() } }
pub struct Arc {}
impl Arc { #[verifier::external_body] pub fn new(t: BoxedErr) -> ErrHandle { unimplemented!() } }
pub struct FloatBox { pub code: u64 }

pub struct DivergenceInfo {
    pub start_momentum: Option<FloatBox>,
    pub start_location: Option<FloatBox>,
    pub start_gradient: Option<FloatBox>,
    pub end_location: Option<FloatBox>,
    pub energy_error: Option<F>,
    pub end_idx_in_trajectory: Option<i64>,
    pub start_idx_in_trajectory: Option<i64>,
    pub logp_function_error: Option<ErrHandle>,
}

pub trait LogpError: Sized {
    spec fn recoverable(&self) -> bool;
    fn is_recoverable(&self) -> (r: bool) ensures r == self.recoverable();
}

// ---- rand façade (ghost event log), same text as dyn_facade.rs
pub enum RngEv { Coin(bool), Bern(real, bool), Momentum }
pub trait Rng { spec fn log(&self) -> Seq<RngEv>; }
pub mod rand { pub use super::Rng; }

/// the target density and its gradient as functions of the untransformed position; `model` identifies
/// the density held by a Math value (so that "&mut math" calls can state that they do not change it)
pub uninterp spec fn logp_of(model: int, x: Seq<real>) -> real;
pub uninterp spec fn grad_of(model: int, x: Seq<real>) -> Seq<real>;
pub uninterp spec fn finite_s(x: Seq<real>) -> bool;
pub uninterp spec fn finite_nz_s(x: Seq<real>) -> bool;
pub uninterp spec fn gaussian_s(log: Seq<RngEv>, stds: Seq<real>) -> Seq<real>;
pub uninterp spec fn normalize_s(v: Seq<real>) -> Seq<real>;
pub uninterp spec fn esh_v(g: Seq<real>, p: Seq<real>, step: real) -> Seq<real>;
pub uninterp spec fn esh_dk(g: Seq<real>, p: Seq<real>, step: real) -> real;
pub uninterp spec fn slice_s(s: &[F]) -> Seq<real>;

/// ghost identity of a Math value: dimension and which density it holds (split off to avoid a trait cycle)
pub trait MathView: Sized {
    spec fn dim_spec(&self) -> nat;
    spec fn model(&self) -> int;
    /// ghost history of density evaluations (same text as dyn_facade.rs): total, and those ending in an unrecoverable error
    spec fn evals(&self) -> nat;
    spec fn fatal_evals(&self) -> nat;
}
/// a `&mut math` call that does not evaluate the density
pub open spec fn no_eval<M: MathView>(m0: &M, m1: &M) -> bool { m1.evals() == m0.evals() && m1.fatal_evals() == m0.fatal_evals() }
/// exactly one density evaluation; if it failed unrecoverably the call returned Err (quantifier-free form of
/// "exists fatal. one_eval(m0, m1, fatal) && (fatal ==> is_err)")
pub open spec fn one_eval_err<M: MathView>(m0: &M, m1: &M, is_err: bool) -> bool {
    m1.evals() == m0.evals() + 1 && (m1.fatal_evals() == m0.fatal_evals() || (m1.fatal_evals() == m0.fatal_evals() + 1 && is_err))
}
/// a `&mut math` call that evaluates the density exactly once; `fatal`: it ended in an unrecoverable error
pub open spec fn one_eval<M: MathView>(m0: &M, m1: &M, fatal: bool) -> bool {
    m1.evals() == m0.evals() + 1 && m1.fatal_evals() == m0.fatal_evals() + (if fatal { 1nat } else { 0nat })
}
/// a `&mut math` call neither changes the dimension nor the density held by `math`
pub open spec fn msame<M: MathView>(a: &M, b: &M) -> bool { a.dim_spec() == b.dim_spec() && a.model() == b.model() && no_eval(b, a) }
/// same dimension and density, but the call may have evaluated the density
pub open spec fn mkeep<M: MathView>(a: &M, b: &M) -> bool { a.dim_spec() == b.dim_spec() && a.model() == b.model() }

pub trait Math: MathView {
    type Vector;
    type LogpErr: LogpError;
    spec fn vv(v: &Self::Vector) -> Seq<real>;

    fn dim(&self) -> (r: usize) ensures r as nat == self.dim_spec();
    fn new_array(&mut self) -> (r: Self::Vector) ensures msame(final(self), old(self)), Self::vv(&r).len() == old(self).dim_spec();
    fn fill_array(&mut self, array: &mut Self::Vector, val: F)
        ensures msame(final(self), old(self)), Self::vv(final(array)) == const_s(Self::vv(old(array)).len(), val.r());
    fn copy_into(&mut self, array: &Self::Vector, dest: &mut Self::Vector)
        ensures msame(final(self), old(self)), Self::vv(final(dest)) == Self::vv(array);
    fn axpy_out(&mut self, x: &Self::Vector, y: &Self::Vector, a: F, out: &mut Self::Vector)
        ensures msame(final(self), old(self)), Self::vv(final(out)) == axpy_s(Self::vv(x), Self::vv(y), a.r());
    fn axpy(&mut self, x: &Self::Vector, y: &mut Self::Vector, a: F)
        ensures msame(final(self), old(self)), Self::vv(final(y)) == axpy_s(Self::vv(x), Self::vv(old(y)), a.r());
    fn array_vector_dot(&mut self, array1: &Self::Vector, array2: &Self::Vector) -> (r: F)
        ensures msame(final(self), old(self)), r.r() == dot_s(Self::vv(array1), Self::vv(array2));
    /// ((p1 - n1 + p2) . x, (p1 - n1 + p2) . y)
    fn scalar_prods3(&mut self, positive1: &Self::Vector, negative1: &Self::Vector, positive2: &Self::Vector, x: &Self::Vector, y: &Self::Vector) -> (r: (F, F))
        ensures msame(final(self), old(self)),
            r.0.r() == dot_s(add_s(sub_s(Self::vv(positive1), Self::vv(negative1)), Self::vv(positive2)), Self::vv(x)),
            r.1.r() == dot_s(add_s(sub_s(Self::vv(positive1), Self::vv(negative1)), Self::vv(positive2)), Self::vv(y));
    fn std_norm_flow(&mut self, pos: &Self::Vector, pos_out: &mut Self::Vector, vel: &mut Self::Vector, epsilon: F)
        ensures msame(final(self), old(self)),
            Self::vv(final(pos_out)) == rot_q(Self::vv(pos), Self::vv(old(vel)), epsilon.r()),
            Self::vv(final(vel)) == rot_v(Self::vv(pos), Self::vv(old(vel)), epsilon.r());
    fn std_norm_grad_flow(&mut self, pos: &Self::Vector, grad: &Self::Vector, vel: &Self::Vector, vel_out: &mut Self::Vector, epsilon: F)
        ensures msame(final(self), old(self)), Self::vv(final(vel_out)) == kick_s(Self::vv(pos), Self::vv(grad), Self::vv(vel), epsilon.r());
    fn std_norm_grad_flow_inplace(&mut self, pos: &Self::Vector, grad: &Self::Vector, vel: &mut Self::Vector, epsilon: F)
        ensures msame(final(self), old(self)), Self::vv(final(vel)) == kick_s(Self::vv(pos), Self::vv(grad), Self::vv(old(vel)), epsilon.r());
    /// A-math-norm: the result has unit Euclidean norm
    fn array_normalize(&mut self, v: &mut Self::Vector)
        ensures msame(final(self), old(self)), Self::vv(final(v)) == normalize_s(Self::vv(old(v))),
                dot_s(Self::vv(final(v)), Self::vv(final(v))) == 1real;
    /// A-math-norm: closed-form ESH update (uninterpreted here), result on the unit sphere
    fn esh_momentum_update(&mut self, grad: &Self::Vector, mom: &mut Self::Vector, step: F) -> (r: F)
        ensures msame(final(self), old(self)), Self::vv(final(mom)) == esh_v(Self::vv(grad), Self::vv(old(mom)), step.r()),
                r.r() == esh_dk(Self::vv(grad), Self::vv(old(mom)), step.r()),
                dot_s(Self::vv(final(mom)), Self::vv(final(mom))) == 1real;
    /// A-rng: `dest` := fresh N(0, stds^2) variates drawn from `rng` (a function of the rng's log only)
    fn array_gaussian<R: Rng + ?Sized>(&mut self, rng: &mut R, dest: &mut Self::Vector, stds: &Self::Vector)
        ensures msame(final(self), old(self)), final(rng).log() == old(rng).log().push(RngEv::Momentum),
                Self::vv(final(dest)) == gaussian_s(old(rng).log(), Self::vv(stds));
    fn array_all_finite(&mut self, array: &Self::Vector) -> (r: bool)
        ensures msame(final(self), old(self)), r == finite_s(Self::vv(array));
    fn array_all_finite_and_nonzero(&mut self, array: &Self::Vector) -> (r: bool)
        ensures msame(final(self), old(self)), r == finite_nz_s(Self::vv(array));
    fn read_from_slice(&mut self, dest: &mut Self::Vector, source: &[F])
        ensures msame(final(self), old(self)), Self::vv(final(dest)) == slice_s(source);
    fn box_array(&mut self, array: &Self::Vector) -> (r: FloatBox) ensures msame(final(self), old(self));
    /// the user's density: Ok(value) with the gradient written, or an error (recoverable or not)
    fn logp_array(&mut self, position: &Self::Vector, gradient: &mut Self::Vector) -> (r: Result<F, Self::LogpErr>)
        ensures mkeep(final(self), old(self)), one_eval(old(self), final(self), r is Err && !r->Err_0.recoverable()),
                r is Ok ==> r->Ok_0.r() == logp_of(old(self).model(), Self::vv(position))
                            && Self::vv(final(gradient)) == grad_of(old(self).model(), Self::vv(position));
}

/// ghost view of a transformation: version counter and the parameters it applies (as in unit adapt)
pub struct TransView { pub id: int, pub params: Seq<real> }
pub trait Transformation<M: Math>: Sized {
    spec fn view(&self) -> TransView;
    /// z = T(x), x = T^{-1}(z), pull-back of a gradient, log|det dz/dx| -- functions of the parameters only
    spec fn fwd(&self, x: Seq<real>) -> Seq<real>;
    spec fn inv(&self, z: Seq<real>) -> Seq<real>;
    spec fn pull(&self, x: Seq<real>, gx: Seq<real>) -> Seq<real>;
    spec fn logdet_at(&self, x: Seq<real>) -> real;

    fn init_from_untransformed_position(&self, math: &mut M, untransformed_position: &M::Vector, untransformed_gradient: &mut M::Vector,
        transformed_position: &mut M::Vector, transformed_gradient: &mut M::Vector) -> (r: Result<(F, F), M::LogpErr>)
        ensures mkeep(final(math), old(math)), one_eval(old(math), final(math), r is Err && !r->Err_0.recoverable()),
            r is Ok ==> {
                let x = M::vv(untransformed_position);
                &&& M::vv(final(untransformed_gradient)) == grad_of(old(math).model(), x)
                &&& M::vv(final(transformed_position)) == self.fwd(x)
                &&& M::vv(final(transformed_gradient)) == self.pull(x, grad_of(old(math).model(), x))
                &&& r->Ok_0.0.r() == logp_of(old(math).model(), x)
                &&& r->Ok_0.1.r() == self.logdet_at(x)
            };
    fn init_from_transformed_position(&self, math: &mut M, untransformed_position: &mut M::Vector, untransformed_gradient: &mut M::Vector,
        transformed_position: &M::Vector, transformed_gradient: &mut M::Vector) -> (r: Result<(F, F), M::LogpErr>)
        ensures mkeep(final(math), old(math)), one_eval(old(math), final(math), r is Err && !r->Err_0.recoverable()),
            r is Ok ==> {
                let x = self.inv(M::vv(transformed_position));
                &&& M::vv(final(untransformed_position)) == x
                &&& M::vv(final(untransformed_gradient)) == grad_of(old(math).model(), x)
                &&& M::vv(final(transformed_gradient)) == self.pull(x, grad_of(old(math).model(), x))
                &&& r->Ok_0.0.r() == logp_of(old(math).model(), x)
                &&& r->Ok_0.1.r() == self.logdet_at(x)
            };
    fn inv_transform_normalize(&self, math: &mut M, untransformed_position: &M::Vector, untransformed_gradient: &M::Vector,
        transformed_position: &mut M::Vector, transformed_gradient: &mut M::Vector) -> (r: Result<F, M::LogpErr>)
        ensures msame(final(math), old(math)),
            r is Ok ==> {
                let x = M::vv(untransformed_position);
                &&& M::vv(final(transformed_position)) == self.fwd(x)
                &&& M::vv(final(transformed_gradient)) == self.pull(x, M::vv(untransformed_gradient))
                &&& r->Ok_0.r() == self.logdet_at(x)
            };
    fn transformation_id(&self, math: &mut M) -> (r: i64) ensures msame(final(math), old(math)), r as int == self.view().id;
}

//@include ../_shared/state_view.rs

// trait Point is extracted from src/dynamics/hamiltonian.rs (contracts in contracts.vspec, ghost items in trait_extra_point.rs)

// ---- state pool façade (A-rc)
#[derive(Debug)]
pub struct StateInUse {}
#[verifier::reject_recursive_types(M)]
pub struct State<M: Math, P: Point<M>> { pub p: P, pub unique: Ghost<bool>, pub _m: PhantomData<M> }
impl<M: Math, P: Point<M>> State<M, P> {
    pub open spec fn view(&self) -> StateView { self.p.pview() }
    pub fn point(&self) -> (r: &P) ensures *r == self.p { &self.p }
    /// A-rc: succeeds iff no other handle shares the state; the pool hands out unique states
    #[verifier::external_body]
    pub fn try_point_mut(&mut self) -> (r: Result<&mut P, StateInUse>)
        ensures
            old(self).unique@ ==> r is Ok,
            r is Ok ==> *r->Ok_0 == old(self).p && final(self).p == *final(r->Ok_0) && final(self).unique == old(self).unique,
            r is Err ==> *final(self) == *old(self),
    { unimplemented!() }
    pub fn index_in_trajectory(&self) -> (r: i64) ensures r as int == self.view().idx { self.p.index_in_trajectory() }
}
#[verifier::reject_recursive_types(M)]
#[verifier::reject_recursive_types(P)]
pub struct StatePool<M: Math, P: Point<M>> { pub _m: PhantomData<M>, pub _p: PhantomData<P> }
impl<M: Math, P: Point<M>> StatePool<M, P> {
    /// A-rc: a state handed out by the pool is not referenced by anybody else
    #[verifier::external_body]
    pub fn new_state(&self, math: &mut M) -> (r: State<M, P>)
        ensures msame(final(math), old(math)), r.unique@, P::new_post(r.p, old(math).dim_spec()) || true
    { unimplemented!() }
}

// ---- Collector façade: same contract text as dyn_facade.rs (+ register_leapfrog, which only the integrator calls)
pub trait Collector<M: Math, P: Point<M>> {
    spec fn leapfrogs(&self) -> nat;
    spec fn traj(&self) -> Map<int, StateView>;
    spec fn draws(&self) -> Seq<StateView>;
    spec fn divs(&self) -> nat;
    spec fn lf_post(&self, post: &Self, end: StateView, diverged: bool) -> bool;
    fn register_leapfrog(&mut self, math: &mut M, start: &State<M, P>, end: &State<M, P>, divergence_info: Option<&DivergenceInfo>)
        ensures msame(final(math), old(math)),
                final(self).leapfrogs() == old(self).leapfrogs() + 1,
                final(self).draws() == old(self).draws(),
                final(self).divs() == old(self).divs() + (if divergence_info is Some { 1nat } else { 0nat }),
                divergence_info is None ==> final(self).traj() == old(self).traj().insert(end.view().idx, end.view()),
                divergence_info is Some ==> final(self).traj() == old(self).traj(),
                old(self).lf_post(final(self), end.view(), divergence_info is Some);
}

pub open spec fn dir_sign(d: Direction) -> int { match d { Direction::Forward => 1, Direction::Backward => -1 } }
pub spec const IDX_BIG: int = 0x4000_0000_0000_0000;

/// The Hamiltonian interface. `leapfrog`, `is_turning`, `initialize_trajectory`, `step_size` carry the
/// contract text of units/_shared/dyn_facade.rs; the `*_post` hooks add the integrator-level
/// postconditions (C02, C05.1) that the extracted impl supplies through impl_extra_ham.rs.
pub trait Hamiltonian<M: Math>: Sized {
    type Point: Point<M>;
    spec fn step(&self) -> real;
    spec fn turn_spec(&self, lo: StateView, hi: StateView) -> bool;
    spec fn trans(&self) -> TransView;

    spec fn leapfrog_post(&self, post: &Self, m0: &M, start: &State<M, Self::Point>, dir: Direction, factor: real, baseline: real, max_err: real, r: LeapfrogResult<M, Self::Point>) -> bool;
    fn leapfrog<C: Collector<M, Self::Point>>(
        &mut self,
        math: &mut M,
        start: &State<M, Self::Point>,
        dir: Direction,
        step_size_factor: F,
        energy_baseline: F,
        max_energy_error: F,
        collector: &mut C,
    ) -> (r: LeapfrogResult<M, Self::Point>)
        requires -IDX_BIG < start.view().idx < IDX_BIG
        ensures
            final(self).step() == old(self).step(),
            forall|a: StateView, b: StateView| final(self).turn_spec(a, b) == old(self).turn_spec(a, b),
            final(math).dim_spec() == old(math).dim_spec(),
            // every completed integration step is reported to the collector exactly once (also divergent ones);
            // an unrecoverable error aborts before the collector is notified
            !(r is Err) ==> final(collector).leapfrogs() == old(collector).leapfrogs() + 1,
            r is Err ==> final(collector).leapfrogs() == old(collector).leapfrogs(),
            final(collector).draws() == old(collector).draws(),
            // a divergent step is counted as such by the collector (and only a divergent one)
            final(collector).divs() == old(collector).divs() + (if r is Divergence { 1nat } else { 0nat }),
            match r {
                LeapfrogResult::Ok(out) => {
                    &&& out.view().idx == start.view().idx + dir_sign(dir)
                    &&& out.view().e0 == start.view().e0
                    &&& final(collector).traj() == old(collector).traj().insert(out.view().idx, out.view())
                    // an accepted state has an energy error within the limit, measured against the baseline handed in
                    &&& out.view().energy - energy_baseline.r() <= max_energy_error.r()
                },
                LeapfrogResult::Divergence(_) => final(collector).traj() == old(collector).traj(),
                LeapfrogResult::Err(e) => final(collector).traj() == old(collector).traj() && !e.recoverable(),
            },
            final(self).trans() == old(self).trans(),
            // one leapfrog is one density evaluation; it returns Err exactly when that evaluation failed unrecoverably
            one_eval(old(math), final(math), r is Err),
            // the collector is notified through register_leapfrog(start, out, divergence?) (not on Err)
            match r {
                LeapfrogResult::Ok(out) => old(collector).lf_post(final(collector), out.view(), false),
                LeapfrogResult::Divergence(_) => exists|e: StateView| #[trigger] old(collector).lf_post(final(collector), e, true),
                LeapfrogResult::Err(_) => true,
            },
            old(self).leapfrog_post(final(self), old(math), start, dir, step_size_factor.r(), energy_baseline.r(), max_energy_error.r(), r);

    fn is_turning(&self, math: &mut M, state1: &State<M, Self::Point>, state2: &State<M, Self::Point>) -> (r: bool)
        ensures
            final(math).dim_spec() == old(math).dim_spec(), no_eval(old(math), final(math)),
            // order-normalised by trajectory index (C01.5): the earlier state comes first
            r == (if state1.view().idx < state2.view().idx { self.turn_spec(state1.view(), state2.view()) }
                  else { self.turn_spec(state2.view(), state1.view()) });

    spec fn init_post(&self, m0: &M, init: &[F], r: Result<State<M, Self::Point>, NutsError>) -> bool;
    fn init_state(&mut self, math: &mut M, init: &[F]) -> (r: Result<State<M, Self::Point>, NutsError>)
        ensures mkeep(final(math), old(math)), final(self).trans() == old(self).trans(), final(self).step() == old(self).step(),
                // one density evaluation at `init`; ANY failure of it is an Err (same text as dyn_facade.rs)
                one_eval_err(old(math), final(math), r is Err),
                old(self).init_post(old(math), init, r);
    spec fn init_untr_post(&self, m0: &M, init: &[F], r: Result<State<M, Self::Point>, NutsError>) -> bool;
    fn init_state_untransformed(&mut self, math: &mut M, untransformed_position: &[F]) -> (r: Result<State<M, Self::Point>, NutsError>)
        ensures mkeep(final(math), old(math)), final(self).trans() == old(self).trans(), final(self).step() == old(self).step(),
                one_eval_err(old(math), final(math), r is Err),
                old(self).init_untr_post(old(math), untransformed_position, r);

    spec fn traj_init_post(&self, m0: &M, s0: &State<M, Self::Point>, s1: &State<M, Self::Point>, resample: bool, log0: Seq<RngEv>, r: Result<(), NutsError>) -> bool;
    fn initialize_trajectory<R: Rng + ?Sized>(
        &self,
        math: &mut M,
        state: &mut State<M, Self::Point>,
        resaple_velocity: bool,
        rng: &mut R,
    ) -> (r: core::result::Result<(), NutsError>)
        requires old(state).unique@    // A-rc (callers are not checked for this: see DESIGN 6)
        ensures
            final(math).dim_spec() == old(math).dim_spec(), no_eval(old(math), final(math)),
            r is Ok ==> final(state).view().idx == 0 && final(state).view().e0 == final(state).view().energy,
            resaple_velocity ==> final(rng).log() == old(rng).log().push(RngEv::Momentum),
            !resaple_velocity ==> final(rng).log() == old(rng).log(),
            self.traj_init_post(old(math), old(state), final(state), resaple_velocity, old(rng).log(), r);

    /// everything but the state pool is equal
    spec fn same_kernel(&self, o: &Self) -> bool;
    fn pool(&mut self) -> (r: &mut StatePool<M, Self::Point>)
        ensures final(self).step() == old(self).step(), final(self).trans() == old(self).trans(),
                forall|a: StateView, b: StateView| final(self).turn_spec(a, b) == old(self).turn_spec(a, b),
                old(self).same_kernel(final(self));
    fn copy_state(&mut self, math: &mut M, state: &State<M, Self::Point>) -> (r: State<M, Self::Point>)
        ensures msame(final(math), old(math)), final(self).step() == old(self).step(), final(self).trans() == old(self).trans(),
                state.p.copy_post(r.p), r.unique@, r.view() == state.view();
    fn momentum_decoherence_length(&self) -> Option<F>;
    /// (contract text assumed by unit mclmc) only the velocity -- and, Euclidean, the kinetic energy -- of `state` change
    spec fn refresh_post(&self, post: &Self, p0: &State<M, Self::Point>, p1: &State<M, Self::Point>, r: core::result::Result<(), NutsError>) -> bool;
    fn partial_momentum_refresh<R: Rng + ?Sized>(&mut self, math: &mut M, state: &mut State<M, Self::Point>, noise: &M::Vector, rng: &mut R, factor: F)
        -> (r: core::result::Result<(), NutsError>)
        ensures
            final(self).step() == old(self).step(), final(self).trans() == old(self).trans(),
            final(math).dim_spec() == old(math).dim_spec(), no_eval(old(math), final(math)),
            final(state).view().idx == old(state).view().idx,
            final(state).view().e0 == old(state).view().e0,
            final(state).view().x == old(state).view().x && final(state).view().g == old(state).view().g
                && final(state).view().q == old(state).view().q && final(state).view().gq == old(state).view().gq
                && final(state).view().logp == old(state).view().logp,
            final(rng).log() == old(rng).log(),
            old(self).refresh_post(final(self), old(state), final(state), r);
    fn step_size(&self) -> (r: F) ensures r.r() == self.step();
    fn step_size_mut(&mut self) -> (r: &mut F)
        ensures r.r() == old(self).step(), final(self).step() == final(r).r(), final(self).trans() == old(self).trans();
}
pub mod nuts { pub use super::Collector; }

// A-derive-eq: `#[derive(PartialEq, Eq)]` on the field-less enum KineticEnergyKind is structural equality
// (Verus gives derived PartialEq no specification, so the derive is replaced by this specified impl)
impl vstd::std_specs::cmp::PartialEqSpecImpl for KineticEnergyKind {
    open spec fn obeys_eq_spec() -> bool { true }
    open spec fn eq_spec(&self, o: &KineticEnergyKind) -> bool { *self == *o }
}
impl PartialEq for KineticEnergyKind { #[verifier::external_body] fn eq(&self, o: &KineticEnergyKind) -> bool { unimplemented!() } }
impl Eq for KineticEnergyKind {}
