    // ghost items spliced into `trait Point<M>` (rule R1)
    spec fn pview(&self) -> StateView;
    spec fn new_post(r: Self, dim: nat) -> bool;
    spec fn copy_post(&self, other: Self) -> bool;
