    open spec fn leapfrog_fin_post(&self, baseline: F, r: LeapfrogResult<M, Self::Point>) -> bool { th_fin_post(baseline, r) }
    open spec fn init_fin_post(&self, r: Result<State<M, Self::Point>, NutsError>) -> bool { th_init_fin_post(r) }
