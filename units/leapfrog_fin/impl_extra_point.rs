    // H = K - (logp + logdet), in the uninterpreted arithmetic of model Fin
    open spec fn energy_s(&self) -> F { f_sub(self.kinetic_energy, f_add(self.logp, self.logdet)) }
    open spec fn e0_s(&self) -> F { self.initial_energy }
    open spec fn logp_s(&self) -> F { self.logp }
    open spec fn index_in_trajectory_s(&self) -> int { self.index_in_trajectory as int }
