/// [C05.1] a state is accepted (LeapfrogResult::Ok) only with a FINITE energy error; by IEEE propagation its
/// energy, kinetic energy, log-density and log-determinant are then finite too. A NaN / infinite log-density or
/// a NaN energy therefore always ends in Divergence (or, for an unrecoverable density error, in Err).
pub open spec fn th_fin_post<M: Math>(baseline: F, r: LeapfrogResult<M, TransformedPoint<M>>) -> bool {
    match r {
        LeapfrogResult::Ok(out) => {
            &&& fin(f_sub(out.p.energy_s(), baseline))
            &&& fin(out.p.kinetic_energy) && fin(out.p.logp) && fin(out.p.logdet) && fin(baseline)
        },
        LeapfrogResult::Divergence(_) => true,
        LeapfrogResult::Err(e) => !e.recoverable(),
    }
}
/// [C05.3] an accepted start point passed all four finite checks
pub open spec fn th_init_fin_post<M: Math>(r: Result<State<M, TransformedPoint<M>>, NutsError>) -> bool {
    match r {
        Ok(st) => vfin(&st.p.transformed_position) && vfin_nz(&st.p.transformed_gradient)
                  && vfin(&st.p.untransformed_gradient) && vfin(&st.p.untransformed_position),
        Err(_) => true,
    }
}
