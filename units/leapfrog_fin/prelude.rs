// Prelude of unit `leapfrog_fin` (model Fin). Thin façades: vectors are opaque, kernels have no contract
// (nothing about their results is needed: the finite check happens after all of them).
use core::marker::PhantomData;
use core::fmt::Debug;

#[derive(Debug)]
pub struct BoxedErr { pub code: u64 }
#[derive(Debug)]
pub enum NutsError { LogpFailure(BoxedErr), SerializeFailure(), BadInitGrad(BoxedErr) }
#[derive(Debug)]
pub struct ErrHandle { pub code: u64 }
#[derive(Debug)]
pub struct AnyhowErr { pub code: u64 }
#[verifier::external_body] pub fn opaque_anyhow() -> AnyhowErr { unimplemented!() }
impl AnyhowErr { #[verifier::external_body] pub fn into(self) -> BoxedErr { unimplemented!() } }
pub struct Box {}
impl Box { #[verifier::external_body] pub fn new<T>(t: T) -> BoxedErr { unimplemented!() } }
pub struct Arc {}
impl Arc { #[verifier::external_body] pub fn new(t: BoxedErr) -> ErrHandle { unimplemented!() } }
pub struct FloatBox { pub code: u64 }
pub struct DivergenceInfo {
    pub start_momentum: Option<FloatBox>, pub start_location: Option<FloatBox>, pub start_gradient: Option<FloatBox>,
    pub end_location: Option<FloatBox>, pub energy_error: Option<F>, pub end_idx_in_trajectory: Option<i64>,
    pub start_idx_in_trajectory: Option<i64>, pub logp_function_error: Option<ErrHandle>,
}
pub trait LogpError: Sized {
    spec fn recoverable(&self) -> bool;
    fn is_recoverable(&self) -> (r: bool) ensures r == self.recoverable();
}
/// "every entry of the vector is finite" / "... finite and non-zero" (what array_all_finite* compute)
pub uninterp spec fn vfin<V>(v: &V) -> bool;
pub uninterp spec fn vfin_nz<V>(v: &V) -> bool;

pub trait Math: Sized {
    type Vector;
    type LogpErr: LogpError;
    fn dim(&self) -> usize;
    fn new_array(&mut self) -> Self::Vector;
    fn copy_into(&mut self, array: &Self::Vector, dest: &mut Self::Vector);
    fn axpy_out(&mut self, x: &Self::Vector, y: &Self::Vector, a: F, out: &mut Self::Vector);
    fn axpy(&mut self, x: &Self::Vector, y: &mut Self::Vector, a: F);
    fn array_vector_dot(&mut self, array1: &Self::Vector, array2: &Self::Vector) -> F;
    fn std_norm_flow(&mut self, pos: &Self::Vector, pos_out: &mut Self::Vector, vel: &mut Self::Vector, epsilon: F);
    fn std_norm_grad_flow(&mut self, pos: &Self::Vector, grad: &Self::Vector, vel: &Self::Vector, vel_out: &mut Self::Vector, epsilon: F);
    fn std_norm_grad_flow_inplace(&mut self, pos: &Self::Vector, grad: &Self::Vector, vel: &mut Self::Vector, epsilon: F);
    fn esh_momentum_update(&mut self, grad: &Self::Vector, mom: &mut Self::Vector, step: F) -> F;
    fn array_all_finite(&mut self, array: &Self::Vector) -> (r: bool) ensures r == vfin(array);
    fn array_all_finite_and_nonzero(&mut self, array: &Self::Vector) -> (r: bool) ensures r == vfin_nz(array);
    fn read_from_slice(&mut self, dest: &mut Self::Vector, source: &[F]);
    fn box_array(&mut self, array: &Self::Vector) -> FloatBox;
}
pub trait Transformation<M: Math>: Sized {
    fn init_from_untransformed_position(&self, math: &mut M, untransformed_position: &M::Vector, untransformed_gradient: &mut M::Vector,
        transformed_position: &mut M::Vector, transformed_gradient: &mut M::Vector) -> Result<(F, F), M::LogpErr>;
    fn init_from_transformed_position(&self, math: &mut M, untransformed_position: &mut M::Vector, untransformed_gradient: &mut M::Vector,
        transformed_position: &M::Vector, transformed_gradient: &mut M::Vector) -> Result<(F, F), M::LogpErr>;
    fn transformation_id(&self, math: &mut M) -> i64;
}
#[derive(Debug)]
pub struct StateInUse {}
#[verifier::reject_recursive_types(M)]
pub struct State<M: Math, P: Point<M>> { pub p: P, pub unique: Ghost<bool>, pub _m: PhantomData<M> }
impl<M: Math, P: Point<M>> State<M, P> {
    pub fn point(&self) -> (r: &P) ensures *r == self.p { &self.p }
    #[verifier::external_body]
    pub fn try_point_mut(&mut self) -> (r: Result<&mut P, StateInUse>)
        ensures
            old(self).unique@ ==> r is Ok,
            r is Ok ==> *r->Ok_0 == old(self).p && final(self).p == *final(r->Ok_0) && final(self).unique == old(self).unique,
            r is Err ==> *final(self) == *old(self),
    { unimplemented!() }
    pub fn index_in_trajectory(&self) -> (r: i64) ensures r as int == self.p.index_in_trajectory_s() { self.p.index_in_trajectory() }
}
#[verifier::reject_recursive_types(M)]
#[verifier::reject_recursive_types(P)]
pub struct StatePool<M: Math, P: Point<M>> { pub _m: PhantomData<M>, pub _p: PhantomData<P> }
impl<M: Math, P: Point<M>> StatePool<M, P> {
    #[verifier::external_body]
    pub fn new_state(&self, math: &mut M) -> (r: State<M, P>) ensures r.unique@ { unimplemented!() }
}
pub trait Collector<M: Math, P: Point<M>> {
    fn register_leapfrog(&mut self, math: &mut M, start: &State<M, P>, end: &State<M, P>, divergence_info: Option<&DivergenceInfo>);
}
pub mod nuts { pub use super::Collector; }

pub trait Hamiltonian<M: Math>: Sized {
    type Point: Point<M>;
    spec fn leapfrog_fin_post(&self, baseline: F, r: LeapfrogResult<M, Self::Point>) -> bool;
    fn leapfrog<C: Collector<M, Self::Point>>(&mut self, math: &mut M, start: &State<M, Self::Point>, dir: Direction,
        step_size_factor: F, energy_baseline: F, max_energy_error: F, collector: &mut C) -> (r: LeapfrogResult<M, Self::Point>)
        requires -0x4000_0000_0000_0000 < start.p.index_in_trajectory_s() < 0x4000_0000_0000_0000
        ensures old(self).leapfrog_fin_post(energy_baseline, r);
    spec fn init_fin_post(&self, r: Result<State<M, Self::Point>, NutsError>) -> bool;
    fn init_state(&mut self, math: &mut M, init: &[F]) -> (r: Result<State<M, Self::Point>, NutsError>)
        ensures old(self).init_fin_post(r);
    fn pool(&mut self) -> (r: &mut StatePool<M, Self::Point>);
}

// A-derive-eq (as in unit leapfrog)
impl vstd::std_specs::cmp::PartialEqSpecImpl for KineticEnergyKind {
    open spec fn obeys_eq_spec() -> bool { true }
    open spec fn eq_spec(&self, o: &KineticEnergyKind) -> bool { *self == *o }
}
impl PartialEq for KineticEnergyKind { #[verifier::external_body] fn eq(&self, o: &KineticEnergyKind) -> bool { unimplemented!() } }
impl Eq for KineticEnergyKind {}
