    // ghost items spliced into `trait Point<M>` (rule R1)
    spec fn energy_s(&self) -> F;
    spec fn e0_s(&self) -> F;
    spec fn logp_s(&self) -> F;
    spec fn index_in_trajectory_s(&self) -> int;
