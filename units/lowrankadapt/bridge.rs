// bridge.rs (unit `lowrankadapt`) -- machine-checked BRIDGE for assumption A-estimator-abstraction (DESIGN 11.7)
// =====================================================================================================
// Same construction as units/diagadapt/bridge.rs (read its header first), for the REAL low-rank estimator
// `LowRankMassMatrixStrategy` (src/transform/adapt/low_rank.rs), which this unit proves against the RELATIONAL
// trait of ../diagadapt/facade.rs (`repr(self, fg, bg)` = `lr_repr::<M>`).  The abstract FUNCTIONAL trait that
// unit `adapt` assumes is units/adapt/prelude.rs (verbatim copy: ../diagadapt/bridge_trait.rs).
//
//     Ghosted<M> = the real estimator + two ghost fields (the two histories)  (+ a zero-sized PhantomData<M>:
//                  the real struct is not generic, but its trait impl, its collector and `repr` are)
//     inv(g)     = g.real.repr(g.gfg@, g.gbg@)
//                = lr_wf(g.real)  &&  g.gfg@ =~= lr_fg(g.real)  &&  g.gbg@ =~= lr_fg(g.real).subrange(background_split, len)
//
// For EVERY method `m` of the abstract trait, `Ghosted::g_m` = (a) ONE call of the real, extracted, verified method
// `m` on `self.real` + (b) ghost-field assignments in `proof { }`; its `ensures` are clause for clause the abstract
// text (`self.fg()` reads `self.gfg@`, `self.bg()` reads `self.gbg@`) under `requires old(self).inv()` /
// `ensures final(self).inv()`.  Inherent functions instead of a trait impl for the reason given in
// units/diagadapt/bridge.rs (Verus: no `requires` on trait-impl methods; the abstract trait states none).
//
// The sample notion: `Sample { draw, grad: Seq<real> }` of facade.rs (= the struct of units/adapt/prelude.rs).
// This estimator stores each sample as two `Vec<F>`; entry i of the history is
// `Sample { draw: reals_of(draws@[i]@), grad: reals_of(grads@[i]@) }` (`lr_fg`, lemmas.rs), and the real
// `update_estimators` / `add_draw` are PROVED to append exactly `coll_sample(collector)` =
// `Sample { draw: M::vv(&c.draw), grad: M::vv(&c.grad) }`, resp. the start point `(pos_v, grad_v)`
// (through the `write_to_slice` contract `reals_of(dest) == M::vv(source)`): the mapping is explicit and checked.
//
// WHAT THE BRIDGE GIVES FOR THIS ESTIMATOR, precisely: every clause of the abstract trait about the WINDOWS
// (new / update_estimators / switch / counts / init) in full; for `adapt`:  false ==> matrix unchanged,
// true ==> id + 1 (this is finding F8, /repo 55dc8d9), fewer than three foreground samples ==> false.
// `estimated_from(t, fg)` is `true` here: unit lowrankadapt proves NOTHING about what the SVD / eigen pipeline
// writes into the matrix (A-faer: `LowRankMassMatrixStrategy::update` is a stub saying "unchanged or id + 1"),
// so "the new matrix is computed from the foreground window only" is NOT decided for the low-rank estimator,
// neither before nor after this bridge.
//
// Extra preconditions (NOT in the abstract trait; needed by the real code; instances of A-nooverflow):
//   P1  g_update_estimators, g_init:  fg().len() < u64::MAX && bg().len() < u64::MAX   (precondition of the
//       relational trait; for this estimator the lengths are deque lengths, the real code needs no such bound,
//       but the relational trait text is shared with the diagonal estimator whose counters are u64)
//   P2  g_init, g_adapt:              mass_matrix.view().id < i64::MAX     (`self.id += 1` in LowRankMassMatrix)
// GAP (reported, not forced):
//   G1  abstract `init` promises `*final(options) == *old(options)`; not stated by the relational trait, hence
//       ABSENT from `g_init` (the real code satisfies it trivially: parameter `_options`, never used).
//
// WHAT REMAINS ASSUMED AFTER THIS BRIDGE: the erasure step -- `gfg`, `gbg` are `Ghost<_>` and assigned only in
// `proof { }`, `_m` is zero-sized; Verus' mode checker keeps ghost state out of exec state, so after erasure each
// `g_m` IS the single call `self.real.m(..)` and `Ghosted<M>` IS `LowRankMassMatrixStrategy`.  Not machine-checked:
// (1) that erasure argument; (2) reading the type parameter of GlobalStrategy in unit `adapt` as `Ghosted<M>`
// (two generated files); (3) P1 / P2 at the call sites of unit adapt; (4) G1.

pub mod adapt_abstract {
    use super::*;
    //@include ../diagadapt/bridge_trait.rs
}

/// the real estimator extended by its two history variables
pub struct Ghosted<M: Math> {
    pub real: LowRankMassMatrixStrategy,
    pub gfg: Ghost<Seq<Sample>>,
    pub gbg: Ghost<Seq<Sample>>,
    pub _m: PhantomData<M>,
}

/// every history pair represented by a real estimator state has the lengths of its deques: the quantified
/// machine-range preconditions of the relational trait follow from P1 on the ghost histories
// [C09 C06]
pub proof fn lemma_bridge_lens<M: Math>(s: LowRankMassMatrixStrategy, gfg: Seq<Sample>, gbg: Seq<Sample>)
    requires lr_repr::<M>(s, gfg, gbg), gfg.len() < u64::MAX, gbg.len() < u64::MAX
    ensures forall|fg: Seq<Sample>, bg: Seq<Sample>| #[trigger] lr_repr::<M>(s, fg, bg) ==> fg.len() < u64::MAX && bg.len() < u64::MAX
{
}

impl<M: Math> Ghosted<M> {
    // ---- the spec side of the abstract trait, instantiated
    /// invariant: the two deques of the real estimator represent the ghost histories
    pub open spec fn inv(&self) -> bool { <LowRankMassMatrixStrategy as MassMatrixAdaptStrategy<M>>::repr(&self.real, self.gfg@, self.gbg@) }
    pub open spec fn fg(&self) -> Seq<Sample> { self.gfg@ }
    pub open spec fn bg(&self) -> Seq<Sample> { self.gbg@ }
    /// defined from the real collector type `DrawGradCollector<M>` (the same collector as the diagonal estimator):
    /// `c.is_good`, resp. `Sample { draw: M::vv(&c.draw), grad: M::vv(&c.grad) }` (impl_extra.rs)
    pub open spec fn coll_good(c: &DrawGradCollector<M>) -> bool { <LowRankMassMatrixStrategy as MassMatrixAdaptStrategy<M>>::coll_good(c) }
    pub open spec fn coll_sample(c: &DrawGradCollector<M>) -> Sample { <LowRankMassMatrixStrategy as MassMatrixAdaptStrategy<M>>::coll_sample(c) }
    /// `true` for this estimator (impl_extra.rs, A-faer): see the header
    pub open spec fn estimated_from(t: TransView, fg: Seq<Sample>) -> bool { <LowRankMassMatrixStrategy as MassMatrixAdaptStrategy<M>>::estimated_from(t, fg) }

    // ---- abstract `new`
    // [C09 C06]
    pub fn g_new(math: &mut M, options: LowRankSettings, num_tune: u64, chain: u64) -> (r: Self)
        ensures
            r.fg().len() == 0, r.bg().len() == 0,
            r.inv(),
    {
        let inner = <LowRankMassMatrixStrategy as MassMatrixAdaptStrategy<M>>::new(math, options, num_tune, chain);
        Ghosted { real: inner, gfg: Ghost(Seq::<Sample>::empty()), gbg: Ghost(Seq::<Sample>::empty()), _m: PhantomData }
    }

    // ---- abstract `update_estimators`
    // [C09 C06]
    pub fn g_update_estimators(&mut self, math: &mut M, collector: &DrawGradCollector<M>)
        requires
            old(self).inv(),
            old(self).fg().len() < u64::MAX && old(self).bg().len() < u64::MAX,      // P1
        ensures
            Self::coll_good(collector) ==> final(self).fg() == old(self).fg().push(Self::coll_sample(collector))
                && final(self).bg() == old(self).bg().push(Self::coll_sample(collector)),
            !Self::coll_good(collector) ==> final(self).fg() == old(self).fg() && final(self).bg() == old(self).bg(),
            final(self).inv(),
    {
        proof { lemma_bridge_lens::<M>(self.real, self.gfg@, self.gbg@); }
        <LowRankMassMatrixStrategy as MassMatrixAdaptStrategy<M>>::update_estimators(&mut self.real, math, collector);
        proof {
            if Self::coll_good(collector) {
                self.gfg@ = self.gfg@.push(Self::coll_sample(collector));
                self.gbg@ = self.gbg@.push(Self::coll_sample(collector));
            }
        }
    }

    // ---- abstract `switch`
    // [C09 C06]
    pub fn g_switch(&mut self, math: &mut M)
        requires
            old(self).inv(),
        ensures
            final(self).fg() == old(self).bg(), final(self).bg() == Seq::<Sample>::empty(),
            final(self).inv(),
    {
        <LowRankMassMatrixStrategy as MassMatrixAdaptStrategy<M>>::switch(&mut self.real, math);
        proof {
            self.gfg@ = self.gbg@;
            self.gbg@ = Seq::<Sample>::empty();
        }
    }

    // ---- abstract `current_count`
    // [C09 C06]
    pub fn g_current_count(&self) -> (r: u64)
        requires
            self.inv(),
        ensures
            r as int == self.fg().len(),
    {
        <LowRankMassMatrixStrategy as MassMatrixAdaptStrategy<M>>::current_count(&self.real)
    }

    // ---- abstract `background_count`
    // [C09 C06]
    pub fn g_background_count(&self) -> (r: u64)
        requires
            self.inv(),
        ensures
            r as int == self.bg().len(),
    {
        <LowRankMassMatrixStrategy as MassMatrixAdaptStrategy<M>>::background_count(&self.real)
    }

    // ---- abstract `init`
    // [C09 C06]
    pub fn g_init<R: Rng + ?Sized, VxP: Point<M>>(&mut self, math: &mut M, options: &mut NutsOptions, mass_matrix: &mut LowRankMassMatrix<M>,
                                 point: &VxP, rng: &mut R) -> (r: Result<(), NutsError>)
        requires
            old(self).inv(),
            old(self).fg().len() < u64::MAX && old(self).bg().len() < u64::MAX,      // P1
            old(mass_matrix).view().id < i64::MAX,                                    // P2
        ensures
            r is Ok,
            *final(options) == *old(options),
            final(self).fg().len() == old(self).fg().len() + 1, final(self).bg().len() == old(self).bg().len() + 1,
            final(mass_matrix).view().id == old(mass_matrix).view().id + 1,
            final(self).inv(),
            // EXTRA (stronger than the abstract text): WHICH sample is appended -- the start point
            final(self).fg() == old(self).fg().push(Sample { draw: point.pos_v(), grad: point.grad_v() }),
            final(self).bg() == old(self).bg().push(Sample { draw: point.pos_v(), grad: point.grad_v() }),
    {
        proof { lemma_bridge_lens::<M>(self.real, self.gfg@, self.gbg@); }
        let r = <LowRankMassMatrixStrategy as MassMatrixAdaptStrategy<M>>::init(&mut self.real, math, options, mass_matrix, point, rng);
        proof {
            self.gfg@ = self.gfg@.push(Sample { draw: point.pos_v(), grad: point.grad_v() });
            self.gbg@ = self.gbg@.push(Sample { draw: point.pos_v(), grad: point.grad_v() });
        }
        r
    }

    // ---- abstract `adapt`
    // [C09 C06]
    pub fn g_adapt(&self, math: &mut M, mass_matrix: &mut LowRankMassMatrix<M>) -> (r: bool)
        requires
            self.inv(),
            old(mass_matrix).view().id < i64::MAX,                                    // P2
        ensures
            !r ==> *final(mass_matrix) == *old(mass_matrix),
            r ==> final(mass_matrix).view().id == old(mass_matrix).view().id + 1
                      && Self::estimated_from(final(mass_matrix).view(), self.fg()),
            // EXTRA (relational trait, clause [C08.1]): never re-estimates from fewer than three samples
            self.fg().len() < 3 ==> !r,
    {
        <LowRankMassMatrixStrategy as MassMatrixAdaptStrategy<M>>::adapt(&self.real, math, mass_matrix)
    }
}
