    // ghost items spliced into `impl MassMatrixAdaptStrategy<M> for LowRankMassMatrixStrategy` (rule R1: contracts)
    open spec fn repr(&self, fg: Seq<Sample>, bg: Seq<Sample>) -> bool { lr_repr::<M>(*self, fg, bg) }
    open spec fn coll_good(c: &Self::Collector) -> bool { c.is_good }
    open spec fn coll_sample(c: &Self::Collector) -> Sample { Sample { draw: M::vv(&c.draw), grad: M::vv(&c.grad) } }
    // A-faer: what the SVD/eigen pipeline computes from the window is not modelled (low-rank exactness not decided)
    open spec fn estimated_from(t: TransView, fg: Seq<Sample>) -> bool { true }
    open spec fn adapt_extra(&self, m0: &Self::Transformation, m1: &Self::Transformation, r: bool) -> bool { true }
    open spec fn init_extra(m0: &Self::Transformation, m1: &Self::Transformation, pos: Seq<real>, grad: Seq<real>) -> bool { true }
