// Specification vocabulary and lemmas of unit `lowrankadapt` (model R).
//@include ../diagadapt/math_spec.rs
//@include ../diagadapt/window_spec.rs

/// the stored window as samples, oldest first
pub open spec fn lr_fg(s: LowRankMassMatrixStrategy) -> Seq<Sample> {
    Seq::new(s.draws@.len(), |i: int| Sample { draw: reals_of(s.draws@[i]@), grad: reals_of(s.grads@[i]@) })
}
/// [C09.1] invariant: both deques have the same length and the split point lies inside
pub open spec fn lr_wf<M: Math>(s: LowRankMassMatrixStrategy) -> bool {
    &&& s.draws@.len() == s.grads@.len()
    &&& s.background_split <= s.draws@.len()
    &&& s.ndim as nat == M::dim_s()
}
/// [C09.1] the foreground window is the whole deque, the background window its part from `background_split` on
pub open spec fn lr_repr<M: Math>(s: LowRankMassMatrixStrategy, fg: Seq<Sample>, bg: Seq<Sample>) -> bool {
    &&& lr_wf::<M>(s)
    &&& fg =~= lr_fg(s)
    &&& bg =~= lr_fg(s).subrange(s.background_split as int, s.draws@.len() as int)
}
