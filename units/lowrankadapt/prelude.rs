// Prelude of unit `lowrankadapt` (model R): the estimator façade shared with unit `diagadapt`
// (same trait text) plus the façade of the low-rank transformation and of the faer pipeline.
//@include ../diagadapt/facade.rs
use std::collections::VecDeque;     // specified by vstd (view: Seq<T>; push_back, pop_front, len, clear, with_capacity)

// ---- LowRankMassMatrix façade (A-faer). Only the version counter is modelled; `content` stands
// for (diag, inner, logdet).
pub struct LowRankMassMatrix<M: Math> { pub id: i64, pub content: Ghost<Seq<real>>, pub _m: PhantomData<M> }
impl<M: Math> Transformation<M> for LowRankMassMatrix<M> {
    open spec fn view(&self) -> TransView { TransView { id: self.id as int, params: self.content@ } }
}
impl<M: Math> LowRankMassMatrix<M> {
    /// façade of `Transformation::transformation_id` for LowRankMassMatrix (transform/low_rank.rs: returns `self.id`)
    pub fn transformation_id(&self, math: &mut M) -> (r: i64) ensures r == self.id { self.id }
    /// transform/low_rank.rs:143-156: resets `inner`, runs DiagMassMatrix::update_diag_grad, `self.id += 1`
    #[verifier::external_body]
    pub fn update_from_grad(&mut self, math: &mut M, pos: &M::Vector, grad: &M::Vector, fill_invalid: F, clamp: (F, F))
        requires old(self).id < i64::MAX, clamp.0.r() <= clamp.1.r()
        ensures final(self).id == old(self).id + 1,
    { unimplemented!() }
}
impl LowRankMassMatrixStrategy {
    /// A-faer: weakest true contract of `LowRankMassMatrixStrategy::update` (adapt/low_rank.rs:53-71) followed by
    /// `LowRankMassMatrix::update` (transform/low_rank.rs:164-191): EITHER the matrix is left untouched
    /// (`compute_update` returned None: failed SVD / eigendecomposition; or a non-finite stds/mean/vals/vecs
    /// was rejected) OR it is replaced and `id` is bumped by exactly one. The `assert!(self.grads.len() == ndraws)`
    /// at its head is a precondition. What the new matrix is (low-rank exactness) is NOT decided.
    #[verifier::external_body]
    pub fn update<M: Math>(&self, math: &mut M, matrix: &mut LowRankMassMatrix<M>)
        requires self.draws@.len() == self.grads@.len(), old(matrix).id < i64::MAX
        ensures *final(matrix) == *old(matrix) || final(matrix).id == old(matrix).id + 1,
    { unimplemented!() }
}
