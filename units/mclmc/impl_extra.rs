    // ghost items spliced into `impl Chain<M> for MclmcChain<M, R, A, T>` (rule R1: contracts)
    open spec fn draw_pre(&self) -> bool { mc_draw_pre(*self) }
    open spec fn draw_post(&self, post: &Self, r: Result<(Box<[F]>, Progress)>) -> bool { mc_draw_post(*self, *post, r) }
    open spec fn expanded_draw_pre(&self) -> bool { mc_exp_pre(*self) }
    open spec fn expanded_draw_post(&self, post: &Self, r: Result<(Box<[F]>, M::ExpandedVector, Self::Stats, Progress)>) -> bool { mc_exp_post(*self, *post, r) }
