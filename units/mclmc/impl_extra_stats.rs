    // ghost items spliced into `impl SamplerStats<M> for MclmcChain<M, R, A, T>`
    open spec fn stats_pre(&self, dim: nat, opt: Self::StatsOptions) -> bool { mc_stats_pre(*self, dim, opt) }
    open spec fn stats_post(&self, dim: nat, opt: Self::StatsOptions, r: Self::Stats) -> bool { mc_stats_post(*self, dim, opt, r) }
