// =====================================================================================
// Specification vocabulary for the MCLMC chain driver (C18.1-C18.3, C05.6, C06.3), written from the
// property text
// =====================================================================================

pub open spec fn pow2(n: nat) -> int decreases n { if n == 0 { 1 } else { 2 * pow2((n - 1) as nat) } }
pub proof fn lemma_pow2_pos(n: nat) ensures pow2(n) >= 1 decreases n { if n > 0 { lemma_pow2_pos((n - 1) as nat); } }
pub proof fn lemma_pow2_step(n: nat) ensures pow2(n + 1) == 2 * pow2(n) { }
pub proof fn lemma_pow2_le_1024(n: nat) requires n <= 10 ensures 1 <= pow2(n) <= 1024 decreases 10 - n {
    if n < 10 { lemma_pow2_le_1024(n + 1); lemma_pow2_step(n); } else { assert(pow2(10) == 1024) by(compute); }
}

pub open spec fn b2n(b: bool) -> int { if b { 1 } else { 0 } }

/// number of full momentum resamples (`initialize_trajectory(.., resample = true, ..)`) recorded in an rng log
pub open spec fn momenta(l: Seq<RngEv>) -> nat decreases l.len() {
    if l.len() == 0 { 0 } else { momenta(l.drop_last()) + (if l.last() is Momentum { 1nat } else { 0nat }) }
}
pub proof fn lemma_momenta_push(l: Seq<RngEv>, e: RngEv)
    ensures momenta(l.push(e)) == momenta(l) + (if e is Momentum { 1nat } else { 0nat })
{
    assert(l.push(e).drop_last() =~= l);
}

/// position, gradient and log-density of a state (everything of the draw that is not momentum)
pub open spec fn same_position(a: StateView, b: StateView) -> bool { a.x == b.x && a.g == b.g && a.logp == b.logp }

/// what the integrator methods never write: step size, decoherence length L, kinetic-energy kind
pub open spec fn ham_frame<M: Math, T: Transformation<M>>(a: TransformedHamiltonian<M, T>, b: TransformedHamiltonian<M, T>) -> bool {
    a.step_size == b.step_size && a.momentum_decoherence_length == b.momentum_decoherence_length
        && a.kinetic_energy_kind == b.kinetic_energy_kind
}

// ---- C18.1: number of base steps of a draw -------------------------------------------------------
/// the cap the code puts on the step count; beyond it NOTHING is claimed (domain precondition)
pub spec const NBS_CAP: int = 1_000_000;
/// max(1, round(f * L / eps)) -- the property's formula; 1 when the refresh is disabled (L = None)
pub open spec fn nbs_r(f: real, l: Option<F>, eps: real) -> real {
    match l { Some(len) => max_r(round_r(f * len.r() / eps), 1real), None => 1real }
}
/// domain precondition of C18.1, as coded: the ratio is finite (eps != 0 in model R) and at most 10^6
pub open spec fn nbs_dom(f: real, l: Option<F>, eps: real) -> bool {
    match l { Some(len) => eps != 0real && f * len.r() / eps <= i2r(NBS_CAP), None => true }
}
/// contract of the closure that computes the step count from L (opaque: revealed in the two lemmas below)
#[verifier::opaque]
pub open spec fn nbs_closure_post(f: real, len: real, eps: real, q: Result<u64>) -> bool {
    (eps != 0real && f * len / eps <= i2r(NBS_CAP)) ==>
        q is Ok && 1 <= q->Ok_0 <= NBS_CAP && i2r(q->Ok_0 as int) == max_r(round_r(f * len / eps), 1real)
}
/// round(x).max(1).min(1e6) for x <= 10^6 is the integer max(1, round(x)); returns that integer
pub proof fn lemma_nbs_val(x: real, y: real) -> (i: int)
    requires x <= i2r(NBS_CAP), y == min_r(max_r(round_r(x), 1real), 1000000real)
    ensures 1 <= i <= NBS_CAP, y == i2r(i), y == max_r(round_r(x), 1real)
{
    ax_round(x);
    let k = choose|k: int| round_r(x) == i2r(k);
    assert(i2r(k) <= x + 0.5real);
    assert(k <= NBS_CAP);
    if k >= 1 { k } else { 1 }
}
/// the closure body: whatever `num_steps as u64` returns for y = round(f L / eps).max(1).min(1e6) meets the contract
pub proof fn lemma_nbs_closure(f: real, len: real, eps: real, y: real)
    requires y == min_r(max_r(round_r(f * len / eps), 1real), 1000000real)
    ensures forall|o: u64| #[trigger] f_to_u64_ok(y, o) ==> nbs_closure_post(f, len, eps, Ok(o))
{
    reveal(nbs_closure_post);
    let x = f * len / eps;
    if eps != 0real && x <= i2r(NBS_CAP) {
        let i = lemma_nbs_val(x, y);
        assert forall|o: u64| #[trigger] f_to_u64_ok(y, o) implies nbs_closure_post(f, len, eps, Ok(o)) by {
            assert(i2r(o as int) <= i2r(i) && i2r(i) < i2r(o as int) + 1real);
            assert(o as int == i);
        }
    }
}
/// what `.map(closure).unwrap_or(Ok(1))?` leaves in num_base_steps, inside the domain of C18.1
pub proof fn lemma_nbs_result(f: real, l: Option<F>, eps: real, n: u64)
    requires
        nbs_dom(f, l, eps),
        l is Some ==> nbs_closure_post(f, l->0.r(), eps, Ok(n)),
        l is None ==> n == 1,
    ensures 1 <= n <= NBS_CAP, i2r(n as int) == nbs_r(f, l, eps)
{
    reveal(nbs_closure_post);
}
/// r * p == p + (r - 1) * p
pub proof fn lemma_peel(r: int, p: int) ensures r * p == p + (r - 1) * p {
    assert(r * p == p + (r - 1) * p) by(nonlinear_arith);
}

// ---- C18.1: the halving stack --------------------------------------------------------------------
pub spec const MAXH: int = 10;
pub spec const SCALE: int = 1024;   // 2^MAXH: work is counted in units of 2^-10 base steps
/// every entry of the stack is >= 1 (named so that the quantifier has a stable trigger)
pub open spec fn entry_ok(s: Seq<u64>, j: int) -> bool { s[j] >= 1 }
pub open spec fn stack_ok(s: Seq<u64>) -> bool { forall|j: int| 0 <= j < s.len() ==> #[trigger] entry_ok(s, j) }
/// work still owed by the suspended levels: entry j was pushed at depth j (factor 2^-j) and stands for
/// (entry - 1) further steps of that size once the retry below it has succeeded
pub open spec fn swork(s: Seq<u64>) -> int decreases s.len() {
    if s.len() == 0 { 0 } else { swork(s.drop_last()) + (s.last() - 1) * pow2((MAXH - (s.len() - 1)) as nat) }
}
pub proof fn lemma_swork_push(s: Seq<u64>, r: u64)
    requires s.len() < MAXH
    ensures swork(s.push(r)) == swork(s) + (r - 1) * pow2((MAXH - s.len()) as nat)
{
    assert(s.push(r).drop_last() =~= s);
}
pub proof fn lemma_swork_pop(s: Seq<u64>)
    requires 0 < s.len() <= MAXH
    ensures swork(s) == swork(s.drop_last()) + (s.last() - 1) * pow2((MAXH - (s.len() - 1)) as nat)
{ }
pub proof fn lemma_swork_nonneg(s: Seq<u64>)
    requires stack_ok(s), s.len() <= MAXH
    ensures swork(s) >= 0
    decreases s.len()
{
    if s.len() > 0 {
        let t = s.drop_last();
        assert forall|j: int| 0 <= j < t.len() implies entry_ok(t, j) by { assert(entry_ok(s, j)); }
        lemma_swork_nonneg(t);
        assert(entry_ok(s, s.len() - 1));
        lemma_pow2_pos((MAXH - (s.len() - 1)) as nat);
        assert((s.last() - 1) * pow2((MAXH - (s.len() - 1)) as nat) >= 0) by(nonlinear_arith)
            requires s.last() - 1 >= 0, pow2((MAXH - (s.len() - 1)) as nat) >= 1;
    }
}
pub proof fn lemma_stack_push(s: Seq<u64>, r: u64)
    requires stack_ok(s), r >= 1
    ensures stack_ok(s.push(r))
{
    let t = s.push(r);
    assert forall|j: int| 0 <= j < t.len() implies entry_ok(t, j) by { if j < s.len() { assert(entry_ok(s, j)); } }
}
pub proof fn lemma_stack_pop(s: Seq<u64>)
    requires stack_ok(s), s.len() > 0
    ensures stack_ok(s.drop_last()), s.last() >= 1
{
    let t = s.drop_last();
    assert forall|j: int| 0 <= j < t.len() implies entry_ok(t, j) by { assert(entry_ok(s, j)); }
    assert(entry_ok(s, s.len() - 1));
}

/// [C18.1] conservation of work (integers, scaled by 2^10): time already integrated + steps left at the
/// current size + work owed by the suspended levels == num_base_steps.
/// (opaque: the products are kept away from the solver inside the 200-line kernel; the lemmas below reveal it)
#[verifier::opaque]
pub open spec fn work_conserved(tdone: int, remaining: u64, stack: Seq<u64>, nbs: int) -> bool {
    tdone + remaining * pow2((MAXH - stack.len()) as nat) + swork(stack) == nbs * SCALE
}
pub proof fn lemma_work_init(nbs: int, rem: u64, st: Seq<u64>)
    requires rem == nbs, st.len() == 0
    ensures work_conserved(0, rem, st, nbs)
{
    reveal(work_conserved);
    assert(pow2(10) == 1024) by(compute);
    assert(swork(st) == 0);
}
/// a successful step at depth |st| integrates p = 2^(10-|st|) units and uses up one of the remaining steps
pub proof fn lemma_work_ok_step(tdone: int, rem: u64, st: Seq<u64>, nbs: int) -> (p: int)
    requires work_conserved(tdone, rem, st, nbs), rem >= 1, stack_ok(st), st.len() <= MAXH
    ensures
        p == pow2((MAXH - st.len()) as nat), 1 <= p <= SCALE, st.len() == 0 ==> p == SCALE,
        work_conserved(tdone + p, (rem - 1) as u64, st, nbs), tdone + p <= nbs * SCALE,
{
    reveal(work_conserved);
    let p = pow2((MAXH - st.len()) as nat);
    lemma_pow2_le_1024((MAXH - st.len()) as nat);
    if st.len() == 0 { assert(pow2(10) == 1024) by(compute); }
    lemma_swork_nonneg(st);
    lemma_peel(rem as int, p);
    assert((rem - 1) * p >= 0) by(nonlinear_arith) requires rem - 1 >= 0, p >= 1;
    p
}
/// a divergence at depth |st| < 10: the failed step is replaced by two steps of half the size
pub proof fn lemma_work_push(tdone: int, rem: u64, st: Seq<u64>, nbs: int)
    requires work_conserved(tdone, rem, st, nbs), st.len() < MAXH, stack_ok(st), rem >= 1
    ensures work_conserved(tdone, 2, st.push(rem), nbs), stack_ok(st.push(rem))
{
    reveal(work_conserved);
    lemma_stack_push(st, rem);
    lemma_swork_push(st, rem);
    lemma_pow2_step((MAXH - st.len() - 1) as nat);
    lemma_peel(rem as int, pow2((MAXH - st.len()) as nat));
}
/// both half steps done: back to the suspended level, whose failed step now counts as done
pub proof fn lemma_work_pop(tdone: int, st: Seq<u64>, nbs: int)
    requires work_conserved(tdone, 0, st, nbs), 0 < st.len() <= MAXH, stack_ok(st)
    ensures st.last() >= 1, work_conserved(tdone, (st.last() - 1) as u64, st.drop_last(), nbs), stack_ok(st.drop_last())
{
    reveal(work_conserved);
    lemma_stack_pop(st);
    lemma_swork_pop(st);
}
pub proof fn lemma_work_done(tdone: int, st: Seq<u64>, nbs: int)
    requires work_conserved(tdone, 0, st, nbs), st.len() == 0
    ensures tdone == nbs * SCALE
{
    reveal(work_conserved);
    assert(swork(st) == 0);
}

/// factor == 2^-d  (d = depth of the halving stack)
#[verifier::opaque]
pub open spec fn factor_inv(factor: real, d: nat) -> bool { factor * 1024real == i2r(pow2((MAXH - d) as nat)) }
pub proof fn lemma_factor_init() ensures factor_inv(1real, 0) {
    reveal(factor_inv); assert(pow2(10) == 1024) by(compute);
}
pub proof fn lemma_factor_one(f: real) requires factor_inv(f, 0) ensures f == 1real {
    reveal(factor_inv); assert(pow2(10) == 1024) by(compute);
}
pub proof fn lemma_factor_half(f: real, d: nat) requires factor_inv(f, d), d < MAXH ensures factor_inv(f * 0.5real, d + 1) {
    reveal(factor_inv); lemma_pow2_step((MAXH - d - 1) as nat);
}
pub proof fn lemma_factor_double(f: real, d: nat) requires factor_inv(f, d), 0 < d <= MAXH ensures factor_inv(f * 2real, (d - 1) as nat) {
    reveal(factor_inv); lemma_pow2_step((MAXH - d) as nat);
}

/// time == tdone / 1024 * eps
#[verifier::opaque]
pub open spec fn time_inv(time: real, tdone: int, eps: real) -> bool { time * 1024real == i2r(tdone) * eps }
pub proof fn lemma_time_init(eps: real) ensures time_inv(0real, 0, eps) {
    reveal(time_inv); assert(i2r(0) * eps == 0real) by(nonlinear_arith);
}
/// one successful step of size factor*eps at depth d advances the integrated time by 2^(10-d)/1024 base steps
pub proof fn lemma_time_step(time: real, factor: real, eps: real, tdone: int, d: nat)
    requires time_inv(time, tdone, eps), factor_inv(factor, d)
    ensures time_inv(time + factor * eps, tdone + pow2((MAXH - d) as nat), eps)
{
    reveal(time_inv); reveal(factor_inv);
    let p = pow2((MAXH - d) as nat);
    assert((time + factor * eps) * 1024real == time * 1024real + (factor * 1024real) * eps) by(nonlinear_arith);
    assert(i2r(tdone + p) * eps == i2r(tdone) * eps + i2r(p) * eps) by(nonlinear_arith);
}
/// [C18.1] total integrated time of a draw, stated through its average step size:
/// average_step_size * num_steps == num_base_steps * eps
#[verifier::opaque]
pub open spec fn total_time_is(avg: real, steps: int, nbs: real, eps: real) -> bool { avg * i2r(steps) == nbs * eps }
/// at the end of a draw that did not diverge the integrated time is num_base_steps * eps
pub proof fn lemma_time_total(time: real, eps: real, nbs: int, steps: int, avg: real)
    requires time_inv(time, nbs * SCALE, eps), steps >= 1, avg == time / i2r(steps)
    ensures time == i2r(nbs) * eps, total_time_is(avg, steps, i2r(nbs), eps), steps == nbs ==> avg == eps
{
    reveal(time_inv); reveal(total_time_is);
    assert(i2r(nbs * SCALE) == i2r(nbs) * 1024real) by(nonlinear_arith);
    assert(time == i2r(nbs) * eps) by(nonlinear_arith) requires time * 1024real == (i2r(nbs) * 1024real) * eps;
    lemma_div_cancel(time, i2r(steps));
    if steps == nbs { lemma_div_cancel(eps, i2r(steps)); assert(i2r(steps) * eps == eps * i2r(steps)) by(nonlinear_arith); }
}

// ---- contract of mclmc_kernel (C18.1, C18.2, C05.6) -----------------------------------------------
pub open spec fn kernel_pre<M: Math, R: rand::Rng, A: AdaptStrategy<M, Hamiltonian = TransformedHamiltonian<M, T>>, T: Transformation<M>>(c: MclmcChain<M, R, A, T>) -> bool {
    nbs_dom(c.subsample_frequency.r(), c.hamiltonian.momentum_decoherence_length, c.hamiltonian.step_size.r())
}
/// everything of the chain that the kernel must leave alone
pub open spec fn kernel_frame<M: Math, R: rand::Rng, A: AdaptStrategy<M, Hamiltonian = TransformedHamiltonian<M, T>>, T: Transformation<M>>(c0: MclmcChain<M, R, A, T>, c1: MclmcChain<M, R, A, T>) -> bool {
    &&& ham_frame(c0.hamiltonian, c1.hamiltonian)
    &&& c1.adapt == c0.adapt && c1.state == c0.state
    &&& c1.chain == c0.chain && c1.draw_count == c0.draw_count
    &&& c1.subsample_frequency == c0.subsample_frequency && c1.dynamic_step_size == c0.dynamic_step_size
    &&& c1.trajectory_kind == c0.trajectory_kind && c1.switch_draw == c0.switch_draw
    &&& c1.max_energy_error == c0.max_energy_error && c1.last_info == c0.last_info
    &&& c1.stats_options == c0.stats_options
}
/// leapfrogs that were attempted but did not produce a step of this draw (= divergent leapfrogs)
pub open spec fn failed_steps(lf0: nat, lf1: nat, info: MclmcInfo) -> int { lf1 - lf0 - info.num_steps }

/// [C18.1] step accounting of a draw; `nd` = number of divergent leapfrogs, `nbs` = max(1, round(f L / eps))
pub open spec fn steps_post(nd: int, nbs: real, eps: real, dynamic: bool, info: MclmcInfo) -> bool {
    &&& nd >= 0
    // no leapfrog diverged: exactly num_base_steps steps, all of full size
    &&& (nd == 0 ==> !info.diverging && i2r(info.num_steps as int) == nbs && info.average_step_size.r() == eps)
    // with retries: at least num_base_steps steps, and the integrated time is exactly num_base_steps * eps
    &&& (!info.diverging ==> i2r(info.num_steps as int) >= nbs && info.num_steps >= 1
            && total_time_is(info.average_step_size.r(), info.num_steps as int, nbs, eps))
    // without dynamic_step_size the first divergence ends the draw
    &&& (!dynamic ==> nd == b2n(info.diverging))
    // [C05.6] with it, a draw is given up only after MAXH nested halvings have all failed
    &&& (dynamic && info.diverging ==> nd >= MAXH + 1)
}
/// [C18.2 C05.6] a divergent draw returns the pre-trajectory state with a fresh momentum
pub open spec fn diverged_post(s0: StateView, s: StateView, log1: Seq<RngEv>, info: MclmcInfo) -> bool {
    &&& info.diverging == (info.divergence_info is Some)
    &&& (info.diverging ==> {
            &&& same_position(s, s0)                       // position (and gradient, logp) unchanged
            &&& s.idx == 0 && s.e0 == s.energy             // a freshly initialised trajectory start
            &&& log1.len() > 0 && log1.last() == RngEv::Momentum   // the last random event is the full resample
        })
    &&& (!info.diverging ==> s.idx == info.num_steps)      // otherwise: the end of a trajectory of num_steps steps
}
/// [C18.1 C05.6] step accounting of the kernel, on the chain before / after
pub open spec fn kernel_steps_post<M: Math, R: rand::Rng, A: AdaptStrategy<M, Hamiltonian = TransformedHamiltonian<M, T>>, T: Transformation<M>>(c0: MclmcChain<M, R, A, T>, c1: MclmcChain<M, R, A, T>, info: MclmcInfo) -> bool {
    steps_post(failed_steps(c0.collector.leapfrogs(), c1.collector.leapfrogs(), info),
               nbs_r(c0.subsample_frequency.r(), c0.hamiltonian.momentum_decoherence_length, c0.hamiltonian.step_size.r()),
               c0.hamiltonian.step_size.r(), c0.dynamic_step_size, info)
}
/// [C18.2 C18.3] full momentum resamples of this draw: the requested one at the start, and one after a divergence
pub open spec fn kernel_mom_post<M: Math, R: rand::Rng, A: AdaptStrategy<M, Hamiltonian = TransformedHamiltonian<M, T>>, T: Transformation<M>>(c0: MclmcChain<M, R, A, T>, c1: MclmcChain<M, R, A, T>, resample: bool, info: MclmcInfo) -> bool {
    momenta(c1.rng.log()) == momenta(c0.rng.log()) + b2n(resample) + b2n(info.diverging)
}
/// exactly one state is handed to the adaptation collector; without divergence it is the returned one
pub open spec fn kernel_coll_post<M: Math, R: rand::Rng, A: AdaptStrategy<M, Hamiltonian = TransformedHamiltonian<M, T>>, T: Transformation<M>>(c0: MclmcChain<M, R, A, T>, c1: MclmcChain<M, R, A, T>, s: StateView, info: MclmcInfo) -> bool {
    &&& c1.collector.draws().len() == c0.collector.draws().len() + 1
    &&& (!info.diverging ==> c1.collector.draws().last() == s)
}

// ---- contract of MclmcChain::draw (C18.3, C06.3, and what it hands on from the kernel) ------------
/// [C18.3] this draw performs the Euclidean -> Microcanonical switch
pub open spec fn switch_now<M: Math, R: rand::Rng, A: AdaptStrategy<M, Hamiltonian = TransformedHamiltonian<M, T>>, T: Transformation<M>>(c: MclmcChain<M, R, A, T>) -> bool {
    c.trajectory_kind == MclmcTrajectoryKind::EuclideanEarlyThenMicrocanonical
        && c.draw_count == c.switch_draw
        && c.hamiltonian.kinetic_energy_kind != KineticEnergyKind::Microcanonical
}
/// chain invariant behind C06.3: before draw k the strategy still says "tuning" iff k <= num_tune
/// (true initially: GlobalStrategy::new sets tuning = true, draw_count = 0)
pub open spec fn tune_inv<M: Math, R: rand::Rng, A: AdaptStrategy<M, Hamiltonian = TransformedHamiltonian<M, T>>, T: Transformation<M>>(c: MclmcChain<M, R, A, T>) -> bool {
    c.adapt.tuning_view() == (c.draw_count <= c.adapt.num_tune_view())
}
pub open spec fn mc_draw_pre<M: Math, R: rand::Rng, A: AdaptStrategy<M, Hamiltonian = TransformedHamiltonian<M, T>>, T: Transformation<M>>(c: MclmcChain<M, R, A, T>) -> bool {
    &&& kernel_pre(c)
    &&& c.adapt.inv(c.draw_count) && c.draw_count < 0xffff_ffff_ffff_fff0
    &&& tune_inv(c)
}
/// configuration never touched by a draw
pub open spec fn dp_frame<M: Math, R: rand::Rng, A: AdaptStrategy<M, Hamiltonian = TransformedHamiltonian<M, T>>, T: Transformation<M>>(c0: MclmcChain<M, R, A, T>, c1: MclmcChain<M, R, A, T>) -> bool {
    &&& c1.chain == c0.chain && c1.subsample_frequency == c0.subsample_frequency
    &&& c1.dynamic_step_size == c0.dynamic_step_size && c1.max_energy_error == c0.max_energy_error
    &&& c1.trajectory_kind == c0.trajectory_kind && c1.switch_draw == c0.switch_draw
    &&& c1.adapt.num_tune_view() == c0.adapt.num_tune_view()
    // [C16.1] the statistics options (the transformation id reported last) change only in expanded_draw
    &&& c1.stats_options == c0.stats_options
}
/// [C18.3] one-step contract of the trajectory switch: the kind becomes Microcanonical exactly in the draw
/// with draw_count == switch_draw of an EuclideanEarlyThenMicrocanonical chain, and is otherwise unchanged
pub open spec fn dp_switch<M: Math, R: rand::Rng, A: AdaptStrategy<M, Hamiltonian = TransformedHamiltonian<M, T>>, T: Transformation<M>>(c0: MclmcChain<M, R, A, T>, c1: MclmcChain<M, R, A, T>) -> bool {
    c1.hamiltonian.kinetic_energy_kind ==
        (if switch_now(c0) { KineticEnergyKind::Microcanonical } else { c0.hamiltonian.kinetic_energy_kind })
}
/// [C06.3] the flag handed to the caller is the strategy's flag AFTER adapt(), i.e. draw index < num_tune
pub open spec fn dp_tuning<M: Math, R: rand::Rng, A: AdaptStrategy<M, Hamiltonian = TransformedHamiltonian<M, T>>, T: Transformation<M>>(c0: MclmcChain<M, R, A, T>, c1: MclmcChain<M, R, A, T>, p: Progress) -> bool {
    &&& p.tuning == c1.adapt.tuning_view()
    &&& p.tuning == (c0.draw_count < c0.adapt.num_tune_view())
    &&& tune_inv(c1)
}
/// [C18.1 C18.2 C05.6] what the caller sees of the kernel's result
pub open spec fn dp_steps<M: Math, R: rand::Rng, A: AdaptStrategy<M, Hamiltonian = TransformedHamiltonian<M, T>>, T: Transformation<M>>(c0: MclmcChain<M, R, A, T>, c1: MclmcChain<M, R, A, T>, p: Progress) -> bool {
    let eps = c0.hamiltonian.step_size.r();
    let nbs = nbs_r(c0.subsample_frequency.r(), c0.hamiltonian.momentum_decoherence_length, eps);
    &&& c1.last_info is Some
    &&& p.draw == c0.draw_count && p.chain == c0.chain && c1.draw_count == c0.draw_count + 1
    &&& p.diverging == c1.last_info->0.diverging && p.num_steps == c1.last_info->0.num_steps
    // [C16.1] the flag and the divergence details of a draw go together (the statistics are built from the details)
    &&& c1.last_info->0.diverging == (c1.last_info->0.divergence_info is Some)
    &&& (!p.diverging ==> i2r(p.num_steps as int) >= nbs
            && total_time_is(c1.last_info->0.average_step_size.r(), p.num_steps as int, nbs, eps)
            && c1.state.view().idx == p.num_steps)
    &&& (p.diverging ==> same_position(c1.state.view(), c0.state.view())
            && c1.state.view().idx == 0 && c1.state.view().e0 == c1.state.view().energy)
    &&& (!c0.dynamic_step_size && !p.diverging ==> i2r(p.num_steps as int) == nbs)
}
/// [C18.1] the step size handed to the caller is the eps in force for this draw (the one num_steps refers to),
/// not the one adapt() has just chosen for the next draw
pub open spec fn dp_stepsize<M: Math, R: rand::Rng, A: AdaptStrategy<M, Hamiltonian = TransformedHamiltonian<M, T>>, T: Transformation<M>>(c0: MclmcChain<M, R, A, T>, p: Progress) -> bool {
    p.step_size.r() == c0.hamiltonian.step_size.r()
}
pub open spec fn mc_draw_post<M: Math, R: rand::Rng, A: AdaptStrategy<M, Hamiltonian = TransformedHamiltonian<M, T>>, T: Transformation<M>>(
    c0: MclmcChain<M, R, A, T>, c1: MclmcChain<M, R, A, T>, r: Result<(Box<[F]>, Progress)>) -> bool
{
    &&& dp_frame(c0, c1)
    &&& dp_switch(c0, c1)
    &&& (r is Ok ==> dp_tuning(c0, c1, r->Ok_0.1) && dp_steps(c0, c1, r->Ok_0.1) && dp_stepsize(c0, r->Ok_0.1)
            && c1.adapt.inv(c1.draw_count))
}

// ---- inductive lemmas over draw indices -----------------------------------------------------------
/// what the lemmas need of a chain between two draws
pub struct ChainView {
    pub draw_count: int, pub tkind: MclmcTrajectoryKind, pub switch_draw: int, pub hkind: KineticEnergyKind,
    pub tuning: bool, pub num_tune: int,
}
/// one successful draw, as mc_draw_post states it (dp_frame, dp_switch, dp_tuning, dp_steps), on views;
/// `resampled` is the flag passed to the kernel, `reported` is Progress.tuning
pub open spec fn draw_step(a: ChainView, b: ChainView, resampled: bool, reported: bool) -> bool {
    let sw = a.tkind == MclmcTrajectoryKind::EuclideanEarlyThenMicrocanonical && a.draw_count == a.switch_draw
        && a.hkind != KineticEnergyKind::Microcanonical;
    &&& b.draw_count == a.draw_count + 1 && b.tkind == a.tkind && b.switch_draw == a.switch_draw && b.num_tune == a.num_tune
    &&& b.hkind == (if sw { KineticEnergyKind::Microcanonical } else { a.hkind })
    &&& resampled == sw
    &&& b.tuning == (a.tuning && a.draw_count < a.num_tune)
    &&& reported == b.tuning
}
/// the view of a concrete chain
pub open spec fn chain_view<M: Math, R: rand::Rng, A: AdaptStrategy<M, Hamiltonian = TransformedHamiltonian<M, T>>, T: Transformation<M>>(c: MclmcChain<M, R, A, T>) -> ChainView {
    ChainView { draw_count: c.draw_count as int, tkind: c.trajectory_kind, switch_draw: c.switch_draw as int,
                hkind: c.hamiltonian.kinetic_energy_kind, tuning: c.adapt.tuning_view(), num_tune: c.adapt.num_tune_view() as int }
}
/// the contract proved for `MclmcChain::draw` (mc_draw_post, plus the [C18.3] assertion on the flag passed to
/// the kernel) is the step relation the inductive lemmas below are about
// [C18.3 C06.3]
pub proof fn lemma_post_is_step<M: Math, R: rand::Rng, A: AdaptStrategy<M, Hamiltonian = TransformedHamiltonian<M, T>>, T: Transformation<M>>(
    c0: MclmcChain<M, R, A, T>, c1: MclmcChain<M, R, A, T>, r: Result<(Box<[F]>, Progress)>)
    requires mc_draw_pre(c0), mc_draw_post(c0, c1, r), r is Ok
    ensures draw_step(chain_view(c0), chain_view(c1), switch_now(c0), r->Ok_0.1.tuning)
{
}
/// a run of n draws from a fresh chain: tr[i] is the chain before draw i
pub open spec fn is_run(tr: Seq<ChainView>, res: Seq<bool>, rep: Seq<bool>) -> bool {
    &&& tr.len() == res.len() + 1 && rep.len() == res.len()
    &&& tr[0].draw_count == 0
    &&& forall|i: int| 0 <= i < res.len() ==> #[trigger] draw_step(tr[i], tr[i + 1], res[i], rep[i])
}
pub proof fn lemma_run_step(tr: Seq<ChainView>, res: Seq<bool>, rep: Seq<bool>, j: int)
    requires is_run(tr, res, rep), 0 <= j < res.len()
    ensures draw_step(tr[j], tr[j + 1], res[j], rep[j])
{ }
/// [C18.3] for an EuclideanEarlyThenMicrocanonical chain started with the Euclidean kind: the kind in force
/// DURING draw i (after the switch test) is Microcanonical iff i >= switch_draw; the momentum is fully
/// resampled at the start of draw i iff i == switch_draw; the kind never changes back
// [C18.3]
pub proof fn lemma_switch_once(tr: Seq<ChainView>, res: Seq<bool>, rep: Seq<bool>, i: int)
    requires
        is_run(tr, res, rep), 0 <= i < res.len(),
        tr[0].tkind == MclmcTrajectoryKind::EuclideanEarlyThenMicrocanonical,
        tr[0].hkind == KineticEnergyKind::Euclidean, tr[0].switch_draw >= 0,
    ensures
        tr[i].draw_count == i, tr[i].tkind == tr[0].tkind, tr[i].switch_draw == tr[0].switch_draw,
        tr[i].hkind == (if i > tr[0].switch_draw { KineticEnergyKind::Microcanonical } else { KineticEnergyKind::Euclidean }),
        tr[i + 1].hkind == (if i >= tr[0].switch_draw { KineticEnergyKind::Microcanonical } else { KineticEnergyKind::Euclidean }),
        res[i] == (i == tr[0].switch_draw),
    decreases i
{
    if i > 0 { lemma_switch_once(tr, res, rep, i - 1); lemma_run_step(tr, res, rep, i - 1); assert(tr[i - 1 + 1] == tr[i]); }
    lemma_run_step(tr, res, rep, i);
}
/// [C18.3] the other two trajectory kinds never switch and never resample at the start of a draw
// [C18.3]
pub proof fn lemma_no_switch(tr: Seq<ChainView>, res: Seq<bool>, rep: Seq<bool>, i: int)
    requires
        is_run(tr, res, rep), 0 <= i < res.len(),
        tr[0].tkind != MclmcTrajectoryKind::EuclideanEarlyThenMicrocanonical,
    ensures tr[i].tkind == tr[0].tkind, tr[i + 1].hkind == tr[0].hkind, tr[i].hkind == tr[0].hkind, !res[i],
    decreases i
{
    if i > 0 { lemma_no_switch(tr, res, rep, i - 1); lemma_run_step(tr, res, rep, i - 1); assert(tr[i - 1 + 1] == tr[i]); }
    lemma_run_step(tr, res, rep, i);
}
/// [C06.3] exactly the first num_tune draws of a chain are reported as tuning
// [C06.3]
pub proof fn lemma_tuning_reported(tr: Seq<ChainView>, res: Seq<bool>, rep: Seq<bool>, i: int)
    requires is_run(tr, res, rep), 0 <= i < res.len(), tr[0].tuning, tr[0].num_tune >= 0,
    ensures
        tr[i].draw_count == i, tr[i].num_tune == tr[0].num_tune,
        tr[i].tuning == (i <= tr[0].num_tune),
        rep[i] == (i < tr[0].num_tune),
    decreases i
{
    if i > 0 { lemma_tuning_reported(tr, res, rep, i - 1); lemma_run_step(tr, res, rep, i - 1); assert(tr[i - 1 + 1] == tr[i]); }
    lemma_run_step(tr, res, rep, i);
}

// =====================================================================================
// Statistics plumbing of the MCLMC chain (C16.1, C16.2, C03.5): extract_stats / expanded_draw.
// Same structure as unit chain (nc_stats_* / ne_mid / nc_exp_*), written from the statement of C16.
// =====================================================================================

/// the part of unit stats' `div_stats_post` that does not look inside DivergenceInfo: the flag and the identifying
/// draw field follow `info` (SAME TEXT as unit chain)
pub open spec fn chain_div_post(info: Option<&DivergenceInfo>, opts: DivergenceStatsOptions, draw: u64, r: DivergenceStats) -> bool {
    &&& r.diverging == info is Some
    &&& r.divergence_draw == (if info is Some { Some(draw) } else { None::<u64> })
    &&& (r.divergence_message is Some == info is Some)
}
/// an optional per-draw vector: present IFF its store_* flag is set, with length dim and the content of the point's
/// vector (SAME TEXT as unit stats)
pub open spec fn flag_vec_field(flag: bool, dim: nat, content: Seq<real>, field: Option<Vec<F>>) -> bool {
    &&& (field is Some == flag)
    &&& (field is Some ==> field->0@.len() == dim && fvals(field->0@) == content)
}
/// [C16.1 C03.5] statistics of a point: scalars are those of the point, optional vectors follow their flags
/// (SAME TEXT as unit stats, where it is PROVED for `TransformedPoint::extract_stats`)
pub open spec fn point_stats_post<M: Math>(p: TransformedPoint<M>, dim: nat, opt: TransformedPointStatsOptions, r: PointStats) -> bool {
    let v = tp_view(p);
    &&& r.index_in_trajectory as int == v.idx          // [C03.5]
    &&& r.logp.r() == v.logp                           // [C03.5]
    &&& r.energy.r() == v.energy                       // [C03.5]
    &&& r.energy_error.r() == v.energy - v.e0          // [C03.5]
    &&& r.transformation_index == p.transform_id
    &&& flag_vec_field(opt.store_unconstrained, dim, v.x, r.unconstrained_draw)     // [C16.1 C03.5]
    &&& flag_vec_field(opt.store_gradient, dim, v.g, r.gradient)                    // [C16.1 C03.5]
    &&& flag_vec_field(opt.store_transformed, dim, v.q, r.transformed_position)     // [C16.1]
    &&& flag_vec_field(opt.store_transformed, dim, v.gq, r.transformed_gradient)    // [C16.1]
}

/// the statistics type of an MCLMC chain (`<MclmcChain<M, R, A, T> as SamplerStats<M>>::Stats`, normalised)
pub type McStats<M, A, T> = MclmcStats<StatsDims, HamiltonianStats<StatsDims, <T as SamplerStats<M>>::Stats>, <A as SamplerStats<M>>::Stats, PointStats>;

// ---- extract_stats ------------------------------------------------------------------------------------------
/// the `.expect("Sampler has not started yet")` is a stated precondition; the components' own preconditions are
/// passed on (TransformedPoint's is `true`)
pub open spec fn mc_stats_pre<M: Math, R: rand::Rng, A: AdaptStrategy<M, Hamiltonian = TransformedHamiltonian<M, T>>, T: Transformation<M>>(
    c: MclmcChain<M, R, A, T>, dim: nat, o: StatOptions<M, A>) -> bool
{
    &&& c.last_info is Some
    &&& c.hamiltonian.stats_pre(dim, o.hamiltonian)
    &&& c.adapt.stats_pre(dim, o.adapt)
}
/// [C03.5 C16.2] step count / energy change / step size / divergence from `last_info`, point statistics from
/// `self.state.point()`, `draw` = draw_count, `chain` = chain, `tuning` = the strategy's flag.
/// (`log_weight` is NOT specified: no property of the catalogue says what it is; see the report.)
pub open spec fn mc_stats_post<M: Math, R: rand::Rng, A: AdaptStrategy<M, Hamiltonian = TransformedHamiltonian<M, T>>, T: Transformation<M>>(
    c: MclmcChain<M, R, A, T>, dim: nat, o: StatOptions<M, A>, r: McStats<M, A, T>) -> bool
{
    let info = c.last_info->0;
    &&& r.chain == c.chain                                      // [C16.2]
    &&& r.draw == c.draw_count                                  // [C16.2]
    &&& r.num_steps == info.num_steps                           // [C03.5]
    &&& r.energy_change.r() == info.energy_change.r()           // [C03.5]
    &&& r.average_step_size.r() == info.average_step_size.r()   // [C03.5]
    &&& r.tuning == c.adapt.tuning_view()                       // [C06.3]
    // the components' statistics, extracted with the options handed in
    &&& c.hamiltonian.stats_post(dim, o.hamiltonian, r.hamiltonian)     // [C16.1]
    &&& c.adapt.stats_post(dim, o.adapt, r.adapt)
    // [C03.5] the point statistics are those of the chain's current state
    &&& c.state.pt().stats_post(dim, o.point, r.point)
    // [C03.5 C16.1] divergence statistics from last_info, stamped with draw_count
    &&& r.divergence.diverging == (info.divergence_info is Some)
    &&& r.divergence.divergence_draw == (if info.divergence_info is Some { Some(c.draw_count) } else { None::<u64> })
    &&& (r.divergence.divergence_message is Some == info.divergence_info is Some)
}

// ---- expanded_draw -------------------------------------------------------------------------------------------
/// extract_stats of the components is total (unit stats: TransformedPoint `true`; TransformedHamiltonian passes the
/// transformation's precondition on, DiagMassMatrix `true`; for GlobalStrategy it is `strat_wf(step_size)`, part of
/// gs_inv).  Same text as unit chain's `stats_total`, for the concrete Hamiltonian of MCLMC.
pub open spec fn mc_stats_total<M: Math, A: AdaptStrategy<M, Hamiltonian = TransformedHamiltonian<M, T>>, T: Transformation<M>>() -> bool {
    &&& forall|t: T, dim: nat, o: <T as SamplerStats<M>>::StatsOptions| #[trigger] t.stats_pre(dim, o)
    &&& forall|s: A, d: u64, dim: nat, o: <A as SamplerStats<M>>::StatsOptions| #![trigger s.inv(d), s.stats_pre(dim, o)] s.inv(d) ==> s.stats_pre(dim, o)
}
pub open spec fn mc_exp_pre<M: Math, R: rand::Rng, A: AdaptStrategy<M, Hamiltonian = TransformedHamiltonian<M, T>>, T: Transformation<M>>(c: MclmcChain<M, R, A, T>) -> bool {
    mc_draw_pre(c) && mc_stats_total::<M, A, T>()
}
/// what expanded_draw does after the draw (`mid` = the chain as `draw` left it):
///  * the statistics are those of `mid`, extracted with the options in force BEFORE the update (so `last_info` is Some:
///    the `.expect` cannot fire);
///  * then `stats_options.hamiltonian` becomes what `hamiltonian.update_stats_options(math, <old value>)` returns -- the
///    id the NEXT extraction compares with; nothing else of the chain changes
pub open spec fn me_mid<M: Math, R: rand::Rng, A: AdaptStrategy<M, Hamiltonian = TransformedHamiltonian<M, T>>, T: Transformation<M>>(
    c0: MclmcChain<M, R, A, T>, mid: MclmcChain<M, R, A, T>, c1: MclmcChain<M, R, A, T>,
    position: Box<[F]>, stats: McStats<M, A, T>, progress: Progress, dim: nat) -> bool
{
    &&& mc_draw_post(c0, mid, Ok((position, progress)))
    &&& mid.stats_options == c0.stats_options
    &&& mc_stats_post(mid, dim, mid.stats_options, stats)                                                  // [C16.1 C16.2 C03.5]
    // [C16.1] the id reported next time is compared with the one the Hamiltonian hands out now
    &&& mid.hamiltonian.uso_post(&c1.hamiltonian, mid.stats_options.hamiltonian, c1.stats_options.hamiltonian)   // [C16.1]
    &&& c1.stats_options.adapt == mid.stats_options.adapt && c1.stats_options.point == mid.stats_options.point
    &&& c1.stats_options.divergence == mid.stats_options.divergence
    &&& c1.adapt == mid.adapt && c1.state == mid.state && c1.last_info == mid.last_info
    &&& c1.draw_count == mid.draw_count && c1.chain == mid.chain && c1.collector == mid.collector
    &&& c1.subsample_frequency == mid.subsample_frequency && c1.dynamic_step_size == mid.dynamic_step_size
    &&& c1.trajectory_kind == mid.trajectory_kind && c1.switch_draw == mid.switch_draw
    &&& c1.max_energy_error == mid.max_energy_error
}
/// an error of `draw()` is the call's error (Ok only with a `mid` for which draw's contract holds with Ok); an error of
/// `expand_vector` likewise: the returned `M::ExpandedVector` can only come from that call (M is abstract)
pub open spec fn mc_exp_post<M: Math, R: rand::Rng, A: AdaptStrategy<M, Hamiltonian = TransformedHamiltonian<M, T>>, T: Transformation<M>>(
    c0: MclmcChain<M, R, A, T>, c1: MclmcChain<M, R, A, T>, r: Result<(Box<[F]>, M::ExpandedVector, McStats<M, A, T>, Progress)>) -> bool
{
    &&& c1.chain == c0.chain                                                                                // [C16.2]
    &&& (r is Ok ==> exists|mid: MclmcChain<M, R, A, T>, dim: nat| #[trigger] me_mid(c0, mid, c1, r->Ok_0.0, r->Ok_0.2, r->Ok_0.3, dim))
}

/// [C16.2] the `draw` statistic of the k-th expanded draw is the counter AFTER that draw (k+1) while Progress.draw is k;
/// both increase by one per draw; chain ids are constant.  [C16.1] divergence fields exactly on divergent draws, carrying
/// the same counter.  [C03.5] the step count in the statistics is the one of this draw.
// [C16.2 C16.1 C03.5]
pub proof fn lemma_mc_stats_counters<M: Math, R: rand::Rng, A: AdaptStrategy<M, Hamiltonian = TransformedHamiltonian<M, T>>, T: Transformation<M>>(
    c0: MclmcChain<M, R, A, T>, c1: MclmcChain<M, R, A, T>, r: Result<(Box<[F]>, M::ExpandedVector, McStats<M, A, T>, Progress)>)
    requires mc_exp_post(c0, c1, r), r is Ok
    ensures
        r->Ok_0.3.draw == c0.draw_count, r->Ok_0.2.draw == c0.draw_count + 1, c1.draw_count == c0.draw_count + 1,
        r->Ok_0.3.chain == c0.chain, r->Ok_0.2.chain == c0.chain, c1.chain == c0.chain,
        // [C16.1] the divergence event: exactly on divergent draws, with both identifying fields and the same counter
        r->Ok_0.2.divergence.diverging == r->Ok_0.3.diverging,
        r->Ok_0.2.divergence.divergence_draw is Some == r->Ok_0.3.diverging,
        r->Ok_0.2.divergence.divergence_message is Some == r->Ok_0.3.diverging,
        r->Ok_0.2.divergence.divergence_draw is Some ==> r->Ok_0.2.divergence.divergence_draw == Some(r->Ok_0.2.draw),
        // [C03.5] step count and tuning flag of THIS draw
        r->Ok_0.2.num_steps == r->Ok_0.3.num_steps,
        r->Ok_0.2.tuning == r->Ok_0.3.tuning,
        // the Hamiltonian is not changed by the options update; the options of the other components never change
        c1.stats_options.adapt == c0.stats_options.adapt, c1.stats_options.point == c0.stats_options.point,
        c1.stats_options.divergence == c0.stats_options.divergence,
{
    let (mid, dim) = choose|mid: MclmcChain<M, R, A, T>, dim: nat| #[trigger] me_mid(c0, mid, c1, r->Ok_0.0, r->Ok_0.2, r->Ok_0.3, dim);
    assert(me_mid(c0, mid, c1, r->Ok_0.0, r->Ok_0.2, r->Ok_0.3, dim));
}

/// the laws of a transformation's statistics that turn "options update after each extraction" into "an event exactly
/// when the transformation changed", stated through two observers (`opt_id`: the id stored in an options value;
/// `reports`: the statistics carry a transformation-update event).  For DiagMassMatrix both are PROVED in unit stats
/// (`nso_post`: `r == self.id`; `diag_stats_post`: `transformation_update_id is Some == (id != last_id)`), with
/// `opt_id = identity` and `reports = |s| s.transformation_update_id is Some`.
pub open spec fn upd_laws<M: Math, T: Transformation<M>>(
    opt_id: spec_fn(<T as SamplerStats<M>>::StatsOptions) -> int, reports: spec_fn(<T as SamplerStats<M>>::Stats) -> bool) -> bool
{
    &&& forall|t: T, cur: <T as SamplerStats<M>>::StatsOptions, r: <T as SamplerStats<M>>::StatsOptions|
            #[trigger] t.nso_post(cur, r) ==> opt_id(r) == t.tid()
    &&& forall|t: T, dim: nat, o: <T as SamplerStats<M>>::StatsOptions, s: <T as SamplerStats<M>>::Stats|
            #[trigger] t.stats_post(dim, o, s) ==> (reports(s) == (t.tid() != opt_id(o)))
}
/// [C16.1] two consecutive successful expanded draws: the SECOND one reports a transformation-update event exactly when
/// the transformation id at its extraction (c2.hamiltonian) differs from the id at the first extraction (c1.hamiltonian:
/// `update_stats_options` leaves the Hamiltonian as the first extraction saw it).  Rests on: draw k+1 does not touch
/// stats_options (dp_frame), the statistics of draw k+1 are extracted with the options stored after draw k (me_mid), and
/// those are what `update_stats_options` returned for the Hamiltonian of extraction k.
// [C16.1]
pub proof fn lemma_mc_update_event_exactly_on_change<M: Math, R: rand::Rng, A: AdaptStrategy<M, Hamiltonian = TransformedHamiltonian<M, T>>, T: Transformation<M>>(
    c0: MclmcChain<M, R, A, T>, c1: MclmcChain<M, R, A, T>, r1: Result<(Box<[F]>, M::ExpandedVector, McStats<M, A, T>, Progress)>,
    c2: MclmcChain<M, R, A, T>, r2: Result<(Box<[F]>, M::ExpandedVector, McStats<M, A, T>, Progress)>,
    opt_id: spec_fn(<T as SamplerStats<M>>::StatsOptions) -> int, reports: spec_fn(<T as SamplerStats<M>>::Stats) -> bool)
    requires
        mc_exp_post(c0, c1, r1), r1 is Ok,          // expanded draw k
        mc_exp_post(c1, c2, r2), r2 is Ok,          // expanded draw k+1
        upd_laws::<M, T>(opt_id, reports),
    ensures
        // the options stored after draw k hold the id of the transformation as extraction k saw it
        opt_id(c1.stats_options.hamiltonian) == c1.hamiltonian.transformation.tid(),
        // draw k+1 reports an update exactly when the id changed in between
        reports(r2->Ok_0.2.hamiltonian.transformation)
            == (c2.hamiltonian.transformation.tid() != c1.hamiltonian.transformation.tid()),
{
    let (m1, d1) = choose|mid: MclmcChain<M, R, A, T>, dim: nat| #[trigger] me_mid(c0, mid, c1, r1->Ok_0.0, r1->Ok_0.2, r1->Ok_0.3, dim);
    assert(me_mid(c0, m1, c1, r1->Ok_0.0, r1->Ok_0.2, r1->Ok_0.3, d1));
    let (m2, d2) = choose|mid: MclmcChain<M, R, A, T>, dim: nat| #[trigger] me_mid(c1, mid, c2, r2->Ok_0.0, r2->Ok_0.2, r2->Ok_0.3, dim);
    assert(me_mid(c1, m2, c2, r2->Ok_0.0, r2->Ok_0.2, r2->Ok_0.3, d2));
    // extraction k: update_stats_options on m1.hamiltonian (== c1.hamiltonian) returned c1.stats_options.hamiltonian
    assert(m1.hamiltonian.transformation.nso_post(m1.stats_options.hamiltonian, c1.stats_options.hamiltonian));
    assert(c1.hamiltonian == m1.hamiltonian);
    // extraction k+1: with the options draw k left behind, on m2.hamiltonian (== c2.hamiltonian)
    assert(m2.stats_options == c1.stats_options);
    assert(m2.hamiltonian.transformation.stats_post(d2, c1.stats_options.hamiltonian, r2->Ok_0.2.hamiltonian.transformation));
    assert(c2.hamiltonian == m2.hamiltonian);
}
/// [C16.1] the same for the diagonal-style rule without observers: whatever the transformation's rule is, the statistics
/// of draw k+1 satisfy the transformation's `stats_post` for the options `nso_post` produced right after extraction k
// [C16.1]
pub proof fn lemma_mc_next_extraction_uses_updated_options<M: Math, R: rand::Rng, A: AdaptStrategy<M, Hamiltonian = TransformedHamiltonian<M, T>>, T: Transformation<M>>(
    c0: MclmcChain<M, R, A, T>, c1: MclmcChain<M, R, A, T>, r1: Result<(Box<[F]>, M::ExpandedVector, McStats<M, A, T>, Progress)>,
    c2: MclmcChain<M, R, A, T>, r2: Result<(Box<[F]>, M::ExpandedVector, McStats<M, A, T>, Progress)>)
    requires
        mc_exp_post(c0, c1, r1), r1 is Ok,
        mc_exp_post(c1, c2, r2), r2 is Ok,
    ensures
        exists|dim1: nat, dim2: nat| {
            // extraction k, with the options in force before it
            &&& #[trigger] c1.hamiltonian.transformation.stats_post(dim1, c0.stats_options.hamiltonian, r1->Ok_0.2.hamiltonian.transformation)
            // next_stats_options right after it
            &&& c1.hamiltonian.transformation.nso_post(c0.stats_options.hamiltonian, c1.stats_options.hamiltonian)
            // extraction k+1
            &&& #[trigger] c2.hamiltonian.transformation.stats_post(dim2, c1.stats_options.hamiltonian, r2->Ok_0.2.hamiltonian.transformation)
        },
{
    let (m1, d1) = choose|mid: MclmcChain<M, R, A, T>, dim: nat| #[trigger] me_mid(c0, mid, c1, r1->Ok_0.0, r1->Ok_0.2, r1->Ok_0.3, dim);
    assert(me_mid(c0, m1, c1, r1->Ok_0.0, r1->Ok_0.2, r1->Ok_0.3, d1));
    let (m2, d2) = choose|mid: MclmcChain<M, R, A, T>, dim: nat| #[trigger] me_mid(c1, mid, c2, r2->Ok_0.0, r2->Ok_0.2, r2->Ok_0.3, dim);
    assert(me_mid(c1, m2, c2, r2->Ok_0.0, r2->Ok_0.2, r2->Ok_0.3, d2));
    assert(c1.hamiltonian == m1.hamiltonian && c2.hamiltonian == m2.hamiltonian);
    assert(c1.hamiltonian.transformation.stats_post(d1, c0.stats_options.hamiltonian, r1->Ok_0.2.hamiltonian.transformation));
    assert(c2.hamiltonian.transformation.stats_post(d2, c1.stats_options.hamiltonian, r2->Ok_0.2.hamiltonian.transformation));
}
