// Prelude of unit `mclmc` (model R): everything `MclmcChain::{mclmc_kernel, draw, expanded_draw, extract_stats}` call but that is not
// extracted here.  Every contract below is an ASSUMPTION of this unit (DESIGN §6) unless stated otherwise.
//
// Relation to `_shared/dyn_facade.rs`: the traits Math / Point / Collector, the State façade, the rng event
// log and the contract text of `leapfrog` / `initialize_trajectory` are the ones of the shared façade (same
// text, copied on 2026-09-25 because MCLMC needs extra members that cannot be added to a trait from
// outside: `Math::{Vector, new_array, fill_array, copy_into, array_gaussian}`, `Point::energy`,
// `State::{pt, try_point_mut, write_position}`, `Hamiltonian::{copy_state, partial_momentum_refresh,
// momentum_decoherence_length}`).  The ghost vocabulary `StateView` IS the shared one (included).
// `TransformedPoint` and `TransformedHamiltonian` are EXTRACTED structs; the view of a state is computed
// from the fields of its point, so a raw write to `point.velocity` is modelled exactly.
use core::marker::PhantomData;
use core::fmt::Debug;
use vstd::std_specs::convert::*;

//@include ../_shared/state_view.rs

// ------------------------------------------------------------------------------------------
// errors; anyhow façade (message text not modelled, rule R5)
// ------------------------------------------------------------------------------------------
#[derive(Debug)]
pub struct BoxedErr { pub code: u64 }
#[derive(Debug)]
pub enum NutsError { LogpFailure(BoxedErr), SerializeFailure(), BadInitGrad(BoxedErr) }
pub struct DivergenceInfo { pub code: u64 }
impl Clone for DivergenceInfo {
    fn clone(&self) -> (r: Self) ensures r == *self { DivergenceInfo { code: self.code } }
}
pub mod anyhow {
    use vstd::prelude::*;
    /// opaque error value
    pub struct Error { pub id: Ghost<int> }
}
pub type Result<T, E = anyhow::Error> = core::result::Result<T, E>;
/// marker of the error types that convert into `anyhow::Error` with `?` (std::error::Error + Send + Sync + 'static in
/// /repo): NutsError and `Math::Err` (the error of `expand_vector`).  Same text as units chain / _shared/dyn_facade.rs
pub trait ErrorLike {}
impl ErrorLike for NutsError {}
/// `?` / `.into()` from an error type to anyhow::Error: some error value (nothing is claimed about it)
impl<E: ErrorLike> FromSpecImpl<E> for anyhow::Error {
    open spec fn obeys_from_spec() -> bool { false }
    open spec fn from_spec(v: E) -> Self { arbitrary() }
}
impl<E: ErrorLike> From<E> for anyhow::Error {
    #[verifier::external_body]
    fn from(e: E) -> (r: anyhow::Error) { unimplemented!() }
}
/// R5: `bail!("..")` is rewritten to `return Err(opaque_error())`
#[verifier::external_body]
pub fn opaque_error() -> (r: anyhow::Error) { unimplemented!() }

pub trait LogpError: Sized {
    spec fn recoverable(&self) -> bool;
    fn is_recoverable(&self) -> (r: bool) ensures r == self.recoverable();
}

// ------------------------------------------------------------------------------------------
// rand façade: ghost event log (shared text).  MCLMC draws no coins; `Momentum` = one full momentum resample
// ------------------------------------------------------------------------------------------
pub enum RngEv { Coin(bool), Bern(real, bool), Momentum }
pub trait Rng {
    spec fn log(&self) -> Seq<RngEv>;
}
pub mod rand { pub use super::Rng; }

// ------------------------------------------------------------------------------------------
// Math façade (shared text + the vector members MCLMC uses)
// ------------------------------------------------------------------------------------------
pub trait Math: Sized {
    type LogpErr: LogpError + VxInto<BoxedErr>;   // `err.into()` boxes the error (Box<dyn Error> in /repo)
    type Vector;
    // ---- (added for expanded_draw) the trace expansion; SAME TEXT as _shared/dyn_facade.rs (unit chain)
    type ExpandedVector;
    type Err: ErrorLike;
    /// the values stored in the trace for a position (the model's `expand`; may consume randomness)
    fn expand_vector<R: Rng + ?Sized>(&mut self, rng: &mut R, array: &Self::Vector) -> (r: core::result::Result<Self::ExpandedVector, Self::Err>)
        ensures final(self).dim_spec() == old(self).dim_spec();
    spec fn dim_spec(&self) -> nat;
    /// content of a vector (A-math: vectors are sequences of reals)
    spec fn vv(v: &Self::Vector) -> Seq<real>;
    fn dim(&self) -> (r: usize) ensures r as nat == self.dim_spec();
    fn new_array(&mut self) -> (r: Self::Vector)
        ensures final(self).dim_spec() == old(self).dim_spec();
    fn fill_array(&mut self, array: &mut Self::Vector, val: F)
        ensures final(self).dim_spec() == old(self).dim_spec();
    fn copy_into(&mut self, array: &Self::Vector, dest: &mut Self::Vector)
        ensures final(self).dim_spec() == old(self).dim_spec(),
                Self::vv(final(dest)) == Self::vv(array);
    /// Gaussian noise for the partial refresh: it is NOT a full momentum resample, i.e. it records no
    /// `Momentum` event (nothing else is claimed about the log)
    fn array_gaussian<R: rand::Rng + ?Sized>(&mut self, rng: &mut R, dest: &mut Self::Vector, stds: &Self::Vector)
        ensures final(self).dim_spec() == old(self).dim_spec(),
                momenta(final(rng).log()) == momenta(old(rng).log());
}

// ------------------------------------------------------------------------------------------
// Point / State façade (shared text + energy(), pt(), try_point_mut, write_position)
// ------------------------------------------------------------------------------------------
pub trait Point<M: Math>: Sized {
    spec fn pview(&self) -> StateView;
    fn initial_energy(&self) -> (r: F) ensures r.r() == self.pview().e0;
    fn energy_error(&self) -> (r: F) ensures r.r() == self.pview().energy - self.pview().e0;
    fn energy(&self) -> (r: F) ensures r.r() == self.pview().energy;
    /// (added for expanded_draw; shared text) the untransformed position of the point
    fn position(&self) -> (r: &M::Vector) ensures M::vv(r) == self.pview().x;
}
/// view of the EXTRACTED struct TransformedPoint, field by field (energy as in `Point::energy`)
pub open spec fn tp_view<M: Math>(p: TransformedPoint<M>) -> StateView {
    StateView {
        idx: p.index_in_trajectory as int,
        energy: p.kinetic_energy.r() - (p.logp.r() + p.logdet.r()),
        e0: p.initial_energy.r(),
        x: M::vv(&p.untransformed_position), g: M::vv(&p.untransformed_gradient),
        q: M::vv(&p.transformed_position), gq: M::vv(&p.transformed_gradient),
        v: M::vv(&p.velocity), logp: p.logp.r(),
    }
}
/// the accessors below are re-statements of `impl Point<M> for TransformedPoint<M>` in /repo
/// (transformed_hamiltonian.rs:328-359 and the default `energy_error`), verified against tp_view
impl<M: Math> Point<M> for TransformedPoint<M> {
    open spec fn pview(&self) -> StateView { tp_view(*self) }
    fn initial_energy(&self) -> (r: F) { self.initial_energy }
    fn energy_error(&self) -> (r: F) { self.energy() - self.initial_energy() }
    fn energy(&self) -> (r: F) { self.kinetic_energy - (self.logp + self.logdet) }
    // transformed_hamiltonian.rs:328-330
    fn position(&self) -> (r: &M::Vector) { &self.untransformed_position }
}

pub struct StateInUse {}
#[verifier::external]
impl core::fmt::Debug for StateInUse {
    fn fmt(&self, f: &mut core::fmt::Formatter<'_>) -> core::fmt::Result { Ok(()) }
}

#[verifier::external_body]
#[verifier::reject_recursive_types(M)]
#[verifier::reject_recursive_types(P)]
pub struct State<M: Math, P: Point<M>> { _m: PhantomData<M>, _p: PhantomData<P> }
impl<M: Math, P: Point<M>> State<M, P> {
    /// the point held by the state
    pub uninterp spec fn pt(&self) -> P;
    pub open spec fn view(&self) -> StateView { self.pt().pview() }
    #[verifier::external_body]
    pub fn point(&self) -> (r: &P) ensures *r == self.pt() { unimplemented!() }
    #[verifier::external_body]
    pub fn index_in_trajectory(&self) -> (r: i64) ensures r as int == self.view().idx { unimplemented!() }
    /// A-rc: every state the MCLMC kernel mutates comes from `copy_state` / `leapfrog` and has not been
    /// cloned since, so the `Rc` is unique and `try_point_mut` returns Ok
    #[verifier::external_body]
    pub fn try_point_mut(&mut self) -> (r: core::result::Result<&mut P, StateInUse>)
        ensures r is Ok, *(r->Ok_0) == old(self).pt(), final(self).pt() == *final(r->Ok_0)
    { unimplemented!() }
    /// `math.write_to_slice(position, out)`: CpuMath copies with `copy_from_slice` (panics on a length mismatch)
    #[verifier::external_body]
    pub fn write_position(&self, math: &mut M, out: &mut [F])
        requires old(out)@.len() == old(math).dim_spec()
        ensures final(out)@.len() == old(out)@.len(), final(math).dim_spec() == old(math).dim_spec()
    { unimplemented!() }
}

// ------------------------------------------------------------------------------------------
// nuts-storable façade (`#[derive(Storable)]` is dropped by rule R0; the derive macro is NOT verified) -- text of
// units chain / stats.  The marker impls only make the bounds `type Stats: Storable<StatsDims>` hold.
// ------------------------------------------------------------------------------------------
pub trait HasDims {}
pub trait Storable<P: HasDims + ?Sized> {}
pub struct StatsDims {}
impl HasDims for StatsDims {}
pub mod nuts_storable { pub use super::{HasDims, Storable}; }
impl Storable<StatsDims> for DivergenceStats {}
impl Storable<StatsDims> for PointStats {}
impl<P: HasDims, S: Storable<P>> Storable<P> for HamiltonianStats<P, S> {}
impl<P: HasDims, H: Storable<P>, A: Storable<P>, Pt: Storable<P>> Storable<P> for MclmcStats<P, H, A, Pt> {}

// ------------------------------------------------------------------------------------------
// trait SamplerStats of src/sampler_stats.rs:37-42 with the per-impl contract hooks `stats_pre` / `stats_post`
// (Verus rejects requires/ensures on trait-impl methods).  SAME TEXT as in units chain and stats.
// ------------------------------------------------------------------------------------------
pub trait SamplerStats<M: Math> {
    type Stats: Storable<StatsDims>;
    type StatsOptions: Copy + Send + Sync;
    spec fn stats_pre(&self, dim: nat, opt: Self::StatsOptions) -> bool;
    spec fn stats_post(&self, dim: nat, opt: Self::StatsOptions, r: Self::Stats) -> bool;
    fn extract_stats(&self, math: &mut M, opt: Self::StatsOptions) -> (r: Self::Stats)
        requires self.stats_pre(old(math).dim_spec(), opt)
        ensures final(math).dim_spec() == old(math).dim_spec(), self.stats_post(old(math).dim_spec(), opt, r);
}
/// the real values of a slice of floats
pub open spec fn fvals(s: Seq<F>) -> Seq<real> { Seq::new(s.len(), |i: int| s[i].r()) }

/// FAÇADE of `impl SamplerStats<M> for TransformedPoint<M>` (transformed_hamiltonian.rs:121-157): total, and the
/// statistics are `point_stats_post` -- the contract PROVED for the real impl in unit stats (impl_extra_pointstats.rs;
/// `point_stats_post` is copied into lemmas.rs)
impl<M: Math> SamplerStats<M> for TransformedPoint<M> {
    type Stats = PointStats;
    type StatsOptions = TransformedPointStatsOptions;
    open spec fn stats_pre(&self, dim: nat, opt: Self::StatsOptions) -> bool { true }
    open spec fn stats_post(&self, dim: nat, opt: Self::StatsOptions, r: Self::Stats) -> bool { point_stats_post(*self, dim, opt, r) }
    #[verifier::external_body]
    fn extract_stats(&self, math: &mut M, opt: Self::StatsOptions) -> (r: Self::Stats) { unimplemented!() }
}

// ------------------------------------------------------------------------------------------
// Collector façade (shared text): ghost bookkeeping of what the integrator did
// ------------------------------------------------------------------------------------------
pub trait Collector<M: Math, P: Point<M>> {
    /// number of leapfrog steps reported so far (divergent ones included)
    spec fn leapfrogs(&self) -> nat;
    /// states the integrator produced in this trajectory, by trajectory index
    spec fn traj(&self) -> Map<int, StateView>;
    /// states passed to register_draw
    spec fn draws(&self) -> Seq<StateView>;
    fn register_draw(&mut self, math: &mut M, state: &State<M, P>, info: &SampleInfo)
        ensures final(self).draws() == old(self).draws().push(state.view()),
                final(self).leapfrogs() == old(self).leapfrogs(), final(self).traj() == old(self).traj(),
                final(math).dim_spec() == old(math).dim_spec();
}

pub open spec fn dir_sign(d: Direction) -> int { match d { Direction::Forward => 1, Direction::Backward => -1 } }
pub spec const IDX_BIG: int = 0x4000_0000_0000_0000;

// ------------------------------------------------------------------------------------------
// Hamiltonian: the struct is extracted; its methods are façades.  `leapfrog`, `initialize_trajectory`,
// `step_size` carry the text of the shared `Hamiltonian` trait (to be proved for TransformedHamiltonian in
// unit `leapfrog`) plus the frame `ham_frame` and the position/velocity refinements marked (+).
// ------------------------------------------------------------------------------------------
/// Transformation, as far as statistics are concerned: a version counter `tid` and the rule `nso_post` that yields
/// the options for the next extraction.  SAME TEXT as the spec members of unit stats' `Transformation` (where
/// `nso_post` / `stats_post` are supplied, and proved, for DiagMassMatrix: `r == self.id`, `diag_stats_post`)
pub trait Transformation<M: Math>: SamplerStats<M> + Sized {
    spec fn tid(&self) -> int;
    spec fn nso_post(&self, current: <Self as SamplerStats<M>>::StatsOptions, r: <Self as SamplerStats<M>>::StatsOptions) -> bool;
}
#[verifier::external_body]
#[verifier::reject_recursive_types(M)]
#[verifier::reject_recursive_types(P)]
pub struct StatePool<M: Math, P: Point<M>> { _m: PhantomData<M>, _p: PhantomData<P> }

impl<M: Math, T: Transformation<M>> TransformedHamiltonian<M, T> {
    // the two getters are re-statements of /repo (transformed_hamiltonian.rs:753,769), verified
    pub fn step_size(&self) -> (r: F) ensures r == self.step_size { self.step_size }
    pub fn momentum_decoherence_length(&self) -> (r: Option<F>) ensures r == self.momentum_decoherence_length { self.momentum_decoherence_length }

    #[verifier::external_body]
    pub fn leapfrog<C: Collector<M, TransformedPoint<M>>>(
        &mut self,
        math: &mut M,
        start: &State<M, TransformedPoint<M>>,
        dir: Direction,
        step_size_factor: F,
        energy_baseline: F,
        max_energy_error: F,
        collector: &mut C,
    ) -> (r: LeapfrogResult<M, TransformedPoint<M>>)
        requires -IDX_BIG < start.view().idx < IDX_BIG
        ensures
            ham_frame(*old(self), *final(self)),       // (+) shared text: step() unchanged
            final(math).dim_spec() == old(math).dim_spec(),
            // every completed integration step is reported to the collector exactly once (also divergent ones);
            // an unrecoverable error aborts before the collector is notified
            !(r is Err) ==> final(collector).leapfrogs() == old(collector).leapfrogs() + 1,
            r is Err ==> final(collector).leapfrogs() == old(collector).leapfrogs(),
            final(collector).draws() == old(collector).draws(),
            match r {
                LeapfrogResult::Ok(out) => {
                    &&& out.view().idx == start.view().idx + dir_sign(dir)
                    &&& out.view().e0 == start.view().e0
                    &&& final(collector).traj() == old(collector).traj().insert(out.view().idx, out.view())
                },
                LeapfrogResult::Divergence(_) => final(collector).traj() == old(collector).traj(),
                LeapfrogResult::Err(e) => final(collector).traj() == old(collector).traj() && !e.recoverable(),
            },
    { unimplemented!() }

    #[verifier::external_body]
    pub fn initialize_trajectory<R: Rng + ?Sized>(
        &self,
        math: &mut M,
        state: &mut State<M, TransformedPoint<M>>,
        resaple_velocity: bool,
        rng: &mut R,
    ) -> (r: core::result::Result<(), NutsError>)
        ensures
            final(math).dim_spec() == old(math).dim_spec(),
            r is Ok ==> final(state).view().idx == 0 && final(state).view().e0 == final(state).view().energy,
            resaple_velocity ==> final(rng).log() == old(rng).log().push(RngEv::Momentum),
            !resaple_velocity ==> final(rng).log() == old(rng).log(),
            // (+) position, gradient and log-density are never touched; the velocity only when resampling
            same_position(final(state).view(), old(state).view()),
            !resaple_velocity ==> final(state).view().v == old(state).view().v,
    { unimplemented!() }

    /// pool.new_state + Point::copy_into: a value copy of the point
    #[verifier::external_body]
    pub fn copy_state(&mut self, math: &mut M, state: &State<M, TransformedPoint<M>>) -> (r: State<M, TransformedPoint<M>>)
        ensures
            ham_frame(*old(self), *final(self)),
            final(math).dim_spec() == old(math).dim_spec(),
            r.view() == state.view(),
    { unimplemented!() }

    /// OU / isokinetic partial refresh: only velocity (and, Euclidean, the kinetic energy) change; `_rng` is unused
    #[verifier::external_body]
    pub fn partial_momentum_refresh<R: Rng + ?Sized>(
        &mut self,
        math: &mut M,
        state: &mut State<M, TransformedPoint<M>>,
        noise: &M::Vector,
        _rng: &mut R,
        factor: F,
    ) -> (r: core::result::Result<(), NutsError>)
        ensures
            ham_frame(*old(self), *final(self)),
            final(math).dim_spec() == old(math).dim_spec(),
            final(state).view().idx == old(state).view().idx,
            final(state).view().e0 == old(state).view().e0,
            same_position(final(state).view(), old(state).view()),
            final(_rng).log() == old(_rng).log(),
    { unimplemented!() }
}

// ------------------------------------------------------------------------------------------
// Hamiltonian, as far as statistics are concerned: SAME TEXT as the trait of that name in unit stats' prelude (the
// integrator members used by the kernel are the inherent façade methods above).  The two impls below are FAÇADES of
// `impl SamplerStats<M> for TransformedHamiltonian<M, T>` (transformed_hamiltonian.rs:507-519) and of
// `TransformedHamiltonian::update_stats_options` (:757-763); their `stats_pre` / `stats_post` / `uso_post` are the
// texts PROVED for the real code in unit stats (impl_extra_ham.rs, impl_extra_ham_uso.rs).
// ------------------------------------------------------------------------------------------
pub trait Hamiltonian<M: Math>: SamplerStats<M> + Sized {
    type Point: Point<M> + SamplerStats<M>;
    spec fn uso_post(&self, post: &Self, current: <Self as SamplerStats<M>>::StatsOptions, r: <Self as SamplerStats<M>>::StatsOptions) -> bool;
    fn update_stats_options(&mut self, math: &mut M, current: <Self as SamplerStats<M>>::StatsOptions) -> (r: <Self as SamplerStats<M>>::StatsOptions)
        ensures final(math).dim_spec() == old(math).dim_spec(), old(self).uso_post(final(self), current, r);
}
impl<M: Math, T: Transformation<M>> SamplerStats<M> for TransformedHamiltonian<M, T> {
    type Stats = HamiltonianStats<StatsDims, T::Stats>;
    type StatsOptions = T::StatsOptions;
    open spec fn stats_pre(&self, dim: nat, opt: Self::StatsOptions) -> bool { self.transformation.stats_pre(dim, opt) }
    open spec fn stats_post(&self, dim: nat, opt: Self::StatsOptions, r: Self::Stats) -> bool {
        r.step_size == self.step_size && self.transformation.stats_post(dim, opt, r.transformation)
    }
    #[verifier::external_body]
    fn extract_stats(&self, math: &mut M, opt: Self::StatsOptions) -> (r: Self::Stats) { unimplemented!() }
}
impl<M: Math, T: Transformation<M>> Hamiltonian<M> for TransformedHamiltonian<M, T> {
    type Point = TransformedPoint<M>;
    open spec fn uso_post(&self, post: &Self, current: <Self as SamplerStats<M>>::StatsOptions, r: <Self as SamplerStats<M>>::StatsOptions) -> bool {
        self.transformation.nso_post(current, r) && *post == *self
    }
    #[verifier::external_body]
    fn update_stats_options(&mut self, math: &mut M, current: <Self as SamplerStats<M>>::StatsOptions) -> (r: <Self as SamplerStats<M>>::StatsOptions) { unimplemented!() }
}

// ------------------------------------------------------------------------------------------
// AdaptStrategy façade.  `adapt` carries exactly the part of unit adapt's contract (gs_adapt_pre /
// gs_adapt_post, proved there for GlobalStrategy) that the chain driver relies on:
//   inv            = gs_inv (invariant between calls), draw < 2^64-16
//   tuning_view    = self.tuning, num_tune_view = self.num_tune   (gs_post_common: [C06.2])
// plus the frame "adapt never changes the kinetic-energy kind" (A-kind-frame: the field is written only by
// set_kinetic_energy_kind, whose only caller is MclmcChain::draw).
// ------------------------------------------------------------------------------------------
pub trait HamCfg { spec fn kind_view(&self) -> KineticEnergyKind; }
impl<M: Math, T: Transformation<M>> HamCfg for TransformedHamiltonian<M, T> {
    open spec fn kind_view(&self) -> KineticEnergyKind { self.kinetic_energy_kind }
}
pub trait AdaptStrategy<M: Math>: SamplerStats<M> + Sized {
    type Hamiltonian: HamCfg + Hamiltonian<M>;
    type Collector: Collector<M, TransformedPoint<M>>;
    spec fn inv(&self, draw: u64) -> bool;
    spec fn tuning_view(&self) -> bool;
    spec fn num_tune_view(&self) -> u64;
    fn adapt<R: Rng + ?Sized>(
        &mut self,
        math: &mut M,
        options: &mut NutsOptions,
        hamiltonian: &mut Self::Hamiltonian,
        draw: u64,
        collector: &Self::Collector,
        state: &State<M, TransformedPoint<M>>,
        rng: &mut R,
    ) -> (r: core::result::Result<(), NutsError>)
        requires old(self).inv(draw), draw < 0xffff_ffff_ffff_fff0
        ensures
            r is Ok ==> final(self).inv((draw + 1) as u64),
            // [C06.2] tuning flag: cleared exactly from draw num_tune on, never set again
            final(self).tuning_view() == (old(self).tuning_view() && draw < old(self).num_tune_view()),
            final(self).num_tune_view() == old(self).num_tune_view(),
            final(hamiltonian).kind_view() == old(hamiltonian).kind_view(),
            final(math).dim_spec() == old(math).dim_spec();
    fn new_collector(&self, math: &mut M) -> (r: Self::Collector)
        ensures final(math).dim_spec() == old(math).dim_spec();
    fn is_tuning(&self) -> (r: bool) ensures r == self.tuning_view();
}
// (`StatOptions` is EXTRACTED from src/chain.rs, with its Clone / Copy impls)

// ------------------------------------------------------------------------------------------
// the trait implemented by MclmcChain; the per-impl contract is supplied by impl_extra.rs
// ------------------------------------------------------------------------------------------
pub trait Chain<M: Math>: SamplerStats<M> + Sized {
    type AdaptStrategy: AdaptStrategy<M>;
    spec fn draw_pre(&self) -> bool;
    spec fn draw_post(&self, post: &Self, r: Result<(Box<[F]>, Progress)>) -> bool;
    fn draw(&mut self) -> (r: Result<(Box<[F]>, Progress)>)
        requires old(self).draw_pre()
        ensures old(self).draw_post(final(self), r);
    // (same hooks and text as unit chain)
    spec fn expanded_draw_pre(&self) -> bool;
    spec fn expanded_draw_post(&self, post: &Self, r: Result<(Box<[F]>, M::ExpandedVector, Self::Stats, Progress)>) -> bool;
    fn expanded_draw(&mut self) -> (r: Result<(Box<[F]>, M::ExpandedVector, Self::Stats, Progress)>)
        requires old(self).expanded_draw_pre()
        ensures old(self).expanded_draw_post(final(self), r);
}

// ------------------------------------------------------------------------------------------
// std façade: RefCell (interior mutability), ToPrimitive, Vec -> Box<[T]>
// ------------------------------------------------------------------------------------------
/// std::cell::RefCell<T>.  `get_mut` is a plain `&mut` projection.  `borrow_mut(&self)` hands out the
/// content through a guard; the content seen through a guard is ARBITRARY (nothing is claimed about it),
/// and it cannot panic here: a `Ref`/`RefMut` of `self.math` borrows `&self`, so none can be alive while
/// `draw(&mut self)` runs, and the guards taken inside `draw` are dropped at the end of their blocks (A-refcell).
pub struct RefCell<T> { pub v: T }
#[verifier::external_body]
#[verifier::reject_recursive_types(T)]
pub struct RefMut<'a, T> { _r: &'a mut T }
impl<T> RefCell<T> {
    pub fn get_mut(&mut self) -> (r: &mut T)
        ensures *r == old(self).v, final(self).v == *final(r)
    { &mut self.v }
    #[verifier::external_body]
    pub fn borrow_mut(&self) -> (r: RefMut<'_, T>) { unimplemented!() }
}
impl<'a, T> RefMut<'a, T> {
    #[verifier::external_body]
    pub fn deref_mut(&mut self) -> (r: &mut T) { unimplemented!() }
}
/// num_traits::ToPrimitive::to_f64 on u64: always Some (model R: the exact value)
pub trait ToPrimitive {
    spec fn as_real(&self) -> real;
    fn to_f64(&self) -> (r: Option<F>) ensures r is Some && r->0.r() == self.as_real();
}
impl ToPrimitive for u64 {
    open spec fn as_real(&self) -> real { i2r(*self as int) }
    fn to_f64(&self) -> (r: Option<F>) { Some(ToF::to_f(*self)) }
}
/// R9.method: `.into()` is renamed `.vx_into()`; the conversions the unit uses are listed here (the third one,
/// `M::LogpErr -> BoxedErr`, is the bound on `Math::LogpErr`)
/// (Verus cannot name std's `impl From<Vec<T, A>> for Box<[T], A>`: allocator_api is unstable)
pub trait VxInto<T>: Sized {
    spec fn into_post(self, r: T) -> bool;
    fn vx_into(self) -> (r: T) ensures self.into_post(r);
}
/// `Vec<f64>` -> `Box<[f64]>`: same elements
impl VxInto<Box<[F]>> for Vec<F> {
    open spec fn into_post(self, r: Box<[F]>) -> bool { r@ == self@ }
    #[verifier::external_body]
    fn vx_into(self) -> (r: Box<[F]>) { unimplemented!() }
}
/// `(info, options, draw).into()`: `impl From<(Option<&DivergenceInfo>, DivergenceStatsOptions, u64)> for DivergenceStats`.
/// PROVED in unit `stats` (div_stats_post; `chain_div_post` is its part that does not look inside DivergenceInfo,
/// which is opaque here).  SAME TEXT as unit chain.
impl<'a> VxInto<DivergenceStats> for (Option<&'a DivergenceInfo>, DivergenceStatsOptions, u64) {
    open spec fn into_post(self, r: DivergenceStats) -> bool { chain_div_post(self.0, self.1, self.2, r) }
    #[verifier::external_body]
    fn vx_into(self) -> (r: DivergenceStats) { unimplemented!() }
}
/// NutsError -> anyhow::Error: some error value
impl VxInto<anyhow::Error> for NutsError {
    open spec fn into_post(self, r: anyhow::Error) -> bool { true }
    #[verifier::external_body]
    fn vx_into(self) -> (r: anyhow::Error) { unimplemented!() }
}

pub mod dynamics { pub use super::{LeapfrogResult, DivergenceStatsOptions}; }
pub mod nuts { pub use super::SampleInfo; }
