    // ghost items spliced into `impl ChainStorage for NdarrayChainStorage` (rule R1: contracts)
    open spec fn record_sample_pre(&self, stats: Seq<(&str, Option<Value>)>, draws: Seq<(&str, Option<Value>)>) -> bool {
        rs_pre(*self, stats, draws)
    }
    open spec fn record_sample_post(&self, post: &Self, stats: Seq<(&str, Option<Value>)>, draws: Seq<(&str, Option<Value>)>, r: Result<()>) -> bool {
        rs_post(*self, *post, stats, draws, r)
    }
    // finalising / flushing a chain storage of this backend succeeds (everything already is in the shared arrays)
    open spec fn finalize_post(&self, r: Result<()>) -> bool { r is Ok }
    open spec fn flush_post(&self, r: Result<()>) -> bool { r is Ok }
