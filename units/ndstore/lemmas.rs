// =====================================================================================
// Specification vocabulary of C14 for the ndarray backend, written from the property statement:
// "... yields, for every chain and every statistic and draw variable, exactly the recorded values ... with
//  the declared type and shape".  What NdarrayConfig::new_trace decides is WHICH variables get an array, of
//  which element type and of which shape (n_chains, n_tune + n_draws, *sizes of the declared dims).
// =====================================================================================

/// one declared variable of a schema: name, names of its extra dimensions, item type
pub struct VarDecl { pub name: Seq<char>, pub dims: Seq<Seq<char>>, pub ty: ItemType }

/// element type of an array
pub enum ElemTy { F64, F32, Bool, I64, U64, Str }

/// what is decided about one array when the trace is created
pub struct ArrSpec { pub ty: ElemTy, pub shape: Seq<usize> }

/// ItemType -> element type (nuts-storable: DateTime64 / TimeDelta64 carry i64 ticks)
pub open spec fn elem_ty(t: ItemType) -> ElemTy {
    match t {
        ItemType::U64 => ElemTy::U64,
        ItemType::I64 => ElemTy::I64,
        ItemType::F64 => ElemTy::F64,
        ItemType::F32 => ElemTy::F32,
        ItemType::Bool => ElemTy::Bool,
        ItemType::String => ElemTy::Str,
        ItemType::DateTime64(_) => ElemTy::I64,
        ItemType::TimeDelta64(_) => ElemTy::I64,
    }
}

/// view of an array of the backend
pub open spec fn nv_view(v: NdarrayValue) -> ArrSpec {
    match v {
        NdarrayValue::F64(a) => ArrSpec { ty: ElemTy::F64, shape: a.shape() },
        NdarrayValue::F32(a) => ArrSpec { ty: ElemTy::F32, shape: a.shape() },
        NdarrayValue::Bool(a) => ArrSpec { ty: ElemTy::Bool, shape: a.shape() },
        NdarrayValue::I64(a) => ArrSpec { ty: ElemTy::I64, shape: a.shape() },
        NdarrayValue::U64(a) => ArrSpec { ty: ElemTy::U64, shape: a.shape() },
        NdarrayValue::String(a) => ArrSpec { ty: ElemTy::Str, shape: a.shape() },
    }
}

pub type Arrs = Map<Seq<char>, ArrSpec>;

pub open spec fn arrs_m(m: Map<Seq<char>, NdarrayValue>) -> Arrs {
    m.map_values(|v: NdarrayValue| nv_view(v))
}
pub open spec fn arrs(m: HashMap<String, NdarrayValue>) -> Arrs { arrs_m(m@) }

/// the two bookkeeping statistics that no backend stores as a variable
pub open spec fn skipped(name: Seq<char>) -> bool {
    name == "draw"@ || name == "chain"@
}


/// sizes of the dimensions `dims` according to the dimension table `sizes` (`as usize` as in the code)
pub open spec fn ext_shape(sizes: Map<Seq<char>, u64>, dims: Seq<Seq<char>>) -> Seq<usize> {
    Seq::new(dims.len(), |j: int| sizes[dims[j]] as usize)
}
pub open spec fn dims_known(sizes: Map<Seq<char>, u64>, dims: Seq<Seq<char>>) -> bool {
    forall|j: int| 0 <= j < dims.len() ==> sizes.contains_key(#[trigger] dims[j])
}

/// the array a declared variable gets: declared type, shape (n_chains, total_draws, *declared dims)
pub open spec fn decl_arr(d: VarDecl, n_chains: usize, total: usize, sizes: Map<Seq<char>, u64>) -> ArrSpec {
    ArrSpec { ty: elem_ty(d.ty), shape: seq![n_chains, total] + ext_shape(sizes, d.dims) }
}

/// exactly the variables of the schema (`skip`: except draw / chain), each with its declared array
pub open spec fn decl_arrays(sch: Seq<VarDecl>, skip: bool, n_chains: usize, total: usize, sizes: Map<Seq<char>, u64>) -> Arrs
    decreases sch.len()
{
    if sch.len() == 0 {
        Map::empty()
    } else {
        decl_step(decl_arrays(sch.drop_last(), skip, n_chains, total, sizes), sch.last(), skip, n_chains, total, sizes)
    }
}
pub open spec fn decl_step(m: Arrs, d: VarDecl, skip: bool, n_chains: usize, total: usize, sizes: Map<Seq<char>, u64>) -> Arrs {
    if skip && skipped(d.name) { m } else { m.insert(d.name, decl_arr(d, n_chains, total, sizes)) }
}

/// every dimension of every stored variable has a size
pub open spec fn schema_known(sch: Seq<VarDecl>, sizes: Map<Seq<char>, u64>) -> bool {
    forall|i: int| 0 <= i < sch.len() && !skipped(#[trigger] sch[i].name) ==> dims_known(sizes, sch[i].dims)
}
/// "draw" and "chain" are reserved: record_sample of every backend ignores values under these names
pub open spec fn no_reserved(sch: Seq<VarDecl>) -> bool {
    forall|i: int| 0 <= i < sch.len() ==> !skipped(#[trigger] sch[i].name)
}

// ---- facade vocabulary (A-schema): what `*_dims_all` / `*_types` return for a schema
pub open spec fn dims_are(v: Seq<(String, Vec<String>)>, sch: Seq<VarDecl>) -> bool {
    &&& v.len() == sch.len()
    &&& forall|i: int| 0 <= i < v.len() ==> (#[trigger] v[i]).0@ == sch[i].name && strs_are(v[i].1@, sch[i].dims)
}
pub open spec fn types_are(v: Seq<(String, ItemType)>, sch: Seq<VarDecl>) -> bool {
    &&& v.len() == sch.len()
    &&& forall|i: int| 0 <= i < v.len() ==> (#[trigger] v[i]).0@ == sch[i].name && v[i].1 == sch[i].ty
}
/// the items of the zipped iterator enumerate the schema `sch`
pub open spec fn zipped_is(all: Seq<((String, Vec<String>), (String, ItemType))>, sch: Seq<VarDecl>) -> bool {
    &&& all.len() == sch.len()
    &&& forall|i: int| 0 <= i < all.len() ==> {
        &&& (#[trigger] all[i]).0.0@ == sch[i].name
        &&& strs_are(all[i].0.1@, sch[i].dims)
        &&& all[i].1.0@ == sch[i].name
        &&& all[i].1.1 == sch[i].ty
    }
}

// ---- the contract of NdarrayConfig::new_trace (impl_extra.rs delegates here)

pub open spec fn nt_total<S: Settings>(settings: &S) -> int {
    settings.num_tune_spec() + settings.num_draws_spec()
}

pub open spec fn nt_pre<M: Math, S: Settings>(settings: &S, math: &M) -> bool {
    // machine integers: `n_tune + n_draws`
    &&& nt_total(settings) <= usize::MAX
    // reserved names (see no_reserved)
    &&& no_reserved(settings.data_schema(math))
}

pub open spec fn nt_post<M: Math, S: Settings>(settings: &S, math: &M, r: Result<NdarrayTraceStorage>) -> bool {
    let n = settings.num_chains_spec();
    let total = nt_total(settings) as usize;
    let sizes = math.dim_sizes_spec();
    // [C14.4] draws_arrays: exactly the draw variables of the settings with the declared type and shape
    &&& r is Ok ==> arrs(r->Ok_0.shared_arrays.v.draws_arrays) == decl_arrays(settings.data_schema(math), false, n, total, sizes)
    // [C14.5] stats_arrays: exactly the statistics except draw / chain, declared type and shape
    &&& r is Ok ==> arrs(r->Ok_0.shared_arrays.v.stats_arrays) == decl_arrays(settings.stat_schema(math), true, n, total, sizes)
    // [C14.6] creating the trace succeeds when every dimension of every stored variable has a size
    &&& schema_known(settings.stat_schema(math), sizes) && schema_known(settings.data_schema(math), sizes) ==> r is Ok
}

// ---- lemmas -----------------------------------------------------------------------------

/// under the reserved-name precondition the `continue` of the draws loop never fires: skipping or not is the same
// [C14.4]
pub proof fn lemma_no_reserved(sch: Seq<VarDecl>, n_chains: usize, total: usize, sizes: Map<Seq<char>, u64>)
    requires no_reserved(sch)
    ensures decl_arrays(sch, true, n_chains, total, sizes) == decl_arrays(sch, false, n_chains, total, sizes)
    decreases sch.len()
{
    if sch.len() > 0 {
        let dl = sch.drop_last();
        assert forall|i: int| 0 <= i < dl.len() implies !skipped(#[trigger] dl[i].name) by {
            assert(dl[i] == sch[i]);
        }
        lemma_no_reserved(dl, n_chains, total, sizes);
        assert(!skipped(sch[sch.len() - 1].name));
    }
}

// [C14.4 C14.5]
pub proof fn lemma_arrs_insert(m: Map<Seq<char>, NdarrayValue>, k: Seq<char>, v: NdarrayValue)
    ensures arrs_m(m.insert(k, v)) == arrs_m(m).insert(k, nv_view(v))
{
    assert(arrs_m(m.insert(k, v)) =~= arrs_m(m).insert(k, nv_view(v)));
}

/// "exactly the variables of the schema": the fold `decl_arrays` read as a set of (name, array) facts.
/// A name is present iff some stored variable of the schema has it; a variable whose name is not
/// declared again later has exactly its declared array.
// [C14.4 C14.5]
pub proof fn lemma_decl_arrays_exact(sch: Seq<VarDecl>, skip: bool, n_chains: usize, total: usize, sizes: Map<Seq<char>, u64>)
    ensures
        forall|k: Seq<char>| #[trigger] decl_arrays(sch, skip, n_chains, total, sizes).contains_key(k)
            <==> exists|i: int| 0 <= i < sch.len() && #[trigger] var_named(sch, i, k) && !(skip && skipped(k)),
        forall|i: int| 0 <= i < sch.len() && !(skip && skipped(sch[i].name)) && #[trigger] last_decl(sch, i)
            ==> decl_arrays(sch, skip, n_chains, total, sizes)[sch[i].name] == decl_arr(sch[i], n_chains, total, sizes),
    decreases sch.len()
{
    let m = decl_arrays(sch, skip, n_chains, total, sizes);
    if sch.len() > 0 {
        let dl = sch.drop_last();
        let md = decl_arrays(dl, skip, n_chains, total, sizes);
        let d = sch.last();
        lemma_decl_arrays_exact(dl, skip, n_chains, total, sizes);
        assert forall|k: Seq<char>| #[trigger] m.contains_key(k)
            <==> exists|i: int| 0 <= i < sch.len() && #[trigger] var_named(sch, i, k) && !(skip && skipped(k)) by {
            if m.contains_key(k) {
                if md.contains_key(k) {
                    let i = choose|i: int| 0 <= i < dl.len() && #[trigger] var_named(dl, i, k) && !(skip && skipped(k));
                    assert(dl[i] == sch[i]);
                    assert(var_named(sch, i, k));
                } else {
                    assert(k == d.name);
                    assert(var_named(sch, sch.len() - 1, k));
                }
            }
            if exists|i: int| 0 <= i < sch.len() && #[trigger] var_named(sch, i, k) && !(skip && skipped(k)) {
                let i = choose|i: int| 0 <= i < sch.len() && #[trigger] var_named(sch, i, k) && !(skip && skipped(k));
                if i < sch.len() - 1 {
                    assert(dl[i] == sch[i]);
                    assert(var_named(dl, i, k));
                    assert(md.contains_key(k));
                }
            }
        }
        assert forall|i: int| 0 <= i < sch.len() && !(skip && skipped(sch[i].name)) && #[trigger] last_decl(sch, i)
            implies m[sch[i].name] == decl_arr(sch[i], n_chains, total, sizes) by {
            if i < sch.len() - 1 {
                assert(dl[i] == sch[i]);
                assert(sch[sch.len() - 1].name != sch[i].name);
                assert forall|j: int| i < j < dl.len() implies dl[j].name != dl[i].name by {
                    assert(dl[j] == sch[j]);
                }
                assert(last_decl(dl, i));
            }
        }
    }
}
// ---- prefix forms used by the loop invariants of new_trace (k = number of schema entries / dims consumed);
// the `*_steps` facts below unfold them one step, so the invariants need no text-anchored proof hints

/// arrays declared by the first k schema entries
pub open spec fn decl_prefix(sch: Seq<VarDecl>, k: int, skip: bool, n_chains: usize, total: usize, sizes: Map<Seq<char>, u64>) -> Arrs {
    decl_arrays(sch.take(k), skip, n_chains, total, sizes)
}
/// shape built from the first k extra dimensions
pub open spec fn shape_prefix(n_chains: usize, total: usize, sizes: Map<Seq<char>, u64>, dims: Seq<Seq<char>>, k: int) -> Seq<usize> {
    seq![n_chains, total] + ext_shape(sizes, dims.take(k))
}
/// the first k extra dimensions have a size
pub open spec fn known_prefix(sizes: Map<Seq<char>, u64>, dims: Seq<Seq<char>>, k: int) -> bool {
    dims_known(sizes, dims.take(k))
}
/// the items of the `for dim in extra_dims` iterator are the declared dimension names
pub open spec fn strs_are(all: Seq<String>, dims: Seq<Seq<char>>) -> bool {
    &&& all.len() == dims.len()
    &&& forall|j: int| 0 <= j < all.len() ==> (#[trigger] all[j])@ == dims[j]
}

/// the step / end facts of `decl_prefix` for every k; the predecessor is written in unfolded form
/// (`decl_arrays(sch.take(k - 1), ..)`) so that an instance does not create a new trigger term (no matching loop).  (Carried as a loop invariant: Verus loop bodies do not see
/// `broadcast use` of the enclosing function, and a module-level `broadcast use` of a lemma of the same module is cyclic)
pub open spec fn decl_steps(sch: Seq<VarDecl>, skip: bool, n_chains: usize, total: usize, sizes: Map<Seq<char>, u64>) -> bool {
    forall|k: int| {
        let p = #[trigger] decl_prefix(sch, k, skip, n_chains, total, sizes);
        &&& k == 0 ==> p == Map::<Seq<char>, ArrSpec>::empty()
        &&& 0 < k <= sch.len() ==> p == decl_step(decl_arrays(sch.take(k - 1), skip, n_chains, total, sizes), sch[k - 1], skip, n_chains, total, sizes)
        &&& k == sch.len() ==> p == decl_arrays(sch, skip, n_chains, total, sizes)
    }
}
pub open spec fn shape_steps(n_chains: usize, total: usize, sizes: Map<Seq<char>, u64>) -> bool {
    forall|dims: Seq<Seq<char>>, k: int| {
        let p = #[trigger] shape_prefix(n_chains, total, sizes, dims, k);
        &&& k == 0 ==> p == seq![n_chains, total]
        &&& 0 < k <= dims.len() ==> p == (seq![n_chains, total] + ext_shape(sizes, dims.take(k - 1))).push(sizes[dims[k - 1]] as usize)
        &&& k == dims.len() ==> p == seq![n_chains, total] + ext_shape(sizes, dims)
    }
}
pub open spec fn known_steps(sizes: Map<Seq<char>, u64>) -> bool {
    forall|dims: Seq<Seq<char>>, k: int| {
        let p = #[trigger] known_prefix(sizes, dims, k);
        &&& k == 0 ==> p
        &&& 0 < k <= dims.len() ==> p == (dims_known(sizes, dims.take(k - 1)) && sizes.contains_key(dims[k - 1]))
        &&& k == dims.len() ==> p == dims_known(sizes, dims)
    }
}
pub open spec fn arrs_steps() -> bool {
    forall|m: Map<Seq<char>, NdarrayValue>, k: Seq<char>, v: NdarrayValue| #[trigger] arrs_m(m.insert(k, v)) == arrs_m(m).insert(k, nv_view(v))
}
/// everything the loop invariants of new_trace need about the prefix forms
pub open spec fn nt_steps<M: Math, S: Settings>(settings: &S, math: &M) -> bool {
    let n = settings.num_chains_spec();
    let total = nt_total(settings) as usize;
    let sizes = math.dim_sizes_spec();
    &&& decl_steps(settings.stat_schema(math), true, n, total, sizes)
    &&& decl_steps(settings.data_schema(math), false, n, total, sizes)
    &&& shape_steps(n, total, sizes)
    &&& known_steps(sizes)
    &&& arrs_steps()
}

// [C14.4 C14.5 C14.6]
pub proof fn lemma_nt_steps<M: Math, S: Settings>(settings: &S, math: &M)
    ensures nt_steps(settings, math)
{
    let n = settings.num_chains_spec();
    let total = nt_total(settings) as usize;
    let sizes = math.dim_sizes_spec();
    lemma_decl_steps(settings.stat_schema(math), true, n, total, sizes);
    lemma_decl_steps(settings.data_schema(math), false, n, total, sizes);
    lemma_shape_steps(n, total, sizes);
    lemma_known_steps(sizes);
    assert forall|m: Map<Seq<char>, NdarrayValue>, k: Seq<char>, v: NdarrayValue| #[trigger] arrs_m(m.insert(k, v)) == arrs_m(m).insert(k, nv_view(v)) by {
        lemma_arrs_insert(m, k, v);
    }
}

// [C14.4 C14.5]
pub proof fn lemma_decl_steps(sch: Seq<VarDecl>, skip: bool, n_chains: usize, total: usize, sizes: Map<Seq<char>, u64>)
    ensures decl_steps(sch, skip, n_chains, total, sizes)
{
    assert forall|k: int| {
        let p = #[trigger] decl_prefix(sch, k, skip, n_chains, total, sizes);
        &&& k == 0 ==> p == Map::<Seq<char>, ArrSpec>::empty()
        &&& 0 < k <= sch.len() ==> p == decl_step(decl_arrays(sch.take(k - 1), skip, n_chains, total, sizes), sch[k - 1], skip, n_chains, total, sizes)
        &&& k == sch.len() ==> p == decl_arrays(sch, skip, n_chains, total, sizes)
    } by {
        if 0 < k <= sch.len() {
            assert(sch.take(k).drop_last() =~= sch.take(k - 1));
            assert(sch.take(k).last() == sch[k - 1]);
        }
        if k == sch.len() {
            assert(sch.take(k) =~= sch);
        }
    }
}

// [C14.4 C14.5]
pub proof fn lemma_shape_steps(n_chains: usize, total: usize, sizes: Map<Seq<char>, u64>)
    ensures shape_steps(n_chains, total, sizes)
{
    assert forall|dims: Seq<Seq<char>>, k: int| {
        let p = #[trigger] shape_prefix(n_chains, total, sizes, dims, k);
        &&& k == 0 ==> p == seq![n_chains, total]
        &&& 0 < k <= dims.len() ==> p == (seq![n_chains, total] + ext_shape(sizes, dims.take(k - 1))).push(sizes[dims[k - 1]] as usize)
        &&& k == dims.len() ==> p == seq![n_chains, total] + ext_shape(sizes, dims)
    } by {
        if k == 0 {
            assert(shape_prefix(n_chains, total, sizes, dims, k) =~= seq![n_chains, total]);
        }
        if 0 < k <= dims.len() {
            assert(shape_prefix(n_chains, total, sizes, dims, k)
                =~= shape_prefix(n_chains, total, sizes, dims, k - 1).push(sizes[dims[k - 1]] as usize));
        }
        if k == dims.len() {
            assert(dims.take(k) =~= dims);
        }
    }
}

// [C14.6]
pub proof fn lemma_known_steps(sizes: Map<Seq<char>, u64>)
    ensures known_steps(sizes)
{
    assert forall|dims: Seq<Seq<char>>, k: int| {
        let p = #[trigger] known_prefix(sizes, dims, k);
        &&& k == 0 ==> p
        &&& 0 < k <= dims.len() ==> p == (dims_known(sizes, dims.take(k - 1)) && sizes.contains_key(dims[k - 1]))
        &&& k == dims.len() ==> p == dims_known(sizes, dims)
    } by {
        if 0 < k <= dims.len() {
            let t = dims.take(k);
            let u = dims.take(k - 1);
            if known_prefix(sizes, dims, k - 1) && sizes.contains_key(dims[k - 1]) {
                assert forall|j: int| 0 <= j < t.len() implies sizes.contains_key(#[trigger] t[j]) by {
                    if j < k - 1 { assert(u[j] == t[j]); }
                }
            }
            if known_prefix(sizes, dims, k) {
                assert forall|j: int| 0 <= j < u.len() implies sizes.contains_key(#[trigger] u[j]) by {
                    assert(t[j] == u[j]);
                }
                assert(t[k - 1] == dims[k - 1]);
            }
        }
        if k == dims.len() {
            assert(dims.take(k) =~= dims);
        }
    }
}

pub open spec fn var_named(sch: Seq<VarDecl>, i: int, k: Seq<char>) -> bool { sch[i].name == k }
pub open spec fn last_decl(sch: Seq<VarDecl>, i: int) -> bool {
    forall|j: int| i < j < sch.len() ==> sch[j].name != sch[i].name
}


