// =====================================================================================
// Specification vocabulary of C14 for the WRITE PATH of the ndarray backend, written from the property statement:
// "... yields, for every chain and every statistic and draw variable, exactly the recorded values in recording
//  order with the declared type and shape".  The ndarray backend keeps ONE array per variable, of shape
// (n_chains, n_tune + n_draws, *dims); "recording order" is the draw index: the k-th record_sample call of chain c
// writes the elements (c, k, *).  Value types named by the property: f64, f32, i64, u64, bool, string.
// =====================================================================================

// ---- the value side (same vocabulary as unit hashmap: `Col`, `value_col`) ----------------------------------

/// the elements one recorded `Value` denotes, with their type: a scalar is one element, a vector its elements in
/// order, date/time values their i64 ticks (nuts-storable)
pub enum Col {
    F64(Seq<f64>),
    F32(Seq<f32>),
    Bool(Seq<bool>),
    I64(Seq<i64>),
    U64(Seq<u64>),
    Str(Seq<String>),
}
pub open spec fn value_col(v: Value) -> Col {
    match v {
        Value::U64(x) => Col::U64(x@),
        Value::I64(x) => Col::I64(x@),
        Value::F64(x) => Col::F64(x@),
        Value::F32(x) => Col::F32(x@),
        Value::Bool(x) => Col::Bool(x@),
        Value::ScalarString(x) => Col::Str(seq![x]),
        Value::DateTime64(_, x) => Col::I64(x@),
        Value::TimeDelta64(_, x) => Col::I64(x@),
        Value::ScalarU64(x) => Col::U64(seq![x]),
        Value::ScalarI64(x) => Col::I64(seq![x]),
        Value::ScalarF64(x) => Col::F64(seq![x]),
        Value::ScalarF32(x) => Col::F32(seq![x]),
        Value::ScalarBool(x) => Col::Bool(seq![x]),
        Value::Strings(x) => Col::Str(x@),
    }
}
/// the scalar variants of `Value` (one element, stored AT the index; the others are vectors, stored as a row)
pub open spec fn is_scalar(v: Value) -> bool {
    v is ScalarString || v is ScalarU64 || v is ScalarI64 || v is ScalarF64 || v is ScalarF32 || v is ScalarBool
}
/// element type of a value = `elem_ty` of its item type
pub open spec fn col_ty(c: Col) -> ElemTy {
    match c {
        Col::F64(_) => ElemTy::F64,
        Col::F32(_) => ElemTy::F32,
        Col::Bool(_) => ElemTy::Bool,
        Col::I64(_) => ElemTy::I64,
        Col::U64(_) => ElemTy::U64,
        Col::Str(_) => ElemTy::Str,
    }
}
pub open spec fn col_len(c: Col) -> nat {
    match c {
        Col::F64(s) => s.len(),
        Col::F32(s) => s.len(),
        Col::Bool(s) => s.len(),
        Col::I64(s) => s.len(),
        Col::U64(s) => s.len(),
        Col::Str(s) => s.len(),
    }
}

// ---- the array side ----------------------------------------------------------------------------------------

/// the elements of an array, by full index vector, with their type
pub enum Cells {
    F64(Map<Seq<usize>, f64>),
    F32(Map<Seq<usize>, f32>),
    Bool(Map<Seq<usize>, bool>),
    I64(Map<Seq<usize>, i64>),
    U64(Map<Seq<usize>, u64>),
    Str(Map<Seq<usize>, String>),
}
/// full view of an array of the backend: shape and typed elements
pub struct ArrV { pub shape: Seq<usize>, pub cells: Cells }

pub open spec fn nv_full(v: NdarrayValue) -> ArrV {
    match v {
        NdarrayValue::F64(a) => ArrV { shape: a.shape(), cells: Cells::F64(a.elems()) },
        NdarrayValue::F32(a) => ArrV { shape: a.shape(), cells: Cells::F32(a.elems()) },
        NdarrayValue::Bool(a) => ArrV { shape: a.shape(), cells: Cells::Bool(a.elems()) },
        NdarrayValue::I64(a) => ArrV { shape: a.shape(), cells: Cells::I64(a.elems()) },
        NdarrayValue::U64(a) => ArrV { shape: a.shape(), cells: Cells::U64(a.elems()) },
        NdarrayValue::String(a) => ArrV { shape: a.shape(), cells: Cells::Str(a.elems()) },
    }
}
pub open spec fn cells_ty(c: Cells) -> ElemTy {
    match c {
        Cells::F64(_) => ElemTy::F64,
        Cells::F32(_) => ElemTy::F32,
        Cells::Bool(_) => ElemTy::Bool,
        Cells::I64(_) => ElemTy::I64,
        Cells::U64(_) => ElemTy::U64,
        Cells::Str(_) => ElemTy::Str,
    }
}
/// declared type and shape of a full view (= `nv_view` of the array, the vocabulary of new_trace)
pub open spec fn lay(a: ArrV) -> ArrSpec { ArrSpec { ty: cells_ty(a.cells), shape: a.shape } }

// ---- storing one value -------------------------------------------------------------------------------------

/// the value has the declared type of the array and a form set_value can store at a (chain, draw) index:
/// EVERY variant of `Value` whose element type is the element type of the array (a vector needs the 2-entry index)
pub open spec fn stores(l: ArrSpec, ix: Seq<usize>, v: Value) -> bool {
    col_ty(value_col(v)) == l.ty && (is_scalar(v) || ix.len() == 2)
}
/// helper precondition (from the code: ndarray indexing / slicing panics otherwise; from the call sites: the arrays
/// have the shape (n_chains, total, *dims) given by new_trace, a scalar variable has no extra dimension, a vector
/// variable has one, of the length of the value): a scalar is stored AT `ix`, a vector into the row `(ix[0], ix[1], *)`
pub open spec fn fits(l: ArrSpec, ix: Seq<usize>, v: Value) -> bool {
    stores(l, ix, v) ==> if is_scalar(v) {
        in_bounds(ix, l.shape)
    } else {
        l.shape.len() == 3 && ix[0] < l.shape[0] && ix[1] < l.shape[1] && col_len(value_col(v)) == l.shape[2]
    }
}
pub open spec fn put_scalar(c: Cells, ix: Seq<usize>, v: Col) -> Cells {
    match (c, v) {
        (Cells::F64(m), Col::F64(s)) => Cells::F64(m.insert(ix, s[0])),
        (Cells::F32(m), Col::F32(s)) => Cells::F32(m.insert(ix, s[0])),
        (Cells::Bool(m), Col::Bool(s)) => Cells::Bool(m.insert(ix, s[0])),
        (Cells::I64(m), Col::I64(s)) => Cells::I64(m.insert(ix, s[0])),
        (Cells::U64(m), Col::U64(s)) => Cells::U64(m.insert(ix, s[0])),
        (Cells::Str(m), Col::Str(s)) => Cells::Str(m.insert(ix, s[0])),
        _ => c,
    }
}
pub open spec fn put_row(c: Cells, i0: usize, i1: usize, v: Col) -> Cells {
    match (c, v) {
        (Cells::F64(m), Col::F64(s)) => Cells::F64(row_ins(m, i0, i1, s, s.len() as int)),
        (Cells::F32(m), Col::F32(s)) => Cells::F32(row_ins(m, i0, i1, s, s.len() as int)),
        (Cells::Bool(m), Col::Bool(s)) => Cells::Bool(row_ins(m, i0, i1, s, s.len() as int)),
        (Cells::I64(m), Col::I64(s)) => Cells::I64(row_ins(m, i0, i1, s, s.len() as int)),
        (Cells::U64(m), Col::U64(s)) => Cells::U64(row_ins(m, i0, i1, s, s.len() as int)),
        (Cells::Str(m), Col::Str(s)) => Cells::Str(row_ins(m, i0, i1, s, s.len() as int)),
        _ => c,
    }
}
/// the array after "exactly that value" was stored at (chain, draw[, ..]): same shape and type, the element at `ix`
/// (scalar) / the elements `(ix[0], ix[1], k)` (vector) are the value, every other element is kept
pub open spec fn store(a: ArrV, ix: Seq<usize>, v: Value) -> ArrV {
    if !stores(lay(a), ix, v) {
        a
    } else if is_scalar(v) {
        ArrV { shape: a.shape, cells: put_scalar(a.cells, ix, value_col(v)) }
    } else {
        ArrV { shape: a.shape, cells: put_row(a.cells, ix[0], ix[1], value_col(v)) }
    }
}

// ---- recording one sample ------------------------------------------------------------------------------------

pub type Store = Map<Seq<char>, ArrV>;
pub open spec fn full_m(m: Map<Seq<char>, NdarrayValue>) -> Store {
    m.map_values(|v: NdarrayValue| nv_full(v))
}
pub open spec fn full(m: HashMap<String, NdarrayValue>) -> Store { full_m(m@) }

/// helper precondition of one entry: a present value for a declared variable fits its array
pub open spec fn entry_fits(l: Arrs, e: (&str, Option<Value>), ix: Seq<usize>) -> bool {
    e.1 is Some && !skipped(e.0@) && l.contains_key(e.0@) ==> fits(l[e.0@], ix, e.1->Some_0)
}
pub open spec fn entries_fit(l: Arrs, es: Seq<(&str, Option<Value>)>, ix: Seq<usize>) -> bool {
    forall|i: int| 0 <= i < es.len() ==> entry_fits(l, #[trigger] es[i], ix)
}
/// an entry can be recorded: `draw` / `chain` are ignored, a present value needs a declared variable of its type
pub open spec fn entry_ok(l: Arrs, e: (&str, Option<Value>), ix: Seq<usize>) -> bool {
    e.1 is Some && !skipped(e.0@) ==> l.contains_key(e.0@) && stores(l[e.0@], ix, e.1->Some_0)
}
pub open spec fn entries_ok(l: Arrs, es: Seq<(&str, Option<Value>)>, ix: Seq<usize>) -> bool {
    forall|i: int| 0 <= i < es.len() ==> entry_ok(l, #[trigger] es[i], ix)
}
pub open spec fn all_present(es: Seq<(&str, Option<Value>)>) -> bool {
    forall|i: int| 0 <= i < es.len() ==> (#[trigger] es[i]).1 is Some
}
/// recording one (name, optional value) entry at index `ix` = (chain, draw)
pub open spec fn rec_one(m: Store, e: (&str, Option<Value>), ix: Seq<usize>) -> Store {
    if e.1 is Some && !skipped(e.0@) {
        m.insert(e.0@, store(m[e.0@], ix, e.1->Some_0))
    } else {
        m
    }
}
/// recording a list of entries, in list order
pub open spec fn rec_all(m: Store, es: Seq<(&str, Option<Value>)>, ix: Seq<usize>) -> Store
    decreases es.len()
{
    if es.len() == 0 { m } else { rec_one(rec_all(m, es.drop_last(), ix), es.last(), ix) }
}
/// recording the first k entries; `rec_steps` unfolds it one step (carried as a loop invariant, like nt_steps)
pub open spec fn rec_prefix(m: Store, es: Seq<(&str, Option<Value>)>, k: int, ix: Seq<usize>) -> Store {
    rec_all(m, es.take(k), ix)
}
pub open spec fn rec_steps(m: Store, es: Seq<(&str, Option<Value>)>, ix: Seq<usize>) -> bool {
    forall|k: int| {
        let p = #[trigger] rec_prefix(m, es, k, ix);
        &&& k == 0 ==> p == m
        &&& 0 < k <= es.len() ==> p == rec_one(rec_all(m, es.take(k - 1), ix), es[k - 1], ix)
        &&& k == es.len() ==> p == rec_all(m, es, ix)
    }
}

// ---- NdarrayChainStorage::{push_param, push_draw}: one entry into one of the two maps ------------------------

pub open spec fn push_pre(m: HashMap<String, NdarrayValue>, name: &str, value: Value, ix: Seq<usize>) -> bool {
    entry_fits(arrs(m), (name, Some(value)), ix)
}
pub open spec fn push_post(m0: HashMap<String, NdarrayValue>, m1: HashMap<String, NdarrayValue>, name: &str, value: Value, ix: Seq<usize>, r: Result<()>) -> bool {
    // declared type and shape of every array are kept
    &&& arrs(m1) =~= arrs(m0)
    // Ok exactly for draw / chain and for a declared variable of the type of the value: unknown name or type mismatch is Err
    &&& (r is Ok) == entry_ok(arrs(m0), (name, Some(value)), ix)
    // exactly that value is stored at (chain, draw[, ..]) of the array of that name, nothing else changes
    &&& r is Ok ==> full(m1) =~~= rec_one(full(m0), (name, Some(value)), ix)
    &&& r is Err ==> full(m1) =~~= full(m0)
}

// ---- ChainStorage::record_sample (impl_extra_chain.rs delegates here) ------------------------------------------

/// the index every value of the current sample is written at
pub open spec fn cs_ix(s: NdarrayChainStorage) -> Seq<usize> { seq![s.chain, s.current_draw] }

pub open spec fn rs_pre(s: NdarrayChainStorage, stats: Seq<(&str, Option<Value>)>, draws: Seq<(&str, Option<Value>)>) -> bool {
    // machine integers: `self.current_draw += 1`
    &&& s.current_draw < usize::MAX
    &&& entries_fit(arrs(s.shared_arrays.v.stats_arrays), stats, cs_ix(s))
    &&& entries_fit(arrs(s.shared_arrays.v.draws_arrays), draws, cs_ix(s))
}
pub open spec fn rs_post(s0: NdarrayChainStorage, s1: NdarrayChainStorage, stats: Seq<(&str, Option<Value>)>, draws: Seq<(&str, Option<Value>)>, r: Result<()>) -> bool {
    let ix = cs_ix(s0);
    let a0 = s0.shared_arrays.v;
    let a1 = s1.shared_arrays.v;
    &&& s1.chain == s0.chain
    // declared type and shape of every array are kept
    &&& arrs(a1.stats_arrays) =~= arrs(a0.stats_arrays)
    &&& arrs(a1.draws_arrays) =~= arrs(a0.draws_arrays)
    // recording succeeds exactly when every present statistic and every draw value belongs to a declared variable of
    // its type and no draw value is absent (anything else is an Err, never a panic)
    &&& (r is Ok) == (entries_ok(arrs(a0.stats_arrays), stats, ix) && entries_ok(arrs(a0.draws_arrays), draws, ix) && all_present(draws))
    // every present value is stored at the CURRENT draw index of THIS chain, in list order ...
    &&& r is Ok ==> full(a1.stats_arrays) =~~= rec_all(full(a0.stats_arrays), stats, ix)
    &&& r is Ok ==> full(a1.draws_arrays) =~~= rec_all(full(a0.draws_arrays), draws, ix)
    // ... and the index advances by one per (successful) call
    &&& r is Ok ==> s1.current_draw == s0.current_draw + 1
    &&& r is Err ==> s1.current_draw == s0.current_draw
}

// ---- lemmas ----------------------------------------------------------------------------------------------------

/// `nv_view` (vocabulary of new_trace) is the layout of the full view
// [C14.9]
pub proof fn lemma_lay_view(v: NdarrayValue)
    ensures lay(nv_full(v)) == nv_view(v)
{
}

/// storing keeps the declared type and shape
// [C14.9]
pub proof fn lemma_store_lay(a: ArrV, ix: Seq<usize>, v: Value)
    ensures lay(store(a, ix, v)) == lay(a)
{
}

// [C14.12]
pub proof fn lemma_rec_steps(m: Store, es: Seq<(&str, Option<Value>)>, ix: Seq<usize>)
    ensures rec_steps(m, es, ix)
{
    assert forall|k: int| {
        let p = #[trigger] rec_prefix(m, es, k, ix);
        &&& k == 0 ==> p == m
        &&& 0 < k <= es.len() ==> p == rec_one(rec_all(m, es.take(k - 1), ix), es[k - 1], ix)
        &&& k == es.len() ==> p == rec_all(m, es, ix)
    } by {
        if 0 < k <= es.len() {
            assert(es.take(k).drop_last() =~= es.take(k - 1));
            assert(es.take(k).last() == es[k - 1]);
        }
        if k == es.len() {
            assert(es.take(k) =~= es);
        }
    }
}

/// reading back a row: the first n elements of `vals` are at (i0, i1, k); every other element is kept
// [C14.9]
pub proof fn lemma_row_ins_reads<T>(m: Map<Seq<usize>, T>, i0: usize, i1: usize, vals: Seq<T>, n: int)
    requires 0 <= n <= vals.len(), n <= usize::MAX
    ensures
        forall|k: int| 0 <= k < n ==> row_ins(m, i0, i1, vals, n).contains_key(#[trigger] row_key(i0, i1, k))
            && row_ins(m, i0, i1, vals, n)[row_key(i0, i1, k)] == vals[k],
        forall|ix: Seq<usize>| !(ix.len() == 3 && ix[0] == i0 && ix[1] == i1 && ix[2] < n)
            ==> (#[trigger] row_ins(m, i0, i1, vals, n).contains_key(ix)) == m.contains_key(ix),
        forall|ix: Seq<usize>| !(ix.len() == 3 && ix[0] == i0 && ix[1] == i1 && ix[2] < n)
            ==> #[trigger] row_ins(m, i0, i1, vals, n)[ix] == m[ix],
    decreases n
{
    if n > 0 {
        lemma_row_ins_reads(m, i0, i1, vals, n - 1);
        let prev = row_ins(m, i0, i1, vals, n - 1);
        let key = row_key(i0, i1, n - 1);
        assert(row_ins(m, i0, i1, vals, n) == prev.insert(key, vals[n - 1]));
        assert(key.len() == 3 && key[0] == i0 && key[1] == i1 && key[2] == (n - 1) as usize);
        assert forall|k: int| 0 <= k < n implies row_ins(m, i0, i1, vals, n).contains_key(#[trigger] row_key(i0, i1, k))
            && row_ins(m, i0, i1, vals, n)[row_key(i0, i1, k)] == vals[k] by {
            if k < n - 1 {
                let kk = row_key(i0, i1, k);
                assert(kk[2] == k as usize);
                assert(kk != key);
                assert(prev.contains_key(kk) && prev[kk] == vals[k]);
            }
        }
        assert forall|ix: Seq<usize>| !(ix.len() == 3 && ix[0] == i0 && ix[1] == i1 && ix[2] < n)
            implies (#[trigger] row_ins(m, i0, i1, vals, n).contains_key(ix)) == m.contains_key(ix) by {
            assert(ix != key);
            assert(prev.contains_key(ix) == m.contains_key(ix));
        }
        assert forall|ix: Seq<usize>| !(ix.len() == 3 && ix[0] == i0 && ix[1] == i1 && ix[2] < n)
            implies #[trigger] row_ins(m, i0, i1, vals, n)[ix] == m[ix] by {
            assert(ix != key);
            assert(prev[ix] == m[ix]);
        }
    }
}

/// what a successful set_value means, element by element ("exactly that value at (chain, draw[, ..])", frame):
/// a scalar is read back at `ix`, the k-th element of a vector at (ix[0], ix[1], k); an element whose first index is
/// another chain, or whose second index is another draw, is never touched
// [C14.9]
pub proof fn lemma_store_reads_f64(m: Map<Seq<usize>, f64>, shape: Seq<usize>, ix: Seq<usize>, v: Value)
    requires
        ix.len() == 2,
        v is ScalarF64 || v is F64,
    ensures
        store(ArrV { shape, cells: Cells::F64(m) }, ix, v).shape == shape,
        store(ArrV { shape, cells: Cells::F64(m) }, ix, v).cells is F64,
        v matches Value::ScalarF64(x) ==> store(ArrV { shape, cells: Cells::F64(m) }, ix, v).cells->F64_0 == m.insert(ix, x),
        v matches Value::F64(x) ==> forall|k: int| 0 <= k < x@.len() ==>
            store(ArrV { shape, cells: Cells::F64(m) }, ix, v).cells->F64_0[#[trigger] row_key(ix[0], ix[1], k)] == x@[k],
        forall|other: Seq<usize>| other.len() >= 2 && (other[0] != ix[0] || other[1] != ix[1])
            ==> #[trigger] store(ArrV { shape, cells: Cells::F64(m) }, ix, v).cells->F64_0[other] == m[other],
{
    let a = ArrV { shape, cells: Cells::F64(m) };
    match v {
        Value::ScalarF64(x) => {
            assert(value_col(v) == Col::F64(seq![x]));
            assert forall|other: Seq<usize>| other.len() >= 2 && (other[0] != ix[0] || other[1] != ix[1])
                implies #[trigger] store(a, ix, v).cells->F64_0[other] == m[other] by {
                assert(other != ix);
            }
        }
        Value::F64(x) => {
            assert(value_col(v) == Col::F64(x@));
            assert(x@.len() <= usize::MAX) by {
                broadcast use vstd::std_specs::vec::axiom_spec_len;
                assert(x@.len() == vstd::std_specs::vec::spec_vec_len(&x));
            }
            lemma_row_ins_reads(m, ix[0], ix[1], x@, x@.len() as int);
            assert(store(a, ix, v).cells == Cells::F64(row_ins(m, ix[0], ix[1], x@, x@.len() as int)));
        }
        _ => {}
    }
}

// ---- where the helper preconditions come from: the arrays allocated by new_trace (proved in this unit) ------------

/// every array allocated by new_trace (`decl_arrays`, the postcondition of NdarrayConfig::new_trace) is the declared
/// array of a variable of the schema with that name
// [C14.11]
pub proof fn lemma_decl_arrays_some(sch: Seq<VarDecl>, skip: bool, n_chains: usize, total: usize, sizes: Map<Seq<char>, u64>, k: Seq<char>)
    requires decl_arrays(sch, skip, n_chains, total, sizes).contains_key(k)
    ensures exists|i: int| 0 <= i < sch.len() && #[trigger] var_named(sch, i, k)
        && decl_arrays(sch, skip, n_chains, total, sizes)[k] == decl_arr(sch[i], n_chains, total, sizes)
    decreases sch.len()
{
    if sch.len() > 0 {
        let dl = sch.drop_last();
        let d = sch.last();
        if !(skip && skipped(d.name)) && d.name == k {
            assert(var_named(sch, sch.len() - 1, k));
        } else {
            lemma_decl_arrays_some(dl, skip, n_chains, total, sizes, k);
            let i = choose|i: int| 0 <= i < dl.len() && #[trigger] var_named(dl, i, k)
                && decl_arrays(dl, skip, n_chains, total, sizes)[k] == decl_arr(dl[i], n_chains, total, sizes);
            assert(dl[i] == sch[i]);
            assert(var_named(sch, i, k));
        }
    }
}

/// the helper precondition `fits` at the call sites: the array allocated for the declared variable `d`, a chain number
/// below n_chains, a draw index below n_tune + n_draws, and a value of the declared FORM of `d` (a scalar for a variable
/// without extra dimension, a vector of the size of its one extra dimension; that the sampler hands over values of the
/// declared form is the value side of the schema, C16)
// [C14.11]
pub proof fn lemma_fits_decl(d: VarDecl, n_chains: usize, total: usize, sizes: Map<Seq<char>, u64>, chain: usize, draw: usize, v: Value)
    requires
        chain < n_chains,
        draw < total,
        is_scalar(v) ==> d.dims.len() == 0,
        !is_scalar(v) ==> d.dims.len() == 1 && col_len(value_col(v)) == sizes[d.dims[0]] as usize,
    ensures
        fits(decl_arr(d, n_chains, total, sizes), seq![chain, draw], v),
{
    let shape = decl_arr(d, n_chains, total, sizes).shape;
    let ix = seq![chain, draw];
    assert(shape.len() == 2 + d.dims.len());
    assert(shape[0] == n_chains && shape[1] == total);
    if is_scalar(v) {
        assert(in_bounds(ix, shape));
    } else {
        assert(shape[2] == ext_shape(sizes, d.dims)[0]);
    }
}
