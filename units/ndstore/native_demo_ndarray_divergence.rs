//! Native demonstration of the C14 finding "NdarrayValue::set_value has no arm for string values (and none for
//! date / time values)".  Copy to `tests/ndarray_divergence.rs` of a checkout and run
//!     cargo test --offline --features ndarray --test ndarray_divergence -- --nocapture
//! Public API only.
//!
//! Test 1 (reachable with the types of the crate alone): a standard normal whose log density reports a RECOVERABLE
//! error outside |x| <= 2 -- which the sampler turns into a divergence (README: "recoverable errors are treated as
//! divergences").  Every divergent draw carries the statistic `divergence_message: Some(ScalarString(..))`.  The same
//! chain (same seed) is sampled with the HashMap backend (oracle) and with the ndarray backend; C14 demands that the
//! ndarray trace holds, for the statistic `divergence_message` (declared ItemType::String), exactly the recorded
//! messages at the draws they were recorded at.  On the unfixed tree sampling aborts at the first divergent draw:
//! "Mismatched item type".
//!
//! Test 2 (needs a hand-written `Storable`, as `nuts-storable` invites): draw variables of the declared types
//! String (scalar and vector) and DateTime64 / TimeDelta64 (vectors; `NdarrayValue::new` allocates an i64 array for
//! them).  On the unfixed tree: "Mismatched item type" at the first draw.
use std::time::Duration;

use nuts_rs::{
    CpuLogpFunc, CpuMath, DiagNutsSettings, HashMapConfig, HashMapValue, LogpError, Model,
    NdarrayConfig, NdarrayValue, Sampler, SamplerWaitResult,
};
use nuts_storable::{DateTimeUnit, HasDims, ItemType, Storable, Value};
use rand::prelude::Rng;
use thiserror::Error;

const DIM: usize = 3;
const TUNE: u64 = 60;
const DRAWS: u64 = 40;

#[derive(Error, Debug)]
enum BoundedLogpError {
    #[error("position outside of the support: |x| > 2")]
    OutOfSupport,
}

impl LogpError for BoundedLogpError {
    fn is_recoverable(&self) -> bool {
        true
    }
}

fn dim_sizes() -> std::collections::HashMap<String, u64> {
    std::collections::HashMap::from([
        ("unconstrained_parameter".to_string(), DIM as u64),
        ("dim".to_string(), DIM as u64),
    ])
}

fn bounded_normal_logp(position: &[f64], grad: &mut [f64]) -> Result<f64, BoundedLogpError> {
    let mut logp = 0f64;
    for (p, g) in position.iter().zip(grad.iter_mut()) {
        if p.abs() > 2. {
            return Err(BoundedLogpError::OutOfSupport);
        }
        logp -= p * p / 2.;
        *g = -p;
    }
    Ok(logp)
}

// ---------------------------------------------------------------------------------------------------------
// Test 1

struct BoundedNormal;

impl HasDims for BoundedNormal {
    fn dim_sizes(&self) -> std::collections::HashMap<String, u64> {
        dim_sizes()
    }
}

impl CpuLogpFunc for BoundedNormal {
    type LogpError = BoundedLogpError;
    type FlowParameters = ();
    type ExpandedVector = Vec<f64>;

    fn dim(&self) -> usize {
        DIM
    }

    fn logp(&mut self, position: &[f64], grad: &mut [f64]) -> Result<f64, Self::LogpError> {
        bounded_normal_logp(position, grad)
    }

    fn expand_vector<R>(
        &mut self,
        _rng: &mut R,
        array: &[f64],
    ) -> Result<Self::ExpandedVector, nuts_rs::CpuMathError>
    where
        R: rand::Rng + ?Sized,
    {
        Ok(array.to_vec())
    }
}

struct BoundedNormalModel;

impl Model for BoundedNormalModel {
    type Math<'model>
        = CpuMath<BoundedNormal>
    where
        Self: 'model;

    fn math<R: Rng + ?Sized>(&self, _rng: &mut R) -> anyhow::Result<Self::Math<'_>> {
        Ok(CpuMath::new(BoundedNormal))
    }

    fn init_position<R: Rng + ?Sized>(
        &self,
        _rng: &mut R,
        position: &mut [f64],
    ) -> anyhow::Result<()> {
        position.iter_mut().for_each(|x| *x = 0.1);
        Ok(())
    }
}

fn settings() -> DiagNutsSettings {
    DiagNutsSettings {
        seed: 7,
        num_chains: 2,
        num_tune: TUNE,
        num_draws: DRAWS,
        ..Default::default()
    }
}

fn wait<F: Send + 'static>(mut sampler: Sampler<F>) -> anyhow::Result<F> {
    loop {
        match sampler.wait_timeout(Duration::from_secs(1)) {
            SamplerWaitResult::Trace(trace) => return Ok(trace),
            SamplerWaitResult::Timeout(new_sampler) => sampler = new_sampler,
            SamplerWaitResult::Err(err, _trace) => return Err(err),
        };
    }
}

#[test]
fn ndarray_trace_holds_the_divergence_messages() -> anyhow::Result<()> {
    let total = (TUNE + DRAWS) as usize;
    // oracle: the HashMap backend keeps, per chain, the `diverging` flag of every draw and the messages that were
    // recorded (absent values are skipped), in recording order
    let oracle = wait(Sampler::new(
        BoundedNormalModel,
        settings(),
        HashMapConfig::new(),
        2,
        None,
    )?)?;
    let mut expected: Vec<(Vec<bool>, Vec<String>)> = vec![];
    for chain in oracle.iter() {
        let HashMapValue::Bool(diverging) = &chain.stats["diverging"] else {
            panic!("unexpected type")
        };
        let HashMapValue::String(messages) = &chain.stats["divergence_message"] else {
            panic!("declared type of `divergence_message` is string")
        };
        assert_eq!(diverging.len(), total);
        assert_eq!(diverging.iter().filter(|&&d| d).count(), messages.len());
        expected.push((diverging.clone(), messages.clone()));
    }
    let n_div: usize = expected.iter().map(|(_, m)| m.len()).sum();
    println!("HashMap backend: {n_div} divergent draws, first message: {:?}", expected.iter().flat_map(|(_, m)| m.iter()).next());
    assert!(n_div > 0, "pick another seed: the demonstration needs a divergence");

    // ndarray backend, same seed
    let trace = wait(Sampler::new(
        BoundedNormalModel,
        settings(),
        NdarrayConfig::new(),
        2,
        None,
    )?)?;
    let NdarrayValue::Bool(diverging) = &trace.stats["diverging"] else {
        panic!("unexpected type")
    };
    let NdarrayValue::String(messages) = &trace.stats["divergence_message"] else {
        panic!("declared type of `divergence_message` is string")
    };
    assert_eq!(diverging.shape(), &[2, total]);
    assert_eq!(messages.shape(), &[2, total]);
    for (chain, (exp_div, exp_msg)) in expected.iter().enumerate() {
        let mut next = exp_msg.iter();
        for draw in 0..total {
            assert_eq!(diverging[[chain, draw]], exp_div[draw], "chain {chain} draw {draw}");
            if exp_div[draw] {
                // exactly the recorded message, at the draw it was recorded at
                assert_eq!(&messages[[chain, draw]], next.next().unwrap(), "chain {chain} draw {draw}");
            } else {
                // nothing was recorded for this draw
                assert_eq!(messages[[chain, draw]], "", "chain {chain} draw {draw}");
            }
        }
    }
    println!("ndarray backend: divergence messages of both chains agree with the HashMap backend");
    Ok(())
}

// ---------------------------------------------------------------------------------------------------------
// Test 2: every `Value` variant whose item type is the declared type of the variable

struct Labelled;

impl HasDims for Labelled {
    fn dim_sizes(&self) -> std::collections::HashMap<String, u64> {
        dim_sizes()
    }
}

/// the expanded draw: the position plus values of the remaining declared types
struct LabelledDraw {
    position: Vec<f64>,
}

impl Storable<Labelled> for LabelledDraw {
    fn names(_parent: &Labelled) -> Vec<&str> {
        vec!["value", "note", "labels", "when", "elapsed"]
    }

    fn item_type(_parent: &Labelled, item: &str) -> ItemType {
        match item {
            "value" => ItemType::F64,
            "note" | "labels" => ItemType::String,
            "when" => ItemType::DateTime64(DateTimeUnit::Seconds),
            "elapsed" => ItemType::TimeDelta64(DateTimeUnit::Milliseconds),
            _ => panic!("unknown item"),
        }
    }

    fn dims<'a>(_parent: &'a Labelled, item: &str) -> Vec<&'a str> {
        match item {
            "note" => vec![],
            _ => vec!["dim"],
        }
    }

    fn get_all<'a>(&'a mut self, _parent: &'a Labelled) -> Vec<(&'a str, Option<Value>)> {
        let ticks: Vec<i64> = self.position.iter().map(|x| (x * 1000.) as i64).collect();
        vec![
            ("value", Some(Value::F64(self.position.clone()))),
            ("note", Some(Value::ScalarString(format!("{:.3}", self.position[0])))),
            (
                "labels",
                Some(Value::Strings(self.position.iter().map(|x| format!("{x:.3}")).collect())),
            ),
            ("when", Some(Value::DateTime64(DateTimeUnit::Seconds, ticks.clone()))),
            ("elapsed", Some(Value::TimeDelta64(DateTimeUnit::Milliseconds, ticks))),
        ]
    }
}

impl CpuLogpFunc for Labelled {
    type LogpError = BoundedLogpError;
    type FlowParameters = ();
    type ExpandedVector = LabelledDraw;

    fn dim(&self) -> usize {
        DIM
    }

    fn logp(&mut self, position: &[f64], grad: &mut [f64]) -> Result<f64, Self::LogpError> {
        let mut logp = 0f64;
        for (p, g) in position.iter().zip(grad.iter_mut()) {
            logp -= p * p / 2.;
            *g = -p;
        }
        Ok(logp)
    }

    fn expand_vector<R>(
        &mut self,
        _rng: &mut R,
        array: &[f64],
    ) -> Result<Self::ExpandedVector, nuts_rs::CpuMathError>
    where
        R: rand::Rng + ?Sized,
    {
        Ok(LabelledDraw { position: array.to_vec() })
    }
}

struct LabelledModel;

impl Model for LabelledModel {
    type Math<'model>
        = CpuMath<Labelled>
    where
        Self: 'model;

    fn math<R: Rng + ?Sized>(&self, _rng: &mut R) -> anyhow::Result<Self::Math<'_>> {
        Ok(CpuMath::new(Labelled))
    }

    fn init_position<R: Rng + ?Sized>(
        &self,
        _rng: &mut R,
        position: &mut [f64],
    ) -> anyhow::Result<()> {
        position.iter_mut().for_each(|x| *x = 0.1);
        Ok(())
    }
}

#[test]
fn ndarray_trace_holds_string_and_time_draw_variables() -> anyhow::Result<()> {
    let total = (TUNE + DRAWS) as usize;
    let settings = DiagNutsSettings {
        seed: 11,
        num_chains: 1,
        num_tune: TUNE,
        num_draws: DRAWS,
        ..Default::default()
    };
    let trace = wait(Sampler::new(LabelledModel, settings, NdarrayConfig::new(), 1, None)?)?;
    let NdarrayValue::F64(value) = &trace.draws["value"] else { panic!("declared type f64") };
    let NdarrayValue::String(note) = &trace.draws["note"] else { panic!("declared type string") };
    let NdarrayValue::String(labels) = &trace.draws["labels"] else { panic!("declared type string") };
    let NdarrayValue::I64(when) = &trace.draws["when"] else { panic!("date / time values are i64 ticks") };
    let NdarrayValue::I64(elapsed) = &trace.draws["elapsed"] else { panic!("date / time values are i64 ticks") };
    assert_eq!(value.shape(), &[1, total, DIM]);
    assert_eq!(note.shape(), &[1, total]);
    assert_eq!(labels.shape(), &[1, total, DIM]);
    assert_eq!(when.shape(), &[1, total, DIM]);
    assert_eq!(elapsed.shape(), &[1, total, DIM]);
    for draw in 0..total {
        assert_eq!(note[[0, draw]], format!("{:.3}", value[[0, draw, 0]]));
        for k in 0..DIM {
            let x = value[[0, draw, k]];
            assert_eq!(labels[[0, draw, k]], format!("{x:.3}"));
            assert_eq!(when[[0, draw, k]], (x * 1000.) as i64);
            assert_eq!(elapsed[[0, draw, k]], (x * 1000.) as i64);
        }
    }
    println!("ndarray backend: string and date / time draw variables hold the recorded values");
    Ok(())
}
