// Prelude of unit `ndstore` (model I: no float reasoning).  Everything the extracted code calls but that is
// not extracted.  EVERY contract below is an ASSUMPTION of this unit; none is proved by another unit.
// Ids (for DESIGN section 6 / 11.7):
//   A-schema       facade of crate::Settings / crate::Math: the statistics schema and the draw ("data") schema are the
//                  spec sequences `stat_schema(math)` / `data_schema(math)` of (name, dims, type);
//                  `stat_dims_all` / `stat_types` enumerate the former, `data_dims_all` / `data_types` the latter, each
//                  in schema order (src/sampler.rs: all four are `*_names(math).into_iter().map(..)`, so the i-th
//                  entries of `*_dims_all` and `*_types` carry the same name).  `math.dim_sizes()` is the model's
//                  dimension table.
//   A-hashmap      std HashMap<String, V>: `new` is empty, `insert` overwrites the entry of the key, `get` finds it
//   A-iter         R10.foriter / R9.method facade of the std iterator protocol: `Vec::into_iter` yields the elements in
//                  order, `zip` pairs the i-th elements up to the shorter length, a `for` loop visits them in order
//   A-ndarray      ndarray facade: `ArrayD::zeros(IxDyn(s))` / `ArrayD::from_elem(IxDyn(s), e)` have shape `s`
//   A-anyhow       `Option::context(msg)` is Ok(v) for Some(v) and Err for None
//   A-string       `String::to_string` returns an equal string; `<[T]>::contains` is `exists i. s[i] == x`
//   A-arc-mutex    `Mutex::new(v)` holds `v` (facade struct with the content as a field)
//   A-nooverflow   n_tune + n_draws fits in usize (stated precondition)
use ::std::sync::Arc;
use vstd::std_specs::cmp::PartialEqSpec;   // `eq_spec` in the specification of `<[T]>::contains`

// ---- anyhow facade: `use anyhow::{Context, Result};`
#[derive(Debug)]
pub struct AnyhowError { pub code: u64 }
pub type Result<T> = core::result::Result<T, AnyhowError>;

/// R5.macro: `format!(..)` -> `opaque_string()` (message text is not verified)
#[verifier::external_body]
pub fn opaque_string() -> String { unimplemented!() }

// A-anyhow
pub trait Context<T>: Sized {
    spec fn ctx_some(&self) -> Option<T>;
    fn context<C>(self, c: C) -> (r: Result<T>)
        ensures (r is Ok) == (self.ctx_some() is Some), r is Ok ==> r->Ok_0 == self.ctx_some()->Some_0;
}
impl<T> Context<T> for Option<T> {
    open spec fn ctx_some(&self) -> Option<T> { *self }
    #[verifier::external_body]
    fn context<C>(self, c: C) -> (r: Result<T>) { unimplemented!() }
}

// ---- A-hashmap: facade for std::collections::HashMap<String, V> (same shape as in unit hashmap)
pub struct HashMap<K, V> {
    pub m: Ghost<Map<Seq<char>, V>>,
    pub _k: core::marker::PhantomData<K>,
}
impl<V> HashMap<String, V> {
    pub open spec fn view(&self) -> Map<Seq<char>, V> { self.m@ }

    #[verifier::external_body]
    pub fn new() -> (r: Self)
        ensures r@ == Map::<Seq<char>, V>::empty(),
    { unimplemented!() }

    #[verifier::external_body]
    pub fn insert(&mut self, k: String, v: V) -> (r: Option<V>)
        ensures final(self)@ == old(self)@.insert(k@, v),
    { unimplemented!() }

    #[verifier::external_body]
    pub fn get(&self, k: &String) -> (r: Option<&V>)
        ensures
            self@.contains_key(k@) ==> r is Some && *r->Some_0 == self@[k@],
            !self@.contains_key(k@) ==> r is None,
    { unimplemented!() }
}
// needed by `#[derive(Clone)] struct SharedArrays` (its `clone` is never called in this unit)
impl<K, V: Clone> Clone for HashMap<K, V> {
    #[verifier::external_body]
    fn clone(&self) -> (r: Self) { unimplemented!() }
}

// ---- A-arc-mutex
pub struct Mutex<T> { pub v: T }
impl<T> Mutex<T> {
    pub fn new(v: T) -> (r: Self) ensures r.v == v { Mutex { v } }
}

// ---- A-ndarray: `use ndarray::{ArrayD, IxDyn};`
pub struct IxDynT { pub dims: Vec<usize> }
/// ndarray: `pub fn IxDyn(ix: &[Ix]) -> IxDyn`
#[verifier::external_body]
pub fn IxDyn(ix: &[usize]) -> (r: IxDynT)
    ensures r.dims@ == ix@,
{ unimplemented!() }

#[verifier::external_body]
#[verifier::accept_recursive_types(T)]
pub struct ArrayD<T> { _p: core::marker::PhantomData<T> }
impl<T> ArrayD<T> {
    pub uninterp spec fn shape(&self) -> Seq<usize>;
    /// ndarray: `ArrayBase::zeros(shape)` (T: Clone + Zero)
    #[verifier::external_body]
    pub fn zeros(d: IxDynT) -> (r: Self)
        ensures r.shape() == d.dims@,
    { unimplemented!() }
    /// ndarray: `ArrayBase::from_elem(shape, elem)` (T: Clone)
    #[verifier::external_body]
    pub fn from_elem(d: IxDynT, e: T) -> (r: Self)
        ensures r.shape() == d.dims@,
    { unimplemented!() }
}
impl<T> Clone for ArrayD<T> {
    #[verifier::external_body]
    fn clone(&self) -> (r: Self) { unimplemented!() }
}

// ---- A-string
/// R9.method `to_string` -> `vx_to_string` (vstd has no specification for the blanket `ToString`)
pub trait VxToString {
    spec fn vx_str(&self) -> Seq<char>;
    fn vx_to_string(&self) -> (r: String) ensures r@ == self.vx_str();
}
impl VxToString for String {
    open spec fn vx_str(&self) -> Seq<char> { self@ }
    #[verifier::external_body]
    fn vx_to_string(&self) -> (r: String) { self.to_string() }
}
/// `<[T]>::contains(&x)` is `exists i. s[i] == x` with `==` the PartialEq of T (same text as unit hashmap)
pub assume_specification<T: PartialEq> [<[T]>::contains](s: &[T], x: &T) -> (r: bool)
    ensures T::obeys_eq_spec() ==> r == exists|i: int| 0 <= i < s@.len() && (#[trigger] s@[i]).eq_spec(x);

// ---- A-iter: the iterator protocol behind `for PAT in EXPR` (R10.foriter) and the two adapters used by
// new_trace (R9.method: `into_iter` -> `vx_into`, `zip` -> `vx_zip`).  A facade iterator is the sequence of ALL
// its items plus the number already consumed.
#[verifier::external_body]
#[verifier::accept_recursive_types(T)]
pub struct VxIt<T> { _p: core::marker::PhantomData<T> }
impl<T> VxIt<T> {
    pub uninterp spec fn all(&self) -> Seq<T>;
    pub uninterp spec fn pos(&self) -> int;

    /// `Iterator::next` would return Some
    #[verifier::external_body]
    pub fn vx_more(&self) -> (r: bool)
        ensures r == (self.pos() < self.all().len()),
    { unimplemented!() }

    /// `Iterator::next().unwrap()`
    #[verifier::external_body]
    pub fn vx_next(&mut self) -> (r: T)
        requires 0 <= old(self).pos() < old(self).all().len(),
        ensures
            final(self).all() == old(self).all(),
            final(self).pos() == old(self).pos() + 1,
            r == old(self).all()[old(self).pos()],
    { unimplemented!() }

    /// `Iterator::zip` of two fresh iterators
    #[verifier::external_body]
    pub fn vx_zip<B>(self, o: VxIt<B>) -> (r: VxIt<(T, B)>)
        requires self.pos() == 0, o.pos() == 0,
        ensures r.pos() == 0, r.all() == zip_seq(self.all(), o.all()),
    { unimplemented!() }
}
pub open spec fn zip_seq<A, B>(a: Seq<A>, b: Seq<B>) -> Seq<(A, B)> {
    Seq::new(if a.len() <= b.len() { a.len() } else { b.len() }, |i: int| (a[i], b[i]))
}
/// `IntoIterator::into_iter`
pub trait VxIntoIter<T>: Sized {
    spec fn vx_seq(&self) -> Seq<T>;
    fn vx_into(self) -> (r: VxIt<T>)
        ensures r.pos() == 0, r.all() == self.vx_seq();
}
impl<T> VxIntoIter<T> for Vec<T> {
    open spec fn vx_seq(&self) -> Seq<T> { self@ }
    #[verifier::external_body]
    fn vx_into(self) -> (r: VxIt<T>) { unimplemented!() }
}
impl<T> VxIntoIter<T> for VxIt<T> {
    open spec fn vx_seq(&self) -> Seq<T> { self.all().skip(self.pos()) }
    #[verifier::external_body]
    fn vx_into(self) -> (r: VxIt<T>) { unimplemented!() }
}
/// R10.foriter: `for PAT in EXPR {B}` -> `{ let mut it = vx_iter(EXPR); while it.vx_more() { let PAT = it.vx_next(); B } }`
pub fn vx_iter<T, I: VxIntoIter<T>>(i: I) -> (r: VxIt<T>)
    ensures r.pos() == 0, r.all() == i.vx_seq(),
{ i.vx_into() }

// ---- A-schema: crate::Math / crate::Settings as far as new_trace uses them
pub trait Math: Sized {
    /// the model's dimension table (`HasDims::dim_sizes`)
    spec fn dim_sizes_spec(&self) -> Map<Seq<char>, u64>;
    fn dim_sizes(&self) -> (r: HashMap<String, u64>)
        ensures r@ == self.dim_sizes_spec();
}
pub trait Settings: Sized {
    spec fn num_chains_spec(&self) -> usize;
    spec fn num_tune_spec(&self) -> usize;
    spec fn num_draws_spec(&self) -> usize;
    /// the statistics schema / the draw-variable schema: (name, dims, type) in declaration order
    spec fn stat_schema<M: Math>(&self, math: &M) -> Seq<VarDecl>;
    spec fn data_schema<M: Math>(&self, math: &M) -> Seq<VarDecl>;

    fn num_chains(&self) -> (r: usize) ensures r == self.num_chains_spec();
    fn hint_num_tune(&self) -> (r: usize) ensures r == self.num_tune_spec();
    fn hint_num_draws(&self) -> (r: usize) ensures r == self.num_draws_spec();

    fn stat_dims_all<M: Math>(&self, math: &M) -> (r: Vec<(String, Vec<String>)>)
        ensures dims_are(r@, self.stat_schema(math));
    fn stat_types<M: Math>(&self, math: &M) -> (r: Vec<(String, ItemType)>)
        ensures types_are(r@, self.stat_schema(math));
    fn data_dims_all<M: Math>(&self, math: &M) -> (r: Vec<(String, Vec<String>)>)
        ensures dims_are(r@, self.data_schema(math));
    fn data_types<M: Math>(&self, math: &M) -> (r: Vec<(String, ItemType)>)
        ensures types_are(r@, self.data_schema(math));
}

// ---- the trait implemented by NdarrayConfig (src/storage/core.rs); the per-impl contract is supplied by the
// ghost items spliced into the extracted impl (impl_extra.rs)
pub trait StorageConfig: Sized {
    type Storage;
    spec fn new_trace_pre<M: Math, S: Settings>(&self, settings: &S, math: &M) -> bool;
    spec fn new_trace_post<M: Math, S: Settings>(&self, settings: &S, math: &M, r: Result<Self::Storage>) -> bool;
    // (`settings: &impl Settings` in the source; R7.impltrait names the anonymous type parameter)
    fn new_trace<M: Math, VxImpl0: Settings>(self, settings: &VxImpl0, math: &M) -> (r: Result<Self::Storage>)
        requires self.new_trace_pre(settings, math)
        ensures self.new_trace_post(settings, math, r);
}
