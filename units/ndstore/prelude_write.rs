// Prelude of unit `ndstore`, WRITE PATH (NdarrayValue::set_value, NdarrayChainStorage::{new, push_param, push_draw},
// ChainStorage::{record_sample, finalize, flush}).  As in prelude.rs every contract below is an ASSUMPTION of this
// unit; none is proved by another unit.  Ids (DESIGN section 6 / 11.7):
//   A-ndarray      (write side) an `ArrayD<T>` is its shape plus a finite map `elems()` from full index vectors to
//                  elements.  ndarray 0.17 semantics as read from its source (impl_methods.rs / dimension/ndindex.rs):
//                  * `arr[IxDyn(ix)] = v`  (IndexMut<IxDyn>) PANICS unless `ix.len() == ndim` and `ix[j] < shape[j]` for
//                    every j; otherwise it overwrites exactly the element at `ix` (shape and all other elements kept);
//                  * `arr.slice_mut(s![i0, i1, ..])` on a dynamic-dimensional array PANICS unless `ndim == 3`
//                    ("The input dimension of `info` must match the array to be sliced"), `i0 < shape[0]` and
//                    `i1 < shape[1]`; the result is a one-dimensional mutable view of length `shape[2]` onto the
//                    elements `[i0, i1, k]`: writing `view[k] = x` (PANICS unless `k < shape[2]`) overwrites exactly
//                    that element of the array;
//                  * `ndarray::s![a, b, ..]` evaluates `a` and `b` once, in this order.
//                  The view is modelled as `&mut RowViewMut<T>` (the real `ArrayViewMut<'_, T, IxDyn>` is a struct that
//                  holds the borrow): Verus then ties the final content of the view to the final content of the array.
//   A-arc-mutex    (write side) SEQUENTIAL VIEW of `Arc<Mutex<SharedArrays>>`: `lock()` never fails (no poisoning: the
//                  functions under contract are panic-free under their preconditions) and hands out the content as an
//                  exclusive borrow; what is written through the guard is the content afterwards.  Interference by other
//                  chains between two lock acquisitions is NOT modelled; the contracts below show that a chain storage
//                  writes only elements whose first index is its own chain number, which is the frame the other chains
//                  rely on (rely/guarantee argument, not mechanised).  `Arc::clone` (NdarrayChainStorage::new) is an
//                  equal value (vstd).
//   A-hashmap      (write side) `get_mut(name)` returns the entry stored under `name` and writes through it (same text as
//                  in unit hashmap)
//   A-iter         (write side) `slice.iter()` yields references to the elements in order, `enumerate()` pairs the i-th
//                  item with `i`  (R9.method: `iter` -> `vx_refs`, `enumerate` -> `vx_enumerate`)
//   A-anyhow       `anyhow!(..)` builds some error value (R5.macro -> `opaque_error()`)
use vstd::std_specs::core::IndexSpecImpl;

/// R5.macro: `anyhow::anyhow!(..)` -> `opaque_error()` (message text is not verified)
#[verifier::external_body]
pub fn opaque_error() -> AnyhowError { unimplemented!() }

// ---- A-ndarray, write side ------------------------------------------------------------------
impl<T> ArrayD<T> {
    /// the elements, by full index vector
    pub uninterp spec fn elems(&self) -> Map<Seq<usize>, T>;

    /// ndarray: `ArrayBase::slice_mut(info)` for `info = s![i0, i1, ..]`
    #[verifier::external_body]
    pub fn slice_mut(&mut self, s: VxSliceRow) -> (r: &mut RowViewMut<T>)
        requires
            old(self).shape().len() == 3,
            s.i0 < old(self).shape()[0],
            s.i1 < old(self).shape()[1],
        ensures
            r@.len() == old(self).shape()[2],
            forall|k: int| 0 <= k < r@.len() ==> #[trigger] r@[k] == old(self).elems()[row_key(s.i0, s.i1, k)],
            final(r)@.len() == r@.len(),
            final(self).shape() == old(self).shape(),
            final(self).elems() == row_ins(old(self).elems(), s.i0, s.i1, final(r)@, final(r)@.len() as int),
    { unimplemented!() }
}
/// writing the first k elements of `vals` to the row (i0, i1, *) of an element map
pub open spec fn row_ins<T>(m: Map<Seq<usize>, T>, i0: usize, i1: usize, vals: Seq<T>, k: int) -> Map<Seq<usize>, T>
    decreases k
{
    if k <= 0 { m } else { row_ins(m, i0, i1, vals, k - 1).insert(row_key(i0, i1, k - 1), vals[k - 1]) }
}
/// full index of the k-th element of the row (i0, i1, *)
pub open spec fn row_key(i0: usize, i1: usize, k: int) -> Seq<usize> { seq![i0, i1, k as usize] }
/// an index vector addresses an element of an array of this shape
pub open spec fn in_bounds(ix: Seq<usize>, shape: Seq<usize>) -> bool {
    &&& ix.len() == shape.len()
    &&& forall|j: int| 0 <= j < ix.len() ==> ix[j] < shape[j]
}

// `arr[IxDyn(indices)] = v`
impl<T> core::ops::Index<IxDynT> for ArrayD<T> {
    type Output = T;
    #[verifier::external_body]
    fn index(&self, i: IxDynT) -> (r: &T) { unimplemented!() }
}
impl<T> IndexSpecImpl<IxDynT> for ArrayD<T> {
    /// ndarray: indexing panics ("index out of bounds") unless the index has one in-range entry per axis
    open spec fn index_req(&self, i: &IxDynT) -> bool { in_bounds(i.dims@, self.shape()) }
}
impl<T> core::ops::IndexMut<IxDynT> for ArrayD<T> {
    #[verifier::external_body]
    fn index_mut(&mut self, i: IxDynT) -> (r: &mut T)
        ensures
            final(self).shape() == old(self).shape(),
            final(self).elems() == old(self).elems().insert(i.dims@, *final(r)),
    { unimplemented!() }
}

/// the slice argument `s![i0, i1, ..]`
pub struct VxSliceRow { pub i0: usize, pub i1: usize }
pub mod ndarray {
    /// `ndarray::s![a, b, ..]` (the only form used by src/storage/ndarray.rs; any other form is a front-end error
    /// = undecided, never an alarm).  The macro call itself is extracted verbatim.
    macro_rules! s {
        ($a:expr, $b:expr, ..) => { crate::VxSliceRow { i0: $a, i1: $b } };
    }
    pub(crate) use s;
}

/// one-dimensional mutable view (`ArrayViewMut<'_, T, IxDyn>` with ndim 1)
#[verifier::external_body]
#[verifier::accept_recursive_types(T)]
pub struct RowViewMut<T> { _p: core::marker::PhantomData<T> }
impl<T> RowViewMut<T> {
    pub uninterp spec fn view(&self) -> Seq<T>;
}
impl<T> core::ops::Index<usize> for RowViewMut<T> {
    type Output = T;
    #[verifier::external_body]
    fn index(&self, i: usize) -> (r: &T) { unimplemented!() }
}
impl<T> IndexSpecImpl<usize> for RowViewMut<T> {
    open spec fn index_req(&self, i: &usize) -> bool { *i < self@.len() }
}
impl<T> core::ops::IndexMut<usize> for RowViewMut<T> {
    #[verifier::external_body]
    fn index_mut(&mut self, i: usize) -> (r: &mut T)
        ensures final(self)@ == old(self)@.update(i as int, *final(r)),
    { unimplemented!() }
}

// ---- A-iter, write side -----------------------------------------------------------------------
/// R9.method `iter` -> `vx_refs`: `<[T]>::iter` (through `Vec<T>: Deref`)
pub trait VxRefs<T> {
    spec fn vx_elems(&self) -> Seq<T>;
    fn vx_refs(&self) -> (r: VxIt<&T>)
        ensures
            r.pos() == 0,
            r.all().len() == self.vx_elems().len(),
            forall|j: int| 0 <= j < r.all().len() ==> *(#[trigger] r.all()[j]) == self.vx_elems()[j];
}
impl<T> VxRefs<T> for Vec<T> {
    open spec fn vx_elems(&self) -> Seq<T> { self@ }
    #[verifier::external_body]
    fn vx_refs(&self) -> (r: VxIt<&T>) { unimplemented!() }
}
impl<T> VxIt<T> {
    /// R9.method `enumerate` -> `vx_enumerate`: `Iterator::enumerate` of a fresh iterator
    #[verifier::external_body]
    pub fn vx_enumerate(self) -> (r: VxIt<(usize, T)>)
        requires self.pos() == 0,
        ensures
            r.pos() == 0,
            r.all().len() == self.all().len(),
            forall|j: int| 0 <= j < r.all().len() ==> (#[trigger] r.all()[j]) == (j as usize, self.all()[j]),
    { unimplemented!() }
}

// ---- A-hashmap, write side
impl<V> HashMap<String, V> {
    #[verifier::external_body]
    pub fn get_mut(&mut self, k: &str) -> (r: Option<&mut V>)
        ensures
            old(self)@.contains_key(k@) ==> r is Some && *r->Some_0 == old(self)@[k@]
                && final(self)@ == old(self)@.insert(k@, *final(r->Some_0)),
            !old(self)@.contains_key(k@) ==> r is None && final(self)@ == old(self)@,
    { unimplemented!() }
}

// ---- A-arc-mutex, write side: `self.shared_arrays.lock().unwrap()`
#[derive(Debug)]
pub struct PoisonError { pub code: u64 }
pub trait VxLock<T> {
    spec fn vx_content(&self) -> T;
    /// `Mutex::lock` through `Arc<Mutex<T>>: Deref` (sequential view, see the header)
    fn lock(&mut self) -> (r: core::result::Result<&mut T, PoisonError>)
        ensures
            r is Ok,
            *r->Ok_0 == old(self).vx_content(),
            final(self).vx_content() == *final(r->Ok_0);
}
impl<T> VxLock<T> for Arc<Mutex<T>> {
    open spec fn vx_content(&self) -> T { self.v }
    #[verifier::external_body]
    fn lock(&mut self) -> (r: core::result::Result<&mut T, PoisonError>) { unimplemented!() }
}

// ---- the trait implemented by NdarrayChainStorage (src/storage/core.rs); the per-impl contract is supplied by the
// ghost items spliced into the extracted impl (impl_extra_chain.rs)
pub trait ChainStorage: Sized {
    type Finalized;
    spec fn record_sample_pre(&self, stats: Seq<(&str, Option<Value>)>, draws: Seq<(&str, Option<Value>)>) -> bool;
    spec fn record_sample_post(&self, post: &Self, stats: Seq<(&str, Option<Value>)>, draws: Seq<(&str, Option<Value>)>, r: Result<()>) -> bool;
    fn record_sample(
        &mut self,
        settings: &impl Settings,
        stats: Vec<(&str, Option<Value>)>,
        draws: Vec<(&str, Option<Value>)>,
        info: &Progress,
    ) -> (r: Result<()>)
        requires old(self).record_sample_pre(stats@, draws@)
        ensures old(self).record_sample_post(final(self), stats@, draws@, r);
    spec fn finalize_post(&self, r: Result<Self::Finalized>) -> bool;
    fn finalize(self) -> (r: Result<Self::Finalized>)
        ensures self.finalize_post(r);
    spec fn flush_post(&self, r: Result<()>) -> bool;
    fn flush(&self) -> (r: Result<()>)
        ensures self.flush_post(r);
}
