//@include ../_shared/nuts_post.rs
// =====================================================================================
// Specification vocabulary for the NUTS tree (C01, C03, C05.2), written from the property text
// =====================================================================================


pub proof fn lemma_pow2_pos(n: nat) ensures pow2(n) >= 1 decreases n { if n > 0 { lemma_pow2_pos((n - 1) as nat); } }
pub proof fn lemma_pow2_mono(a: nat, b: nat) requires a <= b ensures pow2(a) <= pow2(b) decreases b {
    if a < b { lemma_pow2_mono(a, (b - 1) as nat); lemma_pow2_pos((b - 1) as nat); }
}
pub proof fn lemma_pow2_bound(n: nat) requires n <= 60 ensures pow2(n) <= 0x1000_0000_0000_0000 decreases 60 - n {
    if n < 60 { lemma_pow2_bound(n + 1); } else { assert(pow2(60) == 0x1000_0000_0000_0000) by(compute); }
}


/// multinomial weight of a trajectory state: exp(-(E - E0))
pub open spec fn w_of(v: StateView) -> real { exp_r(-(v.energy - v.e0)) }
/// total weight of the states with indices lo..=hi
pub open spec fn wsum(traj: Map<int, StateView>, lo: int, hi: int) -> real decreases hi - lo + 1 {
    if hi < lo { 0real } else { wsum(traj, lo, hi - 1) + w_of(traj[hi]) }
}
pub proof fn lemma_wsum_split(traj: Map<int, StateView>, lo: int, mid: int, hi: int)
    requires lo <= mid + 1, mid <= hi
    ensures wsum(traj, lo, hi) == wsum(traj, lo, mid) + wsum(traj, mid + 1, hi)
    decreases hi - mid
{
    if mid < hi { lemma_wsum_split(traj, lo, mid, hi - 1); }
}
pub proof fn lemma_wsum_frame(t1: Map<int, StateView>, t2: Map<int, StateView>, lo: int, hi: int)
    requires forall|i: int| lo <= i <= hi ==> t1[i] == t2[i]
    ensures wsum(t1, lo, hi) == wsum(t2, lo, hi)
    decreases hi - lo + 1
{
    if lo <= hi { lemma_wsum_frame(t1, t2, lo, hi - 1); }
}
pub proof fn lemma_wsum_pos(traj: Map<int, StateView>, lo: int, hi: int)
    requires lo <= hi
    ensures wsum(traj, lo, hi) > 0real
    decreases hi - lo + 1
{
    ax_exp_pos(-(traj[hi].energy - traj[hi].e0));
    if lo < hi { lemma_wsum_pos(traj, lo, hi - 1); } else { assert(wsum(traj, lo, hi - 1) == 0real); }
}


pub open spec fn tl<M: Math, H: Hamiltonian<M>, C: Collector<M, H::Point>>(t: NutsTree<M, H, C>) -> int { t.left.view().idx }
pub open spec fn tr<M: Math, H: Hamiltonian<M>, C: Collector<M, H::Point>>(t: NutsTree<M, H, C>) -> int { t.right.view().idx }
pub open spec fn td<M: Math, H: Hamiltonian<M>, C: Collector<M, H::Point>>(t: NutsTree<M, H, C>) -> int { t.draw.view().idx }

/// [C03.1] representation invariant of a (sub-)tree w.r.t. the states the integrator produced
pub open spec fn tree_wf<M: Math, H: Hamiltonian<M>, C: Collector<M, H::Point>>(t: NutsTree<M, H, C>, traj: Map<int, StateView>) -> bool {
    &&& tl(t) <= td(t) <= tr(t)
    &&& tr(t) - tl(t) + 1 == pow2(t.depth as nat)
    &&& t.depth <= 60
    &&& (t.is_main ==> tl(t) <= 0 <= tr(t))
    // every state of the tree was produced by the integrator in this trajectory
    &&& (forall|i: int| tl(t) <= i <= tr(t) ==> #[trigger] has(traj, i))
    &&& traj[tl(t)] == t.left.view() && traj[tr(t)] == t.right.view()
    // [C03] the draw is one of those states
    &&& traj[td(t)] == t.draw.view()
    // [C01] log_size is the log of the total multinomial weight of the tree
    &&& exp_r(t.log_size.r()) == wsum(traj, tl(t), tr(t))
}

/// the parts of a tree that callers can observe
pub struct TreeView { pub left: StateView, pub right: StateView, pub draw: StateView, pub log_size: real, pub depth: u64, pub is_main: bool }
pub open spec fn tview<M: Math, H: Hamiltonian<M>, C: Collector<M, H::Point>>(t: NutsTree<M, H, C>) -> TreeView {
    TreeView { left: t.left.view(), right: t.right.view(), draw: t.draw.view(), log_size: t.log_size.r(), depth: t.depth, is_main: t.is_main }
}

/// [C01.4 / C03.4] U-turn criterion of a doubled tree spanning lo..=hi whose halves meet after `mid`,
/// direction-free: whole trajectory, and (for depth > 0) both "half + one" sub-trajectories
pub open spec fn turned<M: Math, H: Hamiltonian<M>>(h: H, traj: Map<int, StateView>, lo: int, mid: int, hi: int, half_depth: u64) -> bool {
    h.turn_spec(traj[lo], traj[hi])
    || (half_depth > 0 && (h.turn_spec(traj[mid], traj[hi]) || h.turn_spec(traj[lo], traj[mid + 1])))
}

/// [C01.3] probability with which the new half's draw replaces the old one
pub open spec fn sel_prob(is_main: bool, w_self: real, w_other: real) -> real {
    if is_main { min_r(1real, w_other / w_self) } else { w_other / (w_self + w_other) }
}

/// values of the traj map at or inside `keep` side are untouched
pub open spec fn traj_frame(t0: Map<int, StateView>, t1: Map<int, StateView>, dir: Direction, l: int, r: int) -> bool {
    forall|i: int| (match dir { Direction::Forward => i <= r, Direction::Backward => i >= l })
        ==> (#[trigger] has(t1, i) == has(t0, i)) && t1[i] == t0[i]
}

/// traj-independent part of the invariant
pub open spec fn tree_shape<M: Math, H: Hamiltonian<M>, C: Collector<M, H::Point>>(t: NutsTree<M, H, C>) -> bool {
    &&& tl(t) <= td(t) <= tr(t)
    &&& tr(t) - tl(t) + 1 == pow2(t.depth as nat)
    &&& t.depth <= 60
    &&& (t.is_main ==> tl(t) <= 0 <= tr(t))
}

pub open spec fn adjacent<M: Math, H: Hamiltonian<M>, C: Collector<M, H::Point>>(s: NutsTree<M, H, C>, o: NutsTree<M, H, C>, dir: Direction) -> bool {
    match dir { Direction::Forward => tl(o) == tr(s) + 1, Direction::Backward => tr(o) == tl(s) - 1 }
}

/// [C01.3] how the draw of the merged tree is selected
pub open spec fn sel_outcome(l0: Seq<RngEv>, l1: Seq<RngEv>, p: real, d_old: StateView, d_other: StateView, d_new: StateView) -> bool {
    ||| (l1 == l0 && p >= 1real && d_new == d_other)
    ||| (l1 == l0.push(RngEv::Bern(p, true)) && d_new == d_other)
    ||| (l1 == l0.push(RngEv::Bern(p, false)) && d_new == d_old)
}

/// the rng log grew by Bernoulli events only (no direction coins inside a doubling)
pub open spec fn bern_suffix(l0: Seq<RngEv>, l1: Seq<RngEv>) -> bool {
    l0.len() <= l1.len() && l1.subrange(0, l0.len() as int) == l0
    && forall|i: int| l0.len() <= i < l1.len() ==> #[trigger] l1[i] is Bern
}
pub proof fn lemma_bern_suffix_trans(a: Seq<RngEv>, b: Seq<RngEv>, c: Seq<RngEv>)
    requires bern_suffix(a, b), bern_suffix(b, c)
    ensures bern_suffix(a, c)
{
    let cb = c.subrange(0, b.len() as int);
    let ba = b.subrange(0, a.len() as int);
    let ca = c.subrange(0, a.len() as int);
    assert(ca =~= a) by {
        assert forall|i: int| 0 <= i < a.len() implies ca[i] == a[i] by {
            assert(cb[i] == c[i]);
            assert(ba[i] == b[i]);
        }
    }
    assert forall|i: int| a.len() <= i < c.len() implies #[trigger] c[i] is Bern by {
        if i < b.len() {
            assert(cb[i] == c[i]);
            assert(b[i] is Bern);
        }
    }
}
pub proof fn lemma_bern_suffix_push(a: Seq<RngEv>, b: Seq<RngEv>, p: real, x: bool)
    requires bern_suffix(a, b)
    ensures bern_suffix(a, b.push(RngEv::Bern(p, x)))
{
    assert(b.push(RngEv::Bern(p, x)).subrange(0, a.len() as int) =~= b.subrange(0, a.len() as int));
}
pub proof fn lemma_bern_refl(a: Seq<RngEv>) ensures bern_suffix(a, a) { assert(a.subrange(0, a.len() as int) =~= a); }

/// a doubled tree `t` grown from `s` in direction `dir`
pub open spec fn grown<M: Math, H: Hamiltonian<M>, C: Collector<M, H::Point>>(s: TreeView, t: NutsTree<M, H, C>, dir: Direction, traj: Map<int, StateView>) -> bool {
    &&& tree_wf(t, traj)
    &&& t.depth == s.depth + 1
    &&& t.is_main == s.is_main
    &&& match dir {
        Direction::Forward => t.left.view() == s.left && tr(t) == s.right.idx + pow2(s.depth as nat),
        Direction::Backward => t.right.view() == s.right && tl(t) == s.left.idx - pow2(s.depth as nat),
    }
}
/// index of the last state of the earlier half of the doubled tree
pub open spec fn mid_of(s: TreeView, dir: Direction) -> int {
    match dir { Direction::Forward => s.right.idx, Direction::Backward => s.left.idx - 1 }
}

pub proof fn lemma_wf_frame<M: Math, H: Hamiltonian<M>, C: Collector<M, H::Point>>(s: NutsTree<M, H, C>, t: NutsTree<M, H, C>, t0: Map<int, StateView>, t1: Map<int, StateView>)
    requires tree_wf(s, t0), tview(t) == tview(s),
             forall|i: int| tl(s) <= i <= tr(s) ==> #[trigger] has(t1, i) && t1[i] == t0[i]
    ensures tree_wf(t, t1)
{
    assert forall|i: int| tl(s) <= i <= tr(s) implies t0[i] == t1[i] by { assert(has(t1, i)); }
    lemma_wsum_frame(t0, t1, tl(s), tr(s));
    assert(tl(t) == tl(s) && tr(t) == tr(s) && td(t) == td(s));
    assert(has(t1, tl(s)) && has(t1, tr(s)) && has(t1, td(s)));
}


/// outcome of one doubling (C01.4, C03.2, C03.4, C05.2)
pub open spec fn extend_post<M: Math, H: Hamiltonian<M>, C: Collector<M, H::Point>>(
    s: TreeView, r: ExtendResult<M, H, C>, h: H, dir: Direction, check_turning: bool,
    t0: Map<int, StateView>, t1: Map<int, StateView>, n0: nat, n1: nat, dv0: nat, dv1: nat) -> bool
{
    let d = s.depth as nat;
    // [C05.2] a doubling ends as `Diverging` exactly when one of its integration steps diverged
    &&& dv1 == dv0 + (if r is Diverging { 1nat } else { 0nat })
    &&& match r {
        // success: exactly 2^d new leapfrogs, invariant holds, and the U-turn criterion is NOT met
        ExtendResult::Ok(t) => grown(s, t, dir, t1) && n1 == n0 + pow2(d)
            && !(check_turning && turned(h, t1, tl(t), mid_of(s, dir), tr(t), s.depth)),
        // termination: either the completed doubling meets the criterion (tree includes the new half) ...
        ExtendResult::Turning(t) =>
            (grown(s, t, dir, t1) && n1 == n0 + pow2(d) && check_turning && turned(h, t1, tl(t), mid_of(s, dir), tr(t), s.depth))
            // ... or a sub-tree of the new half did: the new half is rejected, the old tree is returned untouched
            || (tview(t) == s && tree_wf(t, t1) && n0 + 1 <= n1 <= n0 + pow2(d) && d > 0),
        // divergence: the old tree is returned untouched
        ExtendResult::Diverging(t, _) => tview(t) == s && tree_wf(t, t1) && n0 + 1 <= n1 <= n0 + pow2(d),
        // (an unrecoverable error aborts the transition; the failing step itself is not counted)
        ExtendResult::Err(_) => n0 <= n1 <= n0 + pow2(d),
    }
}

/// number of direction coins in an rng log
pub open spec fn coins(l: Seq<RngEv>) -> nat decreases l.len() {
    if l.len() == 0 { 0 } else { coins(l.drop_last()) + (if l.last() is Coin { 1nat } else { 0nat }) }
}
pub proof fn lemma_coins_push(l: Seq<RngEv>, e: RngEv)
    ensures coins(l.push(e)) == coins(l) + (if e is Coin { 1nat } else { 0nat })
{
    assert(l.push(e).drop_last() =~= l);
}
pub proof fn lemma_coins_bern(l0: Seq<RngEv>, l1: Seq<RngEv>)
    requires bern_suffix(l0, l1)
    ensures coins(l1) == coins(l0)
    decreases l1.len() - l0.len()
{
    if l1.len() == l0.len() {
        assert(l1 =~= l1.subrange(0, l0.len() as int));
    } else {
        let m = l1.drop_last();
        assert(m.subrange(0, l0.len() as int) =~= l1.subrange(0, l0.len() as int));
        assert forall|i: int| l0.len() <= i < m.len() implies #[trigger] m[i] is Bern by { assert(l1[i] is Bern); }
        lemma_coins_bern(l0, m);
        assert(l1[l1.len() - 1] is Bern);
    }
}

pub proof fn lemma_exp_sub(a: real, b: real)
    ensures exp_r(a - b) * exp_r(b) == exp_r(a), exp_r(a - b) == exp_r(a) / exp_r(b), exp_r(b) > 0real
{
    ax_exp_add(a - b, b);
    ax_exp_pos(b);
    lemma_div_cancel(exp_r(a - b), exp_r(b));
}

/// [C01.1] the three branches of logaddexp
pub proof fn lemma_logaddexp(a: real, b: real)
    ensures
        a == b ==> exp_r(a + ln_r(2real)) == exp_r(a) + exp_r(b),
        a - b > 0real ==> exp_r(a + ln_r(1real + exp_r(-(a - b)))) == exp_r(a) + exp_r(b),
        a - b < 0real ==> exp_r(b + ln_r(1real + exp_r(a - b))) == exp_r(a) + exp_r(b),
{
    ax_exp_add(a, ln_r(2real)); ax_exp_ln(2real);
    assert(exp_r(a) * 2real == exp_r(a) + exp_r(a)) by(nonlinear_arith);
    let d = a - b;
    // a > b
    ax_exp_pos(-d); ax_exp_ln(1real + exp_r(-d)); ax_exp_add(a, ln_r(1real + exp_r(-d)));
    ax_exp_add(a, -d);
    assert(a + (-d) == b);
    assert(exp_r(a) * (1real + exp_r(-d)) == exp_r(a) + exp_r(a) * exp_r(-d)) by(nonlinear_arith);
    // a < b
    ax_exp_pos(d); ax_exp_ln(1real + exp_r(d)); ax_exp_add(b, ln_r(1real + exp_r(d)));
    ax_exp_add(b, d);
    assert(b + d == a);
    assert(exp_r(b) * (1real + exp_r(d)) == exp_r(b) + exp_r(b) * exp_r(d)) by(nonlinear_arith);
}

/// a single state is a well-formed depth-0 tree
pub proof fn lemma_leaf_wf<M: Math, H: Hamiltonian<M>, C: Collector<M, H::Point>>(t: NutsTree<M, H, C>, traj: Map<int, StateView>)
    requires
        t.left.view() == t.draw.view(), t.right.view() == t.draw.view(), t.depth == 0,
        t.is_main ==> td(t) == 0,
        has(traj, td(t)), traj[td(t)] == t.draw.view(),
        t.log_size.r() == -(t.draw.view().energy - t.draw.view().e0),
    ensures tree_wf(t, traj), tree_shape(t)
{
    assert(pow2(0) == 1);
    assert(wsum(traj, td(t), td(t) - 1) == 0real);
    assert(wsum(traj, td(t), td(t)) == wsum(traj, td(t), td(t) - 1) + w_of(traj[td(t)]));
}

/// [C01.3] the acceptance probability computed by merge_into is the one the property names
pub proof fn lemma_merge_sel(s: real, o: real, l: real, is_main: bool)
    requires exp_r(l) == exp_r(s) + exp_r(o)
    ensures
        // main tree: biased progressive sampling, min(1, Wo/Ws)
        is_main && o >= s ==> sel_prob(true, exp_r(s), exp_r(o)) >= 1real,
        is_main && !(o >= s) ==> exp_r(o - s) == sel_prob(true, exp_r(s), exp_r(o)),
        // sub-tree: uniform progressive sampling, Wo/(Ws+Wo); the short-circuit can never fire
        !is_main ==> !(o >= l) && exp_r(o - l) == sel_prob(false, exp_r(s), exp_r(o)),
{
    ax_exp_pos(s); ax_exp_pos(o); ax_exp_pos(l);
    ax_exp_mono(o, s); ax_exp_mono(s, o); ax_exp_mono(o, l); ax_exp_mono(l, o);
    lemma_exp_sub(o, s);
    lemma_exp_sub(o, l);
    let ws = exp_r(s); let wo = exp_r(o);
    if o >= s {
        assert(wo >= ws);
        lemma_div_cancel(wo, ws);
        assert(wo / ws >= 1real) by(nonlinear_arith) requires wo >= ws, ws > 0real, (wo / ws) * ws == wo;
    } else {
        assert(wo < ws);
        lemma_div_cancel(wo, ws);
        assert(wo / ws < 1real) by(nonlinear_arith) requires wo < ws, ws > 0real, (wo / ws) * ws == wo;
    }
}

pub proof fn lemma_pow2_step(n: nat) ensures pow2(n + 1) == 2 * pow2(n) { }

/// machine-integer room for one doubling of `t` in direction `dir` (trajectory indices are i64)
pub open spec fn room<M: Math, H: Hamiltonian<M>, C: Collector<M, H::Point>>(t: NutsTree<M, H, C>, dir: Direction) -> bool {
    match dir {
        Direction::Forward => -IDX_BIG < tl(t) && tr(t) + pow2(t.depth as nat) < IDX_BIG,
        Direction::Backward => -IDX_BIG < tl(t) - pow2(t.depth as nat) && tr(t) < IDX_BIG,
    }
}

pub proof fn lemma_frame_at(t0: Map<int, StateView>, t1: Map<int, StateView>, dir: Direction, l: int, r: int, i: int)
    requires traj_frame(t0, t1, dir, l, r), match dir { Direction::Forward => i <= r, Direction::Backward => i >= l }
    ensures (t1.dom().contains(i) == t0.dom().contains(i)) && t1[i] == t0[i]
{
    assert(has(t1, i) == has(t0, i));
}
/// a tree that lies on the kept side of a frame stays well-formed
pub proof fn lemma_wf_kept<M: Math, H: Hamiltonian<M>, C: Collector<M, H::Point>>(s: NutsTree<M, H, C>, t0: Map<int, StateView>, t1: Map<int, StateView>, dir: Direction, l: int, r: int)
    requires tree_wf(s, t0), traj_frame(t0, t1, dir, l, r),
             match dir { Direction::Forward => tr(s) <= r, Direction::Backward => tl(s) >= l }
    ensures tree_wf(s, t1)
{
    assert forall|i: int| tl(s) <= i <= tr(s) implies has(t1, i) && t1[i] == t0[i] by {
        assert(has(t0, i));
        lemma_frame_at(t0, t1, dir, l, r, i);
    }
    lemma_wf_frame(s, s, t0, t1);
}
/// frames compose when the second one keeps at least what the first one keeps
pub proof fn lemma_frame_trans(t0: Map<int, StateView>, t1: Map<int, StateView>, t2: Map<int, StateView>, dir: Direction, l: int, r: int, l2: int, r2: int)
    requires traj_frame(t0, t1, dir, l, r), traj_frame(t1, t2, dir, l2, r2),
             match dir { Direction::Forward => r <= r2, Direction::Backward => l >= l2 }
    ensures traj_frame(t0, t2, dir, l, r)
{
    assert forall|i: int| (match dir { Direction::Forward => i <= r, Direction::Backward => i >= l })
        implies (has(t2, i) == has(t0, i)) && t2[i] == t0[i] by {
        lemma_frame_at(t0, t1, dir, l, r, i);
        lemma_frame_at(t1, t2, dir, l2, r2, i);
    }
}
/// inserting a state outside the kept side is a frame
pub proof fn lemma_frame_insert(t0: Map<int, StateView>, k: int, v: StateView, dir: Direction, l: int, r: int)
    requires match dir { Direction::Forward => k > r, Direction::Backward => k < l }
    ensures traj_frame(t0, t0.insert(k, v), dir, l, r)
{
    let t1 = t0.insert(k, v);
    assert forall|i: int| (match dir { Direction::Forward => i <= r, Direction::Backward => i >= l })
        implies (has(t1, i) == has(t0, i)) && t1[i] == t0[i] by { }
}
