// Prelude of unit `nuts`: the shared dynamics façade (Math, Point, State, Rng, Collector, Hamiltonian).
//@include ../_shared/dyn_facade.rs
