    // ghost items spliced into `impl Settings for DiagMclmcSettings` (rule R1: contracts)
    open spec fn new_chain_pre<M: Math>(&self, chain: u64, math: M) -> bool { euclid_mclmc_pre(*self) }
    open spec fn new_chain_kernel<M: Math>(&self, chain: u64, r: <Self as SettingsTypes<M>>::Chain) -> bool {
        mclmc_kernel_post::<M, EuclideanAdaptOptions<DiagAdaptExpSettings>, DiagMassMatrix<M>, GlobalStrategy<M, DiagAdaptStrategy<M>>>(*self, chain, r)
    }
    open spec fn new_chain_warmup<M: Math>(&self, chain: u64, r: <Self as SettingsTypes<M>>::Chain) -> bool { euclid_mclmc_warmup_post::<M, DiagAdaptStrategy<M>>(*self, chain, r) }
    open spec fn new_chain_step_size<M: Math>(&self, chain: u64, r: <Self as SettingsTypes<M>>::Chain) -> bool { euclid_mclmc_step_post::<M, DiagAdaptStrategy<M>>(*self, r) }
    open spec fn new_chain_stats<M: Math>(&self, chain: u64, r: <Self as SettingsTypes<M>>::Chain) -> bool { diag_mclmc_stats_post::<M>(*self, r) }
    open spec fn hint_num_tune_pre(&self) -> bool { hint_pre(self.num_tune) }
    open spec fn hint_num_tune_post(&self, r: usize) -> bool { hint_post(self.num_tune, r) }
    open spec fn hint_num_draws_pre(&self) -> bool { hint_pre(self.num_draws) }
    open spec fn hint_num_draws_post(&self, r: usize) -> bool { hint_post(self.num_draws, r) }
    open spec fn num_chains_post(&self, r: usize) -> bool { r == self.num_chains }
    open spec fn seed_post(&self, r: u64) -> bool { r == self.seed }
    open spec fn stats_options_post<M: Math>(&self, r: <<Self as SettingsTypes<M>>::Chain as SamplerStats<M>>::StatsOptions) -> bool { diag_stat_opts::<M>(mclmc_flags(*self), r) }
