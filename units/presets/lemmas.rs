//@include ../_shared/stepsize_spec.rs

// =====================================================================================
// Specification vocabulary for the six settings presets, written from the statements of C16 / C06 / C03 / C05 / C18
// and from the field documentation of NutsSettings / MclmcSettings -- not from the bodies of the presets.
// =====================================================================================
pub spec const BIG: u64 = 0x4000_0000;   // 2^30: machine-range bound on num_tune / window sizes, as in units adapt / extadapt

/// helper precondition of `GlobalStrategy::new`.  SAME TEXT as `gs_new_pre` of units/adapt/lemmas.rs (there generic
/// over the estimator `A`, here over its options type `S = A::Options`); PROVED sufficient there (no panic).
pub open spec fn gs_new_pre<S: Debug + Default>(options: EuclideanAdaptOptions<S>, num_tune: u64) -> bool {
    // C06.1: *every* num_tune >= 0 (up to the machine-range bound) and window fractions in [0,1)
    &&& num_tune <= BIG
    &&& 0real <= options.early_window.r() < 1real
    &&& 0real <= options.step_size_window.r() < 1real
    &&& options.mass_matrix_switch_freq <= BIG
    &&& options.early_mass_matrix_switch_freq <= BIG
    &&& 1real <= options.mass_matrix_window_growth.r() <= 1024real
    &&& strat_opts_ok(options.step_size_settings)
}
/// helper precondition of `ExternalTransformAdaptation::new`.  SAME TEXT as `et_new_pre` of units/extadapt/lemmas.rs
pub open spec fn et_new_pre(options: FlowSettings, num_tune: u64) -> bool {
    &&& num_tune <= BIG
    &&& 0real <= options.step_size_window.r() <= 1real
    &&& strat_opts_ok(options.step_size_settings)
}

// ---- C16: which statistics are switched on ----------------------------------------------------------------
/// the four store_* switches of a preset, by NAME (both settings structs carry the same four names)
pub struct StoreFlags { pub gradient: bool, pub unconstrained: bool, pub transformed: bool, pub divergences: bool }
pub open spec fn nuts_flags<A: Debug + Copy + Default + Serialize>(s: NutsSettings<A>) -> StoreFlags {
    StoreFlags { gradient: s.store_gradient, unconstrained: s.store_unconstrained, transformed: s.store_transformed, divergences: s.store_divergences }
}
pub open spec fn mclmc_flags<A: Debug + Copy + Default + Serialize>(s: MclmcSettings<A>) -> StoreFlags {
    StoreFlags { gradient: s.store_gradient, unconstrained: s.store_unconstrained, transformed: s.store_transformed, divergences: s.store_divergences }
}
/// [C16] "present on every draw or, when its option is switched off, on none": each store_* flag of the settings reaches
/// the statistics option of the SAME name (the options are what `TransformedPoint::extract_stats` /
/// `DivergenceStats::from` of unit stats branch on: `flag_vec_field(opt.store_gradient, ..)` etc.)
pub open spec fn flags_forwarded(f: StoreFlags, point: TransformedPointStatsOptions, divergence: DivergenceStatsOptions) -> bool {
    &&& point.store_gradient == f.gradient                 // [C16.1]
    &&& point.store_unconstrained == f.unconstrained       // [C16.1]
    &&& point.store_transformed == f.transformed           // [C16.1]
    &&& divergence.store_divergences == f.divergences      // [C16.1]
}
/// the id a freshly constructed mass matrix carries (`DiagMassMatrix::new` / `LowRankMassMatrix::new`: `r.id == -1`,
/// proved in units transform / diagadapt).  The statistics option "last reported transformation id" must START at this
/// value: `transformation_update_id` is reported iff `id != last_id` (unit stats, diag_stats_post), so any other
/// start value reports an update event on the first draw although the transformation did not change.
pub spec const INITIAL_TRANSFORMATION_ID: i64 = -1i64;
/// [C16] statistics options of a preset with diagonal mass-matrix adaptation
pub open spec fn diag_stat_opts<M: Math>(f: StoreFlags, r: StatOptions<M, GlobalStrategy<M, DiagAdaptStrategy<M>>>) -> bool {
    &&& flags_forwarded(f, r.point, r.divergence)          // [C16.1]
    &&& r.hamiltonian == INITIAL_TRANSFORMATION_ID         // [C16.1]
}
/// [C16] statistics options of a preset with low-rank mass-matrix adaptation
pub open spec fn lowrank_stat_opts<M: Math>(f: StoreFlags, r: StatOptions<M, GlobalStrategy<M, LowRankMassMatrixStrategy>>) -> bool {
    &&& flags_forwarded(f, r.point, r.divergence)          // [C16.1]
    &&& r.hamiltonian == INITIAL_TRANSFORMATION_ID         // [C16.1]
}
/// [C16] statistics options of a flow preset (the flow transformation has no options: `()`)
pub open spec fn flow_stat_opts<M: Math>(f: StoreFlags, r: StatOptions<M, ExternalTransformAdaptation>) -> bool {
    flags_forwarded(f, r.point, r.divergence)              // [C16.1]
}

// ---- hints -------------------------------------------------------------------------------------------------
/// `usize_hint`: the same number (helper precondition from the code: it fits into usize, otherwise the function panics)
pub open spec fn hint_pre(value: u64) -> bool { value <= usize::MAX }
pub open spec fn hint_post(value: u64, r: usize) -> bool { r as int == value as int }

// ---- C03 / C05: NUTS tree options ----------------------------------------------------------------------------
/// every tree option is the setting of the SAME name (maxdepth / mindepth bound the tree depth: C03; max_energy_error
/// is the divergence threshold: C05; store_divergences switches the divergence_* vectors: C16)
pub open spec fn nuts_opts_of<A: Debug + Copy + Default + Serialize>(s: NutsSettings<A>, o: NutsOptions) -> bool {
    &&& o.maxdepth == s.maxdepth                                   // [C03.2]
    &&& o.mindepth == s.mindepth                                   // [C03.2]
    &&& o.check_turning == s.check_turning                         // [C03.3]
    &&& o.store_divergences == s.store_divergences                 // [C16.1]
    &&& o.target_integration_time == s.target_integration_time     // [C03.3]
    &&& o.extra_doublings == s.extra_doublings                     // [C03.3]
    &&& o.max_energy_error == s.max_energy_error                   // [C05.1]
}

// ---- new_chain: the postcondition comes in four groups (one hook of trait Settings each, so that a failing group is named)
//   kernel    : options of the transition kernel (tree options / integrator options, chain id, Hamiltonian)   C03 C05 C18
//   warmup    : num_tune and the geometry-adaptation schedule handed to the strategy                          C06 C09
//   step_size : the step-size settings handed to the strategy                                                 C07 C18
//   stats     : statistics options stored in the chain, mass-matrix store flag, initial transformation id     C16

/// the geometry part of the Euclidean adaptation options (everything but `step_size_settings`)
pub open spec fn euclid_geometry_eq<S: Debug + Default>(a: EuclideanAdaptOptions<S>, b: EuclideanAdaptOptions<S>) -> bool {
    &&& a.mass_matrix_options == b.mass_matrix_options
    &&& a.early_window == b.early_window
    &&& a.step_size_window == b.step_size_window
    &&& a.mass_matrix_switch_freq == b.mass_matrix_switch_freq
    &&& a.early_mass_matrix_switch_freq == b.early_mass_matrix_switch_freq
    &&& a.mass_matrix_update_freq == b.mass_matrix_update_freq
    &&& a.mass_matrix_window_growth == b.mass_matrix_window_growth
}
/// the geometry part of the flow adaptation options (everything but `step_size_settings`)
pub open spec fn flow_geometry_eq(a: FlowSettings, b: FlowSettings) -> bool {
    &&& a.step_size_window == b.step_size_window
    &&& a.transform_update_freq == b.transform_update_freq
    &&& a.use_orbit_for_training == b.use_orbit_for_training
    &&& a.transform_train_max_energy_error == b.transform_train_max_energy_error
}

// ---- NUTS presets ------------------------------------------------------------------------------------------------
/// kernel group: the tree options, the chain id and the Hamiltonian of a NUTS chain -- the kinetic-energy form of the
/// settings, no momentum decoherence ("`None` disables the refresh (used by NUTS)", field doc of TransformedHamiltonian)
pub open spec fn nuts_kernel_post<M: Math, S: Debug + Copy + Default + Serialize, T: Transformation<M>, A: AdaptStrategy<M, Hamiltonian = TransformedHamiltonian<M, T>>>(
    s: NutsSettings<S>, chain: u64, r: NutsChain<M, ChaCha8Rng, A>) -> bool {
    &&& nuts_opts_of(s, r.cfg_options())                                           // [C03.2 C05.1]
    &&& r.cfg_chain() == chain                                                     // [C16.2]
    &&& r.cfg_hamiltonian().kinetic_energy_kind == s.trajectory_kind               // [C03.1]
    &&& r.cfg_hamiltonian().momentum_decoherence_length is None
}
/// warmup group, Euclidean presets: exactly num_tune (not num_draws), the chain id, the schedule options unchanged
pub open spec fn euclid_nuts_warmup_post<M: Math, MA: MassMatrixAdaptStrategy<M>>(
    s: NutsSettings<EuclideanAdaptOptions<MA::Options>>, chain: u64, r: NutsChain<M, ChaCha8Rng, GlobalStrategy<M, MA>>) -> bool {
    &&& r.cfg_strategy().cfg_num_tune() == s.num_tune                              // [C06.1]
    &&& r.cfg_strategy().cfg_chain() == chain
    &&& euclid_geometry_eq(r.cfg_strategy().cfg_options(), s.adapt_options)        // [C06.1 C09.1]
}
/// step-size group, Euclidean NUTS presets: the step-size settings unchanged
pub open spec fn euclid_nuts_step_post<M: Math, MA: MassMatrixAdaptStrategy<M>>(
    s: NutsSettings<EuclideanAdaptOptions<MA::Options>>, r: NutsChain<M, ChaCha8Rng, GlobalStrategy<M, MA>>) -> bool {
    r.cfg_strategy().cfg_options().step_size_settings == s.adapt_options.step_size_settings    // [C07.1]
}
pub open spec fn flow_nuts_warmup_post<M: Math>(s: FlowNutsSettings, chain: u64, r: NutsChain<M, ChaCha8Rng, ExternalTransformAdaptation>) -> bool {
    let st = r.cfg_strategy();
    &&& <ExternalTransformAdaptation as AdaptStrategy<M>>::cfg_num_tune(&st) == s.num_tune                          // [C06.1]
    &&& <ExternalTransformAdaptation as AdaptStrategy<M>>::cfg_chain(&st) == chain
    &&& flow_geometry_eq(<ExternalTransformAdaptation as AdaptStrategy<M>>::cfg_options(&st), s.adapt_options)      // [C06.1]
}
pub open spec fn flow_nuts_step_post<M: Math>(s: FlowNutsSettings, r: NutsChain<M, ChaCha8Rng, ExternalTransformAdaptation>) -> bool {
    <ExternalTransformAdaptation as AdaptStrategy<M>>::cfg_options(&r.cfg_strategy()).step_size_settings == s.adapt_options.step_size_settings   // [C07.1]
}
/// stats group: the options the chain extracts its first statistics with are the ones `stats_options` describes, the
/// mass-matrix store flag reaches the mass matrix, and the "last reported id" starts at the id of the fresh matrix
pub open spec fn diag_nuts_stats_post<M: Math>(s: DiagNutsSettings, r: DiagNutsChain<M>) -> bool {
    &&& diag_stat_opts(nuts_flags(s), r.cfg_stats_options())                                                             // [C16.1]
    &&& r.cfg_hamiltonian().transformation.store_mass_matrix == s.adapt_options.mass_matrix_options.store_mass_matrix    // [C16.1]
    &&& r.cfg_stats_options().hamiltonian as int == r.cfg_hamiltonian().transformation.tid()                             // [C16.1]
}
pub open spec fn lowrank_nuts_stats_post<M: Math>(s: LowRankNutsSettings, r: LowRankNutsChain<M>) -> bool {
    &&& lowrank_stat_opts(nuts_flags(s), r.cfg_stats_options())                                                          // [C16.1]
    &&& r.cfg_hamiltonian().transformation.settings == s.adapt_options.mass_matrix_options                               // [C16.1 C08.1]
    &&& r.cfg_stats_options().hamiltonian as int == r.cfg_hamiltonian().transformation.tid()                             // [C16.1]
}
pub open spec fn flow_nuts_stats_post<M: Math>(s: FlowNutsSettings, r: NutsChain<M, ChaCha8Rng, ExternalTransformAdaptation>) -> bool {
    flow_stat_opts(nuts_flags(s), r.cfg_stats_options())                                                                 // [C16.1]
}

// ---- MCLMC presets -----------------------------------------------------------------------------------------------
/// the kinetic-energy form an MCLMC chain STARTS with (C18: "The switch from the Euclidean to the microcanonical
/// trajectory happens once, at the configured draw": a chain that switches starts Euclidean)
pub open spec fn initial_kind_of(k: MclmcTrajectoryKind) -> KineticEnergyKind {
    match k {
        MclmcTrajectoryKind::Microcanonical => KineticEnergyKind::Microcanonical,
        MclmcTrajectoryKind::Euclidean => KineticEnergyKind::Euclidean,
        MclmcTrajectoryKind::EuclideanEarlyThenMicrocanonical => KineticEnergyKind::Euclidean,
    }
}
/// kernel group: every MCLMC-specific option reaches `MclmcChain::new` / the Hamiltonian, unchanged and unswapped
pub open spec fn mclmc_kernel_post<M: Math, S: Debug + Copy + Default + Serialize, T: Transformation<M>, A: AdaptStrategy<M, Hamiltonian = TransformedHamiltonian<M, T>>>(
    s: MclmcSettings<S>, chain: u64, r: MclmcChain<M, ChaCha8Rng, A, T>) -> bool {
    &&& r.cfg_chain() == chain                                                                                  // [C16.2]
    &&& r.cfg_subsample_frequency() == s.subsample_frequency                                                    // [C18.1]
    &&& r.cfg_dynamic_step_size() == s.dynamic_step_size                                                        // [C18.1 C05.6]
    &&& r.cfg_trajectory_kind() == s.trajectory_kind                                                            // [C18.3]
    // "Fraction of `num_tune` draws at which the trajectory is switched": floor(fraction * num_tune), saturating
    &&& f_to_u64_ok(s.trajectory_switch_fraction.r() * i2r(s.num_tune as int), r.cfg_switch_draw())             // [C18.3]
    &&& r.cfg_max_energy_error() == s.max_energy_error                                                          // [C05.1]
    &&& r.cfg_hamiltonian().momentum_decoherence_length == Some(s.momentum_decoherence_length)                  // [C18.1]
    &&& r.cfg_hamiltonian().kinetic_energy_kind == initial_kind_of(s.trajectory_kind)                           // [C18.3]
}
pub open spec fn euclid_mclmc_warmup_post<M: Math, MA: MassMatrixAdaptStrategy<M>>(
    s: MclmcSettings<EuclideanAdaptOptions<MA::Options>>, chain: u64, r: MclmcChain<M, ChaCha8Rng, GlobalStrategy<M, MA>, MA::Transformation>) -> bool {
    &&& r.cfg_adapt().cfg_num_tune() == s.num_tune                                 // [C06.1]
    &&& r.cfg_adapt().cfg_chain() == chain
    &&& euclid_geometry_eq(r.cfg_adapt().cfg_options(), s.adapt_options)           // [C06.1 C09.1]
}
/// "Step size ε ... constants -- no adaptation of those is performed": the step-size settings of the adaptation options
/// with the method replaced by the fixed `step_size` of the settings; every other step-size option unchanged
pub open spec fn with_fixed_step(o: StepSizeSettings, eps: F) -> StepSizeSettings {
    StepSizeSettings {
        target_accept: o.target_accept, initial_step: o.initial_step, jitter: o.jitter,
        adapt_options: StepSizeAdaptOptions { method: StepSizeAdaptMethod::Fixed(eps), dual_average: o.adapt_options.dual_average, adam: o.adapt_options.adam },
    }
}
pub open spec fn euclid_with_fixed_step<S: Debug + Default>(o: EuclideanAdaptOptions<S>, eps: F) -> EuclideanAdaptOptions<S> {
    EuclideanAdaptOptions {
        step_size_settings: with_fixed_step(o.step_size_settings, eps),
        mass_matrix_options: o.mass_matrix_options,
        early_window: o.early_window, step_size_window: o.step_size_window,
        mass_matrix_switch_freq: o.mass_matrix_switch_freq, early_mass_matrix_switch_freq: o.early_mass_matrix_switch_freq,
        mass_matrix_update_freq: o.mass_matrix_update_freq, mass_matrix_window_growth: o.mass_matrix_window_growth,
    }
}
/// step-size group, MCLMC presets: the `step_size` of the settings is the fixed step size the strategy is built with
pub open spec fn euclid_mclmc_step_post<M: Math, MA: MassMatrixAdaptStrategy<M>>(
    s: MclmcSettings<EuclideanAdaptOptions<MA::Options>>, r: MclmcChain<M, ChaCha8Rng, GlobalStrategy<M, MA>, MA::Transformation>) -> bool {
    // no listed property fixes HOW the MCLMC step size is configured (the struct doc does: constant `step_size`); what the
    // properties need is that the step-size options reach the strategy unaltered apart from the method override
    ({
        let got = r.cfg_adapt().cfg_options().step_size_settings;
        got == with_fixed_step(s.adapt_options.step_size_settings, s.step_size) || got == s.adapt_options.step_size_settings    // [C18.1]
    })
}
pub open spec fn flow_mclmc_warmup_post<M: Math>(s: FlowMclmcSettings, chain: u64, r: MclmcChain<M, ChaCha8Rng, ExternalTransformAdaptation, ExternalTransformation<M>>) -> bool {
    let st = r.cfg_adapt();
    &&& <ExternalTransformAdaptation as AdaptStrategy<M>>::cfg_num_tune(&st) == s.num_tune                          // [C06.1]
    &&& <ExternalTransformAdaptation as AdaptStrategy<M>>::cfg_chain(&st) == chain
    &&& flow_geometry_eq(<ExternalTransformAdaptation as AdaptStrategy<M>>::cfg_options(&st), s.adapt_options)      // [C06.1]
}
/// the same clause as `euclid_mclmc_step_post`, for the flow strategy
pub open spec fn flow_mclmc_step_post<M: Math>(s: FlowMclmcSettings, r: MclmcChain<M, ChaCha8Rng, ExternalTransformAdaptation, ExternalTransformation<M>>) -> bool {
    // (see euclid_mclmc_step_post; the flow preset passes `adapt_options` on unchanged and never reads `step_size`:
    // observation O1 of DESIGN 11.9, outside the listed properties)
    ({
        let got = <ExternalTransformAdaptation as AdaptStrategy<M>>::cfg_options(&r.cfg_adapt()).step_size_settings;
        got == with_fixed_step(s.adapt_options.step_size_settings, s.step_size) || got == s.adapt_options.step_size_settings     // [C18.1]
    })
}
pub open spec fn diag_mclmc_stats_post<M: Math>(s: DiagMclmcSettings, r: DiagMclmcChain<M>) -> bool {
    &&& diag_stat_opts(mclmc_flags(s), r.cfg_stats_options())                                                            // [C16.1]
    &&& r.cfg_hamiltonian().transformation.store_mass_matrix == s.adapt_options.mass_matrix_options.store_mass_matrix    // [C16.1]
    &&& r.cfg_stats_options().hamiltonian as int == r.cfg_hamiltonian().transformation.tid()                             // [C16.1]
}
pub open spec fn lowrank_mclmc_stats_post<M: Math>(s: LowRankMclmcSettings, r: LowRankMclmcChain<M>) -> bool {
    &&& lowrank_stat_opts(mclmc_flags(s), r.cfg_stats_options())                                                         // [C16.1]
    &&& r.cfg_hamiltonian().transformation.settings == s.adapt_options.mass_matrix_options                               // [C16.1 C08.1]
    &&& r.cfg_stats_options().hamiltonian as int == r.cfg_hamiltonian().transformation.tid()                             // [C16.1]
}
pub open spec fn flow_mclmc_stats_post<M: Math>(s: FlowMclmcSettings, r: MclmcChain<M, ChaCha8Rng, ExternalTransformAdaptation, ExternalTransformation<M>>) -> bool {
    flow_stat_opts(mclmc_flags(s), r.cfg_stats_options())                                                                // [C16.1]
}

// ---- helper preconditions of new_chain (from the code and its call sites: the constructors' own preconditions) ----
pub open spec fn euclid_nuts_pre<S: Debug + Copy + Default>(s: NutsSettings<EuclideanAdaptOptions<S>>) -> bool {
    gs_new_pre(s.adapt_options, s.num_tune)
}
pub open spec fn euclid_mclmc_pre<S: Debug + Copy + Default>(s: MclmcSettings<EuclideanAdaptOptions<S>>) -> bool {
    gs_new_pre(euclid_with_fixed_step(s.adapt_options, s.step_size), s.num_tune)
}

// ---- consequences (sanity lemmas: the vocabulary says what the property needs) ----------------------------------
/// with the options a Euclidean preset produces, the FIRST extraction of a diagonal mass matrix that has not been
/// updated reports no transformation_update event (unit stats: `update = m.id != last_id`)
// [C16.1]
pub proof fn lemma_no_spurious_first_update<M: Math>(f: StoreFlags, o: StatOptions<M, GlobalStrategy<M, DiagAdaptStrategy<M>>>, m: DiagMassMatrix<M>)
    requires diag_stat_opts(f, o), m.id == -1
    ensures !(m.id != o.hamiltonian)
{
}
/// the MCLMC override leaves the geometry schedule alone and only fixes the step-size method
// [C18.1 C06.1]
pub proof fn lemma_fixed_step_frame<S: Debug + Default>(o: EuclideanAdaptOptions<S>, eps: F)
    ensures
        euclid_with_fixed_step(o, eps).step_size_settings.adapt_options.method == StepSizeAdaptMethod::Fixed(eps),
        euclid_with_fixed_step(o, eps).early_window == o.early_window,
        euclid_with_fixed_step(o, eps).step_size_window == o.step_size_window,
        euclid_with_fixed_step(o, eps).mass_matrix_options == o.mass_matrix_options,
        strat_opts_ok(o.step_size_settings) ==> strat_opts_ok(euclid_with_fixed_step(o, eps).step_size_settings),
{
}
