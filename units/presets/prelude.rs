// Prelude of unit `presets` (model R): everything the six `impl Settings for ...` blocks of src/sampler.rs call or
// name but that is not extracted here.  Every contract below is an ASSUMPTION of this unit (DESIGN §6) unless the
// comment names the unit that proves the same text for the real code.
//
// What IS extracted (so a change of a field / literal in /repo is seen): NutsSettings, MclmcSettings, the ten type
// aliases, StatOptions, GlobalStrategyStatsOptions, TransformedPointStatsOptions, DivergenceStatsOptions, NutsOptions,
// EuclideanAdaptOptions, DiagAdaptExpSettings, LowRankSettings, FlowSettings, the step-size option structs, the two
// kind enums, DiagMassMatrix / LowRankMassMatrix / ExternalTransformation / TransformedHamiltonian (struct text).
use core::marker::PhantomData;
pub type StepSizeStrategy = Strategy;
/// itertools::Either (only so that the extracted struct `stepsize::Strategy` can be named by _shared/stepsize_spec.rs)
pub enum Either<L, R> { Left(L), Right(R) }

// ------------------------------------------------------------------------------------------
// bounds-only marker façades.  `NutsSettings<A: Debug + Copy + Default + Serialize>` and
// `EuclideanAdaptOptions<S: Debug + Default>` name these traits in their bounds; nothing in the extracted functions
// formats or serialises a value (the `derive(Debug, Serialize, Deserialize)` are dropped by rule R0.derive), so the
// traits are empty and every type has them.  `Copy` and `Default` are the real std traits.
// ------------------------------------------------------------------------------------------
pub trait Debug {}
impl<T: ?Sized> Debug for T {}
pub trait Serialize {}
impl<T: ?Sized> Serialize for T {}

// ------------------------------------------------------------------------------------------
// rand façade (opaque, as the brief allows: "the rng / math arguments are opaque")
// ------------------------------------------------------------------------------------------
pub trait Rng {}
pub mod rand { pub use super::Rng; }
/// rand_core: `impl<R: RngCore + ?Sized> RngCore for &mut R` (the NUTS presets pass `&mut rng` with `rng: &mut R`)
impl<'a, R: Rng + ?Sized> Rng for &'a mut R {}
#[verifier::external_body]
pub struct ChaCha8Rng { _x: u8 }
impl Rng for ChaCha8Rng {}
/// the error type of `try_from_rng` (`R::Error`; `Infallible` for every `R: Rng`)
#[derive(Debug)]
pub struct RngSeedError {}
impl ChaCha8Rng {
    /// A-rng-infallible: `SeedableRng::try_from_rng` fails only if the source rng fails; `R: Rng` is an infallible
    /// generator (`TryRngCore::Error = Infallible`), so the `.expect("Could not seed rng")` cannot fire.
    #[verifier::external_body]
    pub fn try_from_rng<R: Rng + ?Sized>(rng: &mut R) -> (r: core::result::Result<ChaCha8Rng, RngSeedError>)
        ensures r is Ok
    { unimplemented!() }
}

// ------------------------------------------------------------------------------------------
// Math façade (opaque).  `flow_ok` = "the model can create a flow transformation": the two Flow presets call
// `math.new_transformation(..).expect(..)`, i.e. they panic BY DESIGN when the model cannot; that is a helper
// precondition of their `new_chain` (derived from the code, not from a property).
// ------------------------------------------------------------------------------------------
pub trait MathView: Sized {
    spec fn dim_spec(&self) -> nat;
    spec fn flow_ok(&self) -> bool;
}
pub trait Math: MathView {
    type Vector;
    type EigVectors;
    type EigValues;
    type FlowParameters;
    type LogpErr: core::fmt::Debug;
    fn dim(&self) -> (r: usize) ensures r as nat == self.dim_spec();
    fn new_array(&mut self) -> (r: Self::Vector) ensures msame(final(self), old(self));
    fn fill_array(&mut self, array: &mut Self::Vector, val: F) ensures msame(final(self), old(self));
    fn new_transformation<R: rand::Rng + ?Sized>(&mut self, rng: &mut R, dim: usize, chain: u64)
        -> (r: core::result::Result<Self::FlowParameters, Self::LogpErr>)
        ensures msame(final(self), old(self)), old(self).flow_ok() ==> r is Ok;
}
/// a `&mut math` call changes neither the dimension nor the model held by `math`
pub open spec fn msame<M: MathView>(a: &M, b: &M) -> bool { a.dim_spec() == b.dim_spec() && a.flow_ok() == b.flow_ok() }

// ------------------------------------------------------------------------------------------
// nuts-storable is not needed: no statistics VALUE type is named by the presets, only the OPTIONS types.
// trait SamplerStats (src/sampler_stats.rs:37-42), reduced to the associated type the presets name.
// `Copy` is dropped from the bound `type StatsOptions: Copy + Send + Sync` (Verus's trait-conflict checker does not
// know `(): Copy`; same deviation as in unit stats); nothing here copies an options value.
// ------------------------------------------------------------------------------------------
pub trait SamplerStats<M: Math> {
    type StatsOptions: Send + Sync;
}
pub trait Point<M: Math>: SamplerStats<M> + Sized {}
pub trait Transformation<M: Math>: SamplerStats<M> + Sized {
    /// version counter of the transformation (`transformation_id`; text of units stats / mclmc)
    spec fn tid(&self) -> int;
}
pub trait Hamiltonian<M: Math>: SamplerStats<M> + Sized {
    type Point: Point<M>;
}
pub trait MassMatrixAdaptStrategy<M: Math>: SamplerStats<M> + Sized {
    type Transformation: Transformation<M>;
    type Options: Debug + Default + Copy;
}

// ---- opaque dynamics façades -------------------------------------------------------------------------------
#[verifier::external_body]
#[verifier::reject_recursive_types(M)]
pub struct TransformedPoint<M: Math> { _m: PhantomData<M> }
impl<M: Math> SamplerStats<M> for TransformedPoint<M> { type StatsOptions = TransformedPointStatsOptions; }   // transformed_hamiltonian.rs:121-123
impl<M: Math> Point<M> for TransformedPoint<M> {}
#[verifier::external_body]
#[verifier::reject_recursive_types(M)]
#[verifier::reject_recursive_types(P)]
pub struct StatePool<M: Math, P: Point<M>> { _m: PhantomData<M>, _p: PhantomData<P> }
impl<M: Math, P: Point<M>> StatePool<M, P> {
    /// src/dynamics/state.rs (proved total in unit statepool); only the frame on `math` matters here
    #[verifier::external_body]
    pub fn new(math: &mut M, capacity: usize) -> (r: Self) ensures msame(final(math), old(math)) { unimplemented!() }
}

// ---- the three transformations: EXTRACTED structs, façade constructors ----------------------------------------
impl<M: Math> SamplerStats<M> for DiagMassMatrix<M> { type StatsOptions = i64; }            // diagonal.rs:44-46
impl<M: Math> Transformation<M> for DiagMassMatrix<M> { open spec fn tid(&self) -> int { self.id as int } }
impl<M: Math> SamplerStats<M> for LowRankMassMatrix<M> { type StatsOptions = i64; }         // low_rank.rs:224-226
impl<M: Math> Transformation<M> for LowRankMassMatrix<M> { open spec fn tid(&self) -> int { self.id as int } }
impl<M: Math> SamplerStats<M> for ExternalTransformation<M> { type StatsOptions = (); }     // external.rs:39-41
impl<M: Math> Transformation<M> for ExternalTransformation<M> { uninterp spec fn tid(&self) -> int; }
impl<M: Math> DiagMassMatrix<M> {
    /// PROVED for the real function in units transform and diagadapt (`## fn DiagMassMatrix::new`): SAME TEXT
    /// (`r.id == -1, r.store_mass_matrix == store_mass_matrix`) plus the frame on `math`
    #[verifier::external_body]
    pub fn new(math: &mut M, store_mass_matrix: bool) -> (r: Self)
        ensures msame(final(math), old(math)), r.id == -1, r.store_mass_matrix == store_mass_matrix
    { unimplemented!() }
}
impl<M: Math> LowRankMassMatrix<M> {
    /// PROVED for the real function in unit transform (`## fn LowRankMassMatrix::new`): SAME TEXT
    #[verifier::external_body]
    pub fn new(math: &mut M, settings: LowRankSettings) -> (r: Self)
        ensures msame(final(math), old(math)), r.id == -1, r.inner is None, r.settings == settings
    { unimplemented!() }
}

// ---- TransformedHamiltonian: EXTRACTED struct; `new` and `set_momentum_decoherence_length` are EXTRACTED and verified
impl<M: Math, T: Transformation<M>> SamplerStats<M> for TransformedHamiltonian<M, T> { type StatsOptions = T::StatsOptions; }   // :507-509
impl<M: Math, T: Transformation<M>> Hamiltonian<M> for TransformedHamiltonian<M, T> { type Point = TransformedPoint<M>; }

// ------------------------------------------------------------------------------------------
// AdaptStrategy (src/chain.rs:96-...), reduced to what the presets use: the associated types and `new`.
// `new_pre` is the hook of the same name in units adapt / extadapt (there bound to gs_new_pre / et_new_pre and PROVED
// sufficient for the real `GlobalStrategy::new` / `ExternalTransformAdaptation::new`: no panic).  The postcondition
// records the arguments: `cfg_num_tune` / `cfg_options` are the fields `num_tune` / `options` of both strategies --
// units adapt / extadapt PROVE `r.num_tune == num_tune && r.options == options` (gs_new_post / et_new_post).
// `cfg_chain` (the chain id handed to `new`) is NOT part of those proved posts: assumption of this unit.
// ------------------------------------------------------------------------------------------
pub trait AdaptStrategy<M: Math>: SamplerStats<M> + Sized {
    type Hamiltonian: Hamiltonian<M>;
    type Options: Copy;
    spec fn new_pre(options: Self::Options, num_tune: u64) -> bool;
    spec fn cfg_num_tune(&self) -> u64;
    spec fn cfg_options(&self) -> Self::Options;
    spec fn cfg_chain(&self) -> u64;
    fn new(math: &mut M, options: Self::Options, num_tune: u64, chain: u64) -> (r: Self)
        requires Self::new_pre(options, num_tune)
        ensures
            msame(final(math), old(math)),
            r.cfg_num_tune() == num_tune,
            r.cfg_options() == options,
            r.cfg_chain() == chain;
}
#[verifier::external_body]
#[verifier::reject_recursive_types(M)]
pub struct DiagAdaptStrategy<M: Math> { _m: PhantomData<M> }
impl<M: Math> SamplerStats<M> for DiagAdaptStrategy<M> { type StatsOptions = (); }          // adapt/diagonal.rs:120-122
impl<M: Math> MassMatrixAdaptStrategy<M> for DiagAdaptStrategy<M> {
    type Transformation = DiagMassMatrix<M>;
    type Options = DiagAdaptExpSettings;
}
#[verifier::external_body]
pub struct LowRankMassMatrixStrategy { _x: u8 }
impl<M: Math> SamplerStats<M> for LowRankMassMatrixStrategy { type StatsOptions = (); }     // adapt/low_rank.rs
impl<M: Math> MassMatrixAdaptStrategy<M> for LowRankMassMatrixStrategy {
    type Transformation = LowRankMassMatrix<M>;
    type Options = LowRankSettings;
}
#[verifier::external_body]
#[verifier::reject_recursive_types(M)]
#[verifier::reject_recursive_types(A)]
pub struct GlobalStrategy<M: Math, A: MassMatrixAdaptStrategy<M>> { _m: PhantomData<M>, _a: PhantomData<A> }
impl<M: Math, A: MassMatrixAdaptStrategy<M>> SamplerStats<M> for GlobalStrategy<M, A> { type StatsOptions = GlobalStrategyStatsOptions<M, A>; }   // adapt_strategy.rs:265-271
impl<M: Math, A: MassMatrixAdaptStrategy<M>> AdaptStrategy<M> for GlobalStrategy<M, A> {
    type Hamiltonian = TransformedHamiltonian<M, A::Transformation>;
    type Options = EuclideanAdaptOptions<A::Options>;
    open spec fn new_pre(options: Self::Options, num_tune: u64) -> bool { gs_new_pre::<A::Options>(options, num_tune) }
    uninterp spec fn cfg_num_tune(&self) -> u64;
    uninterp spec fn cfg_options(&self) -> Self::Options;
    uninterp spec fn cfg_chain(&self) -> u64;
    #[verifier::external_body]
    fn new(math: &mut M, options: Self::Options, num_tune: u64, chain: u64) -> (r: Self) { unimplemented!() }
}
#[verifier::external_body]
pub struct ExternalTransformAdaptation { _x: u8 }
impl<M: Math> SamplerStats<M> for ExternalTransformAdaptation { type StatsOptions = (); }   // external_adapt_strategy.rs:60-62
impl<M: Math> AdaptStrategy<M> for ExternalTransformAdaptation {
    type Hamiltonian = TransformedHamiltonian<M, ExternalTransformation<M>>;
    type Options = FlowSettings;
    open spec fn new_pre(options: Self::Options, num_tune: u64) -> bool { et_new_pre(options, num_tune) }
    uninterp spec fn cfg_num_tune(&self) -> u64;
    uninterp spec fn cfg_options(&self) -> Self::Options;
    uninterp spec fn cfg_chain(&self) -> u64;
    #[verifier::external_body]
    fn new(math: &mut M, options: Self::Options, num_tune: u64, chain: u64) -> (r: Self) { unimplemented!() }
}

// ------------------------------------------------------------------------------------------
// The two chain types: opaque, their constructors RECORD their arguments (assumptions A-ctor-nuts / A-ctor-mclmc:
// `NutsChain::new` (src/chain.rs:69-93) and `MclmcChain::new` (src/mclmc.rs:175-210) store every argument in the
// field of the same name; neither constructor is under contract in any unit today -- units chain / mclmc extract the
// structs and could prove exactly these equalities with `r.<field> == <argument>`).
// ------------------------------------------------------------------------------------------
pub trait Chain<M: Math>: SamplerStats<M> + Sized {}
#[verifier::external_body]
#[verifier::reject_recursive_types(M)]
#[verifier::reject_recursive_types(R)]
#[verifier::reject_recursive_types(A)]
pub struct NutsChain<M: Math, R: rand::Rng, A: AdaptStrategy<M>> { _m: PhantomData<M>, _r: PhantomData<R>, _a: PhantomData<A> }
impl<M: Math, R: rand::Rng, A: AdaptStrategy<M>> SamplerStats<M> for NutsChain<M, R, A> { type StatsOptions = StatOptions<M, A>; }   // chain.rs:257-265
impl<M: Math, R: rand::Rng, A: AdaptStrategy<M>> Chain<M> for NutsChain<M, R, A> {}
impl<M: Math, R: rand::Rng, A: AdaptStrategy<M>> NutsChain<M, R, A> {
    pub uninterp spec fn cfg_hamiltonian(&self) -> A::Hamiltonian;
    pub uninterp spec fn cfg_strategy(&self) -> A;
    pub uninterp spec fn cfg_options(&self) -> NutsOptions;
    pub uninterp spec fn cfg_chain(&self) -> u64;
    pub uninterp spec fn cfg_stats_options(&self) -> StatOptions<M, A>;
    #[verifier::external_body]
    pub fn new(math: M, hamiltonian: A::Hamiltonian, strategy: A, options: NutsOptions, rng: R, chain: u64, stats_options: StatOptions<M, A>) -> (r: Self)
        ensures
            r.cfg_hamiltonian() == hamiltonian,
            r.cfg_strategy() == strategy,
            r.cfg_options() == options,
            r.cfg_chain() == chain,
            r.cfg_stats_options() == stats_options,
    { unimplemented!() }
}
#[verifier::external_body]
#[verifier::reject_recursive_types(M)]
#[verifier::reject_recursive_types(R)]
#[verifier::reject_recursive_types(A)]
#[verifier::reject_recursive_types(T)]
pub struct MclmcChain<M: Math, R: rand::Rng, A: AdaptStrategy<M, Hamiltonian = TransformedHamiltonian<M, T>>, T: Transformation<M>> {
    _m: PhantomData<M>, _r: PhantomData<R>, _a: PhantomData<A>, _t: PhantomData<T>,
}
impl<M: Math, R: rand::Rng, T: Transformation<M>, A: AdaptStrategy<M, Hamiltonian = TransformedHamiltonian<M, T>>> SamplerStats<M> for MclmcChain<M, R, A, T> {
    type StatsOptions = StatOptions<M, A>;   // mclmc.rs
}
impl<M: Math, R: rand::Rng, T: Transformation<M>, A: AdaptStrategy<M, Hamiltonian = TransformedHamiltonian<M, T>>> Chain<M> for MclmcChain<M, R, A, T> {}
impl<M: Math, R: rand::Rng, T: Transformation<M>, A: AdaptStrategy<M, Hamiltonian = TransformedHamiltonian<M, T>>> MclmcChain<M, R, A, T> {
    pub uninterp spec fn cfg_hamiltonian(&self) -> TransformedHamiltonian<M, T>;
    pub uninterp spec fn cfg_adapt(&self) -> A;
    pub uninterp spec fn cfg_chain(&self) -> u64;
    pub uninterp spec fn cfg_subsample_frequency(&self) -> F;
    pub uninterp spec fn cfg_dynamic_step_size(&self) -> bool;
    pub uninterp spec fn cfg_trajectory_kind(&self) -> MclmcTrajectoryKind;
    pub uninterp spec fn cfg_switch_draw(&self) -> u64;
    pub uninterp spec fn cfg_max_energy_error(&self) -> F;
    pub uninterp spec fn cfg_stats_options(&self) -> StatOptions<M, A>;
    #[verifier::external_body]
    pub fn new(
        math: M,
        hamiltonian: TransformedHamiltonian<M, T>,
        adapt: A,
        rng: R,
        chain: u64,
        subsample_frequency: F,
        dynamic_step_size: bool,
        trajectory_kind: MclmcTrajectoryKind,
        switch_draw: u64,
        max_energy_error: F,
        stats_options: StatOptions<M, A>,
    ) -> (r: Self)
        ensures
            r.cfg_hamiltonian() == hamiltonian,
            r.cfg_adapt() == adapt,
            r.cfg_chain() == chain,
            r.cfg_subsample_frequency() == subsample_frequency,
            r.cfg_dynamic_step_size() == dynamic_step_size,
            r.cfg_trajectory_kind() == trajectory_kind,
            r.cfg_switch_draw() == switch_draw,
            r.cfg_max_energy_error() == max_energy_error,
            r.cfg_stats_options() == stats_options,
    { unimplemented!() }
}

// ------------------------------------------------------------------------------------------
// trait Settings (src/sampler.rs:53-163) with the per-impl contract hooks (Verus rejects requires/ensures on
// trait-impl methods; the extracted impls supply the hooks through impl_extra_*.rs).
//
// REWRITE (listed in the report): Verus has no generic associated types ("unsupported generics on associated type"),
// so `type Chain<M: Math>: Chain<M>;` is replaced by the helper trait `SettingsTypes<M>` with a plain associated type;
// rule R12.typemap turns the two type texts `Self::Chain<M>` and `<Self::Chain<M> as SamplerStats<M>>::StatsOptions`
// of the extracted signatures into projections through it, rule R0.dropassoc removes `type Chain<M: Math> = ..;` from
// each extracted impl, and the six definitions are RE-STATED below (the four private aliases `DiagNutsChain<M>` ...
// they refer to ARE extracted from src/sampler.rs; the two Flow chain types are copied from sampler.rs:823, 901-906).
// A preset whose `type Chain<M>` is changed in /repo no longer type-checks here = undecided, never an alarm.
// (extractor_gatlift.patch in this directory proposes rule R15.gatlift, which moves the ORIGINAL `type Chain<M> = X;`
// out of each impl mechanically instead of re-stating it; validated with a private build, not applied.)
// Supertraits (Sealed + Clone + Copy + Default + Sync + Send + Serialize + DeserializeOwned + 'static), the schema
// default methods `stat_names` ... `stat_event_dims` and `sampler_name` / `adaptation_name` are not modelled.
// ------------------------------------------------------------------------------------------
pub trait SettingsTypes<M: Math> { type Chain: Chain<M>; }
impl<M: Math> SettingsTypes<M> for DiagNutsSettings { type Chain = DiagNutsChain<M>; }
impl<M: Math> SettingsTypes<M> for LowRankNutsSettings { type Chain = LowRankNutsChain<M>; }
impl<M: Math> SettingsTypes<M> for FlowNutsSettings { type Chain = NutsChain<M, ChaCha8Rng, ExternalTransformAdaptation>; }
impl<M: Math> SettingsTypes<M> for DiagMclmcSettings { type Chain = DiagMclmcChain<M>; }
impl<M: Math> SettingsTypes<M> for LowRankMclmcSettings { type Chain = LowRankMclmcChain<M>; }
impl<M: Math> SettingsTypes<M> for FlowMclmcSettings {
    type Chain = crate::mclmc::MclmcChain<M, ChaCha8Rng, ExternalTransformAdaptation, ExternalTransformation<M>>;
}

pub trait Settings: Sized {
    spec fn new_chain_pre<M: Math>(&self, chain: u64, math: M) -> bool;
    // the postcondition of `new_chain` comes in four groups (lemmas.rs), one hook each, so that a failing group is named
    spec fn new_chain_kernel<M: Math>(&self, chain: u64, r: <Self as SettingsTypes<M>>::Chain) -> bool where Self: SettingsTypes<M>;
    spec fn new_chain_warmup<M: Math>(&self, chain: u64, r: <Self as SettingsTypes<M>>::Chain) -> bool where Self: SettingsTypes<M>;
    spec fn new_chain_step_size<M: Math>(&self, chain: u64, r: <Self as SettingsTypes<M>>::Chain) -> bool where Self: SettingsTypes<M>;
    spec fn new_chain_stats<M: Math>(&self, chain: u64, r: <Self as SettingsTypes<M>>::Chain) -> bool where Self: SettingsTypes<M>;
    fn new_chain<M: Math, R: Rng + ?Sized>(&self, chain: u64, math: M, rng: &mut R) -> (r: <Self as SettingsTypes<M>>::Chain)
        where Self: SettingsTypes<M>
        requires self.new_chain_pre::<M>(chain, math)
        ensures
            self.new_chain_kernel::<M>(chain, r),      // [C03.2 C05.1 C18.1 C18.3]
            self.new_chain_warmup::<M>(chain, r),      // [C06.1 C09.1]
            self.new_chain_step_size::<M>(chain, r),   // [C07.1 C18.1]
            self.new_chain_stats::<M>(chain, r);       // [C16.1]

    spec fn hint_num_tune_pre(&self) -> bool;
    spec fn hint_num_tune_post(&self, r: usize) -> bool;
    fn hint_num_tune(&self) -> (r: usize)
        requires self.hint_num_tune_pre()
        ensures self.hint_num_tune_post(r);   // [C06.1]
    spec fn hint_num_draws_pre(&self) -> bool;
    spec fn hint_num_draws_post(&self, r: usize) -> bool;
    fn hint_num_draws(&self) -> (r: usize)
        requires self.hint_num_draws_pre()
        ensures self.hint_num_draws_post(r);
    spec fn num_chains_post(&self, r: usize) -> bool;
    fn num_chains(&self) -> (r: usize)
        ensures self.num_chains_post(r);
    spec fn seed_post(&self, r: u64) -> bool;
    fn seed(&self) -> (r: u64)
        ensures self.seed_post(r);
    spec fn stats_options_post<M: Math>(&self, r: <<Self as SettingsTypes<M>>::Chain as SamplerStats<M>>::StatsOptions) -> bool where Self: SettingsTypes<M>;
    fn stats_options<M: Math>(&self) -> (r: <<Self as SettingsTypes<M>>::Chain as SamplerStats<M>>::StatsOptions)
        where Self: SettingsTypes<M>
        ensures self.stats_options_post::<M>(r);   // [C16.1]
}

/// NOT extracted: `impl Default for DualAverageOptions` (dual_avg.rs:22-31) names `std::f64::consts::PI`, which rule
/// R2.type would turn into `std::F::consts::PI`.  Nothing is claimed about the default dual-averaging options
/// (`strat_opts_ok` does not constrain them).
impl Default for DualAverageOptions {
    #[verifier::external_body]
    fn default() -> (r: Self) { unimplemented!() }
}

// ------------------------------------------------------------------------------------------
// module paths used inside the extracted bodies (`use crate::dynamics::KineticEnergyKind;` ...)
// ------------------------------------------------------------------------------------------
pub mod dynamics { pub use super::{KineticEnergyKind, DivergenceStatsOptions}; }
pub mod mclmc { pub use super::MclmcChain; }
pub mod stepsize { pub use super::StepSizeAdaptMethod; }

// ------------------------------------------------------------------------------------------
// std façade for `usize_hint`: `value.try_into().unwrap_or_else(|_| panic!(..))`  (R9.method renames)
// ------------------------------------------------------------------------------------------
pub struct TryFromIntError {}
/// `u64 -> usize` (`impl TryFrom<u64> for usize`): Ok exactly when the value fits, and then the same number
pub trait VxTryInto<T>: Sized {
    spec fn try_into_post(self, r: core::result::Result<T, TryFromIntError>) -> bool;
    fn vx_try_into(self) -> (r: core::result::Result<T, TryFromIntError>) ensures self.try_into_post(r);
}
impl VxTryInto<usize> for u64 {
    open spec fn try_into_post(self, r: core::result::Result<usize, TryFromIntError>) -> bool {
        (r is Ok == (self <= usize::MAX)) && (r is Ok ==> r->Ok_0 as int == self as int)
    }
    fn vx_try_into(self) -> (r: core::result::Result<usize, TryFromIntError>) {
        if self <= usize::MAX as u64 { Ok(self as usize) } else { Err(TryFromIntError {}) }
    }
}
/// `Result::unwrap_or_else` (documented behaviour: the value, or the closure applied to the error); verified
pub trait VxUnwrapOrElse<T, E>: Sized {
    spec fn as_result(self) -> core::result::Result<T, E>;
    fn vx_unwrap_or_else<G: FnOnce(E) -> T>(self, op: G) -> (r: T)
        requires self.as_result() is Err ==> op.requires((self.as_result()->Err_0,))
        ensures self.as_result() is Ok ==> r == self.as_result()->Ok_0,
                self.as_result() is Err ==> op.ensures((self.as_result()->Err_0,), r);
}
impl<T, E> VxUnwrapOrElse<T, E> for core::result::Result<T, E> {
    open spec fn as_result(self) -> core::result::Result<T, E> { self }
    fn vx_unwrap_or_else<G: FnOnce(E) -> T>(self, op: G) -> (r: T) {
        match self { Ok(v) => v, Err(e) => op(e) }
    }
}
