// Spec functions of unit `sampler_chain`, written from the property text (C13) and from the
// documented meaning of the `ChainProgress` counters.  No proof lemmas are needed.

/// a draw is counted as divergent iff it diverged AFTER warm-up  [C13 / ChainProgress::update]
pub open spec fn counts_as_divergence(st: Progress) -> bool { st.diverging && !st.tuning }

/// overflow preconditions of one `ChainProgress::update` (usize counters: `+= 1` panics in debug
/// builds, `Duration +=` panics in every build)
pub open spec fn cp_update_pre(v: ChainProgress, st: Progress, d: Duration) -> bool {
    &&& v.finished_draws < usize::MAX
    &&& v.divergences < usize::MAX
    &&& v.total_num_steps + (st.num_steps as usize) <= usize::MAX
    &&& v.runtime.nanos() + d.nanos() <= DUR_MAX()
}

/// A-nooverflow, stated on the value behind the progress mutex: there is room for one more update
/// (counters below their maximum; the step total and the accumulated runtime use at most half
/// of their range -- the other half is the bound assumed for ONE draw, see `expanded_draw` and
/// `Instant::elapsed` in the prelude).  Satisfiable: it is itself a possible mutex invariant.
pub open spec fn progress_room(v: ChainProgress) -> bool {
    &&& v.finished_draws < usize::MAX
    &&& v.divergences < usize::MAX
    &&& v.total_num_steps <= usize::MAX / 2
    &&& v.runtime.nanos() <= DUR_MAX() / 2
}

/// C13.1 as seen at the exit of the chain body: `Ok(())` is returned only through the final exit
/// of the closure and only if no callee whose failure must surface has failed:
///   model.math / model.init_position  (model_faults),   500 failed set_position  (positioned),
///   expanded_draw (draw_faults),   record_sample (record_faults)
pub open spec fn clean_exit(w: ExitWitness) -> bool {
    &&& w.via_final_exit
    &&& w.model_faults == 0
    &&& w.positioned
    &&& w.draw_faults == 0
    &&& w.record_faults == 0
}

/// C15 at the controller: one lock of a chain's trace mutex that flushed what it found.  `a` is the value the
/// guard was handed, `b` the value it left behind: the storage (if the chain has one) was flushed successfully
/// and nothing was taken away or replaced (a flush must not lose the trace it flushes).
pub open spec fn flushed_under_lock<CS: ChainStorage>(a: Option<CS>, b: Option<CS>) -> bool {
    &&& b == a
    &&& a is Some ==> a->Some_0.flush_ok()
}
