// Prelude of unit `sampler_chain` (C13, sequential half): everything the extracted code calls but
// that is not extracted here.  Every contract below is an ASSUMPTION of this unit (DESIGN §6).
//
// Principle: every fallible callee has an ARBITRARY outcome (Ok or Err).  A stub never promises
// success -- with ONE exception, `Mutex::lock` (A-nopoison).  What a stub does promise is that it
// keeps a ghost LOG of its own failures on the `&mut` object it was handed (`*_faults()` counters,
// `positioned()`), so that "a callee failed" is a fact the contract of `chain_body` can talk about.
use ::std::sync::Arc;
use ::std::ops::Deref;
use core::marker::PhantomData;
use vstd::std_specs::ops::*;
use vstd::std_specs::convert::*;
//@include ../_shared/std_transpose.rs

// ------------------------------------------------------------------------------------------
// anyhow façade: `Result<T>`, `Error`, `.context(..)`  (message text not modelled, rule R5)
// ------------------------------------------------------------------------------------------
pub mod anyhow {
    use vstd::prelude::*;
    /// opaque error value; `id` only makes distinct errors distinguishable in specifications
    pub struct Error { pub id: Ghost<int> }
    #[verifier::external]
    impl core::fmt::Debug for Error {
        fn fmt(&self, f: &mut core::fmt::Formatter<'_>) -> core::fmt::Result { Ok(()) }
    }
    impl Error {
        /// anyhow::Error::context: wraps the error, still an error value
        #[verifier::external_body]
        pub fn context(self, msg: &'static str) -> (r: Error) { unimplemented!() }
    }
}
pub type Result<T, E = anyhow::Error> = core::result::Result<T, E>;

/// anyhow::Context for Result: Ok stays Ok (same value), Err stays Err
pub trait Context<T, E>: Sized {
    fn context(self, msg: &'static str) -> (r: Result<T, anyhow::Error>);
}
impl<T, E> Context<T, E> for core::result::Result<T, E> {
    #[verifier::external_body]
    fn context(self, msg: &'static str) -> (r: Result<T, anyhow::Error>)
        ensures
            (self is Ok) == (r is Ok),
            self is Ok ==> r->Ok_0 == self->Ok_0,
    { unimplemented!() }
}

// ------------------------------------------------------------------------------------------
// time façade
// ------------------------------------------------------------------------------------------
/// std::time::Duration: only its length in nanoseconds is modelled
#[derive(Clone, Copy)]
pub struct Duration { pub ns: Ghost<nat> }
/// largest representable Duration: u64::MAX s + 999_999_999 ns
pub open spec fn DUR_MAX() -> nat { (0x1_0000_0000_0000_0000 * 1_000_000_000 - 1) as nat }
impl Duration {
    pub open spec fn nanos(&self) -> nat { self.ns@ }
    /// Duration::checked_sub: None iff rhs > self
    #[verifier::external_body]
    pub fn checked_sub(self, rhs: Duration) -> (r: Option<Duration>)
        ensures
            (r is Some) == (rhs.nanos() <= self.nanos()),
            r is Some ==> r->Some_0.nanos() == self.nanos() - rhs.nanos(),
    { unimplemented!() }
}
/// `Duration += Duration` PANICS on overflow in std ("overflow when adding durations"): the
/// precondition makes that an obligation of the caller
impl AddAssignSpecImpl<Duration> for Duration {
    open spec fn obeys_add_assign_spec() -> bool { true }
    open spec fn add_assign_req(&self, rhs: Duration) -> bool { self.nanos() + rhs.nanos() <= DUR_MAX() }
    open spec fn add_assign_spec(&self, rhs: Duration) -> &Duration { &Duration { ns: Ghost(self.nanos() + rhs.nanos()) } }
}
impl core::ops::AddAssign<Duration> for Duration {
    fn add_assign(&mut self, rhs: Duration) { self.ns = Ghost(self.nanos() + rhs.nanos()); }
}
pub struct Instant { pub t: Ghost<nat> }
impl Instant {
    #[verifier::external_body]
    pub fn now() -> (r: Instant) { unimplemented!() }
    /// arbitrary duration of at most DUR_MAX/2 (A-nooverflow: 2.9e11 years)
    #[verifier::external_body]
    pub fn elapsed(&self) -> (r: Duration)
        ensures r.nanos() <= DUR_MAX() / 2,
    { unimplemented!() }
}

// ------------------------------------------------------------------------------------------
// std::sync façade: Mutex, channels, JoinHandle
// ------------------------------------------------------------------------------------------
#[derive(Debug)]
pub struct PoisonError {}
/// std::sync::Mutex<T>.  The guard is modelled as `&mut T` (exclusive access while it lives; the
/// release at end of scope has no sequential effect).  The protected value is ARBITRARY at every
/// `lock()` (other threads may have changed it) up to the ghost invariant `inv`, about which this
/// unit knows nothing except what `chain_body` states as a precondition (A-nooverflow).
pub struct Mutex<T> { pub v: T }
impl<T> Mutex<T> {
    pub uninterp spec fn inv(&self, v: T) -> bool;
    /// A-nopoison: `lock()` returns Ok.  (A mutex is poisoned only if a thread panicked while
    /// holding the guard; the only code that runs under these two guards is `chain_body` and the
    /// controller's `progress()`/`finalize_many`/`inspect`, so A-nopoison follows from C13.1 for
    /// all chains + A-controller.)
    /// ghost HISTORY relation: some `lock()` / `try_lock()` on this mutex handed out a guard over the value `a`,
    /// and the guard was released with the value `b`.  It is introduced ONLY by the postconditions of the two
    /// functions below (`*final(guard)` is the value at the end of the guard's life), so a function can state
    /// "I did lock this mutex and left THIS behind" without a ghost parameter.  A relation, not a function: any
    /// number of lock() calls stay consistent.
    pub uninterp spec fn released(&self, a: T, b: T) -> bool;
    #[verifier::external_body]
    pub fn lock(&self) -> (r: core::result::Result<&mut T, PoisonError>)
        ensures
            r is Ok,                    // A-nopoison
            self.inv(*(r->Ok_0)),
            self.released(*(r->Ok_0), *final(r->Ok_0)),
    { unimplemented!() }
    /// std::sync::Mutex::try_lock: ARBITRARY outcome (WouldBlock whenever another thread holds the guard)
    #[verifier::external_body]
    pub fn try_lock(&self) -> (r: core::result::Result<&mut T, TryLockError>)
        ensures
            r is Ok ==> self.inv(*(r->Ok_0)) && self.released(*(r->Ok_0), *final(r->Ok_0)),
    { unimplemented!() }
}
#[derive(Debug)]
pub struct TryLockError {}

pub enum TryRecvError { Empty, Disconnected }
pub struct RecvError {}
pub enum RecvTimeoutError { Timeout, Disconnected }
impl FromSpecImpl<RecvError> for TryRecvError {
    open spec fn obeys_from_spec() -> bool { true }
    open spec fn from_spec(v: RecvError) -> Self { TryRecvError::Disconnected }
}
/// std: `impl From<RecvError> for TryRecvError` maps to Disconnected
impl From<RecvError> for TryRecvError {
    fn from(e: RecvError) -> (r: TryRecvError) { TryRecvError::Disconnected }
}
/// std::sync::mpsc::Receiver<T>: every receive has an ARBITRARY outcome (any message, empty,
/// timeout, disconnected); blocking is not modelled (hangs are out of scope)
pub struct Receiver<T> { pub _t: PhantomData<T> }
impl<T> Receiver<T> {
    /// ghost: `m` is a message that some sender put on this channel
    pub uninterp spec fn may_deliver(&self, m: T) -> bool;
    #[verifier::external_body]
    pub fn try_recv(&self) -> (r: core::result::Result<T, TryRecvError>) { unimplemented!() }
    #[verifier::external_body]
    pub fn recv(&self) -> (r: core::result::Result<T, RecvError>)
        ensures r is Ok ==> self.may_deliver(r->Ok_0),
    { unimplemented!() }
    #[verifier::external_body]
    pub fn recv_timeout(&self, timeout: Duration) -> (r: core::result::Result<T, RecvTimeoutError>)
        ensures r is Ok ==> self.may_deliver(r->Ok_0),
    { unimplemented!() }
}
pub struct SendError<T> { pub m: T }
/// std::sync::mpsc::{SyncSender, Sender}::send: ARBITRARY outcome (Err when the receiver is gone).  Ghost history
/// relation `sent(m)`: a send of `m` on this channel returned Ok; introduced only by `send` itself.
pub struct SyncSender<T> { pub _t: PhantomData<T> }
impl<T> SyncSender<T> {
    pub uninterp spec fn sent(&self, m: T) -> bool;
    #[verifier::external_body]
    pub fn send(&self, m: T) -> (r: core::result::Result<(), SendError<T>>)
        ensures r is Ok ==> self.sent(m),
    { unimplemented!() }
}
pub struct Sender<T> { pub _t: PhantomData<T> }
impl<T> Sender<T> {
    pub uninterp spec fn sent(&self, m: T) -> bool;
    #[verifier::external_body]
    pub fn send(&self, m: T) -> (r: core::result::Result<(), SendError<T>>)
        ensures r is Ok ==> self.sent(m),
    { unimplemented!() }
}
/// anyhow: `impl<E: std::error::Error> From<E> for anyhow::Error` as used by `?` (no spec: an error is an error)
impl<T> From<SendError<T>> for anyhow::Error {
    #[verifier::external_body]
    fn from(e: SendError<T>) -> (r: anyhow::Error) { unimplemented!() }
}
/// `anyhow::anyhow!(..)` / `bail!(..)` (rule R5: message text not modelled)
#[verifier::external_body]
pub fn opaque_error() -> (r: anyhow::Error) { unimplemented!() }
/// core::mem::drop: no sequential effect (dropping `commands` disconnects the command channel,
/// which makes the controller leave its loop: a concurrency effect, out of scope)
pub assume_specification<T>[ ::core::mem::drop::<T> ](_0: T);

/// payload of a panic that ended a thread (std: Box<dyn Any + Send>)
pub struct PanicPayload { pub ghost from_join: bool }
/// std::thread::JoinHandle<T>.  `out` is the (prophetic) outcome of the thread: None = it panicked.
/// A-controller: the thread body (the controller closure in `Sampler::new`) is not verified here.
pub struct JoinHandle<T> { pub out: Ghost<Option<T>> }
impl<T> JoinHandle<T> {
    pub open spec fn panicked(&self) -> bool { self.out@ is None }
    pub open spec fn value(&self) -> T { self.out@->Some_0 }
    #[verifier::external_body]
    pub fn join(self) -> (r: core::result::Result<T, PanicPayload>)
        ensures
            (r is Err) == self.panicked(),
            r is Ok ==> r->Ok_0 == self.value(),
            r is Err ==> r->Err_0.from_join,
    { unimplemented!() }
}
/// std::panic::resume_unwind: never returns (continues the unwinding of the joined thread's panic
/// in the caller).  `ensures false` is the statement "does not return"; there is NO `requires`, so
/// the call is allowed -- `Sampler::abort`'s contract states when it can be reached.
/// (local module `std::panic` so that the path written in sampler.rs resolves to this stub; the
/// prelude itself names the real crate as `::std`)
pub mod std {
    pub mod panic {
        use vstd::prelude::*;
        #[verifier::external_body]
        pub fn resume_unwind(payload: crate::PanicPayload) -> !
            requires payload.from_join,     // only the payload of a joined, panicked thread is re-raised
            ensures false,
        { unimplemented!() }
    }
}

// ------------------------------------------------------------------------------------------
// nuts-rs façade: Math, Model, Settings, Chain, ChainStorage, Storable
// ------------------------------------------------------------------------------------------
pub struct Value {}
pub trait HasDims {}
/// nuts_storable::Storable<P>::get_all
pub trait Storable<P: ?Sized> {
    fn get_all<'a>(&'a mut self, parent: &'a P) -> (r: Vec<(&'a str, Option<Value>)>);
}
pub trait Math: Sized {
    type ExpandedVector: Storable<Self>;
    fn dim(&self) -> (r: usize);
}
pub struct StatsDims {}
impl<M: Math> FromSpecImpl<&M> for StatsDims {
    open spec fn obeys_from_spec() -> bool { false }
    open spec fn from_spec(v: &M) -> Self { StatsDims {} }
}
impl<M: Math> From<&M> for StatsDims {
    fn from(math: &M) -> (r: StatsDims) { StatsDims {} }
}
/// std::cell::Ref<'_, M> as returned by `Chain::math`
pub struct Ref<'a, M> { pub m: &'a M }
impl<'a, M> Deref for Ref<'a, M> {
    type Target = M;
    fn deref(&self) -> &M { self.m }
}

/// rand::Rng.  Ghost log: `model_faults()` counts the `Model` callbacks that were handed this
/// generator and returned Err (the generator is the only `&mut` object those callbacks receive).
pub trait Rng {
    spec fn model_faults(&self) -> nat;
}

/// nuts_rs::Model (the lifetime GAT `Math<'model>` is flattened: Verus has no GATs)
pub trait Model: Sized {
    type Math: Math;
    /// arbitrary outcome; a failure is logged on `rng`
    fn math<R: Rng + ?Sized>(&self, rng: &mut R) -> (r: Result<Self::Math>)
        ensures final(rng).model_faults() == old(rng).model_faults() + (if r is Err { 1nat } else { 0nat });
    /// arbitrary outcome; a failure is logged on `rng`
    fn init_position<R: Rng + ?Sized>(&self, rng: &mut R, position: &mut [f64]) -> (r: Result<()>)
        ensures final(rng).model_faults() == old(rng).model_faults() + (if r is Err { 1nat } else { 0nat });
}

/// nuts_rs::Chain<M> (+ the `Stats` associated type of its supertrait SamplerStats<M>).
/// Ghost log: `positioned()` = the most recent `set_position` returned Ok;
/// `draw_faults()` = number of `expanded_draw` calls that returned Err.
pub trait Chain<M: Math>: Sized {
    type Stats: Storable<StatsDims>;
    spec fn positioned(&self) -> bool;
    spec fn draw_faults(&self) -> nat;
    /// arbitrary outcome (C05 decides when the real one fails)
    fn set_position(&mut self, position: &[f64]) -> (r: Result<()>)
        ensures
            final(self).positioned() == (r is Ok),
            final(self).draw_faults() == old(self).draw_faults();
    /// arbitrary outcome (C13.2: by C05.1/C05.5 the real one returns Err only for unrecoverable
    /// density errors -- not needed here, the contract of chain_body holds for EVERY outcome)
    fn expanded_draw(&mut self) -> (r: Result<(Box<[f64]>, M::ExpandedVector, Self::Stats, Progress)>)
        ensures
            final(self).positioned() == old(self).positioned(),
            final(self).draw_faults() == old(self).draw_faults() + (if r is Err { 1nat } else { 0nat }),
            // A-nooverflow: one draw reports at most usize::MAX/2 leapfrog steps
            r is Ok ==> r->Ok_0.3.num_steps <= usize::MAX / 2;
    fn math(&self) -> (r: Ref<'_, M>);
}

/// the part of nuts_rs::Settings that does not depend on the math backend
pub trait Settings: Sized {
    spec fn num_tune(&self) -> usize;
    spec fn num_draws(&self) -> usize;
    fn hint_num_tune(&self) -> (r: usize) ensures r == self.num_tune();
    fn hint_num_draws(&self) -> (r: usize) ensures r == self.num_draws();
}
/// `Settings::new_chain` (the GAT `Chain<M>` becomes an associated type of `SettingsFor<M>`)
pub trait SettingsFor<M: Math>: Settings {
    type Chain: Chain<M>;
    /// infallible; the new chain has no position and an empty failure log
    fn new_chain<R: Rng + ?Sized>(&self, chain: u64, math: M, rng: &mut R) -> (r: Self::Chain)
        ensures
            !r.positioned(),
            r.draw_faults() == 0,
            final(rng).model_faults() == old(rng).model_faults();
}

/// nuts_rs::storage::ChainStorage.  Ghost log: number of `record_sample` calls that returned Err.
pub trait ChainStorage: Sized {
    spec fn record_faults(&self) -> nat;
    /// arbitrary outcome; a failure is logged
    fn record_sample<S: Settings>(
        &mut self,
        settings: &S,
        stats: Vec<(&str, Option<Value>)>,
        draws: Vec<(&str, Option<Value>)>,
        info: &Progress,
    ) -> (r: Result<()>)
        ensures final(self).record_faults() == old(self).record_faults() + (if r is Err { 1nat } else { 0nat });
    /// ghost history predicate: a `flush()` of a storage in THIS state returned Ok (introduced only by `flush`)
    spec fn flush_ok(&self) -> bool;
    /// arbitrary outcome (what the Zarr implementation writes is decided by units zarrbuf / zarrflow)
    fn flush(&self) -> (r: Result<()>)
        ensures r is Ok ==> self.flush_ok();
}
/// nuts_rs::storage::TraceStorage: only the associated chain-storage type is used here
pub trait TraceStorage: Sized {
    type ChainStorage: ChainStorage;
}

// ------------------------------------------------------------------------------------------
// ghost exit witness of `chain_body` (the lifted closure has no other way to expose the final
// ghost logs of its LOCAL objects `rng`, `sampler`, the storage behind the trace mutex).
// It is written ONLY by the ghost code spliced at the single `Ok(())` exit (contracts.vspec).
// ------------------------------------------------------------------------------------------
pub struct ExitWitness {
    /// the function returned through the final `Ok(())` of the closure
    pub ghost via_final_exit: bool,
    /// failures of model.math / model.init_position seen by this chain
    pub ghost model_faults: nat,
    /// the last set_position succeeded
    pub ghost positioned: bool,
    /// failures of expanded_draw seen by this chain
    pub ghost draw_faults: nat,
    /// failures of record_sample seen by this chain
    pub ghost record_faults: nat,
}
