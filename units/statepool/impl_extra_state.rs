    // ghost items spliced into `impl State<M, P>` (rule R1.ghostitems)
    /// the handle to the reference-counted allocation behind this state
    pub open spec fn rc(&self) -> Rc<InnerStateReusable<M, P>> { self.inner.v }
    /// the phase-space point stored in the allocation
    pub open spec fn pt(&self) -> P { self.inner.v@.inner }
    /// [C03.6] no other live handle (State clone, free-list entry, Weak) refers to the allocation
    pub open spec fn unaliased(&self) -> bool { self.inner.v.unique() }
    /// both handles refer to the same allocation
    pub open spec fn same_alloc(&self, other: &Self) -> bool { self.inner.v.alloc() == other.inner.v.alloc() }
