// Spec functions of unit `statepool`: the State-level vocabulary (`rc`, `pt`, `unaliased`, `same_alloc`) is spliced
// into `impl State` (impl_extra_state.rs) so that contracts read `r.unaliased()`.  No proof lemmas are needed.
#[verifier::external]
impl core::fmt::Debug for StateInUse {
    fn fmt(&self, f: &mut core::fmt::Formatter<'_>) -> core::fmt::Result { Ok(()) }
}
