// Prelude of unit `statepool` (C03.6, the state pool of src/dynamics/state.rs; model I, no float reasoning).
// Everything the extracted code calls but that is not extracted.  EVERY contract below is an ASSUMPTION of this
// unit (none is proved by another unit; the Kani harness K-pool that was meant to check them against the real
// std types is not deliverable, DESIGN 11.10).  Ids for DESIGN section 6 / 11.7 -- details at each facade:
//   A-rc-unique     facade of std::rc::Rc<T>: ghost counters strong() / weak(); unique() := strong()==1 && weak()==0
//                   (SNAPSHOT semantics, see the caveats at `Rc`)
//   A-cell-inv      facade of RefCell<Vec<Rc<T>>> (the free list): invariant cell "every pooled allocation is
//                   unaliased"; pop() hands the invariant out, push() demands it; borrow_mut() never panics
//   A-manuallydrop  facade of std::mem::ManuallyDrop<T>: new wraps, Deref/DerefMut reach the wrapped value, the
//                   `unsafe` take() returns the wrapped value and leaves the slot logically uninitialised
//   A-weak          Weak<T>::upgrade / Rc::downgrade: opaque (upgrade has an ARBITRARY outcome)
//   A-point         trait Point<M>: `copy_into` makes the ghost value of `other` equal to that of `self`
//                   (unit leapfrog proves the same statement, `copy_post`, for TransformedPoint::copy_into);
//                   `index_in_trajectory` / `energy` report the ghost value; `new` promises nothing
//   A-alloc         Vec::with_capacity / Vec::push inside the cell neither fail nor panic (allocation failure and
//                   capacity overflow are out of scope)
// Rewrites used (unit.json): R7.header on `trait Point` (supertraits SamplerStats<M> + Debug dropped) and on
// `impl Drop for State` (-> inherent `impl State`: Verus demands `opens_invariants none` + `no_unwind` on Drop::drop,
// which a contract file cannot attach; the body is unchanged, "this function is the destructor, run exactly once per
// State" moves into A-manuallydrop); R14.letchain (`if A && B && let P = E {S}` -> `if A && B { if let P = E {S} }`:
// Verus has no let chains; extractor_letchain.patch); R0.dropfn (Point::{position, gradient, logp, energy_error,
// initial_energy}, State::{write_position, write_gradient}: not part of the pool mechanism).
// Observations (not findings):
//   * `new_state` keeps the RefCell guard alive across `P::new(math)` (temporary of the `match` scrutinee): a
//     `Point::new` that dropped a State of the same pool would panic with BorrowMutError.  No Point of the crate does.
//   * the value model cannot see a `clone` through `&handle` as a change of the handle (caveat (a) below).
use core::marker::PhantomData;
use core::ops::{Deref, DerefMut};

//@include ../_shared/state_view.rs

/// crate::math::Math: the pool only hands `&mut M` through to `Point::new` / `Point::copy_into`
pub trait Math: Sized {}

// ------------------------------------------------------------------------------------------
// A-rc-unique: std::rc::Rc<T>
// ------------------------------------------------------------------------------------------
// The model is a VALUE model: a handle `h: Rc<T>` carries
//   h@        the value of the allocation as seen through this handle,
//   h.alloc() the identity of the allocation,
//   h.strong(), h.weak()  the reference counters of the allocation AT THE TIME the handle value was produced
//                         or last observed (by new / pop / clone / strong_count / weak_count / get_mut).
// `h.unique()` (strong == 1, weak == 0) therefore is a SNAPSHOT.  In the real program the counters are shared
// mutable state that changes without the handle being touched:
//   caveat (a)  unique() == true is invalidated by `Rc::clone(&h)` / `Rc::downgrade(&h)` -- calls through a SHARED
//               reference to this very handle, which the value model cannot see as a change of `h`.  It is NOT
//               invalidated by anything else: a new handle to an allocation can only be made from an existing
//               one, and `h` is the only one.
//   caveat (b)  unique() == false is invalidated when the other handles die (any drop, anywhere).  NEVER rely on
//               "still shared" across a drop.
// The extracted functions of this unit respect both: between the point where a function learns unique() and
// the point where it uses it (new_state: pop/new -> return; copy_state: new_state -> get_mut; drop: counts ->
// push) the handle is neither cloned nor downgraded, and no proof uses `!unique()` at all (it appears only as a
// postcondition of clone, true at the moment clone returns because `self` is borrowed and hence alive).
// Clients (A-rc of DESIGN section 6): "a state obtained from new_state / copy_state and NOT CLONED SINCE is
// unaliased".
#[verifier::external_body]
#[verifier::accept_recursive_types(T)]
pub struct Rc<T> { _p: PhantomData<T> }

impl<T> Rc<T> {
    /// value of the allocation
    pub uninterp spec fn view(&self) -> T;
    /// identity of the allocation
    pub uninterp spec fn alloc(&self) -> int;
    /// number of strong handles (Rc) to the allocation, this one included
    pub uninterp spec fn strong(&self) -> nat;
    /// number of Weak handles to the allocation
    pub uninterp spec fn weak(&self) -> nat;
    /// no other strong or weak handle refers to the allocation (what std calls `Rc::is_unique`)
    pub open spec fn unique(&self) -> bool { self.strong() == 1 && self.weak() == 0 }

    /// std: a fresh allocation with strong = 1, weak = 0
    #[verifier::external_body]
    pub fn new(v: T) -> (r: Rc<T>)
        ensures r@ == v, r.unique(),
    { unimplemented!() }

    /// std: `Rc::strong_count(&rc)`
    #[verifier::external_body]
    pub fn strong_count(this: &Rc<T>) -> (n: usize)
        ensures n == this.strong(), n >= 1,
    { unimplemented!() }

    /// std: `Rc::weak_count(&rc)`
    #[verifier::external_body]
    pub fn weak_count(this: &Rc<T>) -> (n: usize)
        ensures n == this.weak(),
    { unimplemented!() }

    /// std: `Rc::get_mut` returns Some iff `Rc::is_unique(this)` (strong == 1 and weak == 0); the reference
    /// points into the allocation, so what is written through it is what the handle sees afterwards
    #[verifier::external_body]
    pub fn get_mut(this: &mut Rc<T>) -> (r: Option<&mut T>)
        ensures
            (r is Some) == old(this).unique(),
            r is Some ==> *r->Some_0 == old(this)@ && final(this)@ == *final(r->Some_0)
                && final(this).alloc() == old(this).alloc()
                && final(this).strong() == old(this).strong() && final(this).weak() == old(this).weak(),
            r is None ==> *final(this) == *old(this),
    { unimplemented!() }

    /// std: `Rc::downgrade(&rc)`: a Weak to the same allocation (A-weak: opaque).  Caveat (a): invalidates a
    /// unique() snapshot of `this`; the only call site applies it to a temporary clone of the STORAGE handle.
    #[verifier::external_body]
    pub fn downgrade(this: &Rc<T>) -> (r: Weak<T>)
    { unimplemented!() }
}

impl<T> Deref for Rc<T> {
    type Target = T;
    #[verifier::external_body]
    fn deref(&self) -> (r: &T)
        ensures *r == self@,
    { unimplemented!() }
}

impl<T> Clone for Rc<T> {
    /// std: a second handle to the same allocation, strong += 1.  At the moment clone returns `self` is alive
    /// (it is borrowed), so the new handle sees strong >= 2.  Caveat (a): `self` is not unique any more although
    /// its snapshot is unchanged; caveat (b): `!r.unique()` holds only while the other handles live.
    #[verifier::external_body]
    fn clone(&self) -> (r: Rc<T>)
        ensures r@ == self@, r.alloc() == self.alloc(), r.strong() == self.strong() + 1, r.strong() >= 2,
            r.weak() == self.weak(),
    { unimplemented!() }
}

// ------------------------------------------------------------------------------------------
// A-weak: std::rc::Weak<T>
// ------------------------------------------------------------------------------------------
#[verifier::external_body]
#[verifier::accept_recursive_types(T)]
pub struct Weak<T> { _p: PhantomData<T> }

impl<T> Weak<T> {
    /// std: Some(strong handle) while the allocation is alive, else None -- ARBITRARY outcome here.
    /// (`reuser` is a Weak to the STORAGE, not to the state allocation: it does not count in `weak()` of a state.)
    #[verifier::external_body]
    pub fn upgrade(&self) -> (r: Option<Rc<T>>)
    { unimplemented!() }
}

// ------------------------------------------------------------------------------------------
// A-cell-inv: std::cell::RefCell<Vec<Rc<T>>>, the free list of the pool
// ------------------------------------------------------------------------------------------
// Invariant cell: the cell owns a list of handles, EACH OF WHICH IS UNIQUE (strong == 1: the list's own handle;
// weak == 0).  The content is otherwise unknown at every borrow.  The invariant is
//   * established by `RefCell::new(v)` for an EMPTY list,
//   * preserved by `push(rc)`, which DEMANDS `rc.unique()` (proved at the only push site of the crate,
//     State::drop): moving the only handle of an allocation into the list keeps it the only handle,
//   * handed out by `pop()`,
//   * not disturbed from outside: caveat (a) of A-rc-unique needs a shared reference to the pooled handle; the
//     field `free_states` is private to src/dynamics/state.rs and is touched at exactly three places
//     (`RefCell::new`, `borrow_mut().pop()`, `borrow_mut().push(rc)`) -- `validate.py` greps for a fourth.
// `borrow_mut()` panics in std when the cell is already borrowed.  The facade assumes it is not: both guards are
// temporaries; the one in `new_state` lives to the end of the `match`, i.e. across `P::new(math)`, so this
// assumes that `Point::new` does not drop a State of the same pool (true for every Point of the crate; reported
// as an observation).
#[verifier::external_body]
#[verifier::accept_recursive_types(V)]
pub struct RefCell<V> { _p: PhantomData<fn(V) -> V> }   // invariant in V like std's RefCell (rustc variance inference of the recursive pool types needs it)

impl<T> RefCell<Vec<Rc<T>>> {
    /// `RefCell::new(Vec::with_capacity(capacity))`: an empty list satisfies the invariant
    #[verifier::external_body]
    pub fn new(v: Vec<Rc<T>>) -> (r: RefCell<Vec<Rc<T>>>)
        requires v@.len() == 0,
    { unimplemented!() }

    /// A-cell-inv: never panics (see above)
    #[verifier::external_body]
    pub fn borrow_mut(&self) -> (r: FreeListGuard<'_, T>)
    { unimplemented!() }
}

/// std::cell::RefMut<'_, Vec<Rc<T>>> restricted to the two Vec operations the pool uses
#[verifier::external_body]
#[verifier::accept_recursive_types(T)]
pub struct FreeListGuard<'a, T> { _p: PhantomData<&'a T> }

impl<'a, T> FreeListGuard<'a, T> {
    /// `Vec::pop` through the guard: ARBITRARY outcome (the list may be empty); a popped handle is unique
    #[verifier::external_body]
    pub fn pop(&mut self) -> (r: Option<Rc<T>>)
        ensures r is Some ==> r->Some_0.unique(),
    { unimplemented!() }

    /// `Vec::push` through the guard: the pushed handle must be the only handle to its allocation
    #[verifier::external_body]
    pub fn push(&mut self, rc: Rc<T>)
        requires rc.unique(),
    { unimplemented!() }
}

// ------------------------------------------------------------------------------------------
// A-manuallydrop: std::mem::ManuallyDrop<T>   (a module `std` of the crate root shadows the extern crate for
// the paths `std::mem::ManuallyDrop`, `std::result::Result` written in state.rs)
// ------------------------------------------------------------------------------------------
pub mod std {
    pub mod result { pub use core::result::Result; }
    pub mod mem {
        use vstd::prelude::*;
        /// a wrapper that inhibits the destructor of `v`; transparent for the verifier
        pub struct ManuallyDrop<T> { pub v: T }
        impl<T> ManuallyDrop<T> {
            pub fn new(value: T) -> (r: ManuallyDrop<T>)
                ensures r.v == value,
            { ManuallyDrop { v: value } }

            /// std (`unsafe`): moves the value out and leaves the slot logically uninitialised: nothing is known
            /// about the slot afterwards.  Safety condition of std ("the slot must not be used again") is
            /// A-manuallydrop: `Drop::drop` runs at most once per State, and its body does not touch `self.inner`
            /// after the take (the verifier could not conclude anything from such a use: the slot is havocked).
            #[verifier::external_body]
            pub fn take(slot: &mut ManuallyDrop<T>) -> (r: T)
                ensures r == old(slot).v,
            { unimplemented!() }
        }
        impl<T> core::ops::Deref for ManuallyDrop<T> {
            type Target = T;
            fn deref(&self) -> (r: &T)
                ensures *r == self.v,
            { &self.v }
        }
        impl<T> core::ops::DerefMut for ManuallyDrop<T> {
            fn deref_mut(&mut self) -> (r: &mut T)
                ensures *r == old(self).v, final(self).v == *final(r),
            { &mut self.v }
        }
        /// std: `impl<T: Clone> Clone for ManuallyDrop<T>` clones the wrapped value
        impl<T: Clone> Clone for ManuallyDrop<T> {
            fn clone(&self) -> (r: Self)
                ensures call_ensures(T::clone, (&self.v,), r.v),
            { ManuallyDrop { v: self.v.clone() } }
        }
    }
}
