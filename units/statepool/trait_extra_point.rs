    // ghost items spliced into `trait Point<M>` (rule R1.ghostitems)
    /// ghost value of the phase-space point (shared vocabulary, _shared/state_view.rs)
    spec fn pview(&self) -> StateView;
    /// the machine number `energy()` reports (model I has no link between f64 and the reals of StateView)
    spec fn energy_f64(&self) -> f64;
