#!/usr/bin/env python3
"""validation of unit statepool (UNITS.md "Validation"): apply one edit at a time to a scratch worktree of /repo and
run the unit against it; then the vacuity mutants (`ensures false` per contract-bearing function) on the pinned tree.
usage: units/statepool/validate.py [edit names.. | vacuity]
Expected:  B* -> FAIL in the named function;  H* -> GREEN;  vacuity -> every mutant REJECTED.

The unit needs extractor rule R14.letchain (units/statepool/extractor_letchain.patch, integrated into tools/vx-extract);
VX_EXTRACT=<binary> selects another extractor build.
"""
import os, sys, subprocess
sys.path.insert(0, os.path.dirname(os.path.dirname(os.path.dirname(os.path.abspath(__file__)))))
WT = "/tmp/statepool_validate_%d" % os.getpid()
subprocess.run(["git", "-C", "/repo", "worktree", "add", "-q", WT, "HEAD"], check=True)
os.environ["VERIF_REPO"] = WT
from vx import core
core.REPO = WT
if os.environ.get("VX_EXTRACT"):
    core.EXTRACT = os.environ["VX_EXTRACT"]
F = "src/dynamics/state.rs"
COUNTS = """        if (Rc::strong_count(&rc) == 1)
            && (Rc::weak_count(&rc) == 0)
            && let Some(storage) = rc.reuser.upgrade()
        {
            storage.free_states.borrow_mut().push(rc);
        }
"""
POP = "            Some(inner) => inner,\n"
COPY = "        state.point().copy_into(math, new_point);\n"
# name -> (expected failing function or None for GREEN, [(old, new)..])
EDITS = {
 "base": (None, []),
 # ---- the five breaking edits of the task
 "B1_recycle_when_strong_2": ("State::drop", [("if (Rc::strong_count(&rc) == 1)", "if (Rc::strong_count(&rc) == 2)")]),
 "B1b_recycle_when_strong_le_2": ("State::drop", [("if (Rc::strong_count(&rc) == 1)", "if (Rc::strong_count(&rc) <= 2)")]),
 "B2_ignore_weak_count": ("State::drop", [("            && (Rc::weak_count(&rc) == 0)\n", "")]),
 "B2b_weak_count_le_1": ("State::drop", [("(Rc::weak_count(&rc) == 0)", "(Rc::weak_count(&rc) <= 1)")]),
 "B3_always_push": ("State::drop", [(COUNTS, """        if let Some(storage) = rc.reuser.upgrade()
        {
            storage.free_states.borrow_mut().push(rc);
        }
""")]),
 "B3b_push_or": ("State::drop", [("            && (Rc::weak_count(&rc) == 0)\n            && let", "            || (Rc::weak_count(&rc) == 0))\n            && let"),
                                  ("if (Rc::strong_count(&rc) == 1)", "if ((Rc::strong_count(&rc) == 1)")]),
 "B4_new_state_returns_clone": ("StatePool::new_state", [(POP, "            Some(inner) => inner.clone(),\n")]),
 "B4b_new_state_clone_and_push_back": ("StatePool::new_state", [(POP, """            Some(inner) => {
                let keep = Rc::clone(&inner);
                self.storage.free_states.borrow_mut().push(keep);
                inner
            }
""")]),
 "B4c_new_state_push_back_return_clone": ("StatePool::new_state", [(POP, """            Some(inner) => {
                let out = Rc::clone(&inner);
                self.storage.free_states.borrow_mut().push(inner);
                out
            }
""")]),
 "B5_copy_skipped": ("StatePool::copy_state", [(COPY, "")]),
 "B5b_copy_from_itself": ("StatePool::copy_state", [(COPY, "        let fresh = P::new(math);\n        fresh.copy_into(math, new_point);\n")]),
 # ---- further breaking edits
 "B6_copy_state_into_clone": ("StatePool::copy_state", [("        let mut new_state = self.new_state(math);\n", "        let mut new_state = state.clone();\n")]),
 "B7_try_point_mut_unchecked_alias": ("StatePool::copy_state", [("        let mut new_state = self.new_state(math);\n",
                                       "        let mut new_state = self.new_state(math);\n        let _held = new_state.clone();\n        let mut new_state = _held.clone();\n")]),
 "B9_point_of_other": ("State::energy", [("        self.point().energy()\n", "        0.0\n")]),
 "B10_index_plus_one": ("State::index_in_trajectory", [("        self.inner.inner.index_in_trajectory()\n", "        self.inner.inner.index_in_trajectory().wrapping_add(1)\n")]),
 # ---- harmless refactors: must stay GREEN
 "H1_rename_local": (None, [("        let rc = unsafe", "        let handle = unsafe"), ("Rc::strong_count(&rc)", "Rc::strong_count(&handle)"),
                            ("Rc::weak_count(&rc)", "Rc::weak_count(&handle)"), ("= rc.reuser.upgrade()", "= handle.reuser.upgrade()"),
                            (".push(rc);", ".push(handle);")]),
 "H2_swap_count_tests": (None, [("        if (Rc::strong_count(&rc) == 1)\n            && (Rc::weak_count(&rc) == 0)\n",
                                 "        if (Rc::weak_count(&rc) == 0)\n            && (Rc::strong_count(&rc) == 1)\n")]),
 "H3_nested_ifs": (None, [(COUNTS, """        if Rc::strong_count(&rc) == 1 {
            if Rc::weak_count(&rc) == 0 {
                if let Some(storage) = rc.reuser.upgrade() {
                    storage.free_states.borrow_mut().push(rc);
                }
            }
        }
""")]),
 "H4_rename_new_state_local": (None, [("        let inner = match self.storage", "        let alloc = match self.storage"),
                                      ("            inner: std::mem::ManuallyDrop::new(inner),\n        }\n    }\n\n    pub fn copy_state",
                                       "            inner: std::mem::ManuallyDrop::new(alloc),\n        }\n    }\n\n    pub fn copy_state")]),
 "H5_clone_via_rc_clone": (None, [("            inner: self.inner.clone(),\n", "            inner: std::mem::ManuallyDrop::new(Rc::clone(&self.inner)),\n")]),
 "H6_hoist_source_point": (None, [("        let mut new_state = self.new_state(math);\n", "        let src = state.point();\n        let mut new_state = self.new_state(math);\n"),
                                  (COPY, "        src.copy_into(math, new_point);\n")]),
 "H7_let_chain_let_first": (None, [(COUNTS, """        if let Some(storage) = rc.reuser.upgrade()
            && (Rc::strong_count(&rc) == 1)
            && (Rc::weak_count(&rc) == 0)
        {
            storage.free_states.borrow_mut().push(rc);
        }
""")]),
}
args = sys.argv[1:]
which = [a for a in args if a != "vacuity"] or ([] if args == ["vacuity"] else list(EDITS))
bad = 0
# side condition of A-cell-inv: the free list is touched at exactly three places of the crate
hits = subprocess.run(["grep", "-rn", "free_states", os.path.join(WT, "src")], capture_output=True, text=True).stdout.strip().split("\n")
print("A-cell-inv side condition: `free_states` occurs %d times (expected 4: the field, RefCell::new, pop, push)" % len(hits))
if len(hits) != 4 or any("src/dynamics/state.rs" not in h for h in hits):
    bad += 1
    print("   UNEXPECTED:", hits)
for name in which:
    exp, edits = EDITS[name]
    subprocess.run(["git", "-C", WT, "checkout", "-q", "--", F], check=True)
    p = os.path.join(WT, F)
    s = open(p).read()
    ok = True
    for old, new in edits:
        if s.count(old) != 1:
            print("%-38s EDIT DOES NOT APPLY (%d matches): %s" % (name, s.count(old), old[:50])); ok = False; break
        s = s.replace(old, new)
    if not ok:
        bad += 1
        continue
    open(p, "w").write(s)
    try:
        g = core.build("statepool", "I", repo=WT, tag="_val")
    except core.UnitError as e:
        print("%-38s UNDECIDED (unit error) %s" % (name, str(e)[:300])); bad += 1; continue
    r = core.run_verus(g.path)
    if r.fatal:
        print("%-38s UNDECIDED (verus front end) %s" % (name, r.fatal[:700].replace("\n", " | "))); bad += (0 if exp == "UNDECIDED" else 1); continue
    fails = core.attribute(g, r)
    res = sorted({(f["name"], f["kind"], f["message"][:60], str(f.get("src")), str(f.get("clause_tags"))) for f in fails})
    names = {f["name"] for f in fails}
    verdict = "GREEN" if not res else "FAIL"
    good = (exp is None and not res) or (exp is not None and exp in names and all(f["kind"] == "definite" for f in fails if f["name"] == exp))
    if not good:
        bad += 1
    print("%-38s %-5s verified=%s  expected=%s  %s" % (name, verdict, r.summary.get("verified"), exp or "GREEN", "ok" if good else "** UNEXPECTED **"))
    for x in res:
        print("      ", x)
subprocess.run(["git", "-C", "/repo", "worktree", "remove", "--force", WT])
try:
    os.remove(os.path.join(core.BUILD, "statepool_I_val.rs"))
except OSError:
    pass
if not args or "vacuity" in args:
    core.REPO = "/repo"
    from vx import judge
    g = core.build("statepool", "I", repo="/repo", tag="_vacbase")
    os.remove(g.path)
    keys = [f["key"] for f in g.fns if f["has_contract"] and f["has_body"]]
    for i, k in enumerate(keys):
        key, rejected, detail = judge.vacuity_one("statepool", "I", k, i)
        print("vacuity %-32s %s" % (key, detail))
        if rejected is not True:
            bad += 1
print("RESULT:", "all as expected" if bad == 0 else "%d unexpected" % bad)
sys.exit(1 if bad else 0)
