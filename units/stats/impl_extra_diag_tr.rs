    open spec fn tid(&self) -> int { self.id as int }
    open spec fn nso_post(&self, current: i64, r: i64) -> bool { r == self.id }
