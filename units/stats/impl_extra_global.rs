    open spec fn stats_pre(&self, dim: nat, opt: Self::StatsOptions) -> bool {
        strat_wf(self.step_size) && self.mass_matrix_adapt.stats_pre(dim, opt.mass_matrix)
    }
    open spec fn stats_post(&self, dim: nat, opt: Self::StatsOptions, r: Self::Stats) -> bool {
        &&& r.tuning == self.tuning
        &&& strategy_stats_post(self.step_size, r.step_size)
        &&& self.mass_matrix_adapt.stats_post(dim, opt.mass_matrix, r.mass_matrix)
    }
