    open spec fn stats_pre(&self, dim: nat, opt: Self::StatsOptions) -> bool { self.transformation.stats_pre(dim, opt) }
    open spec fn stats_post(&self, dim: nat, opt: Self::StatsOptions, r: Self::Stats) -> bool {
        r.step_size == self.step_size && self.transformation.stats_post(dim, opt, r.transformation)
    }
