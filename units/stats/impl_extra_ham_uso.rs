    open spec fn uso_post(&self, post: &Self, current: <Self as SamplerStats<M>>::StatsOptions, r: <Self as SamplerStats<M>>::StatsOptions) -> bool {
        self.transformation.nso_post(current, r) && *post == *self
    }
