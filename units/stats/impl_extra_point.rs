    open spec fn pview(&self) -> StateView { tp_view(*self) }
