    open spec fn stats_pre(&self, dim: nat, opt: Self::StatsOptions) -> bool { true }
    open spec fn stats_post(&self, dim: nat, opt: Self::StatsOptions, r: Self::Stats) -> bool { point_stats_post(*self, dim, opt, r) }
