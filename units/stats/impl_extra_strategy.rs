    open spec fn stats_pre(&self, dim: nat, opt: Self::StatsOptions) -> bool { strat_wf(*self) }
    open spec fn stats_post(&self, dim: nat, opt: Self::StatsOptions, r: Self::Stats) -> bool { strategy_stats_post(*self, r) }
