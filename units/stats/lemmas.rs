//@include ../_shared/stepsize_spec.rs

// =====================================================================================
// Specification vocabulary for per-draw statistics, written from the statements of C16 and C03
// =====================================================================================

/// an optional vector statistic copied from an optional boxed slice: present iff the source is, same length
pub open spec fn opt_vec_of(src: Option<Box<[F]>>, q: Option<Vec<F>>) -> bool {
    (q is Some == src is Some) && (q is Some ==> q->0@.len() == src->0@.len())
}

// ---- C16.1: divergence statistics ---------------------------------------------------------------
/// a `divergence_*` vector field: present ONLY on a divergent draw, only with store_divergences, and only if the
/// divergence info carries that vector -- and then always
pub open spec fn div_vec_field(info: Option<&DivergenceInfo>, store: bool, src: Option<Box<[F]>>, field: Option<Vec<F>>) -> bool {
    &&& (field is Some == (info is Some && store && src is Some))
    &&& (field is Some ==> field->0@.len() == src->0@.len())
}
/// [C16.1] from the property text: divergence fields appear exactly on divergent draws; the identifying fields of the
/// event (divergence_draw, divergence_message) are present on every such draw
pub open spec fn div_stats_post(info: Option<&DivergenceInfo>, opts: DivergenceStatsOptions, draw: u64, r: DivergenceStats) -> bool {
    &&& r.diverging == info is Some
    // identifying fields: present IFF the draw is divergent; the draw field carries the draw counter handed in
    &&& r.divergence_draw == (if info is Some { Some(draw) } else { None::<u64> })
    &&& (r.divergence_message is Some == info is Some)
    // every other field of the event: only on divergent draws
    &&& div_vec_field(info, opts.store_divergences, if info is Some { info->0.start_location } else { None }, r.divergence_start)
    &&& div_vec_field(info, opts.store_divergences, if info is Some { info->0.start_gradient } else { None }, r.divergence_start_gradient)
    &&& div_vec_field(info, opts.store_divergences, if info is Some { info->0.end_location } else { None }, r.divergence_end)
    &&& div_vec_field(info, opts.store_divergences, if info is Some { info->0.start_momentum } else { None }, r.divergence_momentum)
    &&& r.divergence_energy_error == (if info is Some { info->0.energy_error } else { None::<F> })
}
/// the event dimension "divergence" as the Storable contract words it: no field of the event is present on a
/// non-divergent draw, and the identifying fields are present on every divergent one
pub open spec fn div_event_consistent(r: DivergenceStats) -> bool {
    &&& (r.divergence_draw is Some == r.diverging)
    &&& (r.divergence_message is Some == r.diverging)
    &&& (r.divergence_start is Some ==> r.diverging)
    &&& (r.divergence_start_gradient is Some ==> r.diverging)
    &&& (r.divergence_end is Some ==> r.diverging)
    &&& (r.divergence_momentum is Some ==> r.diverging)
    &&& (r.divergence_energy_error is Some ==> r.diverging)
}
// [C16.1]
pub proof fn lemma_div_event(info: Option<&DivergenceInfo>, opts: DivergenceStatsOptions, draw: u64, r: DivergenceStats)
    requires div_stats_post(info, opts, draw, r)
    ensures div_event_consistent(r)
{
}

// ---- C16.1: transformation-update event -------------------------------------------------------------
/// a vector field of the transformation_update event: only on an update draw, only with store_mass_matrix, length dim
pub open spec fn upd_vec_field(update: bool, store: bool, dim: nat, content: Seq<real>, field: Option<Vec<F>>) -> bool {
    &&& (field is Some == (update && store))
    &&& (field is Some ==> field->0@.len() == dim && fvals(field->0@) == content)
}
/// [C16.1] diagonal mass matrix: transformation_update_id == Some(id) iff id != last_id; the other fields only then
pub open spec fn diag_stats_post<M: Math>(m: DiagMassMatrix<M>, dim: nat, last_id: i64, r: DiagMassMatrixStats) -> bool {
    let update = m.id != last_id;
    &&& r.transformation_update_id == (if update { Some(m.id) } else { None::<i64> })
    &&& upd_vec_field(update, m.store_mass_matrix, dim, M::vv(&m.stds), r.mass_matrix_inv)
    &&& upd_vec_field(update, m.store_mass_matrix, dim, M::vv(&m.mean), r.transformation_mu)
}
/// what two consecutive extractions see of a transformation: its id at the first and at the second extraction
/// [C16.1] the NEXT extraction reports an update exactly when the id changed in between (diagonal)
// [C16.1]
pub proof fn lemma_diag_update_exactly_on_change<M: Math>(m1: DiagMassMatrix<M>, m2: DiagMassMatrix<M>, dim: nat,
    opt1: i64, s1: DiagMassMatrixStats, opt2: i64, s2: DiagMassMatrixStats)
    requires
        m1.stats_post(dim, opt1, s1),           // extraction after draw k
        m1.nso_post(opt1, opt2),                // next_stats_options right after it
        m2.stats_post(dim, opt2, s2),           // extraction after draw k+1
    ensures
        s2.transformation_update_id is Some == (m2.id != m1.id),
        s2.transformation_update_id is Some ==> s2.transformation_update_id == Some(m2.id),
        // the other fields of the event only on such draws
        s2.mass_matrix_inv is Some ==> s2.transformation_update_id is Some,
        s2.transformation_mu is Some ==> s2.transformation_update_id is Some,
{
}
/// [C16.1] the same through the Hamiltonian: `update_stats_options` hands the transformation's rule through and
/// `extract_stats` the transformation's statistics
// [C16.1]
pub proof fn lemma_ham_update_exactly_on_change<M: Math>(h1: TransformedHamiltonian<M, DiagMassMatrix<M>>, h1b: TransformedHamiltonian<M, DiagMassMatrix<M>>,
    h2: TransformedHamiltonian<M, DiagMassMatrix<M>>, dim: nat,
    opt1: i64, s1: HamiltonianStats<StatsDims, DiagMassMatrixStats>, opt2: i64, s2: HamiltonianStats<StatsDims, DiagMassMatrixStats>)
    requires
        h1.stats_post(dim, opt1, s1),
        h1.uso_post(&h1b, opt1, opt2),
        h2.stats_post(dim, opt2, s2),
    ensures
        h1b == h1,
        s2.transformation.transformation_update_id is Some == (h2.transformation.id != h1.transformation.id),
        s2.transformation.transformation_update_id is Some ==> s2.transformation.transformation_update_id == Some(h2.transformation.id),
{
}

// ---- C16.1 / C03.5: point statistics ---------------------------------------------------------------------
/// view of the EXTRACTED struct TransformedPoint, field by field (same text as units leapfrog / mclmc)
pub open spec fn tp_view<M: Math>(p: TransformedPoint<M>) -> StateView {
    StateView {
        idx: p.index_in_trajectory as int,
        energy: p.kinetic_energy.r() - (p.logp.r() + p.logdet.r()),
        e0: p.initial_energy.r(),
        x: M::vv(&p.untransformed_position), g: M::vv(&p.untransformed_gradient),
        q: M::vv(&p.transformed_position), gq: M::vv(&p.transformed_gradient),
        v: M::vv(&p.velocity), logp: p.logp.r(),
    }
}
/// an optional per-draw vector: present IFF its store_* flag is set, with length dim and the content of the point's vector
pub open spec fn flag_vec_field(flag: bool, dim: nat, content: Seq<real>, field: Option<Vec<F>>) -> bool {
    &&& (field is Some == flag)
    &&& (field is Some ==> field->0@.len() == dim && fvals(field->0@) == content)
}
/// [C16.1 C03.5] statistics of a point: scalars are those of the point, optional vectors follow their flags
pub open spec fn point_stats_post<M: Math>(p: TransformedPoint<M>, dim: nat, opt: TransformedPointStatsOptions, r: PointStats) -> bool {
    let v = tp_view(p);
    &&& r.index_in_trajectory as int == v.idx          // [C03.5]
    &&& r.logp.r() == v.logp                           // [C03.5]
    &&& r.energy.r() == v.energy                       // [C03.5]
    &&& r.energy_error.r() == v.energy - v.e0          // [C03.5]
    &&& r.transformation_index == p.transform_id
    &&& flag_vec_field(opt.store_unconstrained, dim, v.x, r.unconstrained_draw)     // [C16.1 C03.5]
    &&& flag_vec_field(opt.store_gradient, dim, v.g, r.gradient)                    // [C16.1 C03.5]
    &&& flag_vec_field(opt.store_transformed, dim, v.q, r.transformed_position)     // [C16.1]
    &&& flag_vec_field(opt.store_transformed, dim, v.gq, r.transformed_gradient)    // [C16.1]
}

// ---- C03.5 / C16: step-size strategy statistics ------------------------------------------------------------
/// the averaged / current step size the strategy reports, per adaptation method
pub open spec fn step_size_bar_of(s: Strategy) -> real {
    match s.adaptation {
        None => match s.options.adapt_options.method { StepSizeAdaptMethod::Fixed(v) => v.r(), _ => 0real },
        Some(Either::Left(d)) => exp_r(d.log_step_adapted.r()),
        Some(Either::Right(a)) => exp_r(a.log_step.r()),
    }
}
pub open spec fn strategy_stats_post(s: Strategy, r: Stats) -> bool {
    &&& r.n_steps == s.last_n_steps                                   // [C03.5] number of leapfrogs of the last trajectory
    &&& r.mean_tree_accept == s.last_mean_tree_accept
    &&& r.mean_tree_accept_sym == s.last_sym_mean_tree_accept
    &&& r.max_energy_error == s.last_max_energy_error
    &&& r.step_size_bar.r() == step_size_bar_of(s)
}
// step_size_bar is strat_base(s, best = true) of _shared/stepsize_spec.rs (the value C06.5 calls the base step size)
// [C06.5]
pub proof fn lemma_step_size_bar_is_base(s: Strategy)
    requires strat_wf(s)
    ensures step_size_bar_of(s) == strat_base(s, true)
{
}
