// Prelude of unit `stats` (model R): everything the extracted `extract_stats` / `From` / `next_stats_options`
// code calls but that is not extracted here.  Every contract below is an ASSUMPTION of this unit (DESIGN §6).
use core::marker::PhantomData;
use core::fmt::Debug;
pub type StepSizeStrategy = Strategy;
pub enum Either<L, R> { Left(L), Right(R) }

//@include ../_shared/state_view.rs
//@include ../_shared/std_extra.rs

// ------------------------------------------------------------------------------------------
// nuts-storable façade.  `#[derive(Storable)]` is dropped by rule R0 (the derive macro is NOT verified:
// names()/item_type()/get_all() agreement is K-schema's job); the marker impls below only make the
// associated-type bounds `type Stats: Storable<StatsDims>` of the extracted trait SamplerStats hold.
// ------------------------------------------------------------------------------------------
pub trait HasDims {}
pub trait Storable<P: HasDims + ?Sized> {}
pub struct StatsDims {}
pub mod nuts_storable { pub use super::{HasDims, Storable}; }
impl HasDims for StatsDims {}
impl Storable<StatsDims> for DivergenceStats {}
impl Storable<StatsDims> for DiagMassMatrixStats {}
impl Storable<StatsDims> for MatrixStats {}
impl Storable<StatsDims> for PointStats {}
impl Storable<StatsDims> for Stats {}
impl<P: HasDims, S: Storable<P>> Storable<P> for HamiltonianStats<P, S> {}
impl<P: HasDims, S: Storable<P>, M: Storable<P>> Storable<P> for GlobalStrategyStats<P, S, M> {}

// ------------------------------------------------------------------------------------------
// trait SamplerStats of src/sampler_stats.rs:37-42, with the per-impl contract hooks `stats_pre` / `stats_post`
// (Verus rejects requires/ensures on trait-impl methods; the extracted impls supply the hooks through impl_extra_*.rs).
// Not extracted because of ONE token: the bound `type StatsOptions: Copy + Send + Sync` -- Verus's trait-conflict
// checker does not know `(): Copy` ("the trait bound `(): T_Copy` is not satisfied" for `type StatsOptions = ()` of the
// step-size Strategy).  `Copy` is dropped here; nothing in this unit copies an options value.
// ------------------------------------------------------------------------------------------
pub trait SamplerStats<M: Math> {
    type Stats: Storable<StatsDims>;
    type StatsOptions: Send + Sync;
    spec fn stats_pre(&self, dim: nat, opt: Self::StatsOptions) -> bool;
    spec fn stats_post(&self, dim: nat, opt: Self::StatsOptions, r: Self::Stats) -> bool;
    fn extract_stats(&self, math: &mut M, opt: Self::StatsOptions) -> (r: Self::Stats)
        requires self.stats_pre(old(math).dim_spec(), opt)
        ensures final(math).dim_spec() == old(math).dim_spec(), self.stats_post(old(math).dim_spec(), opt, r);
}

// ------------------------------------------------------------------------------------------
// Math façade (A-math): vectors are sequences of reals (`vv`), `box_array` copies one out
// ------------------------------------------------------------------------------------------
/// the real values of a slice of floats
pub open spec fn fvals(s: Seq<F>) -> Seq<real> { Seq::new(s.len(), |i: int| s[i].r()) }

pub trait Math: Sized {
    type Vector;
    type EigVectors;
    type EigValues;
    spec fn dim_spec(&self) -> nat;
    /// content of a vector
    spec fn vv(v: &Self::Vector) -> Seq<real>;
    fn dim(&self) -> (r: usize) ensures r as nat == self.dim_spec();
    /// A-math (box_array): in /repo a default method of trait Math: `vec![0f64; self.dim()]`, filled by
    /// `write_to_slice(array, ..)`, `.into()` -- a boxed slice of length dim holding the values of `array`
    fn box_array(&mut self, array: &Self::Vector) -> (r: Box<[F]>)
        ensures final(self).dim_spec() == old(self).dim_spec(),
                r@.len() == old(self).dim_spec(),
                fvals(r@) == Self::vv(array);
    fn sq_norm_sum(&mut self, x: &Self::Vector, y: &Self::Vector) -> (r: F)
        ensures final(self).dim_spec() == old(self).dim_spec();
}

// ------------------------------------------------------------------------------------------
// std façade
// ------------------------------------------------------------------------------------------
/// R12.typemap: `Arc<dyn std::error::Error + Send + Sync>` (Verus: "dyn with more that one trait" unsupported)
#[verifier::external_body]
pub struct ArcDynError { _x: u8 }
impl ArcDynError {
    /// Display of the wrapped error: message text not modelled (rule R5)
    #[verifier::external_body]
    pub fn to_string(&self) -> (r: String) { unimplemented!() }
}
/// R5: `format!(..)` -> `opaque_string()`
#[verifier::external_body]
pub fn opaque_string() -> (r: String) { unimplemented!() }

/// `[T]::to_vec`: a vector of the same length (element values: clones, not modelled)
pub assume_specification<T: Clone>[<[T]>::to_vec](s: &[T]) -> (r: Vec<T>)
    ensures r@.len() == s@.len();

/// R9.method `as_ref` -> `vx_as_ref`: Verus cannot name std's `impl AsRef<T> for Box<T, A>` (allocator_api is
/// unstable); the two receivers the unit uses are `Option<T>` (verified against vstd's Option::as_ref) and
/// `Box<[T]>` (a plain deref)
pub trait VxAsRefOpt<T> {
    fn vx_as_ref(&self) -> (r: Option<&T>);
}
impl<T> VxAsRefOpt<T> for Option<T> {
    fn vx_as_ref(&self) -> (r: Option<&T>)
        ensures r is Some == self is Some, r is Some ==> *r->0 == self->0
    { self.as_ref() }
}
pub trait VxAsRefBox<T: ?Sized> {
    fn vx_as_ref(&self) -> (r: &T);
}
impl<T> VxAsRefBox<[T]> for Box<[T]> {
    fn vx_as_ref(&self) -> (r: &[T])
        ensures r@ == self@
    { &**self }
}
/// R9.method `into_vec` -> `vx_into_vec` (`<[T]>::into_vec(self: Box<[T], A>)`, allocator_api): same elements
pub trait VxIntoVec<T> {
    fn vx_into_vec(self) -> (r: Vec<T>);
}
impl<T> VxIntoVec<T> for Box<[T]> {
    #[verifier::external_body]
    fn vx_into_vec(self) -> (r: Vec<T>)
        ensures r@ == self@
    { unimplemented!() }
}
// ------------------------------------------------------------------------------------------
// dynamics façade
// ------------------------------------------------------------------------------------------
/// trait Point of src/dynamics/hamiltonian.rs:127-142, the members the statistics read, each with the contract text
/// of unit `leapfrog` (which EXTRACTS this trait and verifies the default body of `energy_error` from the real text;
/// here the default body is a re-statement of hamiltonian.rs:134-136, checked against the same contract).
/// Kept in the prelude so that a failing impl method is reported under the impl's own obligation name.
/// (No `SamplerStats<M>` supertrait here: `TransformedPoint::extract_stats` calls Point methods, and Verus rejects the
/// resulting cycle between the two trait impls.)
pub trait Point<M: Math>: Sized {
    spec fn pview(&self) -> StateView;
    fn index_in_trajectory(&self) -> (r: i64) ensures r as int == self.pview().idx;
    fn energy(&self) -> (r: F) ensures r.r() == self.pview().energy;
    fn logp(&self) -> (r: F) ensures r.r() == self.pview().logp;
    fn energy_error(&self) -> (r: F)
        ensures r.r() == self.pview().energy - self.pview().e0
    {
        self.energy() - self.initial_energy()
    }
    fn initial_energy(&self) -> (r: F) ensures r.r() == self.pview().e0;
}
#[verifier::external_body]
#[verifier::reject_recursive_types(M)]
#[verifier::reject_recursive_types(P)]
pub struct StatePool<M: Math, P: Point<M>> { _m: PhantomData<M>, _p: PhantomData<P> }

/// Transformation, as far as statistics are concerned: a version counter and the rule that yields the options
/// for the next extraction.  (In /repo `next_stats_options` has a default body `current`; the two mass-matrix
/// impls override it -- the extracted impls supply `nso_post`.)
pub trait Transformation<M: Math>: SamplerStats<M> + Sized {
    spec fn tid(&self) -> int;
    spec fn nso_post(&self, current: <Self as SamplerStats<M>>::StatsOptions, r: <Self as SamplerStats<M>>::StatsOptions) -> bool;
    fn transformation_id(&self, math: &mut M) -> (r: i64)
        ensures final(math).dim_spec() == old(math).dim_spec(), r as int == self.tid();
    fn next_stats_options(&self, _math: &mut M, current: <Self as SamplerStats<M>>::StatsOptions) -> (r: <Self as SamplerStats<M>>::StatsOptions)
        ensures final(_math).dim_spec() == old(_math).dim_spec(), self.nso_post(current, r);
}
/// Hamiltonian, as far as statistics are concerned
pub trait Hamiltonian<M: Math>: SamplerStats<M> + Sized {
    type Point: Point<M>;
    spec fn uso_post(&self, post: &Self, current: <Self as SamplerStats<M>>::StatsOptions, r: <Self as SamplerStats<M>>::StatsOptions) -> bool;
    fn update_stats_options(&mut self, math: &mut M, current: <Self as SamplerStats<M>>::StatsOptions) -> (r: <Self as SamplerStats<M>>::StatsOptions)
        ensures final(math).dim_spec() == old(math).dim_spec(), old(self).uso_post(final(self), current, r);
}
/// mass-matrix estimator: only its statistics matter here
pub trait MassMatrixAdaptStrategy<M: Math>: SamplerStats<M> + Sized {
    type Options: Debug + Default + Copy;
}

/// NOT VERIFIED (reported as undecided): `impl SamplerStats<M> for LowRankMassMatrix<M>` of low_rank.rs:224-272.
/// Its body passes a closure that captures `&mut math` to `Option::map` ("Verus does not currently support closures
/// capturing a mutable reference"), and no rule of DESIGN 2.2 removes that.  The impl below only satisfies the
/// supertrait bound of `Transformation`; its precondition is `false`, so nothing in this unit can rely on it.
impl<M: Math> SamplerStats<M> for LowRankMassMatrix<M> {
    type Stats = MatrixStats;
    type StatsOptions = i64;
    open spec fn stats_pre(&self, dim: nat, opt: i64) -> bool { false }
    open spec fn stats_post(&self, dim: nat, opt: i64, r: MatrixStats) -> bool { true }
    #[verifier::external_body]
    fn extract_stats(&self, math: &mut M, last_id: i64) -> (r: MatrixStats) { unimplemented!() }
}
