    // ghost items spliced into `trait Point<M>` (rule R1)
    spec fn pview(&self) -> StateView;
