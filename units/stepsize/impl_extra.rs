    // ghost items spliced into `impl Collector<M, P> for AcceptanceRateCollector` (rule R1: contracts)
    open spec fn register_leapfrog_pre(&self) -> bool { arc_leapfrog_pre(*self) }
    open spec fn register_leapfrog_post(&self, post: &Self, start: StateView, end: StateView, diverged: bool) -> bool {
        arc_leapfrog_post(*self, *post, end.energy, diverged)
    }
    open spec fn register_init_post(&self, post: &Self, state: StateView) -> bool { arc_init_post(*post, state.energy) }
